package rules

import "verif/sa/core"

// scope helpers ---------------------------------------------------------------

// parseScope: everything reachable from the parser's API and its goroutine
// roots (the lexer calls into printer and ast).
func (c *Ctx) parseScope() (scope, fatal map[*core.Func]bool) {
	cg := c.P.CG()
	var roots []*core.Func
	roots = append(roots, c.roots("parser.ParseCommands", "parser.ParseCommand")...)
	fatalRoots := []*core.Func{}
	for _, g := range c.goRoots() {
		if g.Target.Pkg.Name == "parser" {
			fatalRoots = append(fatalRoots, g.Target)
		}
	}
	scope = cg.Reachable(append(roots, fatalRoots...)...)
	fatal = cg.Reachable(fatalRoots...)
	return
}

// downstreamScope: everything reachable from the exported entry points of
// printer, ast, interp and pattern.
func (c *Ctx) downstreamScope() map[*core.Func]bool {
	cg := c.P.CG()
	roots := c.roots("printer.Fprint", "printer.(*Config).Fprint",
		"interp.(*ExecEnv).Expand", "interp.(*ExecEnv).Eval", "interp.(*ExecEnv).Get", "interp.(*ExecEnv).Set",
		"interp.(*ExecEnv).Unset", "interp.(*ExecEnv).Walk", "interp.NewExecEnv", "interp.Option.String",
		"interp.ArithExprError.Error", "interp.ParamExpError.Error",
		"pattern.Match", "pattern.Glob")
	roots = append(roots, c.methodsNamed("ast", "Pos", "End")...)
	for _, g := range c.goRoots() {
		if g.Target.Pkg.Name == "interp" {
			roots = append(roots, g.Target)
		}
	}
	return cg.Reachable(roots...)
}

func (c *Ctx) scopeOf(names ...string) map[*core.Func]bool {
	return c.P.CG().Reachable(c.roots(names...)...)
}

func pf1Rule(doc string, floor int, scope func(c *Ctx) (map[*core.Func]bool, map[*core.Func]bool)) Rule {
	return Rule{ID: "PF1", Kind: "must-not", Floor: floor, Doc: doc, Run: func(c *Ctx, rr *core.RuleResult) {
		s, fatal := scope(c)
		runPF1(c, rr, s, fatal)
	}}
}

// Props returns the property table.
func Props(c *Ctx) map[string]*Prop {
	m := map[string]*Prop{}
	add := func(p *Prop) { m[p.ID] = p }

	add(&Prop{ID: "C01",
		Explanation: "Decides the crash and hang side conditions of totality for every path of the current source. Crash: every index, slice, type-assertion and division site reachable from ParseCommand(s) and from the lexer goroutines is proved safe by a forward difference-constraint analysis over go/cfg, by a named invariant whose producer rule runs in this same check (GR3 grammar shapes, PU8 printer stack, PF2 quote shape, LAST1), or by a listed reasoned exception (PF1); bail-out panics are typed and not re-panicked for either panicnil setting (PF4); sealed type switches are exhaustive (PF3). Hang: goroutine roots always close their channels (CC1); sends can always be abandoned and the here-document hand-off cannot deadlock (CC4, CC6, GR4); every scanner cycle passes a successful read, a pushed alias or a popped here-document (RC2); an alias is pushed only after a membership test (RC3); the token channel is unbuffered, which the hand-off argument needs (CC9); a nested lexer reads the very stream of its creator, alias text included (NL1). It does not decide wall-clock bounds or termination of the lexer's state machine as a whole.",
		Assumptions: []string{"the goyacc driver template is trusted as generator output", "analysed build configuration: linux/amd64", "a caller's io.RuneScanner honours its contract: UnreadRune after a successful ReadRune makes the next ReadRune return that rune again (the lexer ignores UnreadRune's error)"},
		Rules: []Rule{ruleCC15("parser", "interp"), ruleCC14("parser"),
			pf1Rule("no index, slice, type-assertion or division site reachable from ParseCommand(s) or a lexer goroutine can panic", 40,
				func(c *Ctx) (map[*core.Func]bool, map[*core.Func]bool) { return c.parseScope() }),
			rulePF2(), rulePF3("parser", "printer", "ast"), rulePF4("parser"), ruleYY1("parser"), ruleLAST1(), ruleCC1("parser"),
			ruleGR1("parser"), ruleGR3(), rulePU8(), rulePU8b(), ruleLV1(), ruleRC2("parser"), ruleRC3(), ruleCC4("parser"), ruleCC6(), ruleGR4(),
			ruleCC7(), ruleCC8("parser"), ruleNL1(), ruleNL2(), ruleCC9("parser"), ruleNG1("parser"),
		}})

	add(&Prop{ID: "C19",
		Explanation: "Decides panic freedom of every exported downstream entry point (Fprint, Pos/End, Expand, Eval, Get/Set/Unset/Walk, Option.String, Match, Glob) for every path of the current source, with the AST shape facts they rely on checked on the producer side.",
		Assumptions: []string{"ExecEnv values are built by NewExecEnv (len(Args) >= 1, non-nil maps)", "Config.Width >= 0", "regexp (RE2) terminates", "analysed build configuration: linux/amd64"},
		Rules: []Rule{ruleCC4("interp"), ruleCC7(), ruleAR6(), ruleLP1(),
			pf1Rule("no index, slice, type-assertion or division site reachable from a downstream entry point can panic", 50,
				func(c *Ctx) (map[*core.Func]bool, map[*core.Func]bool) { return c.downstreamScope(), nil }),
			rulePF2(), rulePF3("printer", "interp", "ast", "pattern"), rulePF4("interp"), rulePF5(), ruleYY1("interp"), ruleEF7(), ruleFLD1(), ruleFLD2(), ruleCC1("interp"),
			ruleGR1("parser", "interp"), ruleGR3(), rulePU8(), rulePU8b(), ruleLV1(), ruleTB2(), ruleSP(), ruleGL(),
		}})
	add(&Prop{ID: "C12",
		Explanation: "Decides the translation-table side of pattern matching: every regular-expression metacharacter (oracle: regexp.QuoteMeta) is escaped or given pattern meaning in each of compile's three contexts, wild cards run in dot-all mode, the alternatives sit in exactly one capture group, anchors follow the mode bits exactly, bracket mode is left only at the closing bracket (BRK1), and no index/slice in Match/compile can panic on any pattern. Which prefix/suffix is selected (shortest/longest) and bracket-expression semantics are value-level and not decided.",
		Assumptions: []string{"RE2 syntax as implemented by package regexp is the oracle for what needs escaping"},
		Rules: []Rule{ruleTB1(), ruleTB2(), ruleBRK1(), ruleSM1(), ruleNG1("pattern"),
			pf1Rule("no index or slice in Match/compile can panic, whatever the pattern", 10,
				func(c *Ctx) (map[*core.Func]bool, map[*core.Func]bool) { return c.scopeOf("pattern.Match"), nil }),
		}})
	add(&Prop{ID: "C16",
		Explanation: "Decides structural necessary conditions of pathname expansion on every path of Glob: directory test before a separator is appended, existence test in the literal arm, sort before return, agreement of the dot-file literal with compile's output and of the three pattern-special character sets, a separator scan that steps over escaped characters (ESC1), no panic. Which names match is value-level and not decided.",
		Assumptions: []string{"os.File.Readdirnames contract (non-empty slice when err == nil)"},
		Rules: []Rule{ruleGL4(), ruleGL(), ruleTB2(), ruleTB4(), ruleESC1(), ruleBRK1(), ruleNG1("pattern"),
			pf1Rule("no index or slice reachable from Glob can panic", 10,
				func(c *Ctx) (map[*core.Func]bool, map[*core.Func]bool) { return c.scopeOf("pattern.Glob"), nil }),
		}})
	add(&Prop{ID: "C11",
		Explanation: "Decides the table side of C arithmetic: operator spellings the tokeniser recognises = the ops table (TB9a); each operator case computes `l S r` on signed 64-bit operands in that order, unary and truth tests as C defines them, constants parsed with base 0 (TB9b); the grammar's levels are C's precedence ladder with C's associativity (GR5) and the compiled tables are the grammar's (GR1, GR2); run-time faults are recovered into ArithExprError (PF5); whether side effects are executed inside reductions that C would skip (AR); and that the evaluation's outcome after a fault does not depend on the schedule: the parser stops consuming tokens (CC13) and the reported error has a deterministic winner (CC11). Numeric results are not computed.",
		Assumptions: []string{"analysed build configuration linux/amd64 (int is 64-bit); the thorough tier re-checks the width under linux/386", "C's operator table (ISO C 6.5) is the external oracle"},
		Rules:       []Rule{ruleNUM1(), ruleLP1(), ruleGR1("interp"), ruleGR2("interp"), ruleGR5(), ruleTB9a("interp", "interp.(*lexer).lexOp", 15), ruleTB9b(), rulePF5(), ruleEF7(), ruleAR(), ruleAR3(), ruleAR6(), ruleRV1(), ruleCC13("interp"), ruleCC11("interp"), ruleCC9("interp"), ruleCC17("interp"), ruleAR5(), ruleNG1("interp"), rulePU4()}})
	add(&Prop{ID: "C06",
		Explanation: "Decides race freedom and goroutine lifetime structurally for every path: goroutine roots always close their channels (CC1); every access to goroutine-touched lexer fields after a spawn is preceded by a join on all paths (CC2); every field shared between the lexer-role and parser-role functions with a write is accessed only under the mutex, atomically or as a channel operation (CC3); sends can always be abandoned, the cancel channel is closed at most once, atomics are used consistently (CC4/CC5); the here-document hand-off cannot deadlock (CC6, GR4, with the token channel a rendezvous, CC9); cancellation is observed only at the token hand-over, never polled (CC10); the error slot has a deterministic winner (CC11), a lexer that failed by itself offers no further token (CC12) and a parser that fails inside a reduction stops consuming (CC13); the bail-out does not kill the process (PF4). Which of two concurrently raised errors is returned is a schedule-dependent value and is not decided.",
		Assumptions: []string{"the Go memory model: lock, atomic, channel and go/join edges order accesses", "roles are computed on an over-approximating call graph (reference based + CHA for interface calls)"},
		Rules: []Rule{ruleCC16(), rulePU3(), ruleCC15("parser", "interp"), ruleCC14("parser"), ruleCC1("parser", "interp"), ruleCC2("parser", "interp"), ruleCC3("parser", "interp"), ruleCC4("parser", "interp"), ruleCC6(), ruleGR1("parser"), ruleGR4(), rulePF4("parser", "interp"), ruleCC7(), ruleCC8("parser", "interp"), ruleCC9("parser", "interp"), ruleNG1("parser", "interp"), ruleCC10("parser", "interp"),
			ruleCC11("parser", "interp"), ruleCC12("parser", "interp"), ruleCC13("parser", "interp")}})
	add(&Prop{ID: "C10",
		Explanation: "A complete structural argument that a non-EOF error of the source's ReadRune reaches ParseCommands' caller: the source is read in exactly one function (EF1), which records every such error when the slot is empty (EF1); no store of a syntax error can replace a recorded reader error (EF2); ParseCommands returns that slot after joining the lexer (EF3, CC2); every scanner loop leaves on a failed read instead of spinning (RC2). errors.Is on wrapped errors is not modelled (the slot stores the reader's value itself).",
		Assumptions: []string{"bufio.Reader / strings.Reader return the underlying reader's error unchanged"},
		Rules:       []Rule{ruleRD2(), ruleGT1(), ruleCC11("parser"), ruleEF1(), ruleEF2(), ruleRC2("parser"), ruleCC2("parser"), ruleCC7(), ruleCC8("parser"), ruleEF8(), ruleSRC2()}})
	add(&Prop{ID: "C03",
		Explanation: "Decides only that every syntax error value is located: built with the caller's name and a recorded, non-zero position expression, that Lex records the position of every token it delivers, and that the lexer's error function discards a reported syntax error only when another error is already recorded (ER1). Rejection of ill-formed programs itself (language recognition) is not decidable structurally.",
		Rules:       []Rule{ruleRD2(), ruleQB1(), ruleGT1(), ruleNL1(), ruleNL2(), ruleSIB1(), ruleBQ1(), ruleGR7(), ruleEF6(), ruleER1(), ruleHD7(), ruleLX("HD5"), ruleTK("TK1", "TK2"), ruleEF1()}})
	add(&Prop{ID: "C18",
		Explanation: "Decides purity, determinism and error reporting of the printer structurally: its only AST writes are the hide/undo idiom and every hide is undone by a deferred closure on all paths (PU1); nothing reachable from Fprint is a source of nondeterminism (PU2); all output goes through one buffered writer whose sticky error is returned through print, Config.Fprint and Fprint (EF5); here-document frames are balanced (PU8); the positions it consults are counted in characters (BR1, TB5) and the end of a quote lies beside its last character (PS3), and nothing reachable from Fprint can panic (PF1). That the output is a fix-point of print∘parse is a value-level property and is not decided.",
		Assumptions: []string{"bufio.Writer's sticky-error contract"},
		Rules: []Rule{rulePR4(), rulePS3(), rulePR1(), rulePU1(), rulePU2(), ruleEF5(), rulePU8(), rulePU8b(), ruleLV1(), ruleNG1("printer"), ruleBR1(), ruleTB5(), ruleGR1("parser"), ruleGR3(),
			pf1Rule("no index, slice or type-assertion site reachable from Fprint can panic", 20,
				func(c *Ctx) (map[*core.Func]bool, map[*core.Func]bool) {
					return c.scopeOf("printer.Fprint", "printer.(*Config).Fprint"), nil
				})}})
	add(&Prop{ID: "C20",
		Explanation: "Decides the write discipline of the variable store for every site: who may write vars/Args/Opts/Aliases (PU4), the read-only guard in Set (PU5), the exact set of Set callers and no Unset caller (PU6), no error return after an assignment in expandParam (PU7), no store into the AST by the expander and none into an ExecEnv by the parser (PU3), and agreement of the special-parameter sets (TB8). That Get/Walk behave as a map after arbitrary histories is a value-level property and is not decided.",
		Rules:       []Rule{ruleSP4(), rulePU5b(), rulePU3(), rulePU4(), rulePU6(), rulePU9(), ruleTB8(), ruleGR1("interp"), ruleNG1("interp"), rulePP1(), rulePU10()}})
	add(&Prop{ID: "C05",
		Explanation: "Decides only side conditions of the print/parse round trip: every semantic AST field and every Config field is read by the printer (TB6); pending here-document frames are balanced on every path under every combination of the style bits that guard them (PU8); the operator sets of scanner and expander/printer agree (TB10); nil-encoded fields are tested against nil (TB13); the positions the printer consults to space arithmetic tokens are counted in characters and End() adds the width of the stored token (BR1, TB5, PS3), and adjacency of two tokens is decided from line and column together (PS1); nothing reachable from Fprint can panic (PF1). Whether printed text re-parses to the same tree is not decidable structurally and is not claimed.",
		Rules: []Rule{rulePR2(), rulePR3(), rulePR4(), rulePS3(), rulePR1(), rulePS2(), ruleTB6(), rulePU8(), rulePU8b(), ruleLV1(), ruleTB10(), ruleTB13(), rulePF3("printer"), ruleBR1(), ruleTB5(), rulePS1("printer", "parser"), ruleGR1("parser"), ruleGR3(),
			pf1Rule("no index, slice or type-assertion site reachable from Fprint can panic", 20,
				func(c *Ctx) (map[*core.Func]bool, map[*core.Func]bool) {
					return c.scopeOf("printer.Fprint", "printer.(*Config).Fprint"), nil
				}), ruleNG1("printer"), rulePU1()}})
	add(&Prop{ID: "C13",
		Explanation: "Decides the operator × state × nounset × special table of parameter expansion completely: for each of the 624 consistent valuations the outcome of every path of expandParam (value, word expanded, assignment, pattern removal, length, error kind) is extracted from the control-flow graph and compared with POSIX's table, including 'the word is expanded only when it is used' and 'assignment only under = / :=' (DT1); ${#p} counts runes (BR2); operator and special-parameter sets agree across packages (TB8, TB10, TB13); Set discipline (PU6/PU7); no panic (PF1). Field generation for $@ / $*, quoting of results and IFS joins are value-level and not decided.",
		Assumptions: []string{"POSIX XCU 2.6.2 table frozen in the checker as oracle", "go.sh's documented Arith mode passes plain names through"},
		Rules: []Rule{ruleSP5(), ruleBR7(), ruleSP4(), ruleBR5(), ruleQU1c(), ruleQU4(), ruleQU3b(), ruleOP1(), ruleAR6(), ruleDT1(), ruleBR2(), rulePU4(), ruleNG1("interp"), rulePP1(), ruleTB8(), ruleTB10(), ruleTB13(), rulePU6(), ruleFLD1(), ruleFLD2(), rulePF5(), ruleEF7(), ruleYY1("interp"), rulePF2(), ruleTB2(), ruleSP(),
			pf1Rule("no index/slice/assertion in the expansion functions can panic", 20,
				func(c *Ctx) (map[*core.Func]bool, map[*core.Func]bool) {
					return c.scopeOf("interp.(*ExecEnv).Expand"), nil
				}), rulePU10(), ruleQU3(), ruleSM1()}})
	add(&Prop{ID: "C02",
		Explanation: "Decides only side conditions of 'every grammatical program is accepted': the compiled tables and actions are goyacc's output for the checked-in grammar (GR1), which is conflict-free (GR2); every nonterminal carries the dynamic types its consumers assert and the lists they index are non-empty (GR3); lexer tables and grammar agree on the terminal alphabet and every operator is scanned under its own spelling (GR6, TB9a); a reserved word is translated at every dispatch a raw word can reach (RC5); every closer pushed on the nesting stack is matched somewhere (RC6). That the context-driven lexer hands the right token class in every state, and that the grammar is POSIX's, are language-level claims and are not decided.",
		Rules:       []Rule{ruleHD10(), ruleCM6(), ruleQB1(), ruleUR1(), ruleSIB1(), ruleHD9(), ruleBQ1(), ruleCM3(), ruleGR7(), ruleGR1("parser"), ruleGR2("parser"), ruleGR3(), ruleGR6(), ruleTB9a("parser", "parser.(*lexer).scanOp", 8), ruleRC5(), ruleRC6(), ruleRC7(), ruleTK("TK1", "TK2"), ruleHD()}})
	add(&Prop{ID: "C04",
		Explanation: "Decides that columns are counted in characters at every site that manufactures a position (taint from byte lengths/offsets to NewPos, shift and the cursor, BR1) and that End() adds the width of the token actually stored in the field (TB5). That each fixed offset equals the number of characters read since the documented character, containment and ordering of positions are value-level and not decided.",
		Assumptions: []string{"operator and reserved-word spellings are ASCII (checked against the tables)", "Comment.End is excluded by the property's text"},
		Rules:       []Rule{rulePS3(), ruleBR6(), ruleUR1(), ruleNL2(), ruleLB3(), ruleESC3(), ruleESC2(), rulePS2(), ruleBR1(), ruleTB5(), ruleGR1("parser"), ruleLX("PO1"), ruleRD1(), ruleSRC2(), ruleCM3(), ruleMK1(), ruleLBK()}})
	add(&Prop{ID: "C07",
		Explanation: "Decides a necessary condition of 'one call, one command': the newline that ends a command is never consumed silently — the newline-swallowing scanner is called only at grammar linebreak positions and never from the raw token scanner (RC4); and the reader is only touched by read/unread so look-ahead is undone through one place (EF1). Where exactly a command ends is language-level and not decided.",
		Rules:       []Rule{ruleQU(), ruleCM7(), ruleHD10(), rulePU3(), ruleCM3(), ruleTL1(), ruleLBK(), ruleHD9(), rulePS2(), ruleRC4(), ruleRC7(), ruleEF1(), ruleCC2("parser"), ruleHD(), ruleLX("HD1b"), ruleTK("SRC1"), ruleSRC2(), ruleNG1("parser")}})
	add(&Prop{ID: "C08",
		Explanation: "Decides the structure of here-document handling: announce/push/pop protocol and FIFO order (CC6), no look-ahead needed to push (GR4 with GR1), operator-dependent delimiter search, literal body iff the delimiter of that very here-document was quoted, delimiter only at column 1 (HD), every state that emits a redirection operator counts an announced here-document (HD6), no panic in the body reader (PF1). Byte-exact bodies and delimiter matching after quote removal are value-level and not decided.",
		Rules: []Rule{ruleHD11(), ruleHD10(), ruleESC3(), ruleESC2(), ruleCC14("parser"), ruleHD9(), rulePS2(), ruleCC6(), ruleGR1("parser"), ruleGR4(), ruleHD(), ruleHD6(), ruleHD7(), ruleLBK(), ruleSRC2(), ruleLX("HD1b", "HD5"),
			pf1Rule("no index/slice/assertion in the here-document reader can panic", 3,
				func(c *Ctx) (map[*core.Func]bool, map[*core.Func]bool) {
					s := map[*core.Func]bool{}
					names := []string{"parser.(*lexer).lexHeredoc", "parser.(*heredoc).pop", "parser.(*heredoc).push", "parser.(*heredoc).inc", "parser.(*heredoc).exists", "parser.(*lexer).scanRedir"}
					if r := c.heredocReader(nil); r != nil {
						names = append(names, r.Name)
					}
					for _, n := range names {
						if f := c.fn(n); f != nil {
							// the function and the private helpers its code may have been moved into
							for _, g := range c.region(f) {
								s[g] = true
								for _, l := range g.Lits {
									s[l] = true
								}
							}
						}
					}
					return s, s
				}), ruleCM3()}})
	add(&Prop{ID: "C09",
		Explanation: "Decides only three side conditions of layout inertness: a comment can never make the lexer swallow the newline token (RC4) and comments inside substitutions are merged into the result on every successful path (CM1, reported by RC6); in a for header the lexer skips the linebreak after each separator before it looks for `do` (LB1). The metamorphic equalities themselves are not decidable structurally.",
		Rules:       []Rule{ruleCM7(), ruleUR1(), ruleW1(), ruleLB3(), ruleTL1(), ruleHD9(), ruleRC4(), ruleRC6(), ruleLB1(), ruleLBK(), ruleLX("CM2"), ruleCM3(), ruleTK("TK2")}})
	add(&Prop{ID: "C14",
		Explanation: "Decides side conditions of field splitting: quoted segments bypass the cutter, are joined as quoted and keep a field alive (SP1), unset IFS means space-tab-newline (SP2), cut offsets advance by the rune's encoded width (BR3), the two parallel slices of a field stay in step (FLD2), no panic in split (PF1). The cutter's state machine itself is value-level and not decided.",
		Rules: []Rule{ruleSP5(), ruleBR7(), ruleBR5(), ruleQU1c(), ruleQU3b(), ruleFE1(), ruleSP(), ruleFLD2(), rulePU4(), ruleNG1("interp"),
			pf1Rule("no index/slice in split can panic", 3,
				func(c *Ctx) (map[*core.Func]bool, map[*core.Func]bool) {
					return c.scopeOf("interp.(*ExecEnv).split"), nil
				}), ruleBR4(), ruleQU3()}})
	add(&Prop{ID: "C15",
		Explanation: "Decides structural necessary conditions of 'quoted text is literal': quoted parts are joined as quoted and expanded in Quote mode, tilde only on unquoted literals (QU1); single quotes interpret nothing (QU2); the double-quote escape set is POSIX's (TB7); the three pattern-special character sets agree so quoted characters are escaped in Pattern mode, and any pre-test that lets a quoted segment skip the escape searches for the whole set (TB4); the pattern package keeps no state between calls, so what a quoted text matches cannot depend on earlier patterns (NG1); quoted segments are never split (SP1). The end-to-end identity is value-level and not decided.",
		Rules:       []Rule{ruleQB1(), ruleQU1c(), ruleQU4(), ruleW1(), ruleESC3(), ruleESC2(), ruleQU(), ruleTB7(), ruleTB4(), ruleSP(), rulePF2(), ruleNG1("pattern", "interp"), ruleRD1(), ruleSRC2(), ruleESC1(), ruleGL()}})
	add(&Prop{ID: "C17",
		Explanation: "Decides termination and position side conditions of alias substitution: an alias is pushed only after a membership test on the active stack (RC3), only a single unquoted literal can be substituted, assignments are recognised first, and substitution happens only at command-name / alias-continuation positions (AL1); the 'ends in a blank' test uses the scanner's blank set (TB11 in TB7); alias-driven loops are the only non-read-driven cycles (RC2); the nested lexer of a command substitution shares the alias stack, so an alias value containing `$(` is lexed as text of the alias (NL1). Equality with textual replacement is language-level and not decided.",
		Rules:       []Rule{ruleNL3(), ruleCM7(), ruleAL5(), ruleAL4(), ruleRC3(), ruleTB7(), ruleRC2("parser"), ruleLX("AL2", "AL3"), ruleNL1(), ruleNL2(), ruleRC8()}})
	return m
}
