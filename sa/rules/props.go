package rules

import "verif/sa/core"

// Props returns the property table.
func Props(c *Ctx) map[string]*Prop {
	m := map[string]*Prop{}
	add := func(p *Prop) { m[p.ID] = p }
	add(&Prop{ID: "DEV", Explanation: "development: PF1 over everything",
		Rules: []Rule{{ID: "PF1", Kind: "must-not", Doc: "panic obligations", Run: func(c *Ctx, rr *core.RuleResult) {
			scope := map[*core.Func]bool{}
			for _, f := range c.P.Funcs {
				scope[f] = true
			}
			runPF1(c, rr, scope, nil)
		}}}})
	return m
}
