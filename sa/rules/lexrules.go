package rules

import (
	"fmt"
	"go/ast"
	"go/token"
	"go/types"
	"sort"
	"strings"

	"verif/sa/core"
)

func (c *Ctx) callsTo(f *core.Func, target *core.Func) []*ast.CallExpr {
	var out []*ast.CallExpr
	if target == nil {
		return nil
	}
	info := f.Info()
	f.OwnNodes(func(n ast.Node) bool {
		if call, ok := n.(*ast.CallExpr); ok {
			if fo := core.StaticCallee(info, call); fo != nil && c.P.FuncOf(fo) == target {
				out = append(out, call)
			}
		}
		return true
	})
	return out
}

// ---------------------------------------------------------------------------
// RC3 + AL1: alias substitution.

func ruleRC3() Rule {
	return Rule{ID: "RC3", Kind: "must", Floor: 4,
		Doc: "an alias is pushed only after a loop over the active alias stack found no entry with the same name (termination for cyclic tables); subst acts only on a single unquoted literal word (AL1a); where a function tests both, isAssign() is tested before subst() (AL1b); subst is called only from the command-position and alias-continuation scanners (AL1c)",
		Run: func(c *Ctx, rr *core.RuleResult) {
			f := c.mustFn(rr, "parser.(*lexer).subst")
			if f == nil {
				return
			}
			info := f.Info()
			aliases := c.fieldVar("parser", "lexer", "aliases")
			var pushes []*ast.AssignStmt
			f.OwnNodes(func(n ast.Node) bool {
				as, ok := n.(*ast.AssignStmt)
				if ok && len(as.Lhs) == 1 && core.FieldOf(info, as.Lhs[0]) == aliases {
					if call, ok := as.Rhs[0].(*ast.CallExpr); ok && isBuiltinCall(info, call, "append") {
						pushes = append(pushes, as)
					}
				}
				return true
			})
			if len(pushes) == 0 {
				rr.Unk(f, f.Name+"|push", f.Pos(), "subst never appends to the alias stack")
			}
			for _, as := range pushes {
				key := f.Name + "|push guarded by membership loop"
				blk, _ := c.P.Parent(as).(*ast.BlockStmt)
				ok := false
				if blk != nil {
					idx := stmtIndex(c.P, blk.List, as)
					for _, s := range blk.List[:idx] {
						rs, isRange := s.(*ast.RangeStmt)
						if !isRange || core.FieldOf(info, rs.X) != aliases {
							continue
						}
						// body: if a.name == <key> { return false }
						ast.Inspect(rs.Body, func(x ast.Node) bool {
							ifs, isIf := x.(*ast.IfStmt)
							if !isIf {
								return true
							}
							be, isBE := ast.Unparen(ifs.Cond).(*ast.BinaryExpr)
							if !isBE || be.Op != token.EQL {
								return true
							}
							if v := core.FieldOf(info, be.X); v == nil || v.Name() != "name" {
								return true
							}
							if len(ifs.Body.List) == 1 {
								if r, isRet := ifs.Body.List[0].(*ast.ReturnStmt); isRet && len(r.Results) == 1 && exprStr(r.Results[0]) == "false" {
									// the compared key must be the one looked up and pushed
									pushed := ""
									ast.Inspect(as.Rhs[0], func(y ast.Node) bool {
										if kv, isKV := y.(*ast.KeyValueExpr); isKV && exprStr(kv.Key) == "name" {
											pushed = exprStr(kv.Value)
										}
										return true
									})
									if pushed == exprStr(be.Y) {
										ok = true
									}
								}
							}
							return true
						})
					}
				}
				if ok {
					rr.OK(f, key, as.Pos(), "membership", "the push follows a loop that returns false when the name is already on the stack")
				} else {
					rr.Bad(f, key, as.Pos(), "an alias is pushed without first checking that its name is not already being expanded: a self-referential or cyclic alias table makes the lexer loop forever")
				}
			}
			// AL1a: the table lookup is guarded by len(l.word) == 1 and a *ast.Lit assertion
			f.OwnNodes(func(n ast.Node) bool {
				ix, ok := n.(*ast.IndexExpr)
				if !ok {
					return true
				}
				if v := core.FieldOf(info, ix.X); v == nil || v.Name() != "Aliases" {
					return true
				}
				key := f.Name + "|lookup only for a single literal"
				one, lit := false, false
				for _, gd := range guardsOf(c.P, ix, nil) {
					if !gd.pos {
						continue
					}
					if isLenFieldEq(info, gd.cond, "parser", "lexer", "word", 1) {
						one = true
					}
					if okVarOfAssert(c.P, f, gd.cond, "*ast.Lit") {
						lit = true
					}
				}
				// the key must come from a *ast.Lit
				if t := info.Types[ix.Index].Type; t != nil {
					if se, isSel := ast.Unparen(ix.Index).(*ast.SelectorExpr); isSel && namedTypeName(info.Types[se.X].Type) == "*ast.Lit" {
						lit = lit && true
					} else {
						lit = false
					}
				}
				if one && lit {
					rr.OK(f, key, ix.Pos(), "guarded", "only a word consisting of one unquoted literal can name an alias")
				} else {
					rr.Bad(f, key, ix.Pos(), fmt.Sprintf("the alias table is consulted without requiring a single (%v) unquoted literal (%v) word: quoted or composite words would be substituted", one, lit))
				}
				return true
			})
			// AL1b / AL1c
			isAssign := c.fn("parser.(*lexer).isAssign")
			// A command-name or reserved-word position is where the lexer also asks
			// whether the word is an assignment (isAssign) or a reserved word (tr);
			// the alias-continuation position is where the call is conditional on the
			// flag copied from the exhausted alias's `blank` field.
			trFn := c.fn("parser.(*lexer).tr")
			blankF := c.fieldVar("parser", "alias", "blank")
			isPosition := func(g *core.Func, calls []*ast.CallExpr) (bool, string) {
				gi := g.Info()
				if len(c.callsTo(g, isAssign)) > 0 || (trFn != nil && len(c.callsTo(g, trFn)) > 0) {
					return true, "the function also looks for an assignment or a reserved word here: a command-name position"
				}
				// every call gated by a boolean that was read from alias.blank
				all := len(calls) > 0
				for _, call := range calls {
					gated := false
					var top ast.Expr = call
					for {
						p, ok := c.P.Parent(top).(ast.Expr)
						if !ok {
							break
						}
						top = p
					}
					conds := []ast.Expr{top}
					for _, gd := range guardsOf(c.P, call, nil) {
						if gd.pos {
							conds = append(conds, gd.cond)
						}
					}
					for _, cd := range conds {
						for _, cj := range conj(cd) {
							id, ok := ast.Unparen(cj).(*ast.Ident)
							if !ok {
								continue
							}
							obj := gi.Uses[id]
							ast.Inspect(g.Root().Body, func(x ast.Node) bool {
								as, ok := x.(*ast.AssignStmt)
								if !ok || len(as.Lhs) != 1 || len(as.Rhs) != 1 {
									return true
								}
								if l, ok := as.Lhs[0].(*ast.Ident); ok && (gi.Uses[l] == obj || gi.Defs[l] == obj) && blankF != nil {
									// the flag itself, or a conjunction that contains it (`n != 0 && … && a.blank`)
									for _, rc := range conj(as.Rhs[0]) {
										if core.FieldOf(gi, rc) == blankF {
											gated = true
										}
									}
									// or set to true under a test of the flag of an alias on the stack
									// (`for … { if l.aliases[i].blank { blank = true; break } }`)
									if tv, has := gi.Types[as.Rhs[0]]; has && tv.Value != nil && tv.Value.String() == "true" {
										for _, gd := range guardsOf(c.P, as, nil) {
											if !gd.pos {
												continue
											}
											for _, rc := range conj(gd.cond) {
												if core.FieldOf(gi, rc) == blankF {
													gated = true
												}
											}
										}
									}
								}
								return true
							})
						}
					}
					if !gated {
						all = false
					}
				}
				if all {
					return true, "conditional on the blank flag of the alias just exhausted: the alias-continuation position"
				}
				return false, ""
			}
			for _, g := range c.funcsOfPkg("parser", false) {
				sc := c.callsTo(g, f)
				if len(sc) == 0 {
					continue
				}
				key := g.Name + "|calls subst"
				if ok, why := isPosition(g, sc); ok {
					rr.OK(g, key, sc[0].Pos(), "position", why)
				} else {
					rr.Bad(g, key, sc[0].Pos(), "alias substitution is attempted from "+g.Short+", which is not a command-name or alias-continuation position: words in other positions would be replaced")
				}
				ac := c.callsTo(g, isAssign)
				if len(ac) == 0 {
					continue
				}
				// in each tagless switch that tests both, isAssign's clause comes first
				g.OwnNodes(func(n ast.Node) bool {
					sw, ok := n.(*ast.SwitchStmt)
					if !ok || sw.Tag != nil {
						return true
					}
					ia, is := -1, -1
					for i, cl := range sw.Body.List {
						for _, e := range cl.(*ast.CaseClause).List {
							ast.Inspect(e, func(x ast.Node) bool {
								if call, ok := x.(*ast.CallExpr); ok {
									if fo := core.StaticCallee(g.Info(), call); fo != nil {
										switch c.P.FuncOf(fo) {
										case isAssign:
											if ia < 0 {
												ia = i
											}
										case f:
											if is < 0 {
												is = i
											}
										}
									}
								}
								return true
							})
						}
					}
					if ia >= 0 && is >= 0 {
						k := g.Name + "|isAssign before subst"
						if ia < is {
							rr.OK(g, k, sw.Pos(), "ordered", "assignment words are recognised before alias substitution is tried")
						} else {
							rr.Bad(g, k, sw.Pos(), "subst() is tried before isAssign(): an assignment word whose text names an alias would be replaced")
						}
					}
					return true
				})
			}
		}}
}

// ---------------------------------------------------------------------------
// RC4: the newline-swallowing scanner is used only at grammar linebreak positions.

// Tokens after which the shell grammar has `linebreak` (newlines are
// insignificant): POSIX XCU 2.10.2, frozen here.
var linebreakAfter = map[string]string{
	"AND": "and_or: and_or AND_IF linebreak pipeline", "OR": "and_or: and_or OR_IF linebreak pipeline", "'|'": "pipe_sequence: … '|' linebreak command",
	"In": "case … in linebreak / for name linebreak in", "')'": "case_item: pattern ')' linebreak; function: fname '(' ')' linebreak", "BREAK": "case_item: … DSEMI linebreak",
	"WORD": "case WORD linebreak in", "NAME": "for name linebreak in", "';'": "sequential_sep: ';' linebreak", "'\\n'": "newline_list",
	"tok": "",
}

func ruleRC4() Rule {
	return Rule{ID: "RC4", Kind: "must", Floor: 4,
		Doc: "linebreak(), which consumes newlines (and comments) without returning them, is called only directly after emitting a token that the grammar follows by `linebreak`, and never from the raw token scanner, which cannot know the grammar position; so a newline that terminates a command is always delivered",
		Run: func(c *Ctx, rr *core.RuleResult) {
			lb := c.mustFn(rr, "parser.(*lexer).linebreak")
			emit := c.fn("parser.(*lexer).emit")
			raw := c.fn("parser.(*lexer).scanRawToken")
			if lb == nil || emit == nil {
				return
			}
			for _, g := range c.funcsOfPkg("parser", false) {
				info := g.Info()
				for _, call := range c.callsTo(g, lb) {
					key := g.Name + "|linebreak()"
					if g == raw {
						// allowed only where no token of the current line has been returned yet (a
						// comment on a line of its own): the call sits on the false branch of a test
						// that compares a field of the lexer with its current line
						lineF := c.fieldVar("parser", "lexer", "line")
						onOwnLine := false
						for _, gd := range guardsOf(c.P, call, nil) {
							for _, cj := range conj(gd.cond) {
								be, ok := ast.Unparen(cj).(*ast.BinaryExpr)
								// the false branch of `==`, which guardsOf may hand over as `!=` known to hold
								if !ok || !(be.Op == token.EQL && !gd.pos || be.Op == token.NEQ && gd.pos) {
									continue
								}
								fx, fy := core.FieldOf(info, be.X), core.FieldOf(info, be.Y)
								if fx != nil && fy != nil && lineF != nil && (fx == lineF) != (fy == lineF) {
									onOwnLine = true
								}
							}
						}
						if onOwnLine {
							rr.OK(g, key, call.Pos(), "own-line", "the raw scanner lets linebreak() swallow newlines only for a comment that stands on a line of its own; a comment behind a token ends before the newline")
						} else {
							rr.Bad(g, key, call.Pos(), "the raw token scanner calls linebreak() to skip a comment; linebreak also consumes the newline that follows, so a trailing comment makes the command swallow its terminating newline (`a # c\\nb` parses as `a b`; `if a # c\\nthen b; fi` is rejected)")
						}
						continue
					}
					// the nearest preceding statement, climbing out of enclosing
					// statements that start their block, must be emit(T)
					tokName := ""
					var cur ast.Node = call
				climb:
					for cur != nil {
						var list []ast.Stmt
						var stmt ast.Stmt
						for x := cur; x != nil; x = c.P.Parent(x) {
							if s, ok := x.(ast.Stmt); ok {
								switch p := c.P.Parent(x).(type) {
								case *ast.BlockStmt:
									stmt, list = s, p.List
								case *ast.CaseClause:
									stmt, list = s, p.Body
								}
								if list != nil {
									break
								}
							}
							if _, isFn := x.(*ast.FuncDecl); isFn {
								break climb
							}
						}
						if list == nil {
							break
						}
						idx := stmtIndex(c.P, list, stmt)
						if idx > 0 {
							if es, ok := list[idx-1].(*ast.ExprStmt); ok {
								if ec, ok := es.X.(*ast.CallExpr); ok {
									if fo := core.StaticCallee(info, ec); fo != nil && c.P.FuncOf(fo) == emit && len(ec.Args) == 1 {
										tokName = exprStr(ec.Args[0])
									}
								}
							}
							break
						}
						// first statement of its block: continue from the enclosing statement
						cur = c.P.Parent(c.P.Parent(stmt))
						if _, isCC := c.P.Parent(stmt).(*ast.CaseClause); isCC {
							break
						}
					}
					if tokName == "" {
						// path form of the same question: on every path to this call the last thing
						// the function did with a token was emit(T) (guards and early returns in
						// between change nothing)
						if last := c.lastEmits(g, call, emit); len(last) > 0 {
							okAll := true
							var ns []string
							for t := range last {
								ns = append(ns, t)
								if _, allowed := linebreakAfter[t]; !allowed {
									okAll = false
								}
							}
							sort.Strings(ns)
							if okAll {
								rr.OK(g, key+" after emit("+strings.Join(ns, ",")+")", call.Pos(), "grammar-position", "newlines are insignificant after "+strings.Join(ns, ", "))
								continue
							}
						}
					}
					names := []string{tokName}
					if tokName != "" && !isConstName(info, g, tokName) {
						// emit(tok) under case labels
						names = nil
						if cc := enclosingCase(c.P, call); cc != nil {
							for _, e := range cc.List {
								names = append(names, exprStr(e))
							}
						}
						// emit(tok) with tok a parameter: what the callers hand in
						if len(names) == 0 {
							if vals, ok := c.tokenParamValues(g, tokName, call); ok {
								names = vals
							}
						}
					}
					ok := tokName != "" && len(names) > 0
					for _, n := range names {
						if _, allowed := linebreakAfter[n]; !allowed {
							ok = false
						}
					}
					if ok {
						rr.OK(g, key+" after emit("+strings.Join(names, ",")+")", call.Pos(), "grammar-position", "newlines are insignificant after "+strings.Join(names, ", "))
					} else {
						rr.Bad(g, key+" after emit("+strings.Join(names, ",")+")", call.Pos(), "linebreak() is called where the grammar does not allow newlines to be skipped (not directly after emitting one of && || | in ) ;; for-name case-word ; newline)")
					}
				}
			}
		}}
}

// ---------------------------------------------------------------------------
// RC5: reserved words are translated before dispatch.

func ruleRC5() Rule {
	return Rule{ID: "RC5", Kind: "must", Floor: 8,
		Doc: "every dispatch lexToken(tok) is reached only with a token that cannot be an untranslated WORD: it was produced by tr(), excluded by a test against WORD on every path, or is a constant; so a reserved word is recognised wherever a raw word can reach a dispatch (in particular directly after a compound command's closer)",
		Run: func(c *Ctx, rr *core.RuleResult) {
			lt := c.mustFn(rr, "parser.(*lexer).lexToken")
			tr := c.fn("parser.(*lexer).tr")
			if lt == nil || tr == nil {
				return
			}
			exceptions := map[string]string{
				"parser.(*lexer).lexCase":    "after `case word` the grammar admits only `in`: any other word is a syntax error whether or not it is reserved",
				"parser.(*lexer).lexFuncDef": "after `name (` the grammar admits only `)`",
			}
			rawSource := func(info *types.Info, e ast.Expr) bool {
				call, ok := ast.Unparen(e).(*ast.CallExpr)
				if !ok {
					return false
				}
				fo := core.StaticCallee(info, call)
				if fo == nil {
					return false
				}
				switch c.P.FuncOf(fo) {
				case nil:
					return false
				case c.fn("parser.(*lexer).scanToken"), c.fn("parser.(*lexer).scanRawToken"), c.fn("parser.(*lexer).scanRedir"):
					return true
				}
				return false
			}
			const notWord core.Bits = 1
			for _, g := range c.funcsOfPkg("parser", false) {
				calls := c.callsTo(g, lt)
				if len(calls) == 0 {
					continue
				}
				info := g.Info()
				// token variables and whether any raw source feeds them
				isTokVar := func(e ast.Expr) types.Object {
					if id, ok := ast.Unparen(e).(*ast.Ident); ok {
						if v, ok := info.Uses[id].(*types.Var); ok {
							return v
						}
						if v, ok := info.Defs[id].(*types.Var); ok {
							return v
						}
					}
					return nil
				}
				isTr := func(e ast.Expr) bool {
					call, ok := ast.Unparen(e).(*ast.CallExpr)
					if !ok {
						return false
					}
					fo := core.StaticCallee(info, call)
					return fo != nil && c.P.FuncOf(fo) == tr
				}
				fl := core.NewFlow(g)
				// `tok, ok := l.helper(…)` where the helper answers false only with a token it has
				// tested to be no WORD: on the false side of ok, tok is no WORD
				okOf := map[types.Object]types.Object{} // ok variable -> token variable
				g.OwnNodes(func(n ast.Node) bool {
					as, isAs := n.(*ast.AssignStmt)
					if !isAs || len(as.Lhs) != 2 || len(as.Rhs) != 1 {
						return true
					}
					call, isCall := ast.Unparen(as.Rhs[0]).(*ast.CallExpr)
					if !isCall {
						return true
					}
					fo := core.StaticCallee(info, call)
					if fo == nil {
						return true
					}
					if h := c.P.FuncOf(fo); h != nil && c.falseMeansNotWord(h) {
						if t, k := isTokVar(as.Lhs[0]), isTokVar(as.Lhs[1]); t != nil && k != nil {
							okOf[k] = t
						}
					}
					return true
				})
				// one analysis per token variable used in a dispatch
				for _, call := range calls {
					key := g.Name + "|lexToken(" + exprStr(call.Args[0]) + ")"
					if tv, ok := info.Types[call.Args[0]]; ok && tv.Value != nil {
						rr.OK(g, key, call.Pos(), "constant", "dispatch on a constant token").Trivial = true
						continue
					}
					obj := isTokVar(call.Args[0])
					if obj == nil {
						rr.Unk(g, key, call.Pos(), "dispatch operand is neither a constant nor a variable")
						continue
					}
					// parameters: the caller's obligation (lexCmd translates on entry)
					init := core.Bits(0)
					facts := fl.EdgeFlow(core.EdgeFlowSpec{
						Init: init,
						Node: func(n ast.Node, in core.Bits) core.Bits {
							as, ok := n.(*ast.AssignStmt)
							if !ok {
								return in
							}
							for i, l := range as.Lhs {
								if isTokVar(l) != obj || i >= len(as.Rhs) && len(as.Rhs) != 1 {
									continue
								}
								r := as.Rhs[0]
								if i < len(as.Rhs) {
									r = as.Rhs[i]
								}
								switch {
								case isTr(r):
									return in | notWord
								case rawSource(info, r):
									return in &^ notWord
								default:
									if tv, ok := info.Types[r]; ok && tv.Value != nil {
										return in | notWord
									}
									if neverWord(c, info, r) {
										return in | notWord
									}
									return in &^ notWord
								}
							}
							return in
						},
						Edge: func(cond, tag ast.Expr, truth bool, in core.Bits) core.Bits {
							if tag != nil {
								// switch tok { case X: } — also `switch tok := …; tok`
								if isTokVar(tag) != obj {
									return in
								}
								if exprStr(cond) == "WORD" {
									if !truth {
										return in | notWord
									}
									return in &^ notWord
								}
								if truth {
									return in | notWord // equal to another constant
								}
								return in
							}
							// the ok result of a helper (see okOf)
							{
								cc, tr2 := ast.Unparen(cond), truth
								for {
									u, isNot := cc.(*ast.UnaryExpr)
									if !isNot || u.Op != token.NOT {
										break
									}
									cc, tr2 = ast.Unparen(u.X), !tr2
								}
								if id, isID := cc.(*ast.Ident); isID {
									if k := isTokVar(id); k != nil && okOf[k] == obj && !tr2 {
										return in | notWord
									}
								}
							}
							be, ok := cond.(*ast.BinaryExpr)
							if !ok {
								return in
							}
							x := be.X
							if isTr(x) {
								// l.tr(tok) != In: nothing known about tok itself
								return in
							}
							if isTokVar(x) != obj {
								return in
							}
							isW := exprStr(be.Y) == "WORD"
							switch be.Op {
							case token.NEQ:
								if isW && truth {
									return in | notWord
								}
								if !isW && !truth {
									return in | notWord
								}
							case token.EQL:
								if isW && !truth {
									return in | notWord
								}
								if !isW && truth {
									return in | notWord
								}
							}
							return in
						},
					})
					// a switch with an init statement binds tok in the init: handled by Node
					switch {
					case facts[call]&notWord != 0:
						rr.OK(g, key, call.Pos(), "translated-or-excluded", "on every path the token was produced by tr(), is a constant, or was tested to differ from WORD")
					case isParamOf(g, obj):
						rr.OK(g, key, call.Pos(), "parameter", "the token is a parameter; callers are checked at their own dispatch sites").Trivial = true
					case exceptions[g.Name] != "":
						rr.OK(g, key, call.Pos(), "exception", exceptions[g.Name])
					default:
						rr.Bad(g, key, call.Pos(), "a raw token that may be an untranslated WORD reaches the dispatch: a reserved word in this position (e.g. `then` directly after `)`, `}` or `fi`) is delivered as an ordinary word and the construct is rejected")
					}
				}
			}
		}}
}

func isParamOf(f *core.Func, obj types.Object) bool {
	if f.Type.Params == nil {
		return false
	}
	for _, fld := range f.Type.Params.List {
		for _, nm := range fld.Names {
			if f.Info().Defs[nm] == obj {
				return true
			}
		}
	}
	return false
}

// ---------------------------------------------------------------------------
// RC6: nesting-stack closers are matched somewhere.

func ruleRC6() Rule {
	return Rule{ID: "RC6", Kind: "agreement", Floor: 6,
		Doc: "every closer the lexer pushes or writes onto its nesting stack is compared with the stack top at some site (a closer that is never matched would leave its construct open for ever); the nested lexer's comments are merged into the outer one's (CM1)",
		Run: func(c *Ctx, rr *core.RuleResult) {
			stack := c.fieldVar("parser", "lexer", "stack")
			if stack == nil {
				rr.Unkp(c.P, "parser.lexer.stack", 0, "no nesting stack field")
				return
			}
			pushed := map[string]token.Pos{}
			compared := map[string]bool{}
			var pf = map[string]*core.Func{}
			for _, f := range c.funcsOfPkg("parser", false) {
				info := f.Info()
				f.OwnNodes(func(n ast.Node) bool {
					switch n := n.(type) {
					case *ast.AssignStmt:
						if len(n.Lhs) != 1 || len(n.Rhs) != 1 {
							return true
						}
						// l.stack = append(l.stack, X)
						if core.FieldOf(info, n.Lhs[0]) == stack {
							if call, ok := n.Rhs[0].(*ast.CallExpr); ok && isBuiltinCall(info, call, "append") && len(call.Args) == 2 {
								if _, isConst := info.Types[call.Args[1]]; isConst && info.Types[call.Args[1]].Value != nil {
									pushed[exprStr(call.Args[1])] = n.Pos()
									pf[exprStr(call.Args[1])] = f
								}
							}
						}
						// l.stack[len-1] = X
						if ix, ok := n.Lhs[0].(*ast.IndexExpr); ok && core.FieldOf(info, ix.X) == stack {
							if tv, ok := info.Types[n.Rhs[0]]; ok && tv.Value != nil {
								pushed[exprStr(n.Rhs[0])] = n.Pos()
								pf[exprStr(n.Rhs[0])] = f
							}
						}
					case *ast.BinaryExpr:
						if n.Op != token.EQL {
							return true
						}
						ix, ok := ast.Unparen(n.X).(*ast.IndexExpr)
						if !ok || core.FieldOf(info, ix.X) != stack {
							return true
						}
						if tv, ok := info.Types[n.Y]; ok && tv.Value != nil {
							compared[exprStr(n.Y)] = true
						} else {
							// == tok under case labels (with fallthrough from the previous clause)
							if cc := enclosingCase(c.P, n); cc != nil {
								for _, e := range cc.List {
									compared[exprStr(e)] = true
								}
								if sw, ok := c.P.Parent(c.P.Parent(cc)).(*ast.SwitchStmt); ok {
									for i, cl := range sw.Body.List {
										if cl == ast.Stmt(cc) && i > 0 {
											prev := sw.Body.List[i-1].(*ast.CaseClause)
											if len(prev.Body) > 0 {
												if br, ok := prev.Body[len(prev.Body)-1].(*ast.BranchStmt); ok && br.Tok == token.FALLTHROUGH {
													for _, e := range prev.List {
														compared[exprStr(e)] = true
													}
												}
											}
										}
									}
								}
							}
						}
					}
					return true
				})
			}
			// the same two operations behind helpers: push(tok) appends its parameter,
			// top(tok) compares the stack top with its parameter
			type helper struct{ push, cmp int }
			helpers := map[*core.Func]helper{}
			for _, h := range c.funcsOfPkg("parser", false) {
				if h.Decl == nil || h.Type.Params == nil {
					continue
				}
				hi := h.Info()
				idx := map[types.Object]int{}
				k := 0
				for _, fld := range h.Type.Params.List {
					for _, nm := range fld.Names {
						idx[hi.Defs[nm]] = k
						k++
					}
				}
				hp := helper{-1, -1}
				h.OwnNodes(func(n ast.Node) bool {
					switch n := n.(type) {
					case *ast.AssignStmt:
						if len(n.Lhs) == 1 && len(n.Rhs) == 1 && core.FieldOf(hi, n.Lhs[0]) == stack {
							if call, ok := n.Rhs[0].(*ast.CallExpr); ok && isBuiltinCall(hi, call, "append") && len(call.Args) == 2 {
								if id, ok := ast.Unparen(call.Args[1]).(*ast.Ident); ok {
									if i, isParam := idx[hi.Uses[id]]; isParam {
										hp.push = i
									}
								}
							}
						}
					case *ast.BinaryExpr:
						if n.Op == token.EQL {
							if ix, ok := ast.Unparen(n.X).(*ast.IndexExpr); ok && core.FieldOf(hi, ix.X) == stack {
								if id, ok := ast.Unparen(n.Y).(*ast.Ident); ok {
									if i, isParam := idx[hi.Uses[id]]; isParam {
										hp.cmp = i
									}
								}
							}
						}
					}
					return true
				})
				if hp.push >= 0 || hp.cmp >= 0 {
					helpers[h] = hp
				}
			}
			if len(helpers) > 0 {
				for _, f := range c.funcsOfPkg("parser", false) {
					info := f.Info()
					f.OwnNodes(func(n ast.Node) bool {
						call, ok := n.(*ast.CallExpr)
						if !ok {
							return true
						}
						fo := core.StaticCallee(info, call)
						if fo == nil {
							return true
						}
						hp, ok := helpers[c.P.FuncOf(fo)]
						if !ok {
							return true
						}
						if hp.push >= 0 && hp.push < len(call.Args) {
							if tv, ok := info.Types[call.Args[hp.push]]; ok && tv.Value != nil {
								pushed[exprStr(call.Args[hp.push])] = call.Pos()
								pf[exprStr(call.Args[hp.push])] = f
							}
						}
						if hp.cmp >= 0 && hp.cmp < len(call.Args) {
							a := call.Args[hp.cmp]
							if tv, ok := info.Types[a]; ok && tv.Value != nil {
								compared[exprStr(a)] = true
							} else if cc := enclosingCase(c.P, call); cc != nil {
								for _, e := range cc.List {
									compared[exprStr(e)] = true
								}
								if sw, ok := c.P.Parent(c.P.Parent(cc)).(*ast.SwitchStmt); ok {
									for i, cl := range sw.Body.List {
										if cl == ast.Stmt(cc) && i > 0 {
											prev := sw.Body.List[i-1].(*ast.CaseClause)
											if len(prev.Body) > 0 {
												if br, ok := prev.Body[len(prev.Body)-1].(*ast.BranchStmt); ok && br.Tok == token.FALLTHROUGH {
													for _, e := range prev.List {
														compared[exprStr(e)] = true
													}
												}
											}
										}
									}
								}
							}
						}
						return true
					})
				}
			}
			// a closer also counts as matched when the function the lexer dispatches
			// to for that token rewrites or reads the stack top (lexThen, lexDo, …):
			// weakening that function's own equality test only changes how far the
			// lexer runs on input the grammar rejects anyway
			for _, f := range c.funcsOfPkg("parser", false) {
				info := f.Info()
				f.OwnNodes(func(n ast.Node) bool {
					cc, ok := n.(*ast.CaseClause)
					if !ok || len(cc.Body) != 1 {
						return true
					}
					ret, ok := cc.Body[0].(*ast.ReturnStmt)
					if !ok || len(ret.Results) != 1 {
						return true
					}
					se, ok := ret.Results[0].(*ast.SelectorExpr)
					if !ok {
						return true
					}
					fo, _ := info.Uses[se.Sel].(*types.Func)
					g := c.P.FuncOf(fo)
					if g == nil {
						return true
					}
					touches := false
					g.OwnNodes(func(x ast.Node) bool {
						if ix, ok := x.(*ast.IndexExpr); ok && core.FieldOf(g.Info(), ix.X) == stack {
							touches = true
						}
						return true
					})
					if touches {
						for _, e := range cc.List {
							compared[exprStr(e)] = true
						}
					}
					return true
				})
			}
			var names []string
			for n := range pushed {
				names = append(names, n)
			}
			sort.Strings(names)
			for _, n := range names {
				key := "parser|closer " + n
				if compared[n] {
					rr.OK(pf[n], key, pushed[n], "matched", "some site compares the stack top with "+n)
				} else {
					rr.Bad(pf[n], key, pushed[n], "closer "+n+" is put on the nesting stack but the stack top is never compared with it: the construct it opens can never be closed")
				}
			}
			// CM1
			if f := c.mustFn(rr, "parser.(*lexer).scanCmdSubst"); f != nil {
				info := f.Info()
				comments := c.fieldVar("parser", "lexer", "comments")
				ok := false
				isMerge := func(n ast.Node) bool {
					as, isAs := n.(*ast.AssignStmt)
					if !isAs || len(as.Lhs) != 1 || core.FieldOf(info, as.Lhs[0]) != comments {
						return false
					}
					if call, isCall := as.Rhs[0].(*ast.CallExpr); isCall && isBuiltinCall(info, call, "append") && len(call.Args) == 2 && call.Ellipsis.IsValid() {
						if core.FieldOf(info, call.Args[1]) == comments && exprStr(call.Args[0]) == exprStr(as.Lhs[0]) {
							return true
						}
					}
					return false
				}
				f.OwnNodes(func(n ast.Node) bool {
					if isMerge(n) {
						ok = true
					}
					return true
				})
				if ok {
					rr.OK(f, f.Name+"|comments merged", f.Pos(), "merged", "the nested lexer's comments are appended to the outer lexer's")
				} else {
					rr.Bad(f, f.Name+"|comments merged", f.Pos(), "comments inside $(…) / `…` are collected by the nested lexer and then dropped")
				}
				// on every path to a successful return, whatever kind of
				// substitution was scanned
				if ok {
					merged := core.NewFlow(f).MustSeen(false, isMerge, nil)
					f.OwnNodes(func(n ast.Node) bool {
						r, isRet := n.(*ast.ReturnStmt)
						if !isRet || len(r.Results) != 1 {
							return true
						}
						if tv, has := info.Types[r.Results[0]]; !has || tv.Value == nil || tv.Value.String() != "true" {
							return true
						}
						// only returns after a nested lexer was run
						key := f.Name + "|comments merged before success"
						if merged[r] {
							rr.OK(f, key, r.Pos(), "merged", "every path to this successful return appends the nested lexer's comments")
						} else {
							rr.Bad(f, key, r.Pos(), "some path to this successful return skips the merge of the nested lexer's comments (e.g. only one kind of substitution merges them): comments inside the other kind are lost")
						}
						return true
					})
				}
			}
		}}
}

// ---------------------------------------------------------------------------
// HD1 / HD2 / HD4: the here-document body reader.

func ruleHD() Rule {
	return Rule{ID: "HD", Kind: "must", Floor: 4,
		Doc: "in the here-document body reader (lexHeredoc and the private helpers its code lives in): the delimiter comparison depends on the redirection's operator (<<- strips leading tabs, HD1); `$`, backquote and backslash are interpreted only under `!quoted`, and quoted is set exactly when a part of the delimiter word is a Quote (HD2) and belongs to one here-document (HD2b); a delimiter candidate must start in column 1 (HD4)",
		Run: func(c *Ctx, rr *core.RuleResult) {
			f := c.heredocReader(rr)
			if f == nil {
				return
			}
			var funcs []*core.Func
			var addWithLits func(g *core.Func)
			addWithLits = func(g *core.Func) {
				funcs = append(funcs, g)
				for _, l := range g.Lits {
					addWithLits(l)
				}
			}
			for _, g := range c.region(f) {
				addWithLits(g)
			}
			printFn := c.fn("parser.(*lexer).print")
			foundCmp := false
			for _, g := range funcs {
				info := g.Info()
				g.OwnNodes(func(n ast.Node) bool {
					be, ok := n.(*ast.BinaryExpr)
					if !ok || be.Op != token.EQL {
						return true
					}
					// comparison of a printed candidate with the delimiter string
					isDelim := func(e ast.Expr) bool {
						if info.Types[e].Type == nil || info.Types[e].Type.String() != "string" {
							return false
						}
						if fld := stateField(info, e); fld != nil {
							// the delimiter kept in a field of a per-here-document record
							return fieldBoundToCallOf(c, funcs, fld, printFn)
						}
						id, ok := ast.Unparen(e).(*ast.Ident)
						if !ok {
							return false
						}
						obj := info.Uses[id]
						// a string parameter of the helper or closure, or a local bound to the printed delimiter
						if g != f && g.Type.Params != nil {
							for _, fld := range g.Type.Params.List {
								for _, nm := range fld.Names {
									if info.Defs[nm] == obj {
										return true
									}
								}
							}
						}
						return boundToCallOf(c, g, obj, printFn)
					}
					if !isDelim(be.Y) && !isDelim(be.X) {
						return true
					}
					// the other side must be a printed candidate (or a transformation of one)
					other := be.X
					if isDelim(be.X) {
						other = be.Y
					}
					printed := false
					ast.Inspect(other, func(x ast.Node) bool {
						if id, ok := x.(*ast.Ident); ok && boundToCallOf(c, g, info.Uses[id], printFn) {
							printed = true
						}
						if call, ok := x.(*ast.CallExpr); ok && c.callsFunc(info, call, printFn) {
							printed = true
						}
						return true
					})
					if !printed {
						// a second reader of the region that compares a line it collected
						// itself with the delimiter: the operator matters there as well
						if _, isConst := constStr(info, other); isConst {
							return true
						}
						if t := info.Types[other].Type; t == nil || t.String() != "string" {
							return true
						}
						mentions := false
						check := func(e ast.Node) {
							ast.Inspect(e, func(x ast.Node) bool {
								if se, ok := x.(*ast.SelectorExpr); ok {
									if v := core.FieldOf(info, se); v != nil && v.Name() == "Op" && v.Pkg() != nil && v.Pkg().Name() == "ast" {
										mentions = true
									}
								}
								return true
							})
						}
						var top ast.Expr = be
						for {
							p, ok := c.P.Parent(top).(ast.Expr)
							if !ok {
								break
							}
							top = p
						}
						check(top)
						for _, gd := range guardsOf(c.P, be, nil) {
							check(gd.cond)
						}
						if !mentions {
							g.OwnNodes(func(x ast.Node) bool {
								if ifs, ok := x.(*ast.IfStmt); ok {
									check(ifs.Cond)
								}
								if sw, ok := x.(*ast.SwitchStmt); ok && sw.Tag != nil {
									check(sw.Tag)
								}
								return true
							})
						}
						key := f.Name + "|delimiter test depends on Op|" + g.Short + " " + normExpr(info, be)
						if mentions {
							rr.OK(g, key, be.Pos(), "op-dependent", "this reader distinguishes `<<-` from `<<` too")
						} else {
							rr.Bad(g, key, be.Pos(), "this comparison of a collected line with the delimiter never reads the redirection's operator: in this reader a tab-indented delimiter line does not end a `<<-` here-document")
						}
						return true
					}
					// the whole condition this comparison belongs to
					var top ast.Expr = be
					for {
						p, ok := c.P.Parent(top).(ast.Expr)
						if !ok {
							break
						}
						top = p
					}
					if foundCmp {
						return true
					}
					foundCmp = true
					mentionsOp := func(e ast.Node) bool {
						m := false
						ast.Inspect(e, func(x ast.Node) bool {
							if se, ok := x.(*ast.SelectorExpr); ok {
								if v := core.FieldOf(info, se); v != nil && v.Name() == "Op" && v.Pkg() != nil && v.Pkg().Name() == "ast" {
									m = true
								}
							}
							return true
						})
						return m
					}
					dep := mentionsOp(top)
					col1 := false
					for _, gd := range guardsOf(c.P, be, nil) {
						if mentionsOp(gd.cond) {
							dep = true
						}
						if gd.pos {
							if b2, ok := ast.Unparen(gd.cond).(*ast.BinaryExpr); ok && b2.Op == token.EQL && strings.HasSuffix(exprStr(b2.X), ".Col()") && exprStr(b2.Y) == "1" {
								col1 = true
							}
						}
					}
					// data dependence: the compared candidate was transformed under a test of Op earlier in the function
					if !dep {
						g.OwnNodes(func(x ast.Node) bool {
							if ifs, ok := x.(*ast.IfStmt); ok && mentionsOp(ifs.Cond) {
								dep = true
							}
							if sw, ok := x.(*ast.SwitchStmt); ok && sw.Tag != nil && mentionsOp(sw.Tag) {
								dep = true
							}
							return true
						})
					}
					if dep {
						rr.OK(g, f.Name+"|delimiter test depends on Op", be.Pos(), "op-dependent", "`<<-` and `<<` are distinguished when looking for the delimiter")
					} else {
						rr.Bad(g, f.Name+"|delimiter test depends on Op", be.Pos(), "the delimiter search never reads the redirection's operator, so `<<-` cannot behave differently from `<<`: a tab-indented delimiter line is not recognised")
					}
					if col1 {
						rr.OK(g, f.Name+"|delimiter at column 1", be.Pos(), "column-1", "only a candidate that starts a line is compared with the delimiter")
					} else {
						rr.Bad(g, f.Name+"|delimiter at column 1", be.Pos(), "the delimiter comparison is not conditional on the candidate starting in column 1: a delimiter in mid-line ends the body")
					}
					return true
				})
			}
			if !foundCmp {
				rr.Unk(f, f.Name+"|delimiter test", f.Pos(), "no comparison with the delimiter string found")
			}
			// HD2: the flag is the boolean variable whose negation guards the interpreting calls
			var quotedObj types.Object
			var quotedFn *core.Func
			var quotedExpr ast.Expr
			interpFns := map[*core.Func]string{}
			for _, n := range []string{"parser.(*lexer).scanParamExp", "parser.(*lexer).scanCmdSubst", "parser.(*lexer).esc"} {
				if g := c.fn(n); g != nil {
					interpFns[g] = g.Short
				}
			}
			type icall struct {
				g    *core.Func
				call *ast.CallExpr
				name string
			}
			var icalls []icall
			for _, g := range funcs {
				info := g.Info()
				g.OwnNodes(func(n ast.Node) bool {
					call, ok := n.(*ast.CallExpr)
					if !ok {
						return true
					}
					fo := core.StaticCallee(info, call)
					if fo == nil {
						return true
					}
					if nm, ok := interpFns[c.P.FuncOf(fo)]; ok {
						icalls = append(icalls, icall{g, call, nm})
						for _, gd := range guardsOf(c.P, call, nil) {
							if v := flagCell(info, gd.cond); v != nil && !gd.pos && v.Type().String() == "bool" && quotedObj == nil {
								quotedObj = v
								quotedFn = g
								quotedExpr = ast.Unparen(gd.cond)
							}
						}
					}
					return true
				})
			}
			if len(icalls) == 0 {
				rr.Unk(f, f.Name+"|quoted flag", f.Pos(), "the body reader calls none of scanParamExp / scanCmdSubst / esc")
				return
			}
			for _, ic := range icalls {
				info := ic.g.Info()
				key := f.Name + "|" + ic.name + " under !quoted"
				ok := false
				for _, gd := range guardsOf(c.P, ic.call, nil) {
					if v := flagCell(info, gd.cond); v != nil && quotedObj != nil && types.Object(v) == quotedObj && !gd.pos {
						ok = true
					}
				}
				if ok {
					rr.OK(ic.g, key, ic.call.Pos(), "unquoted-only", "expansions in the body are scanned only when no part of the delimiter was quoted")
				} else {
					rr.Bad(ic.g, key, ic.call.Pos(), "the body is scanned for expansions without testing that the delimiter was unquoted: a here-document with a quoted delimiter is not kept literal")
				}
			}
			if quotedObj == nil {
				return
			}
			// the flag's producers: the variable itself and, when it is bound to a
			// result of a helper (`delim, quoted := l.heredocDelim(h)`), that result
			flags := map[types.Object]*core.Func{quotedObj: quotedFn}
			type flagAt struct {
				obj types.Object
				fn  *core.Func
			}
			work := []flagAt{{quotedObj, quotedFn}}
			for len(work) > 0 && len(flags) < 8 {
				quotedObj, quotedFn := work[0].obj, work[0].fn
				work = work[1:]
				// a parameter of a helper: the variable handed in at every call site
				if quotedFn.Decl != nil && quotedFn.Type.Params != nil {
					k, idx := 0, -1
					for _, fld := range quotedFn.Type.Params.List {
						for _, nm := range fld.Names {
							if quotedFn.Info().Defs[nm] == quotedObj {
								idx = k
							}
							k++
						}
					}
					if idx >= 0 {
						if calls, complete := c.callSitesOf(quotedFn); complete {
							for _, cs := range calls {
								if idx < len(cs.call.Args) {
									if id, ok := ast.Unparen(cs.call.Args[idx]).(*ast.Ident); ok {
										if o, ok := cs.in.Info().Uses[id].(*types.Var); ok && flags[o] == nil {
											flags[o] = cs.in
											work = append(work, flagAt{o, cs.in})
										}
									}
								}
							}
						}
					}
				}
				info := quotedFn.Info()
				ast.Inspect(quotedFn.Root().Body, func(n ast.Node) bool {
					as, ok := n.(*ast.AssignStmt)
					if !ok || len(as.Rhs) != 1 {
						return true
					}
					call, ok := as.Rhs[0].(*ast.CallExpr)
					if !ok {
						return true
					}
					for i, l := range as.Lhs {
						id, ok := l.(*ast.Ident)
						if !ok || (info.Defs[id] != quotedObj && info.Uses[id] != quotedObj) {
							continue
						}
						if fo := core.StaticCallee(info, call); fo != nil {
							if h := c.P.FuncOf(fo); h != nil && h.Type.Results != nil {
								k := 0
								for _, fld := range h.Type.Results.List {
									for _, nm := range fld.Names {
										if k == i {
											if o := h.Info().Defs[nm]; o != nil && flags[o] == nil {
												flags[o] = h
												work = append(work, flagAt{o, h})
											}
										}
										k++
									}
								}
								// unnamed results: the variable returned at that position
								h.OwnNodes(func(x ast.Node) bool {
									if r, ok := x.(*ast.ReturnStmt); ok && i < len(r.Results) {
										if rid, ok := ast.Unparen(r.Results[i]).(*ast.Ident); ok {
											if o, ok := h.Info().Uses[rid].(*types.Var); ok && o.Type().String() == "bool" && flags[o] == nil {
												flags[o] = h
												work = append(work, flagAt{o, h})
											}
										}
									}
									return true
								})
							}
						}
					}
					return true
				})
			}
			nset := 0
			isField := false
			if v, ok := quotedObj.(*types.Var); ok && v.IsField() {
				isField = true
			}
			// where a flag is assigned: its function for a local, the whole region for a field
			type flagScope struct {
				obj types.Object
				g   *core.Func
				in  *ast.BlockStmt
			}
			var scopes []flagScope
			for obj, g := range flags {
				if v, ok := obj.(*types.Var); ok && v.IsField() {
					for _, h := range funcs {
						if h.Lit == nil {
							scopes = append(scopes, flagScope{obj, h, h.Body})
						}
					}
					continue
				}
				scopes = append(scopes, flagScope{obj, g, g.Root().Body})
			}
			sort.Slice(scopes, func(i, j int) bool { return scopes[i].in.Pos() < scopes[j].in.Pos() })
			for _, sc := range scopes {
				obj, g := sc.obj, sc.g
				info := g.Info()
				ast.Inspect(sc.in, func(n ast.Node) bool {
					as, ok := n.(*ast.AssignStmt)
					if !ok || len(as.Lhs) != 1 || len(as.Rhs) != 1 {
						return true
					}
					if v := flagCell(info, as.Lhs[0]); v == nil || types.Object(v) != obj {
						return true
					}
					if tv, has := info.Types[as.Rhs[0]]; has && tv.Value != nil && tv.Value.String() == "false" {
						return true // a reset, examined by HD2b below
					}
					nset++
					key := f.Name + "|quoted set for a Quote part"
					okQ := false
					for x := c.P.Parent(as); x != nil; x = c.P.Parent(x) {
						if ifs, isIf := x.(*ast.IfStmt); isIf && ifs.Init != nil {
							if ia, isAs := ifs.Init.(*ast.AssignStmt); isAs && len(ia.Rhs) == 1 {
								if ta, isTA := ia.Rhs[0].(*ast.TypeAssertExpr); isTA && ta.Type != nil && namedTypeName(info.Types[ta.Type].Type) == "*ast.Quote" {
									okQ = true
								}
							}
						}
						if cc, isCC := x.(*ast.CaseClause); isCC {
							if ts, isTS := c.P.Parent(c.P.Parent(cc)).(*ast.TypeSwitchStmt); isTS && ts != nil {
								for _, e := range cc.List {
									if namedTypeName(info.Types[e].Type) == "*ast.Quote" && len(cc.List) == 1 {
										okQ = true
									}
								}
							}
						}
					}
					if okQ && exprStr(as.Rhs[0]) == "true" {
						rr.OK(g, key, as.Pos(), "quote-part", "set exactly when a part of the delimiter word is quoted")
					} else {
						rr.Bad(g, key, as.Pos(), "`quoted` is not set under a test that a delimiter part is an *ast.Quote")
					}
					return true
				})
			}
			if nset == 0 {
				rr.Bad(f, f.Name+"|quoted set for a Quote part", f.Pos(), "`quoted` is never set: a quoted delimiter does not make the body literal")
			}
			// HD2b: the flag belongs to one here-document.
			popFn := c.fn("parser.(*heredoc).pop")
			var loop *ast.ForStmt
			var loopFn *core.Func
			for _, g := range funcs {
				info := g.Info()
				g.OwnNodes(func(n ast.Node) bool {
					fs, ok := n.(*ast.ForStmt)
					if ok && loop == nil && fs.Init != nil && c.callsFunc(info, fs.Init, popFn) {
						loop = fs
						loopFn = g
					}
					return true
				})
			}
			key := f.Name + "|quoted is per here-document"
			// a clearing assignment anywhere else than the head of that loop's body
			// makes the rest of a quoted here-document expand
			for _, sc := range scopes {
				obj, g := sc.obj, sc.g
				info := g.Info()
				ast.Inspect(sc.in, func(n ast.Node) bool {
					as, ok := n.(*ast.AssignStmt)
					if !ok || len(as.Lhs) != 1 || len(as.Rhs) != 1 {
						return true
					}
					if v := flagCell(info, as.Lhs[0]); v == nil || types.Object(v) != obj {
						return true
					}
					if tv, has := info.Types[as.Rhs[0]]; !has || tv.Value == nil || tv.Value.String() != "false" {
						return true
					}
					atHead := false
					if loop != nil {
						for _, st := range loop.Body.List {
							if st == ast.Stmt(as) {
								atHead = true
							}
							if _, isRange := st.(*ast.RangeStmt); isRange {
								break
							}
						}
					}
					if !atHead {
						rr.Bad(g, f.Name+"|quoted cleared only between here-documents", as.Pos(), "`quoted` is cleared while a here-document is being read: the rest of a body with a quoted delimiter is scanned for expansions")
					}
					return true
				})
			}
			// declared in a helper that the loop calls once per here-document?
			perCall := false
			if loop != nil && quotedFn.Root() != loopFn.Root() {
				cg := c.P.CG()
				ast.Inspect(loop.Body, func(n ast.Node) bool {
					if call, ok := n.(*ast.CallExpr); ok {
						for _, h := range cg.Callees(loopFn, call) {
							if h == quotedFn.Root() || cg.ReachableStop(func(x *core.Func) bool { return !c.inRegion(f.Name, x) }, h)[quotedFn.Root()] {
								perCall = true
							}
						}
					}
					return true
				})
			}
			switch {
			case loop == nil:
				rr.Unk(f, key, f.Pos(), "no loop taking pending here-documents with pop() found")
			case isField:
				// the flag is a field of a record: the record must be made afresh for each here-document
				if why := freshRecordInLoop(c, quotedFn, quotedExpr, loop, loopFn); why == "" {
					rr.OK(quotedFn, key, quotedExpr.Pos(), "fresh", "a field of a record that is created inside the per-here-document loop, so it starts false for each")
				} else {
					rr.Bad(quotedFn, key, quotedExpr.Pos(), "`quoted` is kept in a record that is not made afresh for each here-document ("+why+"): after one quoted delimiter a later body can be kept literal too")
				}
			case perCall:
				rr.OK(quotedFn, key, quotedObj.Pos(), "fresh", "a local of a helper called once per here-document, so it starts false for each")
			case quotedObj.Pos() >= loop.Body.Pos() && quotedObj.Pos() < loop.Body.End():
				rr.OK(f, key, quotedObj.Pos(), "fresh", "declared inside the per-here-document loop, so it starts false for each")
			default:
				reset := false
				info := loopFn.Info()
				for _, st := range loop.Body.List {
					if as, ok := st.(*ast.AssignStmt); ok && len(as.Lhs) == 1 && len(as.Rhs) == 1 {
						if id, ok := as.Lhs[0].(*ast.Ident); ok && info.Uses[id] == quotedObj {
							if tv, has := info.Types[as.Rhs[0]]; has && tv.Value != nil && tv.Value.String() == "false" {
								reset = true
							}
						}
					}
					if _, isRange := st.(*ast.RangeStmt); isRange {
						break
					}
				}
				if reset {
					rr.OK(f, key, quotedObj.Pos(), "reset", "cleared at the start of each here-document")
				} else {
					rr.Bad(f, key, quotedObj.Pos(), "`quoted` is declared outside the loop over the pending here-documents and never cleared in it: after one quoted delimiter every later body read by the same call is kept literal too")
				}
			}
		}}
}

// flagCell is the variable a flag expression denotes: a local, or a field of
// a record other than the lexer itself (`hr.quoted`).
func flagCell(info *types.Info, e ast.Expr) *types.Var {
	switch x := ast.Unparen(e).(type) {
	case *ast.Ident:
		if v, ok := info.Uses[x].(*types.Var); ok {
			return v
		}
		if v, ok := info.Defs[x].(*types.Var); ok {
			return v
		}
	case *ast.SelectorExpr:
		return stateField(info, x)
	}
	return nil
}

// stateField: e selects a field of a struct of package parser that is not the
// lexer (a record a refactoring introduced to carry locals).
func stateField(info *types.Info, e ast.Expr) *types.Var {
	se, ok := ast.Unparen(e).(*ast.SelectorExpr)
	if !ok {
		return nil
	}
	v := core.FieldOf(info, se)
	if v == nil || v.Pkg() == nil || v.Pkg().Name() != "parser" {
		return nil
	}
	if tv, ok := info.Types[se.X]; ok && tv.Type != nil {
		if n := namedTypeName(tv.Type); strings.HasSuffix(n, ".lexer") {
			return nil
		}
	}
	return v
}

// fieldBoundToCallOf: some function of the region assigns the field from a
// call of g.
func fieldBoundToCallOf(c *Ctx, funcs []*core.Func, fld *types.Var, g *core.Func) bool {
	found := false
	for _, h := range funcs {
		info := h.Info()
		h.OwnNodes(func(n ast.Node) bool {
			switch x := n.(type) {
			case *ast.AssignStmt:
				if len(x.Lhs) == len(x.Rhs) {
					for i, l := range x.Lhs {
						if stateField(info, l) == fld && c.callsFunc(info, x.Rhs[i], g) {
							found = true
						}
					}
				}
			case *ast.KeyValueExpr:
				if id, ok := x.Key.(*ast.Ident); ok && info.Uses[id] == types.Object(fld) && c.callsFunc(info, x.Value, g) {
					found = true
				}
			}
			return true
		})
	}
	return found
}

// freshRecordInLoop: the record whose field is tested (`hr` in `hr.quoted`) is
// a local of the loop's function, defined inside the loop body from a
// composite literal or from a function that returns a composite literal it has
// just built.  Returns "" or why not.
func freshRecordInLoop(c *Ctx, g *core.Func, flagExpr ast.Expr, loop *ast.ForStmt, loopFn *core.Func) string {
	se, ok := ast.Unparen(flagExpr).(*ast.SelectorExpr)
	if !ok {
		return "the flag is not a field selection"
	}
	id, ok := ast.Unparen(se.X).(*ast.Ident)
	if !ok {
		return "the record is not held in a variable"
	}
	if g.Root() != loopFn.Root() {
		return "the flag is tested outside the function that loops over the here-documents"
	}
	info := g.Info()
	v, ok := info.Uses[id].(*types.Var)
	if !ok {
		return "the record is not held in a variable"
	}
	if v.Pos() < loop.Body.Pos() || v.Pos() >= loop.Body.End() {
		return "the record is declared outside the loop over the pending here-documents"
	}
	if reassigned(g.Root(), v) {
		return "the record variable is assigned again"
	}
	def := localDef(g.Root(), info, v)
	if def == nil {
		return "the record has no initialiser"
	}
	fresh := func(h *core.Func, e ast.Expr) bool {
		e = ast.Unparen(e)
		if u, ok := e.(*ast.UnaryExpr); ok && u.Op == token.AND {
			e = ast.Unparen(u.X)
		}
		_, isLit := e.(*ast.CompositeLit)
		return isLit
	}
	if fresh(g, def) {
		return ""
	}
	call, ok := ast.Unparen(def).(*ast.CallExpr)
	if !ok {
		return "the record is not built where it is declared"
	}
	fo := core.StaticCallee(info, call)
	if fo == nil {
		return "the record comes from a call that cannot be resolved"
	}
	h := c.P.FuncOf(fo)
	if h == nil || h.Body == nil {
		return "the record comes from outside the library"
	}
	hinfo := h.Info()
	okAll, n := true, 0
	h.OwnNodes(func(x ast.Node) bool {
		ret, isRet := x.(*ast.ReturnStmt)
		if !isRet || len(ret.Results) != 1 {
			return true
		}
		n++
		if fresh(h, ret.Results[0]) {
			return true
		}
		if rid, isID := ast.Unparen(ret.Results[0]).(*ast.Ident); isID {
			if rv, isVar := hinfo.Uses[rid].(*types.Var); isVar && !reassigned(h, rv) {
				if d := localDef(h, hinfo, rv); d != nil && fresh(h, d) {
					return true
				}
			}
		}
		okAll = false
		return true
	})
	if !okAll || n == 0 {
		return "the constructor does not return a record it has just built"
	}
	return ""
}

// ---------------------------------------------------------------------------
// HD6: every here-document operator is counted.
//
// The lexer counts an announced here-document when it scans the operand of
// `<<` / `<<-` (heredoc.inc, reached through scanRedir); the parser queues the
// redirection (push); at the newline the lexer reads as many bodies as were
// counted.  Sibling sites that emit a redirection operator must therefore all
// fetch the operand through a function that reaches inc.

func ruleHD6() Rule {
	return Rule{ID: "HD6", Kind: "agreement", Floor: 2,
		Doc: "every lexer state that emits a redirection operator (a case clause listing the `<<` token) fetches the operand word through a function that reaches heredoc.inc; a sibling that fetches it with the plain token scanner leaves the here-document uncounted, so its body is never read and is parsed as commands",
		Run: func(c *Ctx, rr *core.RuleResult) {
			pk := c.P.Pkgs["parser"]
			hereTok := pk.Types.Scope().Lookup("HEREDOC")
			inc := c.mustFn(rr, "parser.(*heredoc).inc")
			raw := c.mustFn(rr, "parser.(*lexer).scanRawToken")
			if hereTok == nil || inc == nil || raw == nil {
				if hereTok == nil {
					rr.Unkp(c.P, "parser|HEREDOC token", 0, "token constant HEREDOC not found")
				}
				return
			}
			cg := c.P.CG()
			spawned := map[*core.Func]bool{}
			for _, g := range c.goRoots() {
				spawned[g.Target] = true
			}
			stop := func(f *core.Func) bool { return spawned[f] }
			reach := map[*core.Func]map[*core.Func]bool{}
			reachOf := func(g *core.Func) map[*core.Func]bool {
				if r, ok := reach[g]; ok {
					return r
				}
				r := cg.ReachableStop(stop, g)
				reach[g] = r
				return r
			}
			emit := c.fn("parser.(*lexer).emit")
			// predicates over a token that mention the `<<` token (isRedirOp and the like)
			mentionsHere := func(g *core.Func) bool {
				if g == nil || g.Decl == nil {
					return false
				}
				gi := g.Info()
				hit := false
				g.OwnNodes(func(x ast.Node) bool {
					if id, ok := x.(*ast.Ident); ok && gi.Uses[id] == hereTok {
						hit = true
					}
					return true
				})
				return hit
			}
			for _, f := range c.funcsOfPkg("parser", false) {
				info := f.Info()
				f.OwnNodes(func(n ast.Node) bool {
					// a container in which the token may be `<<`: a case clause that lists it,
					// or the body of an if whose condition asks a predicate that mentions it
					var body []ast.Stmt
					var at ast.Node
					switch x := n.(type) {
					case *ast.CaseClause:
						for _, e := range x.List {
							if id, ok := ast.Unparen(e).(*ast.Ident); ok && info.Uses[id] == hereTok {
								body, at = x.Body, x
							}
						}
					case *ast.IfStmt:
						pred := false
						ast.Inspect(x.Cond, func(y ast.Node) bool {
							if call, ok := y.(*ast.CallExpr); ok {
								if fo := core.StaticCallee(info, call); fo != nil {
									if g := c.P.FuncOf(fo); g != nil && g.Type.Results != nil && g.Type.Results.NumFields() == 1 && mentionsHere(g) && g != f {
										if t := info.Types[call].Type; t != nil && t.String() == "bool" {
											pred = true
										}
									}
								}
							}
							return true
						})
						if pred {
							body, at = x.Body.List, x
						}
					}
					if at == nil {
						return true
					}
					emits := false
					for _, st := range body {
						if c.callsFunc(info, st, emit) {
							emits = true
						}
						// or hands the token to a helper of the lexer that emits it
						ast.Inspect(st, func(y ast.Node) bool {
							call, ok := y.(*ast.CallExpr)
							if !ok || emits {
								return !emits
							}
							if fo := core.StaticCallee(info, call); fo != nil {
								if h := c.P.FuncOf(fo); h != nil && h != f && h != emit && h.Decl != nil && h.Body != nil && h.Pkg == f.Pkg {
									for _, hs := range h.Body.List {
										if c.callsFunc(h.Info(), hs, emit) {
											emits = true
										}
									}
								}
							}
							return !emits
						})
					}
					if !emits {
						return true
					}
					key := f.Name + "|operand of `<<` is counted"
					var fetch []*ast.CallExpr
					bad := false
					for _, st := range body {
						ast.Inspect(st, func(x ast.Node) bool {
							if _, isLit := x.(*ast.FuncLit); isLit {
								return false
							}
							call, ok := x.(*ast.CallExpr)
							if !ok {
								return true
							}
							for _, g := range cg.Callees(f, call) {
								r := reachOf(g)
								if r[raw] {
									fetch = append(fetch, call)
									if !r[inc] {
										bad = true
										rr.Bad(f, key, call.Pos(), "the operand of the redirection is fetched with `"+exprStr(call.Fun)+"`, which never reaches heredoc.inc: a here-document announced at this position is not counted and its body is parsed as commands")
									}
								}
							}
							return true
						})
					}
					switch {
					case bad:
					case len(fetch) == 0:
						rr.Unk(f, key, at.Pos(), "the clause emits the operator but fetches no operand token")
					default:
						rr.OK(f, key, fetch[0].Pos(), "counted", "operand fetched through "+exprStr(fetch[0].Fun)+", which reaches heredoc.inc")
					}
					return true
				})
			}
		}}
}

// neverWord reports whether e is a call of a repository function none of
// whose return statements can yield the WORD token (all results are
// constants other than WORD).
func neverWord(c *Ctx, info *types.Info, e ast.Expr) bool {
	call, ok := ast.Unparen(e).(*ast.CallExpr)
	if !ok {
		return false
	}
	fo := core.StaticCallee(info, call)
	if fo == nil {
		return false
	}
	g := c.P.FuncOf(fo)
	if g == nil {
		return false
	}
	ok = true
	n := 0
	g.OwnNodes(func(x ast.Node) bool {
		r, isRet := x.(*ast.ReturnStmt)
		if !isRet {
			return true
		}
		n++
		if len(r.Results) != 1 {
			ok = false
			return true
		}
		tv, has := g.Info().Types[r.Results[0]]
		if !has || tv.Value == nil || exprStr(r.Results[0]) == "WORD" {
			ok = false
		}
		return true
	})
	return ok && n > 0
}

// isConstName reports whether the printed argument names a constant.
func isConstName(info *types.Info, f *core.Func, name string) bool {
	found := false
	f.OwnNodes(func(n ast.Node) bool {
		if e, ok := n.(ast.Expr); ok && exprStr(e) == name {
			if tv, ok := info.Types[e]; ok && tv.Value != nil {
				found = true
			}
		}
		return true
	})
	return found
}

// boundToCallOf reports whether obj is a local assigned from a call of g
// somewhere in f (or its literals).
func boundToCallOf(c *Ctx, f *core.Func, obj types.Object, g *core.Func) bool {
	if obj == nil || g == nil {
		return false
	}
	found := false
	info := f.Info()
	ast.Inspect(f.Root().Body, func(n ast.Node) bool {
		as, ok := n.(*ast.AssignStmt)
		if !ok {
			return true
		}
		// r, err := g(): every left-hand side is bound to the one call
		if len(as.Rhs) == 1 && len(as.Lhs) > 1 {
			for _, l := range as.Lhs {
				if id, ok := l.(*ast.Ident); ok && (info.Defs[id] == obj || info.Uses[id] == obj) && c.callsFunc(info, as.Rhs[0], g) {
					found = true
				}
			}
			return true
		}
		if len(as.Lhs) != len(as.Rhs) {
			return true
		}
		for i, l := range as.Lhs {
			if id, ok := l.(*ast.Ident); ok && (info.Defs[id] == obj || info.Uses[id] == obj) && c.callsFunc(info, as.Rhs[i], g) {
				found = true
			}
		}
		return true
	})
	return found
}

// lastEmits computes, for the node at, the set of tokens that can have been the
// last one emitted on a path from the function's entry (forward may-analysis
// over go/cfg).  The set contains "?" when some path reaches the node without
// an emit of a constant token, or after a call that scans or emits something
// else (any other call of a lexer method that reaches emit or read).
func (c *Ctx) lastEmits(g *core.Func, at ast.Node, emit *core.Func) map[string]bool {
	return c.lastEmitsFrom(g, at, emit, 0)
}

func (c *Ctx) lastEmitsFrom(g *core.Func, at ast.Node, emit *core.Func, depth int) map[string]bool {
	info := g.Info()
	readFn := c.fn("parser.(*lexer).read")
	cg := c.P.CG()
	disturbs := func(call *ast.CallExpr) bool {
		fo := core.StaticCallee(info, call)
		if fo == nil {
			return false
		}
		h := c.P.FuncOf(fo)
		if h == nil || h == emit || h.Pkg != g.Pkg {
			return false
		}
		r := cg.Reachable(h)
		return r[emit] || (readFn != nil && r[readFn]) || h == readFn
	}
	type set map[string]bool
	fl := core.NewFlow(g)
	in := map[int32]set{}
	blocks := fl.CFG.Blocks
	if len(blocks) == 0 {
		return nil
	}
	in[blocks[0].Index] = set{"?": true}
	// a helper that is only ever called: what its callers emitted last holds at its entry
	if depth < 2 && g.Decl != nil {
		if calls, complete := c.callSitesOf(g); complete && len(calls) > 0 {
			entry := set{}
			for _, cs := range calls {
				le := c.lastEmitsFrom(cs.in, cs.call, emit, depth+1)
				if len(le) == 0 {
					entry = nil
					break
				}
				for k := range le {
					entry[k] = true
				}
			}
			if len(entry) > 0 {
				in[blocks[0].Index] = entry
			}
		}
	}
	var result set
	transfer := func(b int32, nodes []ast.Node, st set, record bool) set {
		cur := set{}
		for k := range st {
			cur[k] = true
		}
		for _, n := range nodes {
			var calls []*ast.CallExpr
			ast.Inspect(n, func(x ast.Node) bool {
				if _, isLit := x.(*ast.FuncLit); isLit {
					return false
				}
				if cl, ok := x.(*ast.CallExpr); ok {
					calls = append(calls, cl)
				}
				return true
			})
			// inner calls are evaluated first
			for i := len(calls) - 1; i >= 0; i-- {
				cl := calls[i]
				if record && ast.Node(cl) == at {
					result = set{}
					for k := range cur {
						result[k] = true
					}
				}
				fo := core.StaticCallee(info, cl)
				switch {
				case fo != nil && c.P.FuncOf(fo) == emit && len(cl.Args) == 1:
					if _, isConst := info.Types[cl.Args[0]]; isConst && info.Types[cl.Args[0]].Value != nil {
						cur = set{exprStr(cl.Args[0]): true}
					} else if cc := enclosingCase(c.P, cl); cc != nil && len(cc.List) > 0 && allConst(info, cc.List) {
						// emit(tok) under `case ';', '\n':`
						cur = set{}
						for _, e := range cc.List {
							cur[exprStr(e)] = true
						}
					} else {
						cur = set{"?": true}
					}
				case disturbs(cl):
					cur = set{"?": true}
				}
			}
		}
		return cur
	}
	work := []int32{blocks[0].Index}
	byIdx := map[int32]int{}
	for i, b := range blocks {
		byIdx[b.Index] = i
	}
	for len(work) > 0 {
		bi := work[0]
		work = work[1:]
		b := blocks[byIdx[bi]]
		out := transfer(bi, b.Nodes, in[bi], false)
		for _, sc := range b.Succs {
			changed := false
			if in[sc.Index] == nil {
				in[sc.Index] = set{}
				changed = true
			}
			for k := range out {
				if !in[sc.Index][k] {
					in[sc.Index][k] = true
					changed = true
				}
			}
			if changed {
				work = append(work, sc.Index)
			}
		}
	}
	for _, b := range blocks {
		if in[b.Index] != nil {
			transfer(b.Index, b.Nodes, in[b.Index], true)
		}
	}
	if result["?"] {
		return nil
	}
	return result
}

// ---------------------------------------------------------------------------
// HD9: the here-document reader starts with an empty scratch buffer.

func ruleHD9() Rule {
	return Rule{ID: "HD9", Kind: "must", Floor: 2,
		Doc: "the lexer's scratch buffer (the strings.Builder that collects the text of the word or comment being scanned) is shared with the here-document reader, which uses it to render the delimiter and the body literals: wherever the reader is called, everything written to the buffer since the function was entered has been flushed (comment(), lit() or Reset) on every path; otherwise the text of a pending comment is glued in front of the delimiter, the delimiter line is never recognised and the comment is lost",
		Run: func(c *Ctx, rr *core.RuleResult) {
			reader := c.mustFn(rr, "parser.(*lexer).readHeredocs")
			buf := c.fieldVar("parser", "lexer", "b")
			if reader == nil || buf == nil {
				if buf == nil {
					rr.Unkp(c.P, "parser.lexer.b", 0, "the lexer's scratch buffer field was not found")
				}
				return
			}
			bufCall := func(info *types.Info, n ast.Node) string {
				call, ok := n.(*ast.CallExpr)
				if !ok {
					return ""
				}
				se, ok := call.Fun.(*ast.SelectorExpr)
				if !ok || core.FieldOf(info, se.X) != buf {
					return ""
				}
				return se.Sel.Name
			}
			funcs := c.funcsOfPkg("parser", false)
			writes, resets := map[*core.Func]bool{}, map[*core.Func]bool{}
			for _, f := range funcs {
				info := f.Info()
				f.OwnNodes(func(n ast.Node) bool {
					switch m := bufCall(info, n); {
					case strings.HasPrefix(m, "Write"):
						writes[f.Root()] = true
					case m == "Reset":
						resets[f.Root()] = true
					}
					return true
				})
			}
			// flushers empty the buffer and put nothing in; writers (transitively) may leave text in it
			flusher := func(f *core.Func) bool { return f != nil && resets[f] && !writes[f] }
			writer := map[*core.Func]bool{}
			for f := range writes {
				if !flusher(f) {
					writer[f] = true
				}
			}
			for changed := true; changed; {
				changed = false
				for _, f := range funcs {
					if writer[f] || flusher(f) || f.Decl == nil {
						continue
					}
					info := f.Info()
					f.OwnNodes(func(n ast.Node) bool {
						if call, ok := n.(*ast.CallExpr); ok && !writer[f] {
							if fo := core.StaticCallee(info, call); fo != nil {
								if h := c.P.FuncOf(fo); h != nil && writer[h] {
									writer[f] = true
									changed = true
								}
							}
						}
						return true
					})
				}
			}
			// a writer that has flushed what it wrote whenever it returns (the token scanner: the
			// text is in the word, or recorded as a comment, before any return) leaves nothing behind
			cleanMemo := map[*core.Func]int{} // 1 clean, 2 not, 3 in progress
			flushedMemo := map[*core.Func]int{}
			var exitState func(h *core.Func, initial bool) bool
			var cleanAtExit func(h *core.Func) bool
			cleanAtExit = func(h *core.Func) bool { return exitState(h, true) }
			// flushedAtExit: whatever was pending when it was called, nothing is when it returns
			flushedAtExit := func(h *core.Func) bool { return exitState(h, false) }
			exitState = func(h *core.Func, initial bool) bool {
				cleanMemo := cleanMemo
				if !initial {
					cleanMemo = flushedMemo
				}
				switch cleanMemo[h] {
				case 1:
					return true
				case 2, 3:
					return false
				}
				cleanMemo[h] = 3
				ok := h != nil && h.Decl != nil && h.Body != nil
				if ok {
					hi := h.Info()
					st := core.NewFlow(h).MustSeen(initial, func(n ast.Node) bool {
						if bufCall(hi, n) == "Reset" {
							return true
						}
						if call, isCall := n.(*ast.CallExpr); isCall {
							if fo := core.StaticCallee(hi, call); fo != nil {
								return flusher(c.P.FuncOf(fo))
							}
						}
						return false
					}, func(n ast.Node) bool {
						if strings.HasPrefix(bufCall(hi, n), "Write") {
							return true
						}
						if call, isCall := n.(*ast.CallExpr); isCall {
							if fo := core.StaticCallee(hi, call); fo != nil {
								if k := c.P.FuncOf(fo); k != nil && k != h && writer[k] && !flusher(k) && !cleanAtExit(k) {
									return true
								}
							}
						}
						return false
					})
					rets := 0
					h.OwnNodes(func(n ast.Node) bool {
						if r, isRet := n.(*ast.ReturnStmt); isRet {
							// a negative constant is the scanners' error code: lexing stops there
							if len(r.Results) == 1 {
								if v, isC := constInt(hi, r.Results[0]); isC && v < 0 {
									return true
								}
							}
							rets++
							if !st[r] {
								ok = false
							}
						}
						return true
					})
					if k := len(h.Body.List); rets == 0 || k == 0 {
						ok = false
					} else if _, endsInReturn := h.Body.List[k-1].(*ast.ReturnStmt); !endsInReturn {
						if _, isFor := h.Body.List[k-1].(*ast.ForStmt); !isFor {
							ok = false
						}
					}
				}
				if ok {
					cleanMemo[h] = 1
				} else {
					cleanMemo[h] = 2
				}
				return ok
			}
			var check func(target *core.Func, depth int)
			seen := map[*core.Func]bool{}
			check = func(target *core.Func, depth int) {
				if seen[target] || depth > 2 {
					return
				}
				seen[target] = true
				for _, f := range funcs {
					if f.Decl == nil || f == target {
						continue
					}
					sites := c.callsTo(f, target)
					if len(sites) == 0 {
						continue
					}
					info := f.Info()
					clean := core.NewFlow(f).MustSeen(true, func(n ast.Node) bool {
						if bufCall(info, n) == "Reset" {
							return true
						}
						if call, ok := n.(*ast.CallExpr); ok {
							if fo := core.StaticCallee(info, call); fo != nil {
								h := c.P.FuncOf(fo)
								return flusher(h) || (h != nil && h != target && writer[h] && flushedAtExit(h))
							}
						}
						return false
					}, func(n ast.Node) bool {
						if strings.HasPrefix(bufCall(info, n), "Write") {
							return true
						}
						if call, ok := n.(*ast.CallExpr); ok {
							if fo := core.StaticCallee(info, call); fo != nil {
								if h := c.P.FuncOf(fo); h != nil && h != target && writer[h] && !flusher(h) && !cleanAtExit(h) {
									return true
								}
							}
						}
						return false
					})
					for i, call := range sites {
						key := fmt.Sprintf("%s|call of %s #%d", f.Name, target.Short, i+1)
						if clean[call] {
							rr.OK(f, key, call.Pos(), "flushed", "on every path the scratch buffer has been flushed after the last write to it")
						} else {
							rr.Bad(f, key, call.Pos(), "the here-document reader is reached on a path where text written to the lexer's scratch buffer (a comment being collected) has not been flushed: it is glued in front of the delimiter, the here-document is reported as delimited by EOF and the comment is lost (`cat <<E && # c`)")
						}
					}
					// a private helper that only wraps the call hands the obligation to its callers
					if f.Obj != nil && !f.Obj.Exported() && !writes[f] && !resets[f] && len(f.Body.List) <= 4 {
						check(f, depth+1)
					}
				}
			}
			check(reader, 0)
		}}
}

// ---------------------------------------------------------------------------
// TL1: the line of the last token.

// tokenLineField returns the lexer field the raw scanner compares with the
// current line to tell a trailing comment from one on a line of its own.
func (c *Ctx) tokenLineField() *types.Var {
	raw := c.fn("parser.(*lexer).scanRawToken")
	lineF := c.fieldVar("parser", "lexer", "line")
	if raw == nil || lineF == nil {
		return nil
	}
	var out *types.Var
	info := raw.Info()
	raw.OwnNodes(func(n ast.Node) bool {
		be, ok := n.(*ast.BinaryExpr)
		if !ok || be.Op != token.EQL || out != nil {
			return true
		}
		fx, fy := core.FieldOf(info, be.X), core.FieldOf(info, be.Y)
		switch {
		case fx == lineF && fy != nil && fy != lineF:
			out = fy
		case fy == lineF && fx != nil && fx != lineF:
			out = fx
		}
		return true
	})
	return out
}

func ruleTL1() Rule {
	return Rule{ID: "TL1", Kind: "must", Floor: 3,
		Doc: "the field in which the raw scanner remembers the line its last token ended on (compared with the current line to decide whether a `#` starts a trailing comment, which ends before the newline, or a comment on a line of its own) only ever holds 0 or a copy of the line counter - it is assigned nothing else, never incremented - and is brought up to date where the quote scanner drops a backslash-newline between tokens; otherwise a comment on a continued line swallows the newline that ends the command",
		Run: func(c *Ctx, rr *core.RuleResult) {
			x := c.tokenLineField()
			lineF := c.fieldVar("parser", "lexer", "line")
			if x == nil || lineF == nil {
				rr.Unkp(c.P, "parser|token line field", 0, "the raw scanner compares no field with the line counter: how a trailing comment is told from one on its own line was not recognised")
				return
			}
			n := 0
			for _, f := range c.funcsOfPkg("parser", false) {
				info := f.Info()
				// locals bound to the line counter
				lineCopy := map[types.Object]bool{}
				f.OwnNodes(func(nd ast.Node) bool {
					if as, ok := nd.(*ast.AssignStmt); ok && as.Tok == token.DEFINE && len(as.Lhs) == len(as.Rhs) {
						for i, l := range as.Lhs {
							if id, ok := l.(*ast.Ident); ok && core.FieldOf(info, as.Rhs[i]) == lineF {
								lineCopy[info.Defs[id]] = true
							}
						}
					}
					return true
				})
				f.OwnNodes(func(nd ast.Node) bool {
					switch s := nd.(type) {
					case *ast.IncDecStmt:
						if core.FieldOf(info, s.X) == x {
							n++
							rr.Bad(f, fmt.Sprintf("%s|%s%s", f.Name, x.Name(), s.Tok), s.Pos(), "the line of the last token is incremented or decremented: it holds 0 or a copy of the line counter, which read() has advanced already when a newline was consumed")
						}
					case *ast.AssignStmt:
						for i, l := range s.Lhs {
							if _, isSel := ast.Unparen(l).(*ast.SelectorExpr); !isSel || core.FieldOf(info, l) != x {
								continue
							}
							n++
							key := fmt.Sprintf("%s|%s assigned #%d", f.Name, x.Name(), n)
							ok := false
							if s.Tok == token.ASSIGN && len(s.Lhs) == len(s.Rhs) {
								r := ast.Unparen(s.Rhs[i])
								if core.FieldOf(info, r) == lineF {
									ok = true
								}
								if v, isC := constInt(info, r); isC && v == 0 {
									ok = true
								}
								if id, isID := r.(*ast.Ident); isID && lineCopy[info.Uses[id]] {
									ok = true
								}
							}
							if ok {
								rr.OK(f, key, s.Pos(), "line-or-zero", "assigned the line counter or 0")
							} else {
								rr.Bad(f, key, s.Pos(), "the line of the last token is assigned something other than the line counter or 0")
							}
						}
					}
					return true
				})
			}
			// every exit of the raw scanner records (or clears) the line: a deferred
			// function that assigns the field, or each return hands its token to a helper
			// that does
			if raw := c.fn("parser.(*lexer).scanRawToken"); raw != nil {
				info := raw.Info()
				assigns := func(root ast.Node, fi *types.Info) bool {
					found := false
					ast.Inspect(root, func(nd ast.Node) bool {
						if as, ok := nd.(*ast.AssignStmt); ok {
							for _, l := range as.Lhs {
								if core.FieldOf(fi, l) == x {
									found = true
								}
							}
						}
						return true
					})
					return found
				}
				deferred := false
				for _, st := range raw.Body.List {
					if d, ok := st.(*ast.DeferStmt); ok {
						if lit, ok := d.Call.Fun.(*ast.FuncLit); ok && assigns(lit.Body, info) {
							deferred = true
						}
						if fo := core.StaticCallee(info, d.Call); fo != nil {
							if h := c.P.FuncOf(fo); h != nil && h.Body != nil && assigns(h.Body, h.Info()) {
								deferred = true
							}
						}
					}
				}
				key := raw.Name + "|every exit records the line"
				if deferred {
					rr.OK(raw, key, raw.Pos(), "deferred", "a deferred function assigns the field on every exit")
				} else {
					bare := token.NoPos
					nret := 0
					raw.OwnNodes(func(nd ast.Node) bool {
						r, ok := nd.(*ast.ReturnStmt)
						if !ok {
							return true
						}
						nret++
						covered := false
						if len(r.Results) == 1 {
							if call, ok := ast.Unparen(r.Results[0]).(*ast.CallExpr); ok {
								if fo := core.StaticCallee(info, call); fo != nil {
									if h := c.P.FuncOf(fo); h != nil && h.Body != nil && assigns(h.Body, h.Info()) {
										covered = true
									}
								}
							}
						}
						if !covered && bare == token.NoPos {
							bare = r.Pos()
						}
						return true
					})
					if bare == token.NoPos && nret > 0 {
						rr.OK(raw, key, raw.Pos(), "per-return", fmt.Sprintf("each of the %d returns hands its token to a helper that assigns the field", nret))
					} else {
						rr.Bad(raw, key, bare, fmt.Sprintf("the raw scanner returns here without recording the line of the token in %s: the field keeps the line of an earlier token, and a comment glued to this word (`ls#c`) is treated as one on a line of its own, which swallows the newline", x.Name()))
					}
				}
			}
			// a scanner other than the raw one that delivers a token itself (the `))` found by
			// the arithmetic expression scanner) records the line too
			if gi := c.grammar("parser"); gi.Err == nil {
				raw := c.fn("parser.(*lexer).scanRawToken")
				for _, f := range c.funcsOfPkg("parser", false) {
					if f.Decl == nil || f == raw || f.Type.Results == nil || len(f.Type.Results.List) != 1 {
						continue
					}
					// only scanners that read for themselves; helpers of the raw scanner are covered by it
					info := f.Info()
					readFn := c.fn("parser.(*lexer).read")
					if len(c.callsTo(f, readFn)) == 0 {
						continue
					}
					// only scanners a lexer state function calls directly: what they return is what
					// the state machine takes for the last token
					fromState := false
					for _, g := range c.funcsOfPkg("parser", false) {
						if g.Decl == nil || g.Type.Results == nil || len(g.Type.Results.List) != 1 || exprStr(g.Type.Results.List[0].Type) != "action" {
							continue
						}
						if len(c.callsTo(g, f)) > 0 {
							fromState = true
						}
					}
					if !fromState {
						continue
					}
					recorded := core.NewFlow(f).MustSeen(false, func(n ast.Node) bool {
						as, ok := n.(*ast.AssignStmt)
						if !ok {
							return false
						}
						for _, l := range as.Lhs {
							if core.FieldOf(info, l) == x {
								return true
							}
						}
						return false
					}, nil)
					f.OwnNodes(func(nd ast.Node) bool {
						r, ok := nd.(*ast.ReturnStmt)
						if !ok || len(r.Results) != 1 {
							return true
						}
						id, ok := ast.Unparen(r.Results[0]).(*ast.Ident)
						if !ok {
							return true
						}
						if _, isTok := gi.G.Tokens[id.Name]; !isTok {
							return true
						}
						if _, isConst := info.Uses[id].(*types.Const); !isConst {
							return true
						}
						key := fmt.Sprintf("%s|delivers %s", f.Name, id.Name)
						if recorded[r] {
							rr.OK(f, key, r.Pos(), "recorded", "the line is recorded before the token is delivered")
						} else {
							rr.Bad(f, key, r.Pos(), fmt.Sprintf("a scanner other than the raw one delivers the token %s without recording its line in %s: a comment behind it (`((1 +` newline `2)) # c`) is taken for one on a line of its own and swallows the newline", id.Name, x.Name()))
						}
						return true
					})
				}
			}
			// the continuation between tokens
			if q := c.mustFn(rr, "parser.(*lexer).scanQuote"); q != nil {
				info := q.Info()
				isNL := func(e ast.Expr) bool {
					v, ok := constInt(info, e)
					return ok && v == '\n'
				}
				synced := func(root ast.Node) bool {
					found := false
					ast.Inspect(root, func(nd ast.Node) bool {
						as, ok := nd.(*ast.AssignStmt)
						if !ok || len(as.Lhs) != len(as.Rhs) {
							return true
						}
						for i, l := range as.Lhs {
							if core.FieldOf(info, l) != x || core.FieldOf(info, as.Rhs[i]) != lineF {
								continue
							}
							// at most under `x != 0`
							clean := true
							for _, gd := range guardsOf(c.P, as, root) {
								be, isBE := ast.Unparen(gd.cond).(*ast.BinaryExpr)
								if !isBE || !gd.pos || be.Op != token.NEQ || core.FieldOf(info, be.X) != x {
									clean = false
									continue
								}
								if v, isC := constInt(info, be.Y); !isC || v != 0 {
									clean = false
								}
							}
							if clean {
								found = true
							}
						}
						return true
					})
					return found
				}
				var branches []ast.Node
				q.OwnNodes(func(nd ast.Node) bool {
					ifs, ok := nd.(*ast.IfStmt)
					if !ok {
						return true
					}
					be, isBE := ast.Unparen(ifs.Cond).(*ast.BinaryExpr)
					if !isBE || !(isNL(be.X) || isNL(be.Y)) {
						return true
					}
					// only the escape directly behind the backslash: the if is a statement of a case '\\'
					inEsc := false
					for p := c.P.Parent(ifs); p != nil; p = c.P.Parent(p) {
						if cc, ok := p.(*ast.CaseClause); ok {
							for _, e := range cc.List {
								if v, isC := constInt(info, e); isC && v == '\\' {
									inEsc = true
								}
							}
							break
						}
					}
					if !inEsc {
						return true
					}
					switch {
					case be.Op == token.EQL:
						branches = append(branches, ifs.Body)
					case be.Op == token.NEQ && ifs.Else != nil:
						branches = append(branches, ifs.Else)
					case be.Op == token.NEQ:
						branches = append(branches, nil)
					}
					return true
				})
				key := q.Name + "|line continuation between tokens"
				switch {
				case len(branches) == 0:
					rr.Unk(q, key, q.Pos(), "the place where the quote scanner drops a backslash-newline was not recognised")
				default:
					ok := true
					for _, b := range branches {
						if b == nil || !synced(b) {
							ok = false
						}
					}
					if ok {
						rr.OK(q, key, branches[0].Pos(), "synchronised", fmt.Sprintf("where a backslash-newline is dropped, %s follows the line counter (unless it is 0: no token on the line yet)", x.Name()))
					} else {
						rr.Bad(q, key, q.Pos(), fmt.Sprintf("a backslash-newline is dropped without bringing %s up to the new line: a `#` on the continued line is not a trailing comment any more and swallows the newline that ends the command (`echo a \\` newline `# c` newline `echo b` becomes one command)", x.Name()))
					}
				}
			}
		}}
}

// ---------------------------------------------------------------------------
// ESC2: the escape helper conserves the backslash.

func ruleESC2() Rule {
	return Rule{ID: "ESC2", Kind: "must", Floor: 1,
		Doc: "in the helper that handles the character behind a backslash inside double-quotes and here-document bodies, the character is written to the scratch buffer only after the backslash has been written on the same path (a pair that is not an escape sequence stays in the text as it is); the paths that drop the backslash are those that record a quoting node (whose token is the backslash) or the line continuation.  Otherwise the body of a here-document loses a byte per `\\\"`",
		Run: func(c *Ctx, rr *core.RuleResult) {
			f := c.mustFn(rr, "parser.(*lexer).esc")
			buf := c.fieldVar("parser", "lexer", "b")
			if f == nil || buf == nil {
				return
			}
			info := f.Info()
			var param types.Object
			if f.Type.Params != nil {
				for _, fld := range f.Type.Params.List {
					for _, nm := range fld.Names {
						if b, ok := info.Defs[nm].Type().Underlying().(*types.Basic); ok && b.Kind() == types.Int32 && param == nil {
							param = info.Defs[nm]
						}
					}
				}
			}
			if param == nil {
				rr.Unk(f, f.Name+"|character parameter", f.Pos(), "the helper has no rune parameter")
				return
			}
			bufWrite := func(n ast.Node) (*ast.CallExpr, bool) {
				call, ok := n.(*ast.CallExpr)
				if !ok {
					return nil, false
				}
				se, ok := call.Fun.(*ast.SelectorExpr)
				if !ok || core.FieldOf(info, se.X) != buf || !strings.HasPrefix(se.Sel.Name, "Write") || len(call.Args) != 1 {
					return nil, false
				}
				return call, true
			}
			isBackslash := func(e ast.Expr) bool {
				if v, ok := constInt(info, e); ok && v == '\\' {
					return true
				}
				s, ok := constStr(info, e)
				return ok && s == `\`
			}
			after := core.NewFlow(f).MustSeen(false, func(n ast.Node) bool {
				call, ok := bufWrite(n)
				return ok && isBackslash(call.Args[0])
			}, nil)
			n := 0
			f.OwnNodes(func(x ast.Node) bool {
				call, ok := bufWrite(x)
				if !ok {
					return true
				}
				id, isID := ast.Unparen(call.Args[0]).(*ast.Ident)
				if !isID || info.Uses[id] != param {
					// string(r) and the like
					uses := false
					ast.Inspect(call.Args[0], func(y ast.Node) bool {
						if id, ok := y.(*ast.Ident); ok && info.Uses[id] == param {
							uses = true
						}
						return true
					})
					if !uses {
						return true
					}
				}
				n++
				key := fmt.Sprintf("%s|character written #%d", f.Name, n)
				if after[call] {
					rr.OK(f, key, call.Pos(), "pair-kept", "the backslash has been written on every path to this write")
				} else {
					rr.Bad(f, key, call.Pos(), "the character behind the backslash is written to the text without the backslash on some path: `\\\"` in the body of a here-document (or any pair that is not an escape sequence) loses a byte")
				}
				return true
			})
			if n == 0 {
				rr.Unk(f, f.Name+"|character written", f.Pos(), "the helper never writes its character to the scratch buffer: idiom not recognised")
			}
		}}
}

// ---------------------------------------------------------------------------
// AL4: alias membership and the continuation flag.

func ruleAL4() Rule {
	return Rule{ID: "AL4", Kind: "must", Floor: 2,
		Doc: "(a) whether a word names an alias is decided by the comma-ok form of the read of the alias table, wherever the table is read (an alias whose value is the empty string is an alias: `alias nohup=''` removes the word); (b) a function that tries alias substitution on the word after an alias whose value ends in a blank decides that from the alias stack before the substitution pushes a new entry, so the re-scan after a successful substitution stays in the same activation - the function does not call itself, which would decide again from the stack top the substitution has just pushed and stop the chain after one replacement",
		Run: func(c *Ctx, rr *core.RuleResult) {
			aliases := c.fieldVar("interp", "ExecEnv", "Aliases")
			subst := c.mustFn(rr, "parser.(*lexer).subst")
			if aliases == nil || subst == nil {
				if aliases == nil {
					rr.Unkp(c.P, "interp.ExecEnv.Aliases", 0, "the alias table field was not found")
				}
				return
			}
			n := 0
			for _, pkg := range []string{"parser", "interp"} {
				for _, f := range c.funcsOfPkg(pkg, false) {
					info := f.Info()
					f.OwnNodes(func(x ast.Node) bool {
						ix, ok := x.(*ast.IndexExpr)
						if !ok || core.FieldOf(info, ix.X) != aliases {
							return true
						}
						// element written, deleted or ranged over: not a membership question
						switch p := c.P.Parent(ix).(type) {
						case *ast.AssignStmt:
							for _, l := range p.Lhs {
								if l == ast.Expr(ix) {
									return true
								}
							}
							n++
							key := fmt.Sprintf("%s|alias table read #%d", f.Name, n)
							if len(p.Lhs) == 2 && len(p.Rhs) == 1 {
								rr.OK(f, key, ix.Pos(), "comma-ok", "membership comes from the map read itself")
							} else {
								rr.Bad(f, key, ix.Pos(), "the alias table is read without the comma-ok form: an alias whose value is the empty string cannot be told from a word that is no alias, so `alias nohup=''` no longer removes the word")
							}
							return true
						}
						n++
						rr.Bad(f, fmt.Sprintf("%s|alias table read #%d", f.Name, n), ix.Pos(), "the alias table is read in an expression that cannot deliver membership (no comma-ok form)")
						return true
					})
				}
			}
			if n == 0 {
				rr.Unkp(c.P, "parser|alias table read", subst.Pos(), "no read of the alias table found in parser or interp")
			}
			for _, g := range c.funcsOfPkg("parser", false) {
				if g.Decl == nil || len(c.callsTo(g, subst)) == 0 {
					continue
				}
				key := g.Name + "|re-scan after substitution"
				if self := c.callsTo(g, g); len(self) != 0 {
					rr.Bad(g, key, self[0].Pos(), "the function that tries alias substitution calls itself to scan on: the new activation decides again whether the next word is examined, from the alias the substitution has just pushed (whose text is still unread), so a chain `sudo='sudo '`, `ll='ls -l'`, `ls='ls --color'` stops after one replacement")
				} else {
					rr.OK(g, key, g.Pos(), "same-activation", "no self-call: the continuation flag decided at entry governs the whole re-scan")
				}
			}
		}}
}

// ---------------------------------------------------------------------------
// ESC3: one character behind a backslash.

func ruleESC3() Rule {
	return Rule{ID: "ESC3", Kind: "must", Floor: 2,
		Doc: "a backslash quotes exactly the next character: in the quote scanner's backslash clause one character is read - by the single direct call of read() - before the clause decides between a line continuation and a quoted character, and the escape helper used inside double-quotes and here-documents, which is handed the character, reads nothing itself; a helper that looks further ahead (`\\` CR LF taken as a continuation) drops a quoted character",
		Run: func(c *Ctx, rr *core.RuleResult) {
			q := c.mustFn(rr, "parser.(*lexer).scanQuote")
			esc := c.mustFn(rr, "parser.(*lexer).esc")
			read := c.fn("parser.(*lexer).read")
			if q == nil || esc == nil || read == nil {
				return
			}
			readers := func(f *core.Func, root ast.Node) (direct, other []*ast.CallExpr) {
				info := f.Info()
				ast.Inspect(root, func(n ast.Node) bool {
					if _, isLit := n.(*ast.FuncLit); isLit {
						return false
					}
					call, ok := n.(*ast.CallExpr)
					if !ok {
						return true
					}
					fo := core.StaticCallee(info, call)
					if fo == nil {
						return true
					}
					switch h := c.P.FuncOf(fo); {
					case h == nil:
					case h == read:
						direct = append(direct, call)
					case h.Pkg == f.Pkg && !h.Generated && c.reachesReadRune(h):
						other = append(other, call)
					}
					return true
				})
				return
			}
			info := q.Info()
			found := false
			q.OwnNodes(func(n ast.Node) bool {
				cc, ok := n.(*ast.CaseClause)
				if !ok {
					return true
				}
				isEsc := false
				for _, e := range cc.List {
					if v, isC := constInt(info, e); isC && v == '\\' {
						isEsc = true
					}
				}
				if !isEsc {
					return true
				}
				found = true
				var direct, other []*ast.CallExpr
				for _, st := range cc.Body {
					d, o := readers(q, st)
					direct, other = append(direct, d...), append(other, o...)
				}
				key := q.Name + "|backslash clause reads one character"
				switch {
				case len(direct) == 1 && len(other) == 0:
					rr.OK(q, key, cc.Pos(), "one-read", "one direct call of read(), nothing else in the clause reaches the input")
				case len(other) > 0:
					rr.Bad(q, key, other[0].Pos(), "the backslash clause calls something else that reads the input besides its own read(): more than the one character behind the backslash can be consumed before the clause decides what is quoted")
				default:
					rr.Bad(q, key, cc.Pos(), fmt.Sprintf("the backslash clause contains %d calls of read(): a backslash quotes exactly one character", len(direct)))
				}
				return true
			})
			if !found {
				rr.Unk(q, q.Name+"|backslash clause reads one character", q.Pos(), "no case for the backslash in the quote scanner")
			}
			d, o := readers(esc, esc.Body)
			key := esc.Name + "|reads nothing"
			if len(d)+len(o) == 0 {
				rr.OK(esc, key, esc.Pos(), "no-read", "the helper works on the character it is handed")
			} else {
				at := esc.Pos()
				if len(d) > 0 {
					at = d[0].Pos()
				} else {
					at = o[0].Pos()
				}
				rr.Bad(esc, key, at, "the escape helper reads the input itself: the character behind the backslash is no longer the only one it decides on")
			}
		}}
}

// ---------------------------------------------------------------------------
// SIB1: the word scanners agree on what starts an expansion.

func ruleSIB1() Rule {
	return Rule{ID: "SIB1", Kind: "agreement", Floor: 4,
		Doc: "the lexer scans words in several places (a bare word, inside double-quotes, a here-document body, an arithmetic expression, the word of ${parameter:-word}); each is a switch over the character read. Every such switch that hands `$` to the parameter/command expansion scanner also hands a back-quote to the command substitution scanner: the two start an expansion in exactly the same contexts (XCU 2.6), so a scanner that knows one and not the other treats a back-quoted substitution as text (and ends the construct at a `}` inside it)",
		Run: func(c *Ctx, rr *core.RuleResult) {
			pexp := c.mustFn(rr, "parser.(*lexer).scanParamExp")
			csub := c.mustFn(rr, "parser.(*lexer).scanCmdSubst")
			if pexp == nil || csub == nil {
				return
			}
			for _, f := range c.funcsOfPkg("parser", false) {
				if f.Decl == nil {
					continue
				}
				info := f.Info()
				n := 0
				for _, sw := range switches(c.P, f) {
					d := sw.clauseFor('$')
					if d == nil {
						continue
					}
					// the scanner is called in the clause, or by a helper the clause hands the
					// character to (`case '$', '`': if !l.scanExp(r) …`), at most three levels down
					var reaches func(h *core.Func, g *core.Func, depth int) bool
					reaches = func(h *core.Func, g *core.Func, depth int) bool {
						if h == nil || h.Body == nil || depth > 3 || len(h.Body.List) > 8 {
							return false
						}
						hi := h.Info()
						runeParam := map[types.Object]bool{}
						if h.Type.Params != nil {
							for _, fld := range h.Type.Params.List {
								for _, nm := range fld.Names {
									if o := hi.Defs[nm]; o != nil && o.Type().String() == "rune" {
										runeParam[o] = true
									}
								}
							}
						}
						if len(runeParam) == 0 {
							return false
						}
						found := false
						h.OwnNodes(func(x ast.Node) bool {
							call, ok := x.(*ast.CallExpr)
							if !ok || found {
								return !found
							}
							fo := core.StaticCallee(hi, call)
							if fo == nil {
								return true
							}
							k := c.P.FuncOf(fo)
							if c.effective(k) == c.effective(g) {
								found = true
								return false
							}
							for _, a := range call.Args {
								if id, isID := ast.Unparen(a).(*ast.Ident); isID && runeParam[hi.Uses[id]] && k != h && reaches(k, g, depth+1) {
									found = true
								}
							}
							return !found
						})
						return found
					}
					calls := func(cl *swClause, g *core.Func) bool {
						found := false
						for _, st := range cl.cc.Body {
							ast.Inspect(st, func(x ast.Node) bool {
								if call, ok := x.(*ast.CallExpr); ok {
									if fo := core.StaticCallee(info, call); fo != nil {
										k := c.P.FuncOf(fo)
										if c.effective(k) == c.effective(g) {
											found = true
										} else if sw.tagObj != nil {
											for _, a := range call.Args {
												if id, isID := ast.Unparen(a).(*ast.Ident); isID && info.Uses[id] == sw.tagObj && reaches(k, g, 1) {
													found = true
												}
											}
										}
									}
								}
								return !found
							})
						}
						return found
					}
					if !calls(d, pexp) {
						continue
					}
					n++
					key := fmt.Sprintf("%s|switch #%d with `$`", f.Name, n)
					bq := sw.clauseFor('`')
					switch {
					case bq != nil && calls(bq, csub):
						rr.OK(f, key, d.cc.Pos(), "both", "`$` and the back-quote both start an expansion here")
					case bq != nil:
						rr.Bad(f, key, bq.cc.Pos(), "the back-quote has a case here but is not handed to the command substitution scanner")
					default:
						rr.Bad(f, key, d.cc.Pos(), "this scanner hands `$` to the expansion scanner but has no case for the back-quote: a back-quoted command substitution in this context is kept as text, and a `}` or `)` inside it ends the surrounding construct")
					}
				}
			}
		}}
}

// ---------------------------------------------------------------------------
// LB3 / CM5: linebreak and the backslash; the position after a comment.

func ruleLB3() Rule {
	return Rule{ID: "LB3", Kind: "must", Floor: 2,
		Doc: "linebreak(): (LB3) a backslash met while skipping newlines is handed to the quote scanner - a backslash-newline is a line continuation, which is not the end of the linebreak (`a && \\` newline, empty line, `b`), anything else begins the next word; (CM5) wherever a comment is flushed and linebreak then returns to let the scanner go on, the position is marked behind the comment first, so that the token which ends the comment (the closing back-quote of a substitution) is not recorded at the position of the `#`",
		Run: func(c *Ctx, rr *core.RuleResult) {
			f := c.mustFn(rr, "parser.(*lexer).linebreak")
			quote := c.fn("parser.(*lexer).scanQuote")
			comment := c.fn("parser.(*lexer).comment")
			markFn := c.fn("parser.(*lexer).mark")
			if f == nil || quote == nil || comment == nil || markFn == nil {
				return
			}
			info := f.Info()
			isCallOf := func(g *core.Func) func(ast.Node) bool {
				return func(n ast.Node) bool {
					call, ok := n.(*ast.CallExpr)
					if !ok {
						return false
					}
					fo := core.StaticCallee(info, call)
					return fo != nil && c.P.FuncOf(fo) == g
				}
			}
			// LB3
			key := f.Name + "|backslash while skipping newlines"
			handed := false
			c.regionNodes(f, func(g *core.Func, n ast.Node) bool {
				call, ok := n.(*ast.CallExpr)
				if !ok {
					return true
				}
				gi := g.Info()
				if fo := core.StaticCallee(gi, call); fo == nil || c.P.FuncOf(fo) != quote {
					return true
				}
				for _, gd := range guardsOf(c.P, call, nil) {
					if be, ok := ast.Unparen(gd.cond).(*ast.BinaryExpr); ok && gd.pos && be.Op == token.EQL {
						if v, isC := constInt(gi, be.Y); isC && v == '\\' {
							handed = true
						}
					}
				}
				for p := c.P.Parent(call); p != nil; p = c.P.Parent(p) {
					if cc, ok := p.(*ast.CaseClause); ok {
						for _, e := range cc.List {
							if v, isC := constInt(gi, e); isC && v == '\\' {
								handed = true
							}
						}
					}
				}
				return true
			})
			if handed {
				rr.OK(f, key, f.Pos(), "quote-scanner", "a backslash is handed to the quote scanner, which drops a line continuation")
			} else {
				rr.Bad(f, key, f.Pos(), "linebreak pushes a backslash back and reports the end of the linebreak: after a line continuation the newlines that follow are delivered as tokens where the grammar has had its linebreak already (`a && \\` newline, empty line, `b` is rejected)")
			}
			// CM5
			marked := core.NewFlow(f).MustSeen(true, isCallOf(markFn), isCallOf(comment))
			bad := token.NoPos
			nret := 0
			f.OwnNodes(func(n ast.Node) bool {
				r, ok := n.(*ast.ReturnStmt)
				if !ok || len(r.Results) != 1 {
					return true
				}
				if tv, has := info.Types[r.Results[0]]; !has || tv.Value == nil || tv.Value.String() != "true" {
					return true
				}
				nret++
				if !marked[r] {
					bad = r.Pos()
				}
				return true
			})
			key = f.Name + "|position marked behind a flushed comment"
			switch {
			case nret == 0:
				rr.Unk(f, key, f.Pos(), "linebreak has no `return true`")
			case bad == token.NoPos:
				rr.OK(f, key, f.Pos(), "marked", fmt.Sprintf("each of the %d successful returns is reached with mark() called after the last comment()", nret))
			default:
				rr.Bad(f, key, bad, "linebreak flushes a comment and returns without mark(): the next token (the closing back-quote that ends the comment) is recorded at the position of the `#`, so the node that ends there is too short")
			}
		}}
}

// ---------------------------------------------------------------------------
// GT1: the code at a label sees the variables of the goto.

func ruleGT1() Rule {
	return Rule{ID: "GT1", Kind: "must", Floor: 3,
		Doc: "the lexer's scanners leave through shared labels (`goto Error`) whose code examines local variables - above all the error just returned by read(). At every goto, each local variable the labelled code reads is the very variable visible under that name at the goto: an inner `err :=` (a helper's result tested in an `if … := …; err != nil { goto Error }`) shadows the one the label tests, which still holds the value of an earlier, successful read - the failure is then reported as nothing at all (an unterminated here-document accepted with a nil error)",
		Run: func(c *Ctx, rr *core.RuleResult) {
			for _, f := range c.funcsOfPkg("parser", false) {
				if f.Decl == nil || f.Body == nil {
					continue
				}
				info := f.Info()
				labels := map[string]*ast.LabeledStmt{}
				f.OwnNodes(func(n ast.Node) bool {
					if ls, ok := n.(*ast.LabeledStmt); ok {
						labels[ls.Label.Name] = ls
					}
					return true
				})
				if len(labels) == 0 {
					continue
				}
				// what the code at a label reads: identifiers used from the labelled statement to
				// the end of its block
				readsAt := func(ls *ast.LabeledStmt) map[string]types.Object {
					out := map[string]types.Object{}
					var list []ast.Stmt
					switch blk := c.P.Parent(ls).(type) {
					case *ast.BlockStmt:
						list = blk.List
					case *ast.CaseClause:
						list = blk.Body
					}
					on := false
					for _, st := range list {
						if st == ast.Stmt(ls) {
							on = true
						}
						if !on {
							continue
						}
						ast.Inspect(st, func(x ast.Node) bool {
							if id, ok := x.(*ast.Ident); ok {
								// variables that exist when control arrives (declared before the label), not
								// the ones the labelled code declares for itself
								if v, isVar := info.Uses[id].(*types.Var); isVar && !v.IsField() && v.Pkg() != nil && v.Parent() != v.Pkg().Scope() && v.Pos() < ls.Pos() {
									out[id.Name] = v
								}
							}
							return true
						})
					}
					return out
				}
				f.OwnNodes(func(n ast.Node) bool {
					br, ok := n.(*ast.BranchStmt)
					if !ok || br.Tok != token.GOTO || br.Label == nil {
						return true
					}
					ls := labels[br.Label.Name]
					if ls == nil {
						return true
					}
					// loops are labelled too; only labels that are jumped to by goto matter, and only
					// forward ones (the labelled code runs next)
					key := fmt.Sprintf("%s|goto %s at line %d", f.Name, br.Label.Name, c.P.Fset.Position(br.Pos()).Line-c.P.Fset.Position(f.Pos()).Line)
					var shadowed []string
					scope := f.Pkg.Types.Scope().Innermost(br.Pos())
					for name, want := range readsAt(ls) {
						if scope == nil {
							continue
						}
						_, got := scope.LookupParent(name, br.Pos())
						if got != nil && got != types.Object(want) {
							if _, isVar := got.(*types.Var); isVar {
								shadowed = append(shadowed, name)
							}
						}
					}
					sort.Strings(shadowed)
					if len(shadowed) == 0 {
						rr.OK(f, key, br.Pos(), "same-variables", "the labelled code reads the variables visible at the goto")
					} else {
						rr.Bad(f, key, br.Pos(), fmt.Sprintf("at this goto the name %s denotes an inner variable, the code at %s reads the outer one: the value that made control come here (the error of the failed read) is not the one examined, so the fault can go unreported", strings.Join(shadowed, ", "), br.Label.Name))
					}
					return true
				})
			}
		}}
}

// ---------------------------------------------------------------------------
// W1: the raw scanner continues a word that has been begun.

func ruleW1() Rule {
	return Rule{ID: "W1", Kind: "must-not", Floor: 1,
		Doc: "linebreak() may return with the next word already begun (a backslash-quoted character met while skipping newlines is scanned there), and the raw token scanner continues it; so the raw scanner itself never discards the word collected so far (no assignment of nil, an empty literal or a zero-length reslice to the lexer's word) - the word is reset by whoever has consumed it (emit, the substitution of an alias)",
		Run: func(c *Ctx, rr *core.RuleResult) {
			raw := c.mustFn(rr, "parser.(*lexer).scanRawToken")
			word := c.fieldVar("parser", "lexer", "word")
			if raw == nil || word == nil {
				return
			}
			info := raw.Info()
			bad := token.NoPos
			raw.OwnNodes(func(n ast.Node) bool {
				as, ok := n.(*ast.AssignStmt)
				if !ok || len(as.Lhs) != len(as.Rhs) {
					return true
				}
				for i, l := range as.Lhs {
					if _, isSel := ast.Unparen(l).(*ast.SelectorExpr); !isSel || core.FieldOf(info, l) != word {
						continue
					}
					switch r := ast.Unparen(as.Rhs[i]).(type) {
					case *ast.Ident:
						if r.Name == "nil" {
							bad = as.Pos()
						}
					case *ast.CompositeLit:
						if len(r.Elts) == 0 {
							bad = as.Pos()
						}
					case *ast.SliceExpr:
						if v, isC := constInt(info, r.High); r.High != nil && isC && v == 0 {
							bad = as.Pos()
						}
					}
				}
				return true
			})
			key := raw.Name + "|begun word kept"
			if bad == token.NoPos {
				rr.OK(raw, key, raw.Pos(), "append-only", "the raw scanner only appends to the word")
			} else {
				rr.Bad(raw, key, bad, "the raw scanner discards the word collected so far: a word whose first character was scanned by linebreak() (`true && \\*\\x`) loses that character")
			}
		}}
}

// tokenParamValues lists the token constants the callers of g pass for its
// parameter called name: constant arguments, and variables that the case
// clause around the call pins to a list of constants.  ok is false when g has
// no such parameter, assigns it, is not only called, or some argument is
// neither.
func (c *Ctx) tokenParamValues(g *core.Func, name string, use ast.Node) ([]string, bool) {
	if g.Type.Params == nil {
		return nil, false
	}
	info := g.Info()
	idx, k := -1, 0
	var pv *types.Var
	for _, fld := range g.Type.Params.List {
		for _, nm := range fld.Names {
			if nm.Name == name {
				idx = k
				pv, _ = info.Defs[nm].(*types.Var)
			}
			k++
		}
	}
	if idx < 0 || pv == nil {
		return nil, false
	}
	// the parameter still has the caller's value at the use: nothing assigns it before
	// (in the text), and no loop around the use assigns it
	stale := false
	isP := func(e ast.Expr) bool {
		id, ok := ast.Unparen(e).(*ast.Ident)
		return ok && info.Uses[id] == types.Object(pv)
	}
	assigns := func(n ast.Node) bool {
		found := false
		ast.Inspect(n, func(x ast.Node) bool {
			switch y := x.(type) {
			case *ast.AssignStmt:
				for _, l := range y.Lhs {
					if isP(l) {
						found = true
					}
				}
			case *ast.IncDecStmt:
				if isP(y.X) {
					found = true
				}
			case *ast.UnaryExpr:
				if y.Op == token.AND && isP(y.X) {
					found = true
				}
			}
			return true
		})
		return found
	}
	ast.Inspect(g.Body, func(x ast.Node) bool {
		if st, ok := x.(ast.Stmt); ok && st.End() <= use.Pos() {
			if _, isBlock := st.(*ast.BlockStmt); !isBlock && assigns(st) {
				stale = true
			}
		}
		return true
	})
	for x := c.P.Parent(use); x != nil; x = c.P.Parent(x) {
		switch x.(type) {
		case *ast.ForStmt, *ast.RangeStmt:
			if assigns(x) {
				stale = true
			}
		}
	}
	if stale {
		return nil, false
	}
	calls, complete := c.callSitesOf(g)
	if !complete || len(calls) == 0 {
		return nil, false
	}
	seen := map[string]bool{}
	var out []string
	for _, cs := range calls {
		if idx >= len(cs.call.Args) {
			return nil, false
		}
		arg := ast.Unparen(cs.call.Args[idx])
		ci := cs.in.Info()
		if tv, has := ci.Types[arg]; has && tv.Value != nil {
			if !seen[exprStr(arg)] {
				seen[exprStr(arg)] = true
				out = append(out, exprStr(arg))
			}
			continue
		}
		id, isID := arg.(*ast.Ident)
		cc := enclosingCase(c.P, cs.call)
		if !isID || cc == nil || len(cc.List) == 0 {
			return nil, false
		}
		// the clause must belong to a switch over that very variable, which is not assigned in the clause
		sw, _ := c.P.Parent(c.P.Parent(cc)).(*ast.SwitchStmt)
		if sw == nil || sw.Tag == nil {
			return nil, false
		}
		tag, isTag := ast.Unparen(sw.Tag).(*ast.Ident)
		if !isTag || ci.Uses[tag] != ci.Uses[id] {
			return nil, false
		}
		assigned := false
		for _, st := range cc.Body {
			ast.Inspect(st, func(x ast.Node) bool {
				if as, ok := x.(*ast.AssignStmt); ok && x.Pos() < cs.call.Pos() {
					for _, l := range as.Lhs {
						if lid, ok := ast.Unparen(l).(*ast.Ident); ok && ci.Uses[lid] == ci.Uses[id] {
							assigned = true
						}
					}
				}
				return true
			})
		}
		if assigned {
			return nil, false
		}
		for _, e := range cc.List {
			if tv, has := ci.Types[e]; !has || tv.Value == nil {
				return nil, false
			}
			if !seen[exprStr(e)] {
				seen[exprStr(e)] = true
				out = append(out, exprStr(e))
			}
		}
	}
	sort.Strings(out)
	return out, true
}

// falseMeansNotWord: h returns (token, bool) and every return whose second
// result is false hands out a token that was compared with WORD and found
// different (or a constant other than WORD); the other returns say true.
func (c *Ctx) falseMeansNotWord(h *core.Func) bool {
	if h == nil || h.Body == nil || h.Type.Results == nil || h.Type.Results.NumFields() != 2 {
		return false
	}
	key := "falseMeansNotWord:" + h.Name
	if v, ok := c.cache[key]; ok {
		return v.(bool)
	}
	info := h.Info()
	ok, n := true, 0
	h.OwnNodes(func(x ast.Node) bool {
		ret, isRet := x.(*ast.ReturnStmt)
		if !isRet {
			return true
		}
		n++
		if len(ret.Results) != 2 {
			ok = false
			return true
		}
		tv, has := info.Types[ret.Results[1]]
		if !has || tv.Value == nil {
			ok = false
			return true
		}
		if tv.Value.String() == "true" {
			return true
		}
		// false: the token is no WORD here
		if t0, isC := info.Types[ret.Results[0]]; isC && t0.Value != nil {
			if exprStr(ret.Results[0]) == "WORD" {
				ok = false
			}
			return true
		}
		id, isID := ast.Unparen(ret.Results[0]).(*ast.Ident)
		if !isID {
			ok = false
			return true
		}
		proved := false
		for _, gd := range guardsOf(c.P, ret, nil) {
			for _, cj := range conj(gd.cond) {
				be, isBE := ast.Unparen(cj).(*ast.BinaryExpr)
				if !isBE || !gd.pos || be.Op != token.NEQ || exprStr(be.Y) != "WORD" {
					continue
				}
				// `tok != WORD` or `tok = f(); tok != WORD`
				if xid, isX := ast.Unparen(be.X).(*ast.Ident); isX && info.Uses[xid] == info.Uses[id] {
					proved = true
				}
			}
		}
		if !proved {
			ok = false
		}
		return true
	})
	res := ok && n > 0
	c.cache[key] = res
	return res
}

func allConst(info *types.Info, es []ast.Expr) bool {
	for _, e := range es {
		if tv, ok := info.Types[e]; !ok || tv.Value == nil {
			return false
		}
	}
	return true
}
