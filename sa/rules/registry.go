// Package rules holds the repository-specific rules of the go.sh checker.
package rules

import (
	"fmt"
	"go/ast"
	"go/types"
	"sort"
	"strings"

	"verif/sa/core"
)

// Ctx is the per-run context shared by rules.
type Ctx struct {
	P        *core.Program
	Tier     string
	VerifDir string
	cache    map[string]interface{}
}

func NewCtx(p *core.Program, tier, verif string) *Ctx {
	return &Ctx{P: p, Tier: tier, VerifDir: verif, cache: map[string]interface{}{}}
}

// Rule is one check.
type Rule struct {
	ID    string
	Kind  string // must-not | must | agreement | meta
	Doc   string
	Floor int
	Run   func(c *Ctx, rr *core.RuleResult)
}

// Prop binds a property to its rules.
type Prop struct {
	ID          string
	Rules       []Rule
	Explanation string
	Assumptions []string
}

// RunProp runs every rule of a property.
func RunProp(c *Ctx, p *Prop) []*core.RuleResult {
	var out []*core.RuleResult
	for _, r := range p.Rules {
		rr := &core.RuleResult{ID: r.ID, Kind: r.Kind, Doc: r.Doc, Floor: r.Floor}
		func() {
			defer func() {
				if e := recover(); e != nil {
					rr.Unkp(c.P, "checker-panic", 0, fmt.Sprintf("rule %s panicked: %v", r.ID, e))
				}
			}()
			r.Run(c, rr)
		}()
		core.SortObs(rr.Obs)
		rr.Finish()
		out = append(out, rr)
	}
	return out
}

// ---------------------------------------------------------------------------
// helpers shared by rules

func (c *Ctx) fn(name string) *core.Func { return c.P.FuncByName(name) }

// mustFn returns the function or records an unresolved anchor.
func (c *Ctx) mustFn(rr *core.RuleResult, name string) *core.Func {
	f := c.P.FuncByName(name)
	if f == nil {
		rr.Unkp(c.P, "anchor:"+name, 0, "anchor function "+name+" not found in the source")
	}
	return f
}

func exprStr(e ast.Expr) string { return types.ExprString(e) }

// funcsOfPkg returns the hand-written functions of a package.
func (c *Ctx) funcsOfPkg(pkg string, includeGenerated bool) []*core.Func {
	var out []*core.Func
	for _, f := range c.P.Funcs {
		if f.Pkg.Name == pkg && (includeGenerated || !f.Generated) {
			out = append(out, f)
		}
	}
	return out
}

func sortedFuncs(m map[*core.Func]bool) []*core.Func {
	var out []*core.Func
	for f := range m {
		out = append(out, f)
	}
	sort.Slice(out, func(i, j int) bool { return out[i].Name < out[j].Name })
	return out
}

// exported API roots
func (c *Ctx) roots(names ...string) []*core.Func {
	var out []*core.Func
	for _, n := range names {
		if f := c.P.FuncByName(n); f != nil {
			out = append(out, f)
		}
	}
	return out
}

// methodsNamed returns all declared methods with the given name in a package.
func (c *Ctx) methodsNamed(pkg string, names ...string) []*core.Func {
	var out []*core.Func
	for _, f := range c.P.Funcs {
		if f.Pkg.Name != pkg || f.Decl == nil || f.Decl.Recv == nil {
			continue
		}
		for _, n := range names {
			if f.Decl.Name.Name == n {
				out = append(out, f)
			}
		}
	}
	return out
}

func hasPrefixAny(s string, ps ...string) bool {
	for _, p := range ps {
		if strings.HasPrefix(s, p) {
			return true
		}
	}
	return false
}

// TierNote describes what the tier adds.
func (p *Prop) TierNote(tier string) string {
	if tier == "thorough" {
		return "thorough: quick rules on linux/amd64, plus the same rules re-run under windows/amd64 and linux/386 build configurations (build-tagged files), plus rule-liveness seeds"
	}
	return "quick: all rules of the property on linux/amd64"
}
