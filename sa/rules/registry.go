// Package rules holds the repository-specific rules of the go.sh checker.
package rules

import (
	"fmt"
	"go/ast"
	"go/token"
	"go/types"
	"sort"
	"strings"

	"verif/sa/core"
)

// Ctx is the per-run context shared by rules.
type Ctx struct {
	P        *core.Program
	Tier     string
	VerifDir string
	cache    map[string]interface{}
}

func NewCtx(p *core.Program, tier, verif string) *Ctx {
	c := &Ctx{P: p, Tier: tier, VerifDir: verif, cache: map[string]interface{}{}}
	core.CondOracle = c.knownCond
	core.NonNegFields = c.nonNegFields()
	return c
}

// Rule is one check.
type Rule struct {
	ID    string
	Kind  string // must-not | must | agreement | meta
	Doc   string
	Floor int
	Run   func(c *Ctx, rr *core.RuleResult)
}

// Prop binds a property to its rules.
type Prop struct {
	ID          string
	Rules       []Rule
	Explanation string
	Assumptions []string
}

// RunProp runs every rule of a property.
func RunProp(c *Ctx, p *Prop) []*core.RuleResult {
	var out []*core.RuleResult
	for _, r := range p.Rules {
		rr := &core.RuleResult{ID: r.ID, Kind: r.Kind, Doc: r.Doc, Floor: r.Floor}
		func() {
			defer func() {
				if e := recover(); e != nil {
					rr.Unkp(c.P, "checker-panic", 0, fmt.Sprintf("rule %s panicked: %v", r.ID, e))
				}
			}()
			r.Run(c, rr)
		}()
		core.SortObs(rr.Obs)
		rr.Finish()
		out = append(out, rr)
	}
	return out
}

// ---------------------------------------------------------------------------
// helpers shared by rules

func (c *Ctx) fn(name string) *core.Func { return c.P.FuncByName(name) }

// mustFn returns the function or records an unresolved anchor.
func (c *Ctx) mustFn(rr *core.RuleResult, name string) *core.Func {
	f := c.P.FuncByName(name)
	if f == nil {
		rr.Unkp(c.P, "anchor:"+name, 0, "anchor function "+name+" not found in the source")
	}
	return f
}

func exprStr(e ast.Expr) string { return types.ExprString(e) }

// funcsOfPkg returns the hand-written functions of a package.
func (c *Ctx) funcsOfPkg(pkg string, includeGenerated bool) []*core.Func {
	var out []*core.Func
	for _, f := range c.P.Funcs {
		if f.Pkg.Name == pkg && (includeGenerated || !f.Generated) {
			out = append(out, f)
		}
	}
	return out
}

func sortedFuncs(m map[*core.Func]bool) []*core.Func {
	var out []*core.Func
	for f := range m {
		out = append(out, f)
	}
	sort.Slice(out, func(i, j int) bool { return out[i].Name < out[j].Name })
	return out
}

// exported API roots
func (c *Ctx) roots(names ...string) []*core.Func {
	var out []*core.Func
	for _, n := range names {
		if f := c.P.FuncByName(n); f != nil {
			out = append(out, f)
		}
	}
	return out
}

// methodsNamed returns all declared methods with the given name in a package.
func (c *Ctx) methodsNamed(pkg string, names ...string) []*core.Func {
	var out []*core.Func
	for _, f := range c.P.Funcs {
		if f.Pkg.Name != pkg || f.Decl == nil || f.Decl.Recv == nil {
			continue
		}
		for _, n := range names {
			if f.Decl.Name.Name == n {
				out = append(out, f)
			}
		}
	}
	return out
}

func hasPrefixAny(s string, ps ...string) bool {
	for _, p := range ps {
		if strings.HasPrefix(s, p) {
			return true
		}
	}
	return false
}

// TierNote describes what the tier adds.
func (p *Prop) TierNote(tier string) string {
	if tier == "thorough" {
		return "thorough: quick rules on linux/amd64, plus the same rules re-run under windows/amd64 and linux/386 build configurations (build-tagged files), plus rule-liveness seeds"
	}
	return "quick: all rules of the property on linux/amd64"
}

// region returns f together with its private helpers: declared, unexported
// functions of the same package that are only ever called (never used as a
// value) and all of whose call sites lie inside the region.  Code extracted
// from an anchor function into such helpers still belongs to the anchor as far
// as rules that search the anchor's body are concerned.  The order is f first,
// then helpers in source order.
func (c *Ctx) region(f *core.Func) []*core.Func {
	if f == nil {
		return nil
	}
	key := "region:" + f.Name
	if v, ok := c.cache[key]; ok {
		return v.([]*core.Func)
	}
	in := map[*core.Func]bool{f: true}
	for _, l := range f.Lits {
		in[l] = true
	}
	// a function that only hands its arguments to another function of the package
	// (the old entry point kept as a wrapper of a variant with more parameters)
	// shares the region of that function
	for g, n := c.delegateOf(f), 0; g != nil && n < 3; g, n = c.delegateOf(g), n+1 {
		in[g] = true
		for _, l := range g.Lits {
			in[l] = true
		}
	}
	cg := c.P.CG()
	for changed := true; changed; {
		changed = false
		// candidates: callees of region members
		var cands []*core.Func
		for g := range in {
			for h := range cg.Edges[g] {
				if !in[h] && h.Decl != nil && h.Pkg == f.Pkg && h.Obj != nil && !h.Generated {
					cands = append(cands, h)
				}
			}
		}
		for _, h := range cands {
			if in[h] {
				continue
			}
			calls, complete := c.callSites(h, true)
			if !complete || len(calls) == 0 {
				continue
			}
			all := true
			for _, cs := range calls {
				if !in[cs.in] && !in[cs.in.Root()] {
					all = false
				}
			}
			if all {
				in[h] = true
				for _, l := range h.Lits {
					in[l] = true
				}
				changed = true
			}
		}
	}
	out := []*core.Func{f}
	var rest []*core.Func
	for g := range in {
		if g != f && g.Lit == nil {
			rest = append(rest, g)
		}
	}
	sort.Slice(rest, func(i, j int) bool { return rest[i].Pos() < rest[j].Pos() })
	out = append(out, rest...)
	c.cache[key] = out
	return out
}

// regionNodes visits the nodes of f and of its private helpers (function
// literals included).
func (c *Ctx) regionNodes(f *core.Func, visit func(g *core.Func, n ast.Node) bool) {
	var walk func(g *core.Func)
	walk = func(g *core.Func) {
		g.OwnNodes(func(n ast.Node) bool { return visit(g, n) })
		for _, l := range g.Lits {
			walk(l)
		}
	}
	for _, g := range c.region(f) {
		walk(g)
	}
}

// inRegion reports whether g (or the declared function it is a literal of)
// belongs to the region of the function named anchor.
func (c *Ctx) inRegion(anchor string, g *core.Func) bool {
	if i := strings.Index(anchor, "$"); i >= 0 {
		anchor = anchor[:i]
	}
	a := c.fn(anchor)
	if a == nil {
		return false
	}
	root := g.Root()
	for _, h := range c.region(a) {
		if h == root {
			return true
		}
	}
	return false
}

// heredocReader returns the function that reads here-document bodies: the
// declared function of the parser's lexer that takes the pending redirections
// with heredoc.pop().  (By name it was lexHeredoc in the reference tree; the
// role is what the rules are about.)
func (c *Ctx) heredocReader(rr *core.RuleResult) *core.Func {
	pop := c.fn("parser.(*heredoc).pop")
	if pop != nil {
		var found *core.Func
		for _, f := range c.funcsOfPkg("parser", false) {
			if f.Decl == nil || f == pop {
				continue
			}
			if len(c.callsTo(f, pop)) > 0 && found == nil {
				found = f
			}
		}
		if found != nil {
			return found
		}
	}
	if rr == nil {
		return c.fn("parser.(*lexer).lexHeredoc")
	}
	return c.mustFn(rr, "parser.(*lexer).lexHeredoc")
}

// errorReporters returns the parser lexer's error recorder and every private
// function of the package that reports through it unconditionally (a
// formatting wrapper such as errorf): one of the top-level statements of its
// body is a call of a reporter.
func (c *Ctx) errorReporters() map[*core.Func]bool {
	if v, ok := c.cache["errorReporters"]; ok {
		return v.(map[*core.Func]bool)
	}
	out := map[*core.Func]bool{}
	if e := c.fn("parser.(*lexer).error"); e != nil {
		out[e] = true
		// when error() is itself a thin wrapper, what it hands over to is the recorder
		out[c.effective(e)] = true
	}
	for changed := true; changed; {
		changed = false
		for _, f := range c.funcsOfPkg("parser", false) {
			if out[f] || f.Decl == nil || f.Obj == nil || f.Obj.Exported() {
				continue
			}
			info := f.Info()
			for _, st := range f.Body.List {
				es, ok := st.(*ast.ExprStmt)
				if !ok {
					continue
				}
				if call, ok := es.X.(*ast.CallExpr); ok {
					if fo := core.StaticCallee(info, call); fo != nil && out[c.P.FuncOf(fo)] {
						out[f] = true
						changed = true
					}
				}
			}
		}
	}
	c.cache["errorReporters"] = out
	return out
}

// callsReporter reports whether n contains a call of an error reporter.
func (c *Ctx) callsReporter(info *types.Info, n ast.Node) bool {
	reps := c.errorReporters()
	found := false
	ast.Inspect(n, func(x ast.Node) bool {
		if call, ok := x.(*ast.CallExpr); ok {
			if fo := core.StaticCallee(info, call); fo != nil && reps[c.P.FuncOf(fo)] {
				found = true
			}
		}
		return !found
	})
	return found
}

// delegateOf returns the function f hands over to when f's body is nothing but
// `return g(…)` (or `g(…)` for a function without results) with g declared in
// the same package; nil otherwise.
func (c *Ctx) delegateOf(f *core.Func) *core.Func {
	g, _ := c.delegate(f)
	return g
}

// delegate is delegateOf that also accepts a leading declaration of a zero
// value on which the method is then called (`var g Globber; return
// g.Glob(pattern)`); zero reports that form.
func (c *Ctx) delegate(f *core.Func) (target *core.Func, zero bool) {
	if f == nil || f.Decl == nil || f.Body == nil || len(f.Body.List) == 0 || len(f.Body.List) > 2 {
		return nil, false
	}
	var zeroVar types.Object
	if len(f.Body.List) == 2 {
		info := f.Info()
		switch st := f.Body.List[0].(type) {
		case *ast.DeclStmt:
			if gd, ok := st.Decl.(*ast.GenDecl); ok && gd.Tok == token.VAR && len(gd.Specs) == 1 {
				if vs, ok := gd.Specs[0].(*ast.ValueSpec); ok && len(vs.Names) == 1 && len(vs.Values) == 0 {
					zeroVar = info.Defs[vs.Names[0]]
				}
			}
		case *ast.AssignStmt:
			if st.Tok == token.DEFINE && len(st.Lhs) == 1 && len(st.Rhs) == 1 {
				if id, ok := st.Lhs[0].(*ast.Ident); ok && isZeroValueExpr(info, st.Rhs[0]) {
					zeroVar = info.Defs[id]
				}
			}
		}
		if zeroVar == nil {
			return nil, false
		}
	}
	var call *ast.CallExpr
	switch st := f.Body.List[len(f.Body.List)-1].(type) {
	case *ast.ReturnStmt:
		if len(st.Results) == 1 {
			call, _ = ast.Unparen(st.Results[0]).(*ast.CallExpr)
		}
	case *ast.ExprStmt:
		call, _ = st.X.(*ast.CallExpr)
	}
	if call == nil {
		return nil, false
	}
	fo := core.StaticCallee(f.Info(), call)
	if fo == nil {
		return nil, false
	}
	g := c.P.FuncOf(fo)
	if g == nil || g == f || g.Pkg != f.Pkg || g.Body == nil || g.Generated {
		return nil, false
	}
	if se, ok := ast.Unparen(call.Fun).(*ast.SelectorExpr); ok {
		recv := ast.Unparen(se.X)
		if zeroVar != nil {
			id, isID := recv.(*ast.Ident)
			if !isID || f.Info().Uses[id] != zeroVar {
				return nil, false
			}
			return g, true
		}
		if isZeroValueExpr(f.Info(), recv) {
			return g, true
		}
	} else if zeroVar != nil {
		return nil, false
	}
	return g, false
}

// isZeroValueExpr: T{}, &T{}, new(T).
func isZeroValueExpr(info *types.Info, e ast.Expr) bool {
	e = ast.Unparen(e)
	if u, ok := e.(*ast.UnaryExpr); ok && u.Op == token.AND {
		e = ast.Unparen(u.X)
	}
	switch x := e.(type) {
	case *ast.CompositeLit:
		return len(x.Elts) == 0
	case *ast.CallExpr:
		return isBuiltinCall(info, x, "new") && len(x.Args) == 1
	}
	return false
}

// zeroReceiver reports whether method m runs, as far as the module itself is
// concerned, only on a zero value of its receiver type: every call of m in the
// module is the delegation of a wrapper that has just declared that value, and
// no function of the module assigns a field of the type or builds a non-empty
// literal of it.  (Callers outside the module may set the fields; they use an
// interface the properties do not speak about.)
func (c *Ctx) zeroReceiver(m *core.Func) bool {
	if m == nil || m.Decl == nil || m.Decl.Recv == nil || len(m.Decl.Recv.List) != 1 {
		return false
	}
	key := "zeroReceiver:" + m.Name
	if v, ok := c.cache[key]; ok {
		return v.(bool)
	}
	c.cache[key] = false
	calls, complete := c.callSites(m, true)
	if !complete || len(calls) == 0 {
		return false
	}
	for _, cs := range calls {
		if t, zero := c.delegate(cs.in); t != m || !zero {
			return false
		}
	}
	rt := m.Info().TypeOf(m.Decl.Recv.List[0].Type)
	if p, ok := rt.(*types.Pointer); ok {
		rt = p.Elem()
	}
	st, ok := rt.Underlying().(*types.Struct)
	if !ok {
		return false
	}
	fields := map[*types.Var]bool{}
	for i := 0; i < st.NumFields(); i++ {
		fields[st.Field(i)] = true
	}
	for _, f := range c.P.Funcs {
		if f.Pkg.Types.Path() != m.Pkg.Types.Path() && !ast.IsExported(rt.String()) {
			continue
		}
		info := f.Info()
		written := false
		f.OwnNodes(func(n ast.Node) bool {
			switch x := n.(type) {
			case *ast.AssignStmt:
				for _, l := range x.Lhs {
					if v := core.FieldOf(info, l); v != nil && fields[v] {
						written = true
					}
				}
			case *ast.IncDecStmt:
				if v := core.FieldOf(info, x.X); v != nil && fields[v] {
					written = true
				}
			case *ast.UnaryExpr:
				if x.Op == token.AND {
					if v := core.FieldOf(info, x.X); v != nil && fields[v] {
						written = true
					}
				}
			case *ast.CompositeLit:
				if tv, has := info.Types[x]; has && tv.Type != nil && len(x.Elts) > 0 {
					t := tv.Type
					if p, isPtr := t.(*types.Pointer); isPtr {
						t = p.Elem()
					}
					if types.Identical(t, rt) {
						written = true
					}
				}
			}
			return !written
		})
		if written {
			return false
		}
	}
	c.cache[key] = true
	return true
}

// effective follows delegateOf to the function that does the work.
func (c *Ctx) effective(f *core.Func) *core.Func {
	for n := 0; f != nil && n < 3; n++ {
		g := c.delegateOf(f)
		if g == nil {
			break
		}
		f = g
	}
	return f
}

// globalLiteral returns the composite literal a package-level variable is
// initialised with (nil if it has none).
func (c *Ctx) globalLiteral(pkg string, v *types.Var) *ast.CompositeLit {
	pk := c.P.Pkgs[pkg]
	if pk == nil {
		return nil
	}
	for _, f := range pk.Syntax {
		for _, d := range f.Decls {
			gd, ok := d.(*ast.GenDecl)
			if !ok {
				continue
			}
			for _, sp := range gd.Specs {
				vs, ok := sp.(*ast.ValueSpec)
				if !ok {
					continue
				}
				for i, nm := range vs.Names {
					if pk.TypesInfo.Defs[nm] == types.Object(v) && i < len(vs.Values) {
						if cl, ok := ast.Unparen(vs.Values[i]).(*ast.CompositeLit); ok {
							return cl
						}
					}
				}
			}
		}
	}
	return nil
}

// tableReaders: node x of function g is an element of a composite literal that
// g stores in a package-level variable (a dispatch table filled by init).  The
// functions that read the variable are returned; nil when x is not such an
// element or the variable is also written elsewhere.
func (c *Ctx) tableReaders(g *core.Func, x ast.Node) []*core.Func {
	info := g.Info()
	var lit *ast.CompositeLit
	for n := c.P.Parent(x); n != nil; n = c.P.Parent(n) {
		switch y := n.(type) {
		case *ast.KeyValueExpr, *ast.ParenExpr:
			continue
		case *ast.CompositeLit:
			lit = y
			continue
		case *ast.AssignStmt:
			if lit == nil || len(y.Lhs) != 1 || len(y.Rhs) != 1 || ast.Unparen(y.Rhs[0]) != ast.Expr(lit) {
				return nil
			}
			id, ok := ast.Unparen(y.Lhs[0]).(*ast.Ident)
			if !ok {
				return nil
			}
			v, ok := info.Uses[id].(*types.Var)
			if !ok || v.Pkg() == nil || v.Parent() != v.Pkg().Scope() {
				return nil
			}
			var readers []*core.Func
			writers := 0
			for _, h := range c.P.Funcs {
				if h.Pkg != g.Pkg {
					continue
				}
				hi := h.Info()
				h.OwnNodes(func(z ast.Node) bool {
					zid, ok := z.(*ast.Ident)
					if !ok || hi.Uses[zid] != types.Object(v) {
						return true
					}
					if as, isAs := c.P.Parent(zid).(*ast.AssignStmt); isAs {
						for _, l := range as.Lhs {
							if l == ast.Expr(zid) {
								writers++
								return true
							}
						}
					}
					if len(readers) == 0 || readers[len(readers)-1] != h {
						readers = append(readers, h)
					}
					return true
				})
			}
			if writers != 1 {
				return nil
			}
			return readers
		}
		break
	}
	return nil
}
