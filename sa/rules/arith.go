package rules

import (
	"fmt"
	"go/ast"
	"go/constant"
	"go/token"
	"go/types"
	"sort"
	"strconv"
	"strings"

	"verif/sa/core"
)

// matchedPath returns the runes matched on the way to n inside an operator
// scanner: enclosing single-rune case labels and `r == 'c'` conditions,
// outermost first.  multi holds the labels of an enclosing multi-rune case.
func matchedPath(p *core.Program, info *types.Info, n ast.Node) (path string, multi []rune) {
	var parts []string
	var child ast.Node = n
	for x := p.Parent(n); x != nil; child, x = x, p.Parent(x) {
		switch x := x.(type) {
		case *ast.CaseClause:
			var rs []rune
			for _, e := range x.List {
				if v, ok := constInt(info, e); ok {
					rs = append(rs, rune(v))
				}
			}
			if len(rs) == 1 {
				parts = append(parts, string(rs[0]))
			} else if len(rs) > 1 {
				multi = rs
			}
		case *ast.IfStmt:
			if child == ast.Node(x.Body) {
				if be, ok := ast.Unparen(x.Cond).(*ast.BinaryExpr); ok && be.Op == token.EQL {
					if v, ok := constInt(info, be.Y); ok {
						if _, isID := ast.Unparen(be.X).(*ast.Ident); isID {
							parts = append(parts, string(rune(v)))
						}
					}
				}
			}
		case *ast.FuncDecl, *ast.FuncLit:
			x = nil
		}
	}
	for i, j := 0, len(parts)-1; i < j; i, j = i+1, j-1 {
		parts[i], parts[j] = parts[j], parts[i]
	}
	return strings.Join(parts, ""), multi
}

// ruleTB9a: operator spellings recognised by the scanners = the ops tables.
func ruleTB9a(pkg, fn string, floor int) Rule {
	return Rule{ID: "TB9a", Kind: "agreement", Floor: floor,
		Doc: "in the operator scanner, the runes matched on the path to every `op = T` spell exactly ops[T] (so each token is produced for its own spelling and no other)",
		Run: func(c *Ctx, rr *core.RuleResult) {
			f := c.mustFn(rr, fn)
			if f == nil {
				return
			}
			ops, err := c.opsTable(pkg)
			if err != nil {
				rr.Unk(f, pkg+"|ops", f.Pos(), err.Error())
				return
			}
			info := f.Info()
			if c.tb9aByPaths(rr, pkg, f, ops) {
				return
			}
			produced := map[string]bool{}
			// the operator variable: a named result, or a local that is returned or passed to emit
			opVars := map[types.Object]bool{}
			if f.Type.Results != nil {
				for _, fld := range f.Type.Results.List {
					for _, nm := range fld.Names {
						opVars[info.Defs[nm]] = true
					}
				}
			}
			emitFn := c.fn(pkg + ".(*lexer).emit")
			f.OwnNodes(func(n ast.Node) bool {
				switch n := n.(type) {
				case *ast.ReturnStmt:
					for _, r := range n.Results {
						if id, ok := ast.Unparen(r).(*ast.Ident); ok {
							if v, ok := info.Uses[id].(*types.Var); ok {
								opVars[v] = true
							}
						}
					}
				case *ast.CallExpr:
					if fo := core.StaticCallee(info, n); fo != nil && c.P.FuncOf(fo) == emitFn && len(n.Args) == 1 {
						if id, ok := ast.Unparen(n.Args[0]).(*ast.Ident); ok {
							if v, ok := info.Uses[id].(*types.Var); ok {
								opVars[v] = true
							}
						}
					}
				}
				return true
			})
			f.OwnNodes(func(n ast.Node) bool {
				as, ok := n.(*ast.AssignStmt)
				if !ok || as.Tok != token.ASSIGN || len(as.Lhs) != 1 || len(as.Rhs) != 1 {
					return true
				}
				id, ok := as.Lhs[0].(*ast.Ident)
				if !ok || !opVars[info.Uses[id]] {
					return true
				}
				path, multi := matchedPath(c.P, info, as)
				rhs := ast.Unparen(as.Rhs[0])
				// op = l.either(T0, T1): a helper of the scanner that reads on and returns one
				// of the tokens it is handed; each returned parameter is produced for the
				// caller's path plus the runes the helper matched before that return
				if call, ok := rhs.(*ast.CallExpr); ok {
					if fo := core.StaticCallee(info, call); fo != nil {
						if h := c.P.FuncOf(fo); h != nil && h != f && h.Pkg == f.Pkg && h.Body != nil && h.Decl != nil && h.Type.Params != nil {
							hi := h.Info()
							idx := map[types.Object]int{}
							k := 0
							for _, fld := range h.Type.Params.List {
								for _, nm := range fld.Names {
									idx[hi.Defs[nm]] = k
									k++
								}
							}
							handled := false
							h.OwnNodes(func(y ast.Node) bool {
								ret, ok := y.(*ast.ReturnStmt)
								if !ok || len(ret.Results) != 1 {
									return true
								}
								id, ok := ast.Unparen(ret.Results[0]).(*ast.Ident)
								if !ok {
									return true
								}
								pi, isParam := idx[hi.Uses[id]]
								if !isParam || pi >= len(call.Args) {
									return true
								}
								arg := ast.Unparen(call.Args[pi])
								tv, ok := info.Types[arg]
								if !ok || tv.Value == nil {
									return true
								}
								hpath, hmulti := matchedPath(c.P, hi, ret)
								if len(hmulti) > 0 {
									return true
								}
								handled = true
								tk := exprStr(arg)
								key := fmt.Sprintf("%s|op=%s", f.Name, tk)
								produced[tk] = true
								got := path + hpath
								want, known := ops[tk]
								switch {
								case !known:
									rr.Bad(f, key, as.Pos(), "token "+tk+" has no spelling in the ops table")
								case want == got:
									rr.OK(f, key, as.Pos(), "equal", fmt.Sprintf("%q (through %s)", want, h.Short))
								default:
									rr.Bad(f, key, as.Pos(), fmt.Sprintf("token %s is produced after matching %q (through %s) but ops spells it %q: the operator is tokenised as a different one", tk, got, h.Short, want))
								}
								return true
							})
							if handled {
								return true
							}
						}
					}
				}
				// op = int(r) under a multi-rune case
				if call, ok := rhs.(*ast.CallExpr); ok && len(multi) > 0 {
					if tv, ok := info.Types[call.Fun]; ok && tv.IsType() {
						for _, r := range multi {
							k := "'" + string(r) + "'"
							key := fmt.Sprintf("%s|op=%s", f.Name, k)
							produced[k] = true
							if ops[k] == path+string(r) {
								rr.OK(f, key, as.Pos(), "equal", fmt.Sprintf("%q", ops[k]))
							} else {
								rr.Bad(f, key, as.Pos(), fmt.Sprintf("token %s is produced for the text %q but ops spells it %q", k, path+string(r), ops[k]))
							}
						}
						return true
					}
				}
				k := exprStr(rhs)
				if _, ok := info.Types[rhs]; !ok || info.Types[rhs].Value == nil {
					return true
				}
				if v, isInt := constInt(info, rhs); isInt && v <= 0 {
					if _, isName := ops[k]; !isName {
						return true // `op = 0`: no operator, not a token
					}
				}
				key := fmt.Sprintf("%s|op=%s", f.Name, k)
				produced[k] = true
				want, known := ops[k]
				switch {
				case !known:
					rr.Bad(f, key, as.Pos(), "token "+k+" has no spelling in the ops table")
				case want == path:
					rr.OK(f, key, as.Pos(), "equal", fmt.Sprintf("%q", want))
				default:
					rr.Bad(f, key, as.Pos(), fmt.Sprintf("token %s is produced after matching %q but ops spells it %q: the operator is tokenised as a different one", k, path, want))
				}
				return true
			})
			var missing []string
			for k := range ops {
				if !produced[k] {
					missing = append(missing, k)
				}
			}
			sort.Strings(missing)
			for _, k := range missing {
				rr.Bad(f, f.Name+"|never "+k, f.Pos(), fmt.Sprintf("ops names token %s (%q) but the scanner never produces it", k, ops[k]))
			}
		}}
}

// tb9aByPaths decides TB9a from the enumerated paths of the scanner (see
// scanpaths.go): the relation between consumed text and token is read off the
// paths whatever the scanner's shape (nested switches, helpers handed the
// continuation characters, constant tables).  It returns false - and reports
// nothing - when the walk leaves its fragment or cannot name a token; the
// syntactic rule then decides.
func (c *Ctx) tb9aByPaths(rr *core.RuleResult, pkg string, f *core.Func, ops map[string]string) bool {
	paths, why := c.scanPaths(pkg, f)
	if why != "" || len(paths) == 0 {
		rr.Note("%s: path enumeration not applicable (%s); decided syntactically", f.Name, why)
		return false
	}
	returnsToken := false
	if sig, ok := f.Obj.Type().(*types.Signature); ok && sig.Results().Len() >= 1 {
		if b, ok := sig.Results().At(0).Type().Underlying().(*types.Basic); ok && b.Info()&types.IsInteger != 0 {
			returnsToken = true
		}
	}
	sum := summariseScan(paths, returnsToken)
	if _, unnamed := sum[-1]; unnamed || len(sum) == 0 {
		rr.Note("%s: path enumeration could not name the token on some path; decided syntactically", f.Name)
		return false
	}
	// token names by value
	scope := c.P.Pkgs[pkg].Types.Scope()
	byValue := map[int64]string{}
	for name := range ops {
		if len(name) >= 3 && name[0] == '\'' {
			if r, _, _, err := strconv.UnquoteChar(name[1:len(name)-1], '\''); err == nil {
				byValue[int64(r)] = name
			}
			continue
		}
		if k, ok := scope.Lookup(name).(*types.Const); ok {
			if v, exact := constant.Int64Val(k.Val()); exact {
				byValue[v] = name
			}
		}
	}
	if len(byValue) != len(ops) {
		rr.Note("%s: %d of %d token names of the ops table resolve to constants; decided syntactically", f.Name, len(byValue), len(ops))
		return false
	}
	produced := map[string]bool{}
	var vals []int64
	for v := range sum {
		vals = append(vals, v)
	}
	sort.Slice(vals, func(i, j int) bool { return vals[i] < vals[j] })
	for _, v := range vals {
		t := sum[v]
		name, known := byValue[v]
		if !known {
			if v > 0 {
				rr.Bad(f, fmt.Sprintf("%s|op=%d", f.Name, v), f.Pos(), fmt.Sprintf("token value %d (produced after matching %q) has no spelling in the ops table", v, sortedTexts(t.texts)))
			}
			continue
		}
		produced[name] = true
		key := fmt.Sprintf("%s|op=%s", f.Name, name)
		want := ops[name]
		var wrong []string
		for _, txt := range sortedTexts(t.texts) {
			if txt != want {
				wrong = append(wrong, txt)
			}
		}
		if len(wrong) == 0 {
			rr.OK(f, key, f.Pos(), "equal", fmt.Sprintf("%q on every path that names it (%d paths enumerated)", want, len(paths)))
		} else {
			rr.Bad(f, key, f.Pos(), fmt.Sprintf("token %s is produced after matching %q but ops spells it %q: the operator is tokenised as a different one", name, wrong[0], want))
		}
	}
	var missing []string
	for k := range ops {
		if !produced[k] {
			missing = append(missing, k)
		}
	}
	sort.Strings(missing)
	for _, k := range missing {
		rr.Bad(f, f.Name+"|never "+k, f.Pos(), fmt.Sprintf("ops names token %s (%q) but the scanner never produces it", k, ops[k]))
	}
	return true
}

// goOpFor maps a C operator spelling to the Go token implementing it.
var goOpFor = map[string]token.Token{
	"*": token.MUL, "/": token.QUO, "%": token.REM, "+": token.ADD, "-": token.SUB, "<<": token.SHL, ">>": token.SHR,
	"&": token.AND, "^": token.XOR, "|": token.OR, "<": token.LSS, ">": token.GTR, "<=": token.LEQ, ">=": token.GEQ, "==": token.EQL, "!=": token.NEQ,
}

func ruleTB9b() Rule {
	return Rule{ID: "TB9b", Kind: "agreement", Floor: 10,
		Doc: "in calculate/compare/unary, under `case \"S\"` the computed expression is `l S r` with the operands in that order (unary: S n; `!` as n == 0 ? 1 : 0; `~` as ^n), on signed operands; ParseInt uses base 0 and the platform's 64-bit int; compound assignment strips exactly the trailing `=`; truth tests compare with 0 by != / ==",
		Run: func(c *Ctx, rr *core.RuleResult) {
			for _, spec := range []struct {
				fn  string
				ops []string
			}{
				{"interp.calculate", []string{"*", "/", "%", "+", "-", "<<", ">>", "&", "^", "|"}},
				{"interp.compare", []string{"<", ">", "<=", ">=", "==", "!="}},
			} {
				f := c.mustFn(rr, spec.fn)
				if f == nil {
					continue
				}
				info := f.Info()
				// parameters by type: the two operands are the parameters of the expression
				// type, in that order; the operator is the string (whatever else is handed in:
				// the yyLexer, a receiver)
				var left, right, opv *types.Var
				for _, fld := range f.Type.Params.List {
					for _, nm := range fld.Names {
						v, ok := info.Defs[nm].(*types.Var)
						if !ok {
							continue
						}
						if b, isBasic := v.Type().Underlying().(*types.Basic); isBasic && b.Kind() == types.String && opv == nil {
							opv = v
						}
						if _, isStruct := v.Type().Underlying().(*types.Struct); isStruct {
							if left == nil {
								left = v
							} else if right == nil {
								right = v
							}
						}
					}
				}
				if left == nil || right == nil || opv == nil {
					rr.Unk(f, f.Name+"|params", f.Pos(), "expected two operand parameters of the expression type and a string operator")
					continue
				}
				// locals bound by `x, ok := expand(…, P)` (function or method form)
				expandFn := c.fn("interp.expand")
				from := map[types.Object]*types.Var{}
				f.OwnNodes(func(n ast.Node) bool {
					as, ok := n.(*ast.AssignStmt)
					if !ok || as.Tok != token.DEFINE || len(as.Rhs) != 1 || len(as.Lhs) != 2 {
						return true
					}
					call, ok := as.Rhs[0].(*ast.CallExpr)
					if !ok {
						return true
					}
					fo := core.StaticCallee(info, call)
					if fo == nil || expandFn == nil || c.effective(c.P.FuncOf(fo)) != c.effective(expandFn) {
						return true
					}
					for _, a := range call.Args {
						if aid, ok := ast.Unparen(a).(*ast.Ident); ok {
							if pv, ok := info.Uses[aid].(*types.Var); ok && (pv == left || pv == right) {
								if lid, ok := as.Lhs[0].(*ast.Ident); ok {
									from[info.Defs[lid]] = pv
								}
							}
						}
					}
					return true
				})
				judge := func(key, s string, be *ast.BinaryExpr, xFrom, yFrom *types.Var, at token.Pos, xt types.Type) {
					switch {
					case be.Op != goOpFor[s]:
						rr.Bad(f, key, at, fmt.Sprintf("operator %q is computed with Go's %s", s, be.Op))
					case xFrom != left || yFrom != right:
						rr.Bad(f, key, at, fmt.Sprintf("operator %q is not applied to (left, right) in that order: %s", s, exprStr(be)))
					case !isSignedInt(xt):
						rr.Bad(f, key, at, "the left operand is not a signed integer: >> and / would not be arithmetic")
					default:
						rr.OK(f, key, at, "equal", exprStr(be))
					}
				}
				seen := map[string]bool{}
				for _, sw := range switches(c.P, f) {
					tid, isID := ast.Unparen(sw.sw.Tag).(*ast.Ident)
					if sw.sw.Tag == nil || !isID || info.Uses[tid] != types.Object(opv) {
						continue
					}
					for _, cl := range sw.clauses {
						for s := range cl.strs {
							seen[s] = true
							key := f.Name + "|case " + s
							var be *ast.BinaryExpr
							ast.Inspect(cl.cc, func(n ast.Node) bool {
								if as, ok := n.(*ast.AssignStmt); ok && len(as.Rhs) == 1 {
									if b, ok := ast.Unparen(as.Rhs[0]).(*ast.BinaryExpr); ok && be == nil {
										be = b
									}
								}
								return true
							})
							if be == nil {
								rr.Unk(f, key, cl.cc.Pos(), "no `x = a OP b` assignment in this case (operator implemented indirectly)")
								continue
							}
							xid, xok := ast.Unparen(be.X).(*ast.Ident)
							yid, yok := ast.Unparen(be.Y).(*ast.Ident)
							var xf, yf *types.Var
							if xok && yok {
								xf, yf = from[info.Uses[xid]], from[info.Uses[yid]]
							}
							judge(key, s, be, xf, yf, be.Pos(), info.Types[be.X].Type)
						}
					}
				}
				// the same as a table: `fn := table[op]; … fn(l, r)` with table a constant map from
				// the operator to `func(a, b T) U { return a OP b }`
				f.OwnNodes(func(n ast.Node) bool {
					ix, ok := n.(*ast.IndexExpr)
					if !ok {
						return true
					}
					kid, isID := ast.Unparen(ix.Index).(*ast.Ident)
					tid, isTID := ast.Unparen(ix.X).(*ast.Ident)
					if !isID || !isTID || info.Uses[kid] != types.Object(opv) {
						return true
					}
					tv, isVar := info.Uses[tid].(*types.Var)
					if !isVar || tv.Parent() != tv.Pkg().Scope() || !c.constantGlobal(tv) {
						return true
					}
					lit := c.globalLiteral("interp", tv)
					if lit == nil {
						return true
					}
					// the call of the looked-up function: which operands it is handed, in which order
					var fnObj types.Object
					if as, isAs := c.P.Parent(ix).(*ast.AssignStmt); isAs && len(as.Lhs) >= 1 {
						if id, ok := as.Lhs[0].(*ast.Ident); ok {
							fnObj = info.Defs[id]
							if fnObj == nil {
								fnObj = info.Uses[id]
							}
						}
					}
					var a0, a1 *types.Var
					f.OwnNodes(func(m ast.Node) bool {
						call, ok := m.(*ast.CallExpr)
						if !ok || len(call.Args) != 2 {
							return true
						}
						direct := ast.Unparen(call.Fun) == ast.Expr(ix)
						id, isID := ast.Unparen(call.Fun).(*ast.Ident)
						if !direct && !(isID && fnObj != nil && info.Uses[id] == fnObj) {
							return true
						}
						x0, ok0 := ast.Unparen(call.Args[0]).(*ast.Ident)
						x1, ok1 := ast.Unparen(call.Args[1]).(*ast.Ident)
						if ok0 && ok1 {
							a0, a1 = from[info.Uses[x0]], from[info.Uses[x1]]
						}
						return true
					})
					for _, el := range lit.Elts {
						kv, ok := el.(*ast.KeyValueExpr)
						if !ok {
							continue
						}
						s, isStr := constStr(info, kv.Key)
						fl, isFn := ast.Unparen(kv.Value).(*ast.FuncLit)
						if !isStr || !isFn {
							continue
						}
						seen[s] = true
						key := f.Name + "|case " + s
						var pnames []types.Object
						for _, fld := range fl.Type.Params.List {
							for _, nm := range fld.Names {
								pnames = append(pnames, info.Defs[nm])
							}
						}
						var be *ast.BinaryExpr
						if len(fl.Body.List) == 1 {
							if ret, ok := fl.Body.List[0].(*ast.ReturnStmt); ok && len(ret.Results) == 1 {
								be, _ = ast.Unparen(ret.Results[0]).(*ast.BinaryExpr)
							}
						}
						if be == nil || len(pnames) != 2 {
							rr.Unk(f, key, kv.Pos(), "the table entry is not `func(a, b) { return a OP b }`")
							continue
						}
						xid, xok := ast.Unparen(be.X).(*ast.Ident)
						yid, yok := ast.Unparen(be.Y).(*ast.Ident)
						var xf, yf *types.Var
						if xok && yok {
							// position of the literal's parameter decides which operand it receives
							for i, pn := range pnames {
								arg := a0
								if i == 1 {
									arg = a1
								}
								if info.Uses[xid] == pn {
									xf = arg
								}
								if info.Uses[yid] == pn {
									yf = arg
								}
							}
						}
						judge(key, s, be, xf, yf, be.Pos(), info.Types[be.X].Type)
					}
					return true
				})
				for _, s := range spec.ops {
					if !seen[s] {
						rr.Bad(f, f.Name+"|case "+s, f.Pos(), fmt.Sprintf("no case for operator %q", s))
					}
				}
			}
			// value type and ParseInt
			pk := c.P.Pkgs["interp"]
			if obj := pk.Types.Scope().Lookup("expr"); obj != nil {
				if st, ok := obj.Type().Underlying().(*types.Struct); ok {
					for i := 0; i < st.NumFields(); i++ {
						if st.Field(i).Name() == "n" {
							t := st.Field(i).Type()
							sz := pk.TypesSizes.Sizeof(t)
							key := "interp.expr.n|width"
							if isSignedInt(t) && sz == 8 {
								rr.OKp(c.P, key, st.Field(i).Pos(), "64-bit", fmt.Sprintf("%s is a signed %d-bit integer under %s/%s", t, sz*8, c.P.GOOS, c.P.GOARCH))
							} else {
								rr.Badp(c.P, key, st.Field(i).Pos(), fmt.Sprintf("arithmetic values have type %s (%d bits, signed=%v) under %s/%s: not 64-bit two's complement", t, sz*8, isSignedInt(t), c.P.GOOS, c.P.GOARCH))
							}
						}
					}
				}
			}
			for _, f := range c.funcsOfPkg("interp", true) {
				info := f.Info()
				f.OwnNodes(func(n ast.Node) bool {
					call, ok := n.(*ast.CallExpr)
					if !ok || calleeName(info, call) != "strconv.ParseInt" || len(call.Args) != 3 {
						return true
					}
					base, ok1 := constInt(info, call.Args[1])
					bits, ok2 := constInt(info, call.Args[2])
					key := f.Name + "|ParseInt(" + exprStr(call.Args[0]) + ")"
					if ok1 && ok2 && base == 0 && (bits == 0 || bits == 64) {
						rr.OK(f, key, call.Pos(), "base0-64bit", "base 0 (decimal, 0 octal, 0x hex), full width")
					} else {
						rr.Bad(f, key, call.Pos(), fmt.Sprintf("constants are parsed with base %s and bit size %s: C's decimal/octal/hex constants on 64 bits need base 0 and size 0 or 64", exprStr(call.Args[1]), exprStr(call.Args[2])))
					}
					return true
				})
			}
			// actions: unary, compound assignment, truth tests
			gi := c.grammar("interp")
			if gi.Err != nil {
				rr.Unkp(c.P, "interp|grammar", 0, gi.Err.Error())
				return
			}
			info := pk.TypesInfo
			for _, p := range gi.G.Prods {
				cc := gi.Checked.Cases[p.N]
				if cc == nil {
					continue
				}
				switch {
				case len(p.RHS) == 2 && p.RHS[0] == "unary_op":
					for _, sw := range switchesIn(c.P, info, cc) {
						for _, cl := range sw.clauses {
							for s := range cl.strs {
								key := "interp|unary " + s
								ok := false
								detail := ""
								ast.Inspect(cl.cc, func(n ast.Node) bool {
									switch n := n.(type) {
									case *ast.AssignStmt:
										if u, isU := ast.Unparen(n.Rhs[0]).(*ast.UnaryExpr); isU {
											detail = exprStr(u)
											switch s {
											case "+":
												ok = u.Op == token.ADD
											case "-":
												ok = u.Op == token.SUB
											case "~":
												ok = u.Op == token.XOR
											}
										}
									case *ast.IfStmt:
										if s == "!" {
											if be, isBE := ast.Unparen(n.Cond).(*ast.BinaryExpr); isBE && be.Op == token.EQL {
												if v, isC := constInt(info, be.Y); isC && v == 0 {
													then := assignedConst(info, n.Body)
													els := int64(-1)
													if eb, isB := n.Else.(*ast.BlockStmt); isB {
														els = assignedConst(info, eb)
													}
													ok = then == 1 && els == 0
													detail = fmt.Sprintf("%s ? %d : %d", exprStr(be), then, els)
												}
											}
										}
									}
									return true
								})
								if ok {
									rr.OKp(c.P, key, cl.cc.Pos(), "equal", detail)
								} else {
									rr.Badp(c.P, key, cl.cc.Pos(), fmt.Sprintf("unary %q is computed as `%s`", s, detail))
								}
							}
						}
					}
				case len(p.RHS) == 3 && p.RHS[1] == "assign_op":
					// calculate(yylex, $1, $2[:len($2)-1], $3)
					found := false
					ast.Inspect(cc, func(n ast.Node) bool {
						se, ok := n.(*ast.SliceExpr)
						if !ok {
							return true
						}
						if t := info.Types[se.X].Type; t == nil || t.String() != "string" {
							return true
						}
						found = true
						key := "interp|compound-assign strips '='"
						x := exprStr(se.X)
						if se.Low == nil && se.High != nil && exprStr(se.High) == "len("+x+") - 1" {
							rr.OKp(c.P, key, se.Pos(), "equal", exprStr(se))
						} else {
							rr.Badp(c.P, key, se.Pos(), "the compound operator is cut as `"+exprStr(se)+"`, not by dropping exactly its trailing '=': `<<=` would compute the wrong operator")
						}
						return true
					})
					if !found {
						rr.Unkp(c.P, "interp|compound-assign strips '='", cc.Pos(), "no slice of the operator string in the assignment action")
					}
				}
			}
			// truth tests in the actions of the lazily evaluated operators (the marker
			// productions that open the gate included)
			lazyProds := map[*Production]bool{}
			for _, o := range c.gate().operands {
				for _, og := range o.prod.org {
					lazyProds[og.prod] = true
				}
			}
			for _, p := range gi.G.Prods {
				cc := gi.Checked.Cases[p.N]
				if cc == nil || !lazyProds[p] {
					continue
				}
				ast.Inspect(cc, func(n ast.Node) bool {
					be, ok := n.(*ast.BinaryExpr)
					if !ok {
						return true
					}
					if v, isC := constInt(info, be.Y); isC && v == 0 && isIntegerType(info.Types[be.X].Type) {
						key := fmt.Sprintf("interp|truth test in the action of `%s`|%s", p, exprStr(be))
						if be.Op == token.NEQ || be.Op == token.EQL {
							rr.OKp(c.P, key, be.Pos(), "zero-test", "truth is `!= 0`")
						} else {
							rr.Badp(c.P, key, be.Pos(), "C treats every non-zero value as true; `"+exprStr(be)+"` does not (negative operands)")
						}
					}
					return true
				})
			}
		}}
}

func isSignedInt(t types.Type) bool {
	if t == nil {
		return false
	}
	b, ok := t.Underlying().(*types.Basic)
	return ok && b.Info()&types.IsInteger != 0 && b.Info()&types.IsUnsigned == 0
}

func assignedConst(info *types.Info, b *ast.BlockStmt) int64 {
	out := int64(-1)
	for _, s := range b.List {
		if as, ok := s.(*ast.AssignStmt); ok && len(as.Rhs) == 1 {
			if v, ok := constInt(info, as.Rhs[0]); ok {
				out = v
			}
		}
	}
	return out
}

// switchesIn lists switches under a node (value switches only).
func switchesIn(p *core.Program, info *types.Info, root ast.Node) []*swInfo {
	var out []*swInfo
	ast.Inspect(root, func(n ast.Node) bool {
		sw, ok := n.(*ast.SwitchStmt)
		if !ok {
			return true
		}
		si := &swInfo{sw: sw}
		if sw.Tag != nil {
			si.tag = exprStr(sw.Tag)
		}
		for _, cl := range sw.Body.List {
			cc := cl.(*ast.CaseClause)
			c := &swClause{cc: cc, runes: map[rune]bool{}, strs: map[string]bool{}, isDflt: cc.List == nil, owner: si}
			for _, e := range cc.List {
				if s, ok := constStr(info, e); ok {
					c.strs[s] = true
				}
				if v, ok := constInt(info, e); ok {
					c.runes[rune(v)] = true
				}
			}
			si.clauses = append(si.clauses, c)
		}
		out = append(out, si)
		return true
	})
	return out
}

// ---------------------------------------------------------------------------
// AR1 / AR2: effects executed inside reductions.

func ruleAR() Rule {
	return Rule{ID: "AR", Kind: "must-not", Floor: 9,
		Doc: "a yacc evaluator reduces both operands of &&, || and ?: before the operator's own action runs. Either no variable store (ExecEnv.Set) and no trapping operator (/ % << >>) is executed inside a reduce action derivable from a lazily evaluated operand, or the operand is gated (AR1): a marker production reduced before the operand's first token opens a gate iff the deciding operand has the value for which C evaluates the operand, the first action after the operand closes it, nested gates inherit, only reduce actions touch the gate, and every store, variable read and trapping operator below the actions is conditional on it. Every store is also conditional on no fault having been recorded (AR2)",
		Run: func(c *Ctx, rr *core.RuleResult) {
			gi := c.grammar("interp")
			if gi.Err != nil {
				rr.Unkp(c.P, "interp|grammar", 0, gi.Err.Error())
				return
			}
			pk := c.P.Pkgs["interp"]
			info := pk.TypesInfo
			set := c.fn("interp.(*ExecEnv).Set")
			calc := c.fn("interp.calculate")
			if set == nil {
				rr.Unkp(c.P, "anchor:interp.(*ExecEnv).Set", 0, "ExecEnv.Set not found")
				return
			}
			// a hand-written helper of the package that stores a variable itself (the four
			// increment actions sharing one function) counts like the store
			storesMemo := map[*core.Func]bool{}
			var stores func(g *core.Func, depth int) bool
			stores = func(g *core.Func, depth int) bool {
				if g == nil {
					return false
				}
				if g == set {
					return true
				}
				if v, ok := storesMemo[g]; ok {
					return v
				}
				storesMemo[g] = false
				if depth > 2 || g.Generated || g.Pkg.Name != "interp" || g.Body == nil || g.Decl == nil || g.Obj == nil || g.Obj.Exported() {
					return false
				}
				found := false
				gi2 := g.Info()
				g.OwnNodes(func(n ast.Node) bool {
					if call, ok := n.(*ast.CallExpr); ok {
						if fo := core.StaticCallee(gi2, call); fo != nil && stores(c.P.FuncOf(fo), depth+1) {
							found = true
						}
					}
					return !found
				})
				storesMemo[g] = found
				return found
			}
			// effects per production
			type eff struct{ sets, traps []string }
			effects := map[int]*eff{}
			trapOp := map[string]bool{"'/'": true, "'%'": true, "LSH": true, "RSH": true, "assign_op": true}
			for _, p := range gi.G.Prods {
				cc := gi.Checked.Cases[p.N]
				if cc == nil {
					continue
				}
				e := &eff{}
				ast.Inspect(cc, func(n ast.Node) bool {
					call, ok := n.(*ast.CallExpr)
					if !ok {
						return true
					}
					fo := core.StaticCallee(info, call)
					if fo == nil {
						return true
					}
					switch g := c.P.FuncOf(fo); {
					case g != nil && g != calc && stores(g, 0):
						if len(e.sets) == 0 { // one store per production, however it is spelled
							e.sets = append(e.sets, p.String())
						}
					case g != nil && g == calc:
						if len(p.RHS) == 3 && trapOp[p.RHS[1]] {
							e.traps = append(e.traps, p.String())
						}
					}
					return true
				})
				if len(e.sets)+len(e.traps) > 0 {
					effects[p.N] = e
				}
			}
			// nonterminals derivable from a symbol
			derives := func(start string) map[string]bool {
				seen := map[string]bool{start: true}
				work := []string{start}
				for len(work) > 0 {
					s := work[0]
					work = work[1:]
					for _, p := range gi.G.Prods {
						if p.LHS != s {
							continue
						}
						for _, r := range p.RHS {
							if !gi.G.IsTerminal(r) && !seen[r] {
								seen[r] = true
								work = append(work, r)
							}
						}
					}
				}
				return seen
			}
			report := func(name, operand string, pos token.Pos) {
				d := derives(operand)
				var sets, traps []string
				for _, p := range gi.G.Prods {
					if e := effects[p.N]; e != nil && d[p.LHS] {
						sets = append(sets, e.sets...)
						traps = append(traps, e.traps...)
					}
				}
				key := fmt.Sprintf("interp|lazy operand of %s|effects=%ds+%dt", name, len(sets), len(traps))
				if len(sets)+len(traps) == 0 {
					rr.OKp(c.P, key, pos, "effect-free", "no store and no trapping operator is executed in a reduction below "+operand)
				} else {
					rr.Badp(c.P, key, pos, fmt.Sprintf("the operand C would skip is fully reduced first, and reductions below %s execute %d variable store(s) and %d trapping operator(s) (e.g. `%s`): the skipped operand still assigns / still fails", operand, len(sets), len(traps), firstOf(sets, traps)))
				}
			}
			// the lazily evaluated operands, read from the grammar with its marker
			// nonterminals inlined
			g := c.gate()
			n := map[string]bool{}
			gatedAny := false
			for _, o := range g.operands {
				cc := gi.Checked.Cases[o.holder.prod.N]
				if cc == nil {
					continue
				}
				n[strings.Fields(o.op)[0]] = true
				if o.marker == nil {
					// nothing runs between the deciding operand and this one: it must be effect-free
					if o.op != "?: else" {
						report(strings.Fields(o.op)[0], o.sym, cc.Pos())
					}
					continue
				}
				gatedAny = true
				key := "interp|lazy operand of " + o.op + "|gated"
				if how, err := c.gatedOperand(g, o); err != nil {
					rr.Badp(c.P, key, cc.Pos(), err.Error()+": the operand C would skip still assigns / still fails")
				} else {
					rr.OKp(c.P, key, cc.Pos(), "gated", how)
				}
			}
			if len(n) < 3 {
				rr.Unkp(c.P, "interp|short-circuit productions", gi.AstFile.Pos(), fmt.Sprintf("found %d of the 3 lazily evaluated operators in the grammar", len(n)))
			}
			if gatedAny && g.enter != nil && g.leave != nil && g.dead != nil {
				c.gateShape(g, rr)
				c.gateEffects(g, rr)
			}
			// AR2: stores conditional on the error state
			errField := c.fieldVar("interp", "lexer", "err")
			// parser-side fault flags: fields of the lexer that are only ever assigned in
			// functions which also store the error slot (the yyLexer's Error method), so
			// "flag set" implies "a fault was recorded by the parser"
			faultFlags := map[*types.Var]bool{}
			{
				assignedIn := map[*types.Var]map[*core.Func]bool{}
				storesErr := map[*core.Func]bool{}
				for _, f := range c.funcsOfPkg("interp", false) {
					fi := f.Info()
					f.OwnNodes(func(n ast.Node) bool {
						if as, ok := n.(*ast.AssignStmt); ok {
							for _, l := range as.Lhs {
								if v := core.FieldOf(fi, l); v != nil {
									if v == errField {
										storesErr[f.Root()] = true
									} else if fieldSel(fi, l, "interp", "lexer", v.Name()) {
										if assignedIn[v] == nil {
											assignedIn[v] = map[*core.Func]bool{}
										}
										assignedIn[v][f.Root()] = true
									}
								}
							}
						}
						return true
					})
				}
				for v, fs := range assignedIn {
					if b, ok := v.Type().Underlying().(*types.Basic); !ok || b.Kind() != types.Bool {
						continue
					}
					all := true
					for f := range fs {
						if !storesErr[f] {
							all = false
						}
					}
					if all {
						faultFlags[v] = true
					}
				}
			}
			total, guarded := 0, 0
			var firstPos token.Pos
			for _, p := range gi.G.Prods {
				cc := gi.Checked.Cases[p.N]
				if cc == nil {
					continue
				}
				counted := false
				ast.Inspect(cc, func(x ast.Node) bool {
					call, ok := x.(*ast.CallExpr)
					if !ok || counted {
						return true
					}
					fo := core.StaticCallee(info, call)
					if fo == nil {
						return true
					}
					if g := c.P.FuncOf(fo); g == nil || g == calc || !stores(g, 0) {
						return true
					}
					counted = true
					total++
					if !firstPos.IsValid() {
						firstPos = call.Pos()
					}
					// the store made inside a helper: the guard around the store there
					if g := c.P.FuncOf(fo); g != nil && g != set {
						if c.storeGuardedIn(g, set, errField, faultFlags, 0) {
							guarded++
							return true
						}
					}
					// a dominating test mentioning the error slot (directly or via a helper)
					for _, gd := range guardsOf(c.P, call, cc) {
						mentions := false
						ast.Inspect(gd.cond, func(y ast.Node) bool {
							if se, ok := y.(*ast.SelectorExpr); ok && (core.FieldOf(info, se) == errField || faultFlags[core.FieldOf(info, se)]) {
								mentions = true
							}
							if cl, ok := y.(*ast.CallExpr); ok {
								for _, g := range c.P.CG().Callees(c.fn("interp.yyParse"), cl) {
									if readsField(g, errField) {
										mentions = true
									}
								}
							}
							return true
						})
						if mentions {
							guarded++
							break
						}
					}
					return true
				})
			}
			key := fmt.Sprintf("interp|store after a recorded fault|unguarded=%d/%d", total-guarded, total)
			switch {
			case total == 0:
				rr.OKp(c.P, key, gi.AstFile.Pos(), "no-store", "no reduce action stores a variable")
			case guarded == total:
				rr.OKp(c.P, key, firstPos, "guarded", fmt.Sprintf("all %d stores are conditional on the error slot", total))
			default:
				rr.Badp(c.P, key, firstPos, fmt.Sprintf("%d of %d variable stores in reduce actions are not conditional on the lexer's error slot: after a fault such as a malformed constant the following assignment is still performed (x = 08 assigns 0)", total-guarded, total))
			}
		}}
}

func firstOf(a, b []string) string {
	if len(a) > 0 {
		return a[0]
	}
	if len(b) > 0 {
		return b[0]
	}
	return ""
}

func readsField(f *core.Func, v *types.Var) bool {
	found := false
	f.OwnNodes(func(n ast.Node) bool {
		if se, ok := n.(*ast.SelectorExpr); ok && core.FieldOf(f.Info(), se) == v {
			found = true
		}
		return true
	})
	return found
}

// storeGuardedIn reports whether every call of set inside helper g (or inside
// the helpers it hands on to) is dominated by a test that mentions the error
// slot or one of the parser-side fault flags.
func (c *Ctx) storeGuardedIn(g, set *core.Func, errField *types.Var, flags map[*types.Var]bool, depth int) bool {
	n, ok := c.storeSitesIn(g, set, errField, flags, depth)
	return n > 0 && ok
}

// storeSitesIn counts the calls in g (and in the helpers of the package g hands
// the work to) that reach the variable store, and reports whether each of them
// is conditional on the error slot or on a fault flag - where the store is
// made, or at any call on the way there.
func (c *Ctx) storeSitesIn(g, set *core.Func, errField *types.Var, flags map[*types.Var]bool, depth int) (int, bool) {
	if g == nil || g.Body == nil || depth > 3 {
		return 0, false
	}
	gi := g.Info()
	n, ok := 0, true
	g.OwnNodes(func(x ast.Node) bool {
		call, isCall := x.(*ast.CallExpr)
		if !isCall {
			return true
		}
		fo := core.StaticCallee(gi, call)
		if fo == nil {
			return true
		}
		h := c.P.FuncOf(fo)
		mentions := func() bool {
			found := false
			for _, gd := range guardsOf(c.P, call, nil) {
				ast.Inspect(gd.cond, func(y ast.Node) bool {
					if se, isSel := y.(*ast.SelectorExpr); isSel {
						if v := core.FieldOf(gi, se); v != nil && (v == errField || flags[v]) {
							found = true
						}
					}
					return true
				})
			}
			return found
		}
		switch {
		case h == set:
			n++
			if !mentions() {
				ok = false
			}
		case h != nil && h != g && h.Pkg == g.Pkg && !h.Generated && h.Body != nil && h.Decl != nil && h.Obj != nil && !h.Obj.Exported():
			if m, inner := c.storeSitesIn(h, set, errField, flags, depth+1); m > 0 {
				n += m
				if !inner && !mentions() {
					ok = false
				}
			}
		}
		return true
	})
	return n, ok
}
