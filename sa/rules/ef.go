package rules

import (
	"fmt"
	"go/ast"
	"go/token"
	"go/types"
	"strings"

	"golang.org/x/tools/go/cfg"

	"verif/sa/core"
)

func isIoEOF(info *types.Info, e ast.Expr) bool {
	se, ok := ast.Unparen(e).(*ast.SelectorExpr)
	if !ok {
		return false
	}
	v, ok := info.Uses[se.Sel].(*types.Var)
	return ok && v.Pkg() != nil && v.Pkg().Path() == "io" && v.Name() == "EOF"
}

// ruleEF1: the source is read in one place and every failure is recorded.
func ruleEF1() Rule {
	return Rule{ID: "EF1", Kind: "must", Floor: 3,
		Doc: "ReadRune/UnreadRune on the source scanner are called only by the lexer's read/unread; read stores the reader's error into the error slot under no other conditions than `it is not io.EOF` and `the slot is empty`",
		Run: func(c *Ctx, rr *core.RuleResult) {
			src := c.fieldVar("parser", "lexer", "r")
			slot := c.fieldVar("parser", "lexer", "err")
			if src == nil || slot == nil {
				rr.Unkp(c.P, "parser.lexer.r/err", 0, "lexer has no source scanner field r or error slot err")
				return
			}
			var reader *core.Func
			readFn, unreadFn := c.fn("parser.(*lexer).read"), c.fn("parser.(*lexer).unread")
			inRegionOf := func(anchor, f *core.Func) bool {
				for _, g := range c.region(anchor) {
					if g == f.Root() {
						return true
					}
				}
				return false
			}
			for _, f := range c.funcsOfPkg("parser", false) {
				info := f.Info()
				f.OwnNodes(func(n ast.Node) bool {
					call, ok := n.(*ast.CallExpr)
					if !ok {
						return true
					}
					se, ok := call.Fun.(*ast.SelectorExpr)
					if !ok || core.FieldOf(info, se.X) != src {
						return true
					}
					key := f.Name + "|" + exprStr(call.Fun)
					switch se.Sel.Name {
					case "ReadRune":
						if f.Short == "(*lexer).read" {
							reader = f
							rr.OK(f, key, call.Pos(), "single-reader", "the only place that reads the source")
						} else if readFn != nil && inRegionOf(readFn, f) {
							reader = readFn
							rr.OK(f, key, call.Pos(), "single-reader", "a private helper of lexer.read: still the only place that reads the source")
						} else {
							rr.Bad(f, key, call.Pos(), "the source is read outside lexer.read: its error is not recorded and the line/column bookkeeping is bypassed")
						}
					case "UnreadRune":
						if f.Short == "(*lexer).unread" || unreadFn != nil && inRegionOf(unreadFn, f) {
							rr.OK(f, key, call.Pos(), "single-unreader", "the only place that pushes a rune back")
						} else {
							rr.Bad(f, key, call.Pos(), "UnreadRune is called outside lexer.unread")
						}
					}
					return true
				})
			}
			if reader == nil {
				rr.Unkp(c.P, "parser.(*lexer).read|ReadRune", 0, "lexer.read does not call ReadRune on the source scanner")
				return
			}
			// the recording store
			info := reader.Info()
			var errVar types.Object
			reader.OwnNodes(func(n ast.Node) bool {
				as, ok := n.(*ast.AssignStmt)
				if !ok || len(as.Rhs) != 1 || len(as.Lhs) < 2 {
					return true
				}
				if call, ok := as.Rhs[0].(*ast.CallExpr); ok {
					isSrc := false
					if se, ok := call.Fun.(*ast.SelectorExpr); ok && se.Sel.Name == "ReadRune" && core.FieldOf(info, se.X) == src {
						isSrc = true
					} else if fo := core.StaticCallee(info, call); fo != nil {
						// a private helper of read that takes the character from the source
						if h := c.P.FuncOf(fo); h != nil && h != reader && inRegionOf(reader, h) && callsReadRuneOn(h, src) {
							isSrc = true
						}
					}
					if isSrc {
						if id, ok := as.Lhs[len(as.Lhs)-1].(*ast.Ident); ok {
							errVar = info.Defs[id]
							if errVar == nil {
								errVar = info.Uses[id]
							}
						}
					}
				}
				return true
			})
			if errVar == nil {
				rr.Bad(reader, reader.Name+"|binds-error", reader.Pos(), "read does not bind ReadRune's error result")
				return
			}
			found := false
			reader.OwnNodes(func(n ast.Node) bool {
				as, ok := n.(*ast.AssignStmt)
				if !ok || len(as.Lhs) != 1 || core.FieldOf(info, as.Lhs[0]) != slot {
					return true
				}
				id, ok := ast.Unparen(as.Rhs[0]).(*ast.Ident)
				if !ok || info.Uses[id] != errVar {
					return true
				}
				found = true
				key := reader.Name + "|records-error"
				var extra []string
				for _, gd := range guardsOf(c.P, as, nil) {
					if !allowedRecordGuard(info, gd, errVar, slot) {
						extra = append(extra, fmt.Sprintf("%s (%v)", exprStr(gd.cond), gd.pos))
					}
				}
				// a tagless switch clause is reached only if the earlier clauses failed
				if cc := enclosingCase(c.P, as); cc != nil {
					if sw, ok := c.P.Parent(c.P.Parent(cc)).(*ast.SwitchStmt); ok && sw.Tag == nil {
						for _, cl := range sw.Body.List {
							o := cl.(*ast.CaseClause)
							if o == cc {
								break
							}
							for _, e := range o.List {
								if !allowedRecordGuard(info, guard{cond: e, pos: false}, errVar, slot) {
									extra = append(extra, "after case "+exprStr(e))
								}
							}
						}
					}
				}
				if len(extra) == 0 {
					rr.OK(reader, key, as.Pos(), "always", "the reader's error is stored whenever it is not io.EOF and the slot holds no other reader error")
				} else {
					rr.Bad(reader, key, as.Pos(), fmt.Sprintf("the reader's error is recorded only under additional conditions %v: some read failures are silently treated as end of input", extra))
				}
				return true
			})
			if !found {
				rr.Bad(reader, reader.Name+"|records-error", reader.Pos(), "read never stores ReadRune's error into the lexer's error slot: a failing reader looks like end of input")
			}
		}}
}

// callsReadRuneOn reports whether h calls ReadRune on the given field.
func callsReadRuneOn(h *core.Func, src *types.Var) bool {
	found := false
	info := h.Info()
	h.OwnNodes(func(n ast.Node) bool {
		if call, ok := n.(*ast.CallExpr); ok {
			if se, ok := call.Fun.(*ast.SelectorExpr); ok && se.Sel.Name == "ReadRune" && core.FieldOf(info, se.X) == src {
				found = true
			}
		}
		return !found
	})
	return found
}

func allowedRecordGuard(info *types.Info, gd guard, errVar types.Object, slot *types.Var) bool {
	// "the slot is empty or holds a syntax error": `ok || slot == nil` with
	// `_, ok := slot.(Error)` - the reader's error replaces a syntax error
	// but never another reader error
	if gd.pos && slotEmptyOrSyntax(info, gd.cond, slot) {
		return true
	}
	be, ok := ast.Unparen(gd.cond).(*ast.BinaryExpr)
	if !ok {
		return false
	}
	isErr := func(e ast.Expr) bool {
		id, ok := ast.Unparen(e).(*ast.Ident)
		return ok && info.Uses[id] == errVar
	}
	switch {
	case isErr(be.X) && isNilIdent(info, be.Y):
		return (be.Op == token.NEQ && gd.pos) || (be.Op == token.EQL && !gd.pos)
	case isErr(be.X) && isIoEOF(info, be.Y):
		return (be.Op == token.EQL && !gd.pos) || (be.Op == token.NEQ && gd.pos)
	case core.FieldOf(info, be.X) == slot && isNilIdent(info, be.Y):
		return (be.Op == token.EQL && gd.pos) || (be.Op == token.NEQ && !gd.pos)
	}
	return false
}

// ruleEF2: a recorded reader error is never replaced by a syntax error.
func ruleEF2() Rule {
	return Rule{ID: "EF2", Kind: "must", Floor: 3,
		Doc: "every store into the lexer's error slot is reached only on paths where the slot was tested to be nil or to already hold a parser.Error, so a recorded reader error is sticky; ParseCommands returns that slot (EF3)",
		Run: func(c *Ctx, rr *core.RuleResult) {
			slot := c.fieldVar("parser", "lexer", "err")
			if slot == nil {
				rr.Unkp(c.P, "parser.lexer.err", 0, "no error slot")
				return
			}
			const good core.Bits = 1
			storeSeq := map[string]int{}
			for _, f := range c.funcsOfPkg("parser", false) {
				info := f.Info()
				var stores []*ast.AssignStmt
				f.OwnNodes(func(n ast.Node) bool {
					as, ok := n.(*ast.AssignStmt)
					if !ok {
						return true
					}
					for i, l := range as.Lhs {
						// every store counts, whatever the static type of the value:
						// the slot may be written through a helper taking an `error`
						if core.FieldOf(info, l) == slot && i < len(as.Rhs) {
							stores = append(stores, as)
						}
					}
					return true
				})
				if len(stores) == 0 {
					continue
				}
				// ok variables of `_, ok := X.err.(Error)`
				okVars := map[types.Object]bool{}
				f.OwnNodes(func(n ast.Node) bool {
					as, ok := n.(*ast.AssignStmt)
					if !ok || len(as.Lhs) != 2 || len(as.Rhs) != 1 {
						return true
					}
					ta, ok := ast.Unparen(as.Rhs[0]).(*ast.TypeAssertExpr)
					if !ok || ta.Type == nil || core.FieldOf(info, ta.X) != slot || namedTypeName(info.Types[ta.Type].Type) != "parser.Error" {
						return true
					}
					if id, ok := as.Lhs[1].(*ast.Ident); ok {
						if o := info.Defs[id]; o != nil {
							okVars[o] = true
						} else if o := info.Uses[id]; o != nil {
							okVars[o] = true
						}
					}
					return true
				})
				fl := core.NewFlow(f)
				facts := fl.EdgeFlow(core.EdgeFlowSpec{
					Init: 0,
					Node: func(n ast.Node, in core.Bits) core.Bits {
						if as, ok := n.(*ast.AssignStmt); ok {
							for i, l := range as.Lhs {
								if core.FieldOf(info, l) == slot && i < len(as.Rhs) {
									if namedTypeName(info.Types[as.Rhs[i]].Type) == "parser.Error" {
										return in | good
									}
									return in &^ good
								}
							}
						}
						return in
					},
					Edge: func(cond, tag ast.Expr, truth bool, in core.Bits) core.Bits {
						if tag != nil {
							return in
						}
						if be, ok := cond.(*ast.BinaryExpr); ok && core.FieldOf(info, be.X) == slot && isNilIdent(info, be.Y) {
							if (be.Op == token.EQL && truth) || (be.Op == token.NEQ && !truth) {
								return in | good
							}
						}
						if id, ok := cond.(*ast.Ident); ok && okVars[info.Uses[id]] && truth {
							return in | good
						}
						return in
					},
				})
				for _, as := range stores {
					key := f.Name + "|" + exprStr(as.Lhs[0]) + " = Error{…}"
					if n := storeSeq[f.Name]; n > 0 {
						key = fmt.Sprintf("%s #%d", key, n+1)
					}
					storeSeq[f.Name]++
					byGuard := false
					for _, gd := range guardsOf(c.P, as, nil) {
						if gd.pos && slotEmptyOrSyntax(info, gd.cond, slot) {
							byGuard = true
						}
					}
					if facts[as]&good != 0 || byGuard {
						rr.OK(f, key, as.Pos(), "sticky", "on every path the slot was tested to be nil or a parser.Error first")
					} else {
						rr.Bad(f, key, as.Pos(), "a syntax error can overwrite a recorded reader error here (some path reaches the store without the slot having been tested to be nil or a parser.Error): the read failure is reported as a made-up syntax error")
					}
				}
			}
			// EF3: the entry points are the functions that start a lexer and return
			// (commands, comments, error); a wrapper that returns another entry point's
			// results unchanged needs no check of its own
			var entries []*core.Func
			seenEntry := map[*core.Func]bool{}
			for _, sp := range c.spawns("parser") {
				g := sp.In.Root()
				if !seenEntry[g] && g.Type.Results != nil && g.Type.Results.NumFields() == 3 {
					seenEntry[g] = true
					entries = append(entries, g)
				}
			}
			if len(entries) == 0 {
				rr.Unkp(c.P, "parser|entry points", 0, "no function that starts a lexer and returns (commands, comments, error) found")
			}
			for _, f := range entries {
				info := f.Info()
				n := 0
				// locals that hold a copy of the slot
				slotCopy := map[types.Object]bool{}
				f.OwnNodes(func(x ast.Node) bool {
					as, ok := x.(*ast.AssignStmt)
					if !ok || len(as.Lhs) != len(as.Rhs) {
						return true
					}
					for i, r := range as.Rhs {
						if core.FieldOf(info, r) == slot {
							if id, ok := as.Lhs[i].(*ast.Ident); ok {
								if o := info.Defs[id]; o != nil {
									slotCopy[o] = true
								} else if o := info.Uses[id]; o != nil {
									slotCopy[o] = true
								}
							}
						}
					}
					return true
				})
				f.OwnNodes(func(x ast.Node) bool {
					r, ok := x.(*ast.ReturnStmt)
					if ok && len(r.Results) == 1 {
						// return l.result(): an accessor whose every return hands out its receiver's slot
						if call, isCall := ast.Unparen(r.Results[0]).(*ast.CallExpr); isCall {
							if fo := core.StaticCallee(info, call); fo != nil {
								if m := c.P.FuncOf(fo); m != nil && m.Decl != nil && m.Decl.Recv != nil && m.Body != nil {
									mi := m.Info()
									rets, good := 0, 0
									m.OwnNodes(func(y ast.Node) bool {
										if mr, isRet := y.(*ast.ReturnStmt); isRet {
											rets++
											if len(mr.Results) == 3 && core.FieldOf(mi, mr.Results[2]) == slot {
												if se, isSel := ast.Unparen(mr.Results[2]).(*ast.SelectorExpr); isSel {
													if id, isID := ast.Unparen(se.X).(*ast.Ident); isID && len(m.Decl.Recv.List) == 1 && len(m.Decl.Recv.List[0].Names) == 1 && mi.Uses[id] == mi.Defs[m.Decl.Recv.List[0].Names[0]] {
														good++
													}
												}
											}
										}
										return true
									})
									if rets > 0 && rets == good {
										n++
										rr.OK(f, f.Name+"|return "+exprStr(call.Fun)+"()", r.Pos(), "slot", "returns the lexer's error slot through an accessor of the lexer")
									}
								}
							}
						}
						return true
					}
					if !ok || len(r.Results) != 3 {
						return true
					}
					last := r.Results[2]
					key := f.Name + "|return …, " + exprStr(last)
					isCopy := false
					if id, ok := ast.Unparen(last).(*ast.Ident); ok && slotCopy[info.Uses[id]] {
						isCopy = true
					}
					switch {
					case core.FieldOf(info, last) == slot || isCopy:
						n++
						rr.OK(f, key, r.Pos(), "slot", "returns the lexer's error slot")
					case isNilIdent(info, last):
						rr.Bad(f, key, r.Pos(), "ParseCommands returns a nil error without consulting the lexer's error slot")
					default:
						rr.OK(f, key, r.Pos(), "other-error", "returns an error from opening the source").Trivial = true
					}
					return true
				})
				if n == 0 {
					rr.Bad(f, f.Name+"|returns-slot", f.Pos(), "no return statement of ParseCommands returns the lexer's error slot")
				}
			}
		}}
}

// ruleEF6: syntax errors are located.
func ruleEF6() Rule {
	return Rule{ID: "EF6", Kind: "must", Floor: 2,
		Doc: "every parser.Error value is built with the lexer's name (or a copied Error's) and a position expression that is not the zero literal; Lex records the delivered token's position on every token path",
		Run: func(c *Ctx, rr *core.RuleResult) {
			for _, f := range c.funcsOfPkg("parser", false) {
				info := f.Info()
				f.OwnNodes(func(n ast.Node) bool {
					cl, ok := n.(*ast.CompositeLit)
					if !ok || namedTypeName(info.Types[cl].Type) != "parser.Error" {
						return true
					}
					var name, pos ast.Expr
					for _, el := range cl.Elts {
						if kv, ok := el.(*ast.KeyValueExpr); ok {
							switch exprStr(kv.Key) {
							case "Name":
								name = kv.Value
							case "Pos":
								pos = kv.Value
							}
						}
					}
					key := f.Name + "|Error{Name:" + exprStrOrNone(name) + ",Pos:" + exprStrOrNone(pos) + "}"
					nameIsOK := func(info *types.Info, e ast.Expr) bool {
						return e != nil && (fieldSel(info, e, "parser", "lexer", "name") || fieldSel(info, e, "parser", "Error", "Name"))
					}
					posIsOK := func(e ast.Expr) bool {
						if e == nil {
							return false
						}
						if cl2, ok := e.(*ast.CompositeLit); ok && len(cl2.Elts) == 0 {
							return false
						}
						return true
					}
					nameOK := nameIsOK(info, name)
					posOK := posIsOK(pos)
					// a constructor: Name and/or Pos are parameters of f; the obligation is
					// decided at every call site with the arguments put in their place
					paramIdx := func(e ast.Expr) int {
						id, ok := ast.Unparen(e).(*ast.Ident)
						if !ok || e == nil || f.Type == nil || f.Type.Params == nil {
							return -1
						}
						k := 0
						for _, fld := range f.Type.Params.List {
							for _, nm := range fld.Names {
								if info.Defs[nm] == info.Uses[id] && info.Uses[id] != nil {
									return k
								}
								k++
							}
						}
						return -1
					}
					if ni, pi := -1, -1; name != nil && pos != nil {
						if !nameOK {
							ni = paramIdx(name)
						}
						pi = paramIdx(pos)
						if (ni >= 0 || pi >= 0) && (nameOK || ni >= 0) && f.Decl != nil {
							if calls, complete := c.callSitesOf(f); complete && len(calls) > 0 {
								for _, cs := range calls {
									ci := cs.in.Info()
									k2 := fmt.Sprintf("%s|%s(…) in %s", f.Name, f.Short, cs.in.Short)
									okN := nameOK || (ni < len(cs.call.Args) && nameIsOK(ci, cs.call.Args[ni]))
									okP := pi < 0 && posOK || (pi >= 0 && pi < len(cs.call.Args) && posIsOK(cs.call.Args[pi]))
									switch {
									case !okN:
										rr.Bad(cs.in, k2, cs.call.Pos(), "the syntax error built by "+f.Short+" does not get the caller's name here")
									case !okP:
										rr.Bad(cs.in, k2, cs.call.Pos(), "the syntax error built by "+f.Short+" gets no position here")
									default:
										rr.OK(cs.in, k2, cs.call.Pos(), "located", "name and position handed to the constructor come from the lexer / a recorded token")
									}
								}
								return true
							}
						}
					}
					switch {
					case !nameOK:
						rr.Bad(f, key, cl.Pos(), "the syntax error does not carry the caller's name (Name is not the lexer's name field nor copied from an Error)")
					case !posOK:
						rr.Bad(f, key, cl.Pos(), "the syntax error is built without a position")
					default:
						rr.OK(f, key, cl.Pos(), "located", "name and position are taken from the lexer / a recorded token")
					}
					return true
				})
			}
			// nested lexer copies the name
			if f := c.mustFn(rr, "parser.(*lexer).scanCmdSubst"); f != nil {
				info := f.Info()
				f.OwnNodes(func(n ast.Node) bool {
					cl, ok := n.(*ast.CompositeLit)
					if !ok || namedTypeName(info.Types[cl].Type) != "parser.lexer" {
						return true
					}
					ok = false
					for _, el := range cl.Elts {
						if kv, isKV := el.(*ast.KeyValueExpr); isKV && exprStr(kv.Key) == "name" && fieldSel(info, kv.Value, "parser", "lexer", "name") {
							ok = true
						}
					}
					key := f.Name + "|nested lexer name"
					if ok {
						rr.OK(f, key, cl.Pos(), "copied", "the nested lexer reports errors under the caller's name")
					} else {
						rr.Bad(f, key, cl.Pos(), "the nested lexer is created without the caller's name: errors inside $(…) lose it")
					}
					return true
				})
			}
			if f := c.mustFn(rr, "parser.(*lexer).Lex"); f != nil {
				info := f.Info()
				// every return that delivers a token (anything but the constant 0, end of
				// input) is preceded on all paths by the store of that token's position
				stored := core.NewFlow(f).MustSeen(false, func(x ast.Node) bool {
					call, ok := x.(*ast.CallExpr)
					return ok && calleeName(info, call) == "sync/atomic.(*Value).Store"
				}, nil)
				n := 0
				f.OwnNodes(func(x ast.Node) bool {
					r, ok := x.(*ast.ReturnStmt)
					if !ok || len(r.Results) != 1 {
						return true
					}
					if k, isConst := constInt(info, r.Results[0]); isConst && k == 0 {
						return true
					}
					n++
					key := fmt.Sprintf("%s|token return #%d", f.Name, n)
					if stored[r] {
						rr.OK(f, key, r.Pos(), "records", "records the delivered token's position for Error()")
					} else {
						rr.Bad(f, key, r.Pos(), "this token path does not record the token's position: a syntax error at it is reported at the previous token")
					}
					return true
				})
				if n == 0 {
					rr.Unk(f, f.Name+"|token returns", f.Pos(), "Lex has no return that delivers a token")
				}
			}
		}}
}

func exprStrOrNone(e ast.Expr) string {
	if e == nil {
		return "-"
	}
	return exprStr(e)
}

// ---------------------------------------------------------------------------
// RC2: read-driven loops leave on error.

func ruleRC2(pkgs ...string) Rule {
	return Rule{ID: "RC2", Kind: "must", Floor: 10,
		Doc: "every cycle in the control-flow graph of a lexer function contains a successful read (the err == nil edge of a read() call): with those edges removed no cycle remains, so a failing or exhausted reader cannot make a scanner spin; counted and range loops are exempt, alias-driven loops are listed exceptions",
		Run: func(c *Ctx, rr *core.RuleResult) {
			for _, pkg := range pkgs {
				readFn := c.fn(pkg + ".(*lexer).read")
				if readFn == nil {
					rr.Unkp(c.P, pkg+".(*lexer).read", 0, "no read method")
					continue
				}
				var lrole map[*core.Func]bool
				for _, g := range c.goRoots() {
					if g.Target.Pkg.Name == pkg {
						lrole = c.lexerRole(g.Target)
					}
				}
				for _, f := range sortedFuncs(lrole) {
					if f.Pkg.Name != pkg || f.Generated {
						continue
					}
					c.checkLoops(rr, f, readFn)
				}
			}
		}}
}

func (c *Ctx) checkLoops(rr *core.RuleResult, f *core.Func, readFn *core.Func) {
	info := f.Info()
	g := cfg.New(f.Body, core.MayReturn(info))
	pkg := f.Pkg.Name
	substFn := c.fn(pkg + ".(*lexer).subst")
	popFn := c.fn(pkg + ".(*heredoc).pop")
	callsFn := func(n ast.Node, target *core.Func) bool {
		if target == nil || n == nil {
			return false
		}
		found := false
		ast.Inspect(n, func(x ast.Node) bool {
			if _, isLit := x.(*ast.FuncLit); isLit {
				return false
			}
			if call, ok := x.(*ast.CallExpr); ok {
				if fo := core.StaticCallee(info, call); fo != nil && c.P.FuncOf(fo) == target {
					found = true
				}
			}
			return true
		})
		return found
	}
	// error variables assigned from read()
	errVars := map[types.Object]bool{}
	errPlaces := map[string]bool{}
	f.OwnNodes(func(n ast.Node) bool {
		as, ok := n.(*ast.AssignStmt)
		if !ok || len(as.Rhs) != 1 || len(as.Lhs) != 2 || !callsFn(as.Rhs[0], readFn) {
			return true
		}
		if id, ok := as.Lhs[1].(*ast.Ident); ok && id.Name != "_" {
			if o := info.Defs[id]; o != nil {
				errVars[o] = true
			} else if o := info.Uses[id]; o != nil {
				errVars[o] = true
			}
		}
		// the error kept in a field of a local scanner state (x.err)
		if se, ok := as.Lhs[1].(*ast.SelectorExpr); ok {
			if _, isID := ast.Unparen(se.X).(*ast.Ident); isID && core.FieldOf(info, se) != nil {
				errPlaces[exprStr(se)] = true
			}
		}
		return true
	})
	tokVars := map[types.Object]bool{}
	f.OwnNodes(func(n ast.Node) bool {
		as, ok := n.(*ast.AssignStmt)
		if !ok || len(as.Rhs) != 1 || len(as.Lhs) != 1 {
			return true
		}
		if !isTokenSource(c, info, as.Rhs[0], readFn) {
			return true
		}
		if id, ok := as.Lhs[0].(*ast.Ident); ok {
			if o := info.Defs[id]; o != nil {
				tokVars[o] = true
			} else if o := info.Uses[id]; o != nil {
				tokVars[o] = true
			}
		}
		return true
	})
	tokenVar := func(e ast.Expr) bool {
		if as, ok := ast.Unparen(e).(*ast.Ident); ok {
			return tokVars[info.Uses[as]]
		}
		return false
	}
	readsIn := func(b *cfg.Block) bool {
		for _, n := range b.Nodes {
			if callsFn(n, readFn) {
				return true
			}
		}
		return false
	}
	type edge struct{ from, to int32 }
	progress := map[edge]string{}
	for _, b := range g.Blocks {
		if len(b.Succs) != 2 {
			continue
		}
		switch b.Succs[0].Kind {
		case cfg.KindRangeBody:
			progress[edge{b.Index, b.Succs[0].Index}] = "range"
			continue
		case cfg.KindForBody:
			if fs, ok := b.Succs[0].Stmt.(*ast.ForStmt); ok {
				switch {
				case countedLoop(info, fs):
					progress[edge{b.Index, b.Succs[0].Index}] = "counted"
					continue
				case fs.Post != nil && callsFn(fs.Post, popFn):
					// for h := pop(); h != nil; h = pop(): one announced here-document per iteration
					progress[edge{b.Index, b.Succs[0].Index}] = "pop"
					continue
				case fs.Cond != nil && containsAtomicLoad(info, fs.Cond):
					// wait loop on the announcement counter (CC6)
					progress[edge{b.Index, b.Succs[0].Index}] = "counter-wait"
					continue
				case fs.Cond != nil && isActionLoop(info, fs):
					// the state machine driver; termination as a whole is not decided
					progress[edge{b.Index, b.Succs[0].Index}] = "state-machine"
					continue
				}
			}
		}
		if len(b.Nodes) == 0 {
			continue
		}
		cond, ok := b.Nodes[len(b.Nodes)-1].(ast.Expr)
		if !ok {
			continue
		}
		// tagged switch on a token variable: matching a positive token constant is progress
		if b.Succs[0].Kind == cfg.KindSwitchCaseBody {
			if cc, ok := b.Succs[0].Stmt.(*ast.CaseClause); ok {
				if sw, ok := c.P.Parent(c.P.Parent(cc)).(*ast.SwitchStmt); ok && sw.Tag != nil {
					if tokenVar(sw.Tag) && positiveConst(info, cond) {
						progress[edge{b.Index, b.Succs[0].Index}] = "token"
					}
					continue
				}
			}
		}
		// atoms known on each edge: && flattened on the true edge, || on the false edge
		for side, succ := range b.Succs {
			for _, at := range edgeAtoms(cond, side == 0) {
				e, truth := at.e, at.truth
				if call, ok := e.(*ast.CallExpr); ok && truth && callsFn(call, substFn) {
					progress[edge{b.Index, succ.Index}] = "alias"
				}
				be, ok := e.(*ast.BinaryExpr)
				if !ok {
					continue
				}
				if se, ok := ast.Unparen(be.X).(*ast.SelectorExpr); ok && isNilIdent(info, be.Y) && errPlaces[exprStr(se)] && readsIn(b) {
					if (be.Op == token.EQL && truth) || (be.Op == token.NEQ && !truth) {
						progress[edge{b.Index, succ.Index}] = "read"
					}
				}
				if id, ok := ast.Unparen(be.X).(*ast.Ident); ok {
					if isNilIdent(info, be.Y) && errVars[info.Uses[id]] && readsIn(b) {
						if (be.Op == token.EQL && truth) || (be.Op == token.NEQ && !truth) {
							progress[edge{b.Index, succ.Index}] = "read"
						}
					}
					if tokVars[info.Uses[id]] && positiveConst(info, be.Y) {
						if (be.Op == token.EQL && truth) || (be.Op == token.NEQ && !truth) {
							progress[edge{b.Index, succ.Index}] = "token"
						}
					}
				}
			}
		}
	}
	color := map[int32]int{}
	var cyc *cfg.Block
	var dfs func(b *cfg.Block)
	dfs = func(b *cfg.Block) {
		color[b.Index] = 1
		for _, s := range b.Succs {
			if progress[edge{b.Index, s.Index}] != "" {
				continue
			}
			switch color[s.Index] {
			case 0:
				dfs(s)
			case 1:
				if cyc == nil {
					cyc = s
				}
			}
		}
		color[b.Index] = 2
	}
	// every live block is a potential start once progress edges are cut
	for _, b := range g.Blocks {
		if b.Live && color[b.Index] == 0 {
			dfs(b)
		}
	}
	kinds := map[string]int{}
	for _, k := range progress {
		kinds[k]++
	}
	hasLoop := false
	for _, b := range g.Blocks {
		for _, s := range b.Succs {
			if s.Index <= b.Index && b.Live {
				hasLoop = true
			}
		}
	}
	key := f.Name + "|cycles"
	switch {
	case cyc == nil && !hasLoop:
		return
	case cyc == nil:
		rr.OK(f, key, f.Pos(), "progress", fmt.Sprintf("every cycle passes a progress edge %v", kinds))
	default:
		pos := f.Pos()
		if cyc.Stmt != nil {
			pos = cyc.Stmt.Pos()
		} else if len(cyc.Nodes) > 0 {
			pos = cyc.Nodes[0].Pos()
		}
		rr.Bad(f, key, pos, "this loop can repeat without a successful read(), a pushed alias or a popped here-document: after a read error or at end of input the scanner spins forever")
	}
}

// isActionLoop recognises `for a := …; a != nil; { a = a() }`.
func isActionLoop(info *types.Info, fs *ast.ForStmt) bool {
	be, ok := ast.Unparen(fs.Cond).(*ast.BinaryExpr)
	if !ok || be.Op != token.NEQ || !isNilIdent(info, be.Y) {
		return false
	}
	t := info.Types[be.X].Type
	if t == nil {
		return false
	}
	_, isFunc := t.Underlying().(*types.Signature)
	return isFunc
}

// countedLoop recognises `for i := …; i <op> bound; i++/i--`.
func countedLoop(info *types.Info, fs *ast.ForStmt) bool {
	if fs.Cond == nil || fs.Post == nil {
		return false
	}
	inc, ok := fs.Post.(*ast.IncDecStmt)
	if !ok {
		return false
	}
	id, ok := inc.X.(*ast.Ident)
	if !ok {
		return false
	}
	// one conjunct bounds the counter; further conjuncts only end the loop earlier
	for _, cj := range conj(fs.Cond) {
		be, ok := ast.Unparen(cj).(*ast.BinaryExpr)
		if !ok {
			continue
		}
		switch be.Op {
		case token.LSS, token.LEQ, token.GTR, token.GEQ:
		default:
			continue
		}
		if x, ok := ast.Unparen(be.X).(*ast.Ident); ok && info.Uses[x] == info.Uses[id] {
			return true
		}
	}
	return false
}

type atom struct {
	e     ast.Expr
	truth bool
}

// edgeAtoms returns the atomic conditions known on the edge taken when
// cond evaluates to truth.
func edgeAtoms(cond ast.Expr, truth bool) []atom {
	cond = ast.Unparen(cond)
	if u, ok := cond.(*ast.UnaryExpr); ok && u.Op == token.NOT {
		return edgeAtoms(u.X, !truth)
	}
	if be, ok := cond.(*ast.BinaryExpr); ok {
		if (be.Op == token.LAND && truth) || (be.Op == token.LOR && !truth) {
			return append(edgeAtoms(be.X, truth), edgeAtoms(be.Y, truth)...)
		}
		if be.Op == token.LAND || be.Op == token.LOR {
			return nil
		}
	}
	return []atom{{cond, truth}}
}

func positiveConst(info *types.Info, e ast.Expr) bool {
	v, ok := constInt(info, e)
	return ok && v > 0
}

// isTokenSource reports whether e is a call of a lexer method returning int
// that (transitively) reads input: a failed read makes it return <= 0.
func isTokenSource(c *Ctx, info *types.Info, e ast.Expr, readFn *core.Func) bool {
	call, ok := ast.Unparen(e).(*ast.CallExpr)
	if !ok {
		return false
	}
	// l.tr(l.scanRawToken()) translates but keeps non-positive values
	fo := core.StaticCallee(info, call)
	if fo == nil {
		return false
	}
	g := c.P.FuncOf(fo)
	if g == nil {
		return false
	}
	if g == c.fn(g.Pkg.Name+".(*lexer).tr") && len(call.Args) == 1 {
		return isTokenSource(c, info, call.Args[0], readFn)
	}
	sig := fo.Type().(*types.Signature)
	if sig.Results().Len() != 1 || sig.Results().At(0).Type().String() != "int" {
		return false
	}
	return c.P.CG().Reachable(g)[readFn]
}

// slotEmptyOrSyntax reports whether cond is a disjunction each of whose
// operands says that the error slot is nil or holds a parser.Error (the
// comma-ok variable of an assertion `slot.(Error)` made in an enclosing
// if/else-if header).
func slotEmptyOrSyntax(info *types.Info, cond ast.Expr, slot *types.Var) bool {
	cond = ast.Unparen(cond)
	if be, ok := cond.(*ast.BinaryExpr); ok && be.Op == token.LOR {
		return slotEmptyOrSyntax(info, be.X, slot) && slotEmptyOrSyntax(info, be.Y, slot)
	}
	if be, ok := cond.(*ast.BinaryExpr); ok && be.Op == token.EQL && core.FieldOf(info, be.X) == slot && isNilIdent(info, be.Y) {
		return true
	}
	if id, ok := cond.(*ast.Ident); ok {
		if v, ok := info.Uses[id].(*types.Var); ok && isOkOfSlotAssert(info, v, slot) {
			return true
		}
	}
	return isSlotSyntaxAssert(info, cond, slot)
}

// isSlotSyntaxAssert recognises the guard `slot.(parser.Error)` that guardsOf
// synthesises for a `case Error:` clause of a type switch on the slot.
func isSlotSyntaxAssert(info *types.Info, cond ast.Expr, slot *types.Var) bool {
	ta, ok := ast.Unparen(cond).(*ast.TypeAssertExpr)
	if !ok || ta.Type == nil || core.FieldOf(info, ta.X) != slot {
		return false
	}
	tv, ok := info.Types[ta.Type]
	return ok && strings.HasSuffix(namedTypeName(tv.Type), ".Error")
}

// isOkOfSlotAssert reports whether v is defined as the second result of
// `slot.(parser.Error)`.
func isOkOfSlotAssert(info *types.Info, v *types.Var, slot *types.Var) bool {
	found := false
	if p := core.CurrentProgram; p != nil {
		for _, pk := range p.Pkgs {
			if pk.TypesInfo != info {
				continue
			}
			for _, file := range pk.Syntax {
				if file.Pos() > v.Pos() || v.Pos() > file.End() {
					continue
				}
				ast.Inspect(file, func(n ast.Node) bool {
					as, ok := n.(*ast.AssignStmt)
					if !ok || len(as.Lhs) != 2 || len(as.Rhs) != 1 {
						return true
					}
					id, ok := as.Lhs[1].(*ast.Ident)
					if !ok || info.Defs[id] != types.Object(v) {
						return true
					}
					ta, ok := ast.Unparen(as.Rhs[0]).(*ast.TypeAssertExpr)
					if ok && ta.Type != nil && core.FieldOf(info, ta.X) == slot && namedTypeName(info.Types[ta.Type].Type) == "parser.Error" {
						found = true
					}
					return true
				})
			}
		}
	}
	return found
}
