package rules

import (
	"go/ast"
	"go/constant"
	"go/token"
	"go/types"

	"verif/sa/core"
)

// Options with a neutral default.
//
// The properties speak about the library as it is entered through its
// documented entry points.  A field that only an *option setter* writes - a
// function literal returned by an exported function that the library itself
// never calls (`func SkipComments() Option { return func(o *options) {
// o.skipComments = true } }`) - keeps its zero value in every such run: the
// setter needs a pointer to the options record, and only an entry point that
// accepts options ever hands one out.  A condition over such fields and
// constants therefore has a known value, and the code it switches off is not
// a path of the library as the properties see it.
//
// neutralFields is deliberately narrow: unexported fields of unexported struct
// types, written at least once, and nowhere but in such setters.

func (c *Ctx) neutralFields() map[*types.Var]bool {
	if v, ok := c.cache["neutralFields"]; ok {
		return v.(map[*types.Var]bool)
	}
	out := map[*types.Var]bool{}
	c.cache["neutralFields"] = out // the computation below builds no flows, but be safe against re-entry
	writes := map[*types.Var]int{}
	bad := map[*types.Var]bool{}
	candidate := func(v *types.Var) bool {
		return v != nil && v.IsField() && !v.Exported() && v.Pkg() != nil
	}
	isSetter := func(f *core.Func) bool {
		if f.Lit == nil || f.Parent == nil || f.Parent.Decl == nil || f.Parent.Decl.Recv != nil || !f.Parent.Decl.Name.IsExported() {
			return false
		}
		if _, isRet := c.P.Parent(f.Lit).(*ast.ReturnStmt); !isRet {
			return false
		}
		calls, _ := c.callSitesOf(f.Parent)
		return len(calls) == 0
	}
	for _, f := range c.P.Funcs {
		info := f.Info()
		setter := isSetter(f)
		note := func(e ast.Expr) {
			se, ok := ast.Unparen(e).(*ast.SelectorExpr)
			if !ok {
				return
			}
			v := core.FieldOf(info, se)
			if !candidate(v) {
				return
			}
			writes[v]++
			if !setter {
				bad[v] = true
			}
		}
		f.OwnNodes(func(n ast.Node) bool {
			switch x := n.(type) {
			case *ast.AssignStmt:
				for _, l := range x.Lhs {
					note(l)
				}
			case *ast.IncDecStmt:
				note(x.X)
			case *ast.UnaryExpr:
				if x.Op == token.AND {
					note(x.X)
				}
			case *ast.CompositeLit:
				tv, ok := info.Types[x]
				if !ok || tv.Type == nil {
					return true
				}
				t := tv.Type
				if p, isPtr := t.Underlying().(*types.Pointer); isPtr {
					t = p.Elem()
				}
				st, ok := t.Underlying().(*types.Struct)
				if !ok {
					return true
				}
				for i, el := range x.Elts {
					var fv *types.Var
					val := el
					if kv, isKV := el.(*ast.KeyValueExpr); isKV {
						if id, isID := kv.Key.(*ast.Ident); isID {
							fv, _ = info.Uses[id].(*types.Var)
						}
						val = kv.Value
					} else if i < st.NumFields() {
						fv = st.Field(i)
					}
					if !candidate(fv) {
						continue
					}
					if tvv, has := info.Types[val]; has && tvv.Value != nil && isZeroConst(tvv.Value) {
						continue
					}
					writes[fv]++
					bad[fv] = true
				}
			}
			return true
		})
	}
	for v, n := range writes {
		if n > 0 && !bad[v] {
			// the struct type itself must be unexported
			ok := false
			if sc := v.Pkg().Scope(); sc != nil {
				for _, nm := range sc.Names() {
					tn, isTN := sc.Lookup(nm).(*types.TypeName)
					if !isTN || tn.Exported() {
						continue
					}
					if st, isSt := tn.Type().Underlying().(*types.Struct); isSt {
						for i := 0; i < st.NumFields(); i++ {
							if st.Field(i) == v {
								ok = true
							}
						}
					}
				}
			}
			if ok {
				out[v] = true
			}
		}
	}
	return out
}

func isZeroConst(v constant.Value) bool {
	switch v.Kind() {
	case constant.Bool:
		return !constant.BoolVal(v)
	case constant.Int, constant.Float:
		return constant.Sign(v) == 0
	case constant.String:
		return constant.StringVal(v) == ""
	}
	return false
}

// knownCond evaluates a condition over neutral option fields and constants.
func (c *Ctx) knownCond(f *core.Func, cond ast.Expr) (val, known bool) {
	nf := c.neutralFields()
	info := f.Info()
	// a method that the module only ever runs on a zero value: its receiver's fields are zero
	if root := f.Root(); c.zeroReceiver(root) && len(root.Decl.Recv.List[0].Names) == 1 {
		recv := info.Defs[root.Decl.Recv.List[0].Names[0]]
		ext := map[*types.Var]bool{}
		for v := range nf {
			ext[v] = true
		}
		ast.Inspect(cond, func(n ast.Node) bool {
			if se, ok := n.(*ast.SelectorExpr); ok {
				if id, isID := ast.Unparen(se.X).(*ast.Ident); isID && info.Uses[id] == recv && recv != nil {
					if v := core.FieldOf(info, se); v != nil {
						ext[v] = true
					}
				}
			}
			return true
		})
		nf = ext
	}
	if len(nf) == 0 {
		return false, false
	}
	var eval func(e ast.Expr) constant.Value
	eval = func(e ast.Expr) constant.Value {
		e = ast.Unparen(e)
		if tv, ok := info.Types[e]; ok && tv.Value != nil {
			return tv.Value
		}
		switch x := e.(type) {
		case *ast.SelectorExpr:
			if v := core.FieldOf(info, x); v != nil && nf[v] {
				switch b := v.Type().Underlying().(type) {
				case *types.Basic:
					switch {
					case b.Info()&types.IsBoolean != 0:
						return constant.MakeBool(false)
					case b.Info()&types.IsInteger != 0:
						return constant.MakeInt64(0)
					case b.Info()&types.IsString != 0:
						return constant.MakeString("")
					}
				}
			}
		case *ast.UnaryExpr:
			if x.Op == token.NOT {
				if v := eval(x.X); v != nil && v.Kind() == constant.Bool {
					return constant.MakeBool(!constant.BoolVal(v))
				}
			}
		case *ast.BinaryExpr:
			l, r := eval(x.X), eval(x.Y)
			switch x.Op {
			case token.LAND:
				if l != nil && l.Kind() == constant.Bool && !constant.BoolVal(l) || r != nil && r.Kind() == constant.Bool && !constant.BoolVal(r) {
					return constant.MakeBool(false)
				}
				if l != nil && r != nil && l.Kind() == constant.Bool && r.Kind() == constant.Bool {
					return constant.MakeBool(true)
				}
			case token.LOR:
				if l != nil && l.Kind() == constant.Bool && constant.BoolVal(l) || r != nil && r.Kind() == constant.Bool && constant.BoolVal(r) {
					return constant.MakeBool(true)
				}
				if l != nil && r != nil && l.Kind() == constant.Bool && r.Kind() == constant.Bool {
					return constant.MakeBool(false)
				}
			case token.EQL, token.NEQ, token.LSS, token.LEQ, token.GTR, token.GEQ:
				if l != nil && r != nil && l.Kind() == r.Kind() && l.Kind() != constant.Unknown {
					if l.Kind() == constant.Bool {
						if x.Op == token.EQL {
							return constant.MakeBool(constant.BoolVal(l) == constant.BoolVal(r))
						}
						if x.Op == token.NEQ {
							return constant.MakeBool(constant.BoolVal(l) != constant.BoolVal(r))
						}
						return nil
					}
					return constant.MakeBool(constant.Compare(l, x.Op, r))
				}
			}
		}
		return nil
	}
	// only conditions that mention a neutral field are of interest
	mentions := false
	ast.Inspect(cond, func(n ast.Node) bool {
		if se, ok := n.(*ast.SelectorExpr); ok {
			if v := core.FieldOf(info, se); v != nil && nf[v] {
				mentions = true
			}
		}
		return true
	})
	if !mentions {
		return false, false
	}
	if v := eval(cond); v != nil && v.Kind() == constant.Bool {
		return constant.BoolVal(v), true
	}
	return false, false
}

// nonNegFields: integer fields of the module's structs that are assigned at
// least once and only ever a length, a non-negative constant, or a local that
// holds a copy of the very field (`base := p.base; …; p.base = base`).  Their
// zero value is non-negative too, so they are non-negative wherever read.
func (c *Ctx) nonNegFields() map[*types.Var]bool {
	writes := map[*types.Var]int{}
	bad := map[*types.Var]bool{}
	for _, f := range c.P.Funcs {
		info := f.Info()
		okRHS := func(fv *types.Var, r ast.Expr) bool {
			r = ast.Unparen(r)
			if tv, has := info.Types[r]; has && tv.Value != nil {
				return constant.Sign(tv.Value) >= 0
			}
			if call, isCall := r.(*ast.CallExpr); isCall && isBuiltinCall(info, call, "len") {
				return true
			}
			if id, isID := r.(*ast.Ident); isID {
				if v, isVar := info.Uses[id].(*types.Var); isVar && !v.IsField() && !reassigned(f.Root(), v) {
					if d := localDef(f.Root(), info, v); d != nil {
						if se, isSel := ast.Unparen(d).(*ast.SelectorExpr); isSel && core.FieldOf(info, se) == fv {
							return true
						}
					}
				}
			}
			return false
		}
		f.OwnNodes(func(n ast.Node) bool {
			switch x := n.(type) {
			case *ast.AssignStmt:
				for i, l := range x.Lhs {
					fv := core.FieldOf(info, l)
					if fv == nil || !isIntegerType(fv.Type()) {
						continue
					}
					writes[fv]++
					if x.Tok != token.ASSIGN || len(x.Lhs) != len(x.Rhs) || !okRHS(fv, x.Rhs[i]) {
						bad[fv] = true
					}
				}
			case *ast.IncDecStmt:
				if fv := core.FieldOf(info, x.X); fv != nil {
					writes[fv]++
					bad[fv] = true
				}
			case *ast.UnaryExpr:
				if x.Op == token.AND {
					if fv := core.FieldOf(info, x.X); fv != nil {
						bad[fv] = true
					}
				}
			case *ast.KeyValueExpr:
				if id, ok := x.Key.(*ast.Ident); ok {
					if fv, isVar := info.Uses[id].(*types.Var); isVar && fv.IsField() && isIntegerType(fv.Type()) {
						writes[fv]++
						if !okRHS(fv, x.Value) {
							bad[fv] = true
						}
					}
				}
			}
			return true
		})
	}
	out := map[*types.Var]bool{}
	for v, n := range writes {
		if n > 0 && !bad[v] && !v.Exported() {
			out[v] = true
		}
	}
	return out
}
