package rules

import (
	"fmt"
	"go/ast"
	"go/token"
	"go/types"
	"sort"
	"strings"

	"verif/sa/core"
)

// lexerStructs returns the struct types whose fields are shared between
// the lexer goroutine and the parser: `lexer` and (parser only) `heredoc`.
func (c *Ctx) sharedStructFields(pkg string) map[*types.Var]string {
	out := map[*types.Var]string{}
	pk := c.P.Pkgs[pkg]
	for _, tn := range []string{"lexer", "heredoc"} {
		obj := pk.Types.Scope().Lookup(tn)
		if obj == nil {
			continue
		}
		st, ok := obj.Type().Underlying().(*types.Struct)
		if !ok {
			continue
		}
		for i := 0; i < st.NumFields(); i++ {
			out[st.Field(i)] = tn + "." + st.Field(i).Name()
		}
	}
	return out
}

// spawn describes a place where a lexer goroutine is started and the
// variable that holds the lexer afterwards.
type spawn struct {
	In   *core.Func
	Var  types.Object
	At   ast.Node // the go statement, or the call that (transitively) executes it
	Root *core.Func
}

func (c *Ctx) spawns(pkg string) []spawn {
	var out []spawn
	roots := c.goRoots()
	// functions that execute a go statement on the lexer they return (newLexer)
	ctor := map[*core.Func]*core.Func{}
	for _, g := range roots {
		if g.Target.Pkg.Name == pkg {
			ctor[g.In] = g.Target
		}
	}
	// a function that returns what a constructor returns is a constructor too
	// (newLexer delegating to a variant with more parameters)
	for changed := true; changed; {
		changed = false
		for _, f := range c.funcsOfPkg(pkg, false) {
			if ctor[f] != nil || f.Decl == nil {
				continue
			}
			info := f.Info()
			f.OwnNodes(func(n ast.Node) bool {
				ret, ok := n.(*ast.ReturnStmt)
				if !ok || len(ret.Results) != 1 {
					return true
				}
				if call, ok := ast.Unparen(ret.Results[0]).(*ast.CallExpr); ok {
					if fo := core.StaticCallee(info, call); fo != nil {
						if g := c.P.FuncOf(fo); g != nil && ctor[g] != nil && ctor[f] == nil {
							ctor[f] = ctor[g]
							changed = true
						}
					}
				}
				return true
			})
		}
	}
	for _, f := range c.funcsOfPkg(pkg, false) {
		info := f.Info()
		f.OwnNodes(func(n ast.Node) bool {
			switch n := n.(type) {
			case *ast.GoStmt:
				// go x.run()
				if se, ok := n.Call.Fun.(*ast.SelectorExpr); ok {
					if id, ok := se.X.(*ast.Ident); ok {
						for _, t := range c.P.CG().Callees(f, n.Call) {
							out = append(out, spawn{In: f, Var: info.Uses[id], At: n, Root: t})
						}
					}
				}
			case *ast.AssignStmt:
				if len(n.Lhs) == 1 && len(n.Rhs) == 1 {
					if call, ok := n.Rhs[0].(*ast.CallExpr); ok {
						if fo := core.StaticCallee(info, call); fo != nil {
							if g := c.P.FuncOf(fo); g != nil && ctor[g] != nil {
								if id, ok := n.Lhs[0].(*ast.Ident); ok {
									obj := info.Defs[id]
									if obj == nil {
										obj = info.Uses[id]
									}
									out = append(out, spawn{In: f, Var: obj, At: n, Root: ctor[g]})
								}
							}
						}
					}
				}
			}
			return true
		})
	}
	// the constructor itself holds the spawned value in a local; it returns it (no reads after go)
	return out
}

// lexerRole returns the functions that run in the goroutine started at root,
// not following calls into yyParse (which works on another lexer instance).
func (c *Ctx) lexerRole(root *core.Func) map[*core.Func]bool {
	key := "lexerRole:" + root.Name
	if v, ok := c.cache[key]; ok {
		return v.(map[*core.Func]bool)
	}
	spawnVars := map[types.Object]bool{}
	for _, sp := range c.spawns(root.Pkg.Name) {
		spawnVars[sp.Var] = true
	}
	cg := c.P.CG()
	out := map[*core.Func]bool{root: true}
	work := []*core.Func{root}
	for len(work) > 0 {
		f := work[0]
		work = work[1:]
		info := f.Info()
		// calls made on (or handed) a lexer this function has spawned itself concern that
		// other instance, for which this goroutine plays the parser's part
		other := map[*ast.CallExpr]bool{}
		f.OwnNodes(func(n ast.Node) bool {
			call, ok := n.(*ast.CallExpr)
			if !ok {
				return true
			}
			isSpawned := func(e ast.Expr) bool {
				id, ok := ast.Unparen(e).(*ast.Ident)
				return ok && spawnVars[info.Uses[id]]
			}
			if se, ok := ast.Unparen(call.Fun).(*ast.SelectorExpr); ok && isSpawned(se.X) {
				other[call] = true
			}
			for _, a := range call.Args {
				if isSpawned(a) {
					other[call] = true
				}
			}
			return true
		})
		var next []*core.Func
		f.OwnNodes(func(n ast.Node) bool {
			call, ok := n.(*ast.CallExpr)
			if !ok || other[call] {
				return true
			}
			if _, isGo := c.P.Parent(call).(*ast.GoStmt); isGo {
				return true
			}
			next = append(next, cg.Callees(f, call)...)
			return true
		})
		next = append(next, f.Lits...)
		for _, g := range next {
			if g == nil || out[g] || g.Short == "yyParse" {
				continue
			}
			out[g] = true
			work = append(work, g)
		}
	}
	c.cache[key] = out
	return out
}

// joiners are the methods that wait for the lexer goroutine of their receiver
// before they return: a receive from the receiver's done channel is a
// statement of the body itself (under no condition) and no return statement
// comes before it.
func (c *Ctx) joiners(pkg string) map[*core.Func]bool {
	key := "joiners:" + pkg
	if v, ok := c.cache[key]; ok {
		return v.(map[*core.Func]bool)
	}
	out := map[*core.Func]bool{}
	done := c.fieldVar(pkg, "lexer", "done")
	for _, f := range c.funcsOfPkg(pkg, false) {
		if done == nil || f.Decl == nil || f.Decl.Recv == nil || len(f.Decl.Recv.List) != 1 || len(f.Decl.Recv.List[0].Names) != 1 {
			continue
		}
		info := f.Info()
		recv := info.Defs[f.Decl.Recv.List[0].Names[0]]
		var at token.Pos
		for _, st := range f.Body.List {
			es, ok := st.(*ast.ExprStmt)
			if !ok {
				continue
			}
			u, ok := ast.Unparen(es.X).(*ast.UnaryExpr)
			if !ok || u.Op != token.ARROW || core.FieldOf(info, u.X) != done {
				continue
			}
			if id, ok := ast.Unparen(u.X.(*ast.SelectorExpr).X).(*ast.Ident); ok && info.Uses[id] == recv {
				at = st.Pos()
				break
			}
		}
		if at == token.NoPos {
			continue
		}
		early := false
		f.OwnNodes(func(n ast.Node) bool {
			if r, ok := n.(*ast.ReturnStmt); ok && r.Pos() < at {
				early = true
			}
			return true
		})
		if !early {
			out[f] = true
		}
	}
	c.cache[key] = out
	return out
}

// isJoinOf recognises the join of the lexer held in v: `<-v.done`, or a call
// of a joiner method on v.
func (c *Ctx) isJoinOf(pkg string, info *types.Info, v types.Object) func(ast.Node) bool {
	done := c.fieldVar(pkg, "lexer", "done")
	joiners := c.joiners(pkg)
	return func(n ast.Node) bool {
		switch x := n.(type) {
		case *ast.UnaryExpr:
			if x.Op != token.ARROW || done == nil || core.FieldOf(info, x.X) != done {
				return false
			}
			id, ok := ast.Unparen(x.X.(*ast.SelectorExpr).X).(*ast.Ident)
			return ok && info.Uses[id] == v
		case *ast.CallExpr:
			se, ok := ast.Unparen(x.Fun).(*ast.SelectorExpr)
			if !ok {
				return false
			}
			id, ok := ast.Unparen(se.X).(*ast.Ident)
			if !ok || info.Uses[id] != v {
				return false
			}
			if fo := core.StaticCallee(info, x); fo != nil {
				return joiners[c.P.FuncOf(fo)]
			}
		}
		return false
	}
}

// receiverAccesses lists the unprotected accesses a method makes to shared
// fields through its receiver, its own and those of the methods it calls on
// the receiver (two levels).
func (c *Ctx) receiverAccesses(m *core.Func, fields map[*types.Var]string, depth int) []access {
	if m == nil || m.Decl == nil || m.Decl.Recv == nil || len(m.Decl.Recv.List) != 1 || len(m.Decl.Recv.List[0].Names) != 1 || depth > 2 {
		return nil
	}
	info := m.Info()
	recv := info.Defs[m.Decl.Recv.List[0].Names[0]]
	var out []access
	for _, a := range c.accesses(m, fields) {
		if a.via == recv && a.prot == "" {
			out = append(out, a)
		}
	}
	m.OwnNodes(func(n ast.Node) bool {
		call, ok := n.(*ast.CallExpr)
		if !ok {
			return true
		}
		if se, ok := ast.Unparen(call.Fun).(*ast.SelectorExpr); ok {
			if id, ok := ast.Unparen(se.X).(*ast.Ident); ok && info.Uses[id] == recv {
				if fo := core.StaticCallee(info, call); fo != nil {
					out = append(out, c.receiverAccesses(c.P.FuncOf(fo), fields, depth+1)...)
				}
			}
		}
		return true
	})
	return out
}

// parserRole returns the functions that run in the parser's goroutine with
// respect to the lexer instance passed to yyParse.
func (c *Ctx) parserRole(pkg string) map[*core.Func]bool {
	roots := c.roots(pkg+".(*lexer).Lex", pkg+".(*lexer).Error", pkg+".yyParse")
	stop := map[*core.Func]bool{}
	for _, g := range c.goRoots() {
		stop[g.Target] = true
	}
	// yyParse reaches the lexer's methods only through the yyLexer interface
	// (Lex, Error) and through what the actions call.
	out := c.P.CG().ReachableStop(func(g *core.Func) bool { return stop[g] }, roots...)
	for g := range stop {
		delete(out, g)
	}
	return out
}

// heldLockCtx is heldLock with the caller-held case: a function all of
// whose call sites are reached with the mutex held ("l.mu must be held")
// holds it from entry.
func (c *Ctx) heldLockCtx(f *core.Func) map[ast.Node]bool {
	key := "heldLockCtx:" + f.Name
	if v, ok := c.cache[key]; ok {
		return v.(map[ast.Node]bool)
	}
	var out map[ast.Node]bool
	if c.entryLocked(f, map[*core.Func]bool{}) {
		out = map[ast.Node]bool{}
		f.OwnNodes(func(n ast.Node) bool {
			out[n] = true
			return true
		})
	} else {
		out = heldLock(c.P, f)
	}
	c.cache[key] = out
	return out
}

// entryLocked reports whether every call site of f (a declared, non-exported
// function that is only ever called, never used as a value) holds the mutex.
func (c *Ctx) entryLocked(f *core.Func, visiting map[*core.Func]bool) bool {
	if f.Decl == nil || f.Obj == nil || f.Obj.Exported() || visiting[f] {
		return false
	}
	key := "entryLocked:" + f.Name
	if v, ok := c.cache[key]; ok {
		return v.(bool)
	}
	visiting[f] = true
	defer delete(visiting, f)
	ncalls := 0
	ok := true
	for _, g := range c.P.Funcs {
		if g.Pkg != f.Pkg || !ok {
			continue
		}
		info := g.Info()
		var held map[ast.Node]bool
		g.OwnNodes(func(n ast.Node) bool {
			id, isID := n.(*ast.Ident)
			if !isID || info.Uses[id] != types.Object(f.Obj) {
				return true
			}
			// the use must be the callee of a call expression
			var fun ast.Node = id
			if se, isSel := c.P.Parent(id).(*ast.SelectorExpr); isSel && se.Sel == id {
				fun = se
			}
			call, isCall := c.P.Parent(fun).(*ast.CallExpr)
			if !isCall || call.Fun != fun {
				ok = false
				return true
			}
			if _, isGo := c.P.Parent(call).(*ast.GoStmt); isGo {
				ok = false
				return true
			}
			ncalls++
			if held == nil {
				held = heldLock(c.P, g)
			}
			if !held[call] && !c.entryLocked(g.Root(), visiting) {
				ok = false
			}
			return true
		})
	}
	res := ok && ncalls > 0
	c.cache[key] = res
	return res
}

// heldLock computes, for each node of f, whether a mutex field of the
// shared structs is held (must analysis; defer Unlock keeps it held).
func heldLock(p *core.Program, f *core.Func) map[ast.Node]bool {
	info := f.Info()
	isCall := func(n ast.Node, name string) bool {
		call, ok := n.(*ast.CallExpr)
		if !ok || calleeName(info, call) != "sync.(*Mutex)."+name {
			return false
		}
		if _, deferred := p.Parent(call).(*ast.DeferStmt); deferred {
			return false
		}
		return true
	}
	fl := core.NewFlow(f)
	return fl.MustSeen(false, func(n ast.Node) bool { return isCall(n, "Lock") }, func(n ast.Node) bool { return isCall(n, "Unlock") })
}

type access struct {
	f     *core.Func
	node  *ast.SelectorExpr
	write bool
	prot  string // "", lock, atomic, chan, atomic.Value
	via   types.Object
}

// accesses lists the accesses to shared-struct fields in f.
func (c *Ctx) accesses(f *core.Func, fields map[*types.Var]string) []access {
	info := f.Info()
	var out []access
	held := c.heldLockCtx(f)
	writes := map[ast.Expr]bool{}
	f.OwnNodes(func(n ast.Node) bool {
		switch n := n.(type) {
		case *ast.AssignStmt:
			for _, l := range n.Lhs {
				writes[ast.Unparen(l)] = true
				if ix, ok := ast.Unparen(l).(*ast.IndexExpr); ok {
					writes[ast.Unparen(ix.X)] = true
				}
			}
		case *ast.IncDecStmt:
			writes[ast.Unparen(n.X)] = true
		}
		return true
	})
	f.OwnNodes(func(n ast.Node) bool {
		se, ok := n.(*ast.SelectorExpr)
		if !ok {
			return true
		}
		v := core.FieldOf(info, se)
		if v == nil {
			return true
		}
		if _, shared := fields[v]; !shared {
			return true
		}
		a := access{f: f, node: se, write: writes[se]}
		if id, ok := ast.Unparen(se.X).(*ast.Ident); ok {
			a.via = info.Uses[id]
		}
		// protection
		par := c.P.Parent(se)
		switch {
		case namedTypeName(v.Type()) == "atomic.Value":
			a.prot = "atomic.Value"
		case strings.HasPrefix(namedTypeName(v.Type()), "atomic.") && v.Type().String() != "sync/atomic.Value":
			// atomic.Uint32, atomic.Int64, atomic.Bool, atomic.Pointer[T]: every access is a method of the type,
			// with or without the mutex held
			a.prot = "atomic"
		case held[se]:
			a.prot = "lock"
		case isChanType(v.Type()):
			a.prot = "chan"
		case namedTypeName(v.Type()) == "sync.Mutex":
			a.prot = "mutex-itself"
		default:
			// &x.f passed to a sync/atomic function
			if u, ok := par.(*ast.UnaryExpr); ok && u.Op == token.AND {
				if call, ok := c.P.Parent(u).(*ast.CallExpr); ok && strings.HasPrefix(calleeName(info, call), "sync/atomic.") {
					a.prot = "atomic"
				}
			}
			// strings.Builder and nested struct values: method calls on them are accesses of the field itself
		}
		// a selector that only continues into a nested shared struct (l.heredoc.n) is not an access of `heredoc`
		if _, isSel := par.(*ast.SelectorExpr); isSel {
			if _, isStruct := v.Type().Underlying().(*types.Struct); isStruct && namedTypeName(v.Type()) != "strings.Builder" && !strings.HasPrefix(namedTypeName(v.Type()), "atomic.") {
				return true
			}
		}
		out = append(out, a)
		return true
	})
	return out
}

func isChanType(t types.Type) bool {
	_, ok := t.Underlying().(*types.Chan)
	return ok
}

func ruleCC2(pkgs ...string) Rule {
	return Rule{ID: "CC2", Kind: "must", Floor: len(pkgs),
		Doc: "wherever a lexer goroutine is started, every later unprotected access in that function to a field the goroutine may also touch is preceded on every path by a receive from the channel the root closes when it ends (join); so results are read only after the lexer has stopped and nothing keeps running after return",
		Run: func(c *Ctx, rr *core.RuleResult) {
			for _, pkg := range pkgs {
				fields := c.sharedStructFields(pkg)
				sps := c.spawns(pkg)
				if len(sps) == 0 {
					rr.Unkp(c.P, pkg+"|spawns", 0, "no lexer goroutine is started in package "+pkg)
					continue
				}
				spawnVars := map[types.Object]bool{}
				for _, sp := range sps {
					spawnVars[sp.Var] = true
				}
				for _, sp := range sps {
					f := sp.In
					info := f.Info()
					// fields the goroutine may access on its own lexer (accesses
					// through a freshly spawned variable concern another instance)
					lrole := c.lexerRole(sp.Root)
					touched := map[*types.Var]bool{}
					for g := range lrole {
						for _, a := range c.accesses(g, fields) {
							if a.via != nil && spawnVars[a.via] {
								continue
							}
							touched[core.FieldOf(g.Info(), a.node)] = true
						}
					}
					fl := core.NewFlow(f)
					after := fl.Reaches(func(n ast.Node) bool { return n == sp.At }, nil)
					joined := fl.MustSeen(false, c.isJoinOf(pkg, info, sp.Var), func(n ast.Node) bool { return n == sp.At })
					n := 0
					// what the methods called on the spawned lexer read and write through their receiver
					// happens, for this purpose, at the call
					f.OwnNodes(func(x ast.Node) bool {
						call, ok := x.(*ast.CallExpr)
						if !ok || !after[call] || call.Pos() < sp.At.Pos() && !inLoop(c.P, sp.At) {
							return true
						}
						if gs, isGo := sp.At.(*ast.GoStmt); isGo && gs.Call == call {
							return true // the spawn itself
						}
						se, ok := ast.Unparen(call.Fun).(*ast.SelectorExpr)
						if !ok {
							return true
						}
						id, ok := ast.Unparen(se.X).(*ast.Ident)
						if !ok || info.Uses[id] != sp.Var {
							return true
						}
						fo := core.StaticCallee(info, call)
						if fo == nil {
							return true
						}
						m := c.P.FuncOf(fo)
						seen := map[*types.Var]bool{}
						// a deferred method runs when the function is left: what counts is the join inside it
						var inMethod map[ast.Node]bool
						if _, deferred := c.P.Parent(call).(*ast.DeferStmt); deferred && m != nil && m.Decl != nil && m.Decl.Recv != nil && len(m.Decl.Recv.List) == 1 && len(m.Decl.Recv.List[0].Names) == 1 {
							mi := m.Info()
							inMethod = core.NewFlow(m).MustSeen(false, c.isJoinOf(pkg, mi, mi.Defs[m.Decl.Recv.List[0].Names[0]]), nil)
						}
						for _, a := range c.receiverAccesses(m, fields, 0) {
							fv := core.FieldOf(a.f.Info(), a.node)
							if seen[fv] || !touched[fv] || !c.writtenAfterCtor(pkg, fv) {
								continue
							}
							seen[fv] = true
							n++
							key := fmt.Sprintf("%s|%s: %s after %s", f.Name, exprStr(call.Fun), fields[fv], spawnStr(sp))
							if inMethod != nil {
								if a.f == m && inMethod[a.node] {
									rr.OK(f, key, call.Pos(), "joined", "the deferred method waits for the lexer goroutine before it touches "+fields[fv])
								} else {
									rr.Bad(f, key, call.Pos(), fmt.Sprintf("the deferred %s touches %s without having waited for the lexer goroutine first", exprStr(call.Fun), fields[fv]))
								}
								continue
							}
							if joined[call] {
								rr.OK(f, key, call.Pos(), "joined", "the method's access to "+fields[fv]+" is preceded on every path by the join of "+sp.Var.Name())
							} else {
								rr.Bad(f, key, call.Pos(), fmt.Sprintf("%s %s %s while the lexer goroutine started at %s may still be running (no join, lock or atomic): a data race", exprStr(call.Fun), map[bool]string{true: "writes", false: "reads"}[a.write], fields[fv], c.P.PosString(sp.At.Pos())))
							}
						}
						return true
					})
					for _, a := range c.accesses(f, fields) {
						if a.via != sp.Var || !after[a.node] || a.node.Pos() < sp.At.Pos() && !inLoop(c.P, sp.At) {
							continue
						}
						fv := core.FieldOf(info, a.node)
						if !touched[fv] || a.prot != "" {
							continue
						}
						// reads of fields nobody writes after construction are harmless
						if !c.writtenAfterCtor(pkg, fv) {
							continue
						}
						n++
						key := fmt.Sprintf("%s|%s after %s", f.Name, exprStr(a.node), spawnStr(sp))
						if joined[a.node] {
							rr.OK(f, key, a.node.Pos(), "joined", "preceded on every path by <-"+sp.Var.Name()+".done")
						} else {
							rr.Bad(f, key, a.node.Pos(), fmt.Sprintf("%s is %s while the lexer goroutine started at %s may still be running (no join, lock or atomic): a data race, and the goroutine can outlive the call", exprStr(a.node), rw(a.write), c.P.PosString(sp.At.Pos())))
						}
					}
					// closures of f (deferred handlers) that use the spawned lexer
					for _, lit := range f.Lits {
						li := lit.Info()
						lfl := core.NewFlow(lit)
						ljoined := lfl.MustSeen(false, c.isJoinOf(pkg, li, sp.Var), nil)
						for _, a := range c.accesses(lit, fields) {
							fv := core.FieldOf(li, a.node)
							if a.via != sp.Var || !touched[fv] || a.prot != "" || !c.writtenAfterCtor(pkg, fv) {
								continue
							}
							n++
							key := fmt.Sprintf("%s|%s after %s", lit.Name, exprStr(a.node), spawnStr(sp))
							if ljoined[a.node] {
								rr.OK(lit, key, a.node.Pos(), "joined", "preceded inside the closure by <-"+sp.Var.Name()+".done")
							} else {
								rr.Bad(lit, key, a.node.Pos(), fmt.Sprintf("%s is %s in a closure while the lexer goroutine may still be running (no join, lock or atomic)", exprStr(a.node), rw(a.write)))
							}
						}
					}
					if n == 0 {
						o := rr.OK(f, fmt.Sprintf("%s|%s", f.Name, spawnStr(sp)), sp.At.Pos(), "no-shared-read", "no unprotected access to goroutine-touched fields after the spawn")
						o.Trivial = true
					}
				}
			}
		}}
}

func inLoop(p *core.Program, n ast.Node) bool {
	for x := p.Parent(n); x != nil; x = p.Parent(x) {
		switch x.(type) {
		case *ast.ForStmt, *ast.RangeStmt:
			return true
		case *ast.FuncDecl, *ast.FuncLit:
			return false
		}
	}
	return false
}

func rw(w bool) string {
	if w {
		return "written"
	}
	return "read"
}

func spawnStr(sp spawn) string {
	switch n := sp.At.(type) {
	case *ast.GoStmt:
		return "go " + exprStr(n.Call.Fun) + "()"
	case *ast.AssignStmt:
		return exprStr(n.Rhs[0].(*ast.CallExpr).Fun) + "(…)"
	}
	return "spawn"
}

// writtenAfterCtor reports whether any function other than a constructor
// (composite literal / newLexer) assigns the field.
func (c *Ctx) writtenAfterCtor(pkg string, v *types.Var) bool {
	key := "written:" + pkg
	var m map[*types.Var]bool
	if x, ok := c.cache[key]; ok {
		m = x.(map[*types.Var]bool)
	} else {
		m = map[*types.Var]bool{}
		fields := c.sharedStructFields(pkg)
		for _, f := range c.funcsOfPkg(pkg, true) {
			for _, a := range c.accesses(f, fields) {
				fv := core.FieldOf(f.Info(), a.node)
				if a.write || a.prot == "atomic" || a.prot == "chan" || a.prot == "atomic.Value" {
					m[fv] = true
				}
				// method calls with pointer receivers on value fields (Builder) and appends are writes
				if call, ok := c.P.Parent(c.P.Parent(a.node)).(*ast.CallExpr); ok {
					if se, ok := call.Fun.(*ast.SelectorExpr); ok && ast.Unparen(se.X) == ast.Expr(a.node) {
						if fo := core.StaticCallee(f.Info(), call); fo != nil {
							if sig, ok := fo.Type().(*types.Signature); ok && sig.Recv() != nil {
								if _, ptr := sig.Recv().Type().(*types.Pointer); ptr {
									if _, isPtrField := fv.Type().(*types.Pointer); !isPtrField {
										m[fv] = true
									}
								}
							}
						}
					}
				}
			}
		}
		c.cache[key] = m
	}
	return m[v]
}

func ruleCC3(pkgs ...string) Rule {
	return Rule{ID: "CC3", Kind: "must", Floor: 10,
		Doc: "lockset by role: every field of the lexer/heredoc structs that is accessed both from the lexer goroutine's functions and from the parser-side functions, with at least one write, is accessed everywhere under the struct's mutex, through sync/atomic, as a channel operation, or through atomic.Value",
		Run: func(c *Ctx, rr *core.RuleResult) {
			for _, pkg := range pkgs {
				fields := c.sharedStructFields(pkg)
				var lrole map[*core.Func]bool
				for _, g := range c.goRoots() {
					if g.Target.Pkg.Name == pkg {
						lrole = c.lexerRole(g.Target)
					}
				}
				if lrole == nil {
					rr.Unkp(c.P, pkg+"|root", 0, "no goroutine root in package "+pkg)
					continue
				}
				prole := c.parserRole(pkg)
				spawnVars := map[types.Object]bool{}
				for _, sp := range c.spawns(pkg) {
					spawnVars[sp.Var] = true
				}
				type site struct {
					a    access
					role string
				}
				byField := map[*types.Var][]site{}
				for _, f := range c.funcsOfPkg(pkg, true) {
					inL, inP := lrole[f], prole[f]
					if !inL && !inP {
						continue
					}
					for _, a := range c.accesses(f, fields) {
						// accesses through a freshly spawned lexer variable are CC2's business
						if a.via != nil && spawnVars[a.via] {
							continue
						}
						fv := core.FieldOf(f.Info(), a.node)
						if inL {
							byField[fv] = append(byField[fv], site{a, "lexer"})
						}
						if inP {
							byField[fv] = append(byField[fv], site{a, "parser"})
						}
					}
				}
				var fvs []*types.Var
				for v := range byField {
					fvs = append(fvs, v)
				}
				sort.Slice(fvs, func(i, j int) bool { return fields[fvs[i]] < fields[fvs[j]] })
				for _, v := range fvs {
					sites := byField[v]
					roles := map[string]bool{}
					anyWrite := false
					for _, s := range sites {
						roles[s.role] = true
						if s.a.write || s.a.prot == "atomic" {
							anyWrite = true
						}
					}
					if c.writtenAfterCtor(pkg, v) {
						anyWrite = true
					}
					name := pkg + "." + fields[v]
					if !(roles["lexer"] && roles["parser"]) || !anyWrite {
						why := "accessed by one role only"
						if roles["lexer"] && roles["parser"] {
							why = "never written after construction"
						}
						rr.OKp(c.P, name, v.Pos(), "unshared", why).Trivial = true
						continue
					}
					bad := 0
					for _, s := range sites {
						if s.a.prot == "" {
							bad++
							rr.Bad(s.a.f, fmt.Sprintf("%s|%s in %s (%s role)", name, exprStr(s.a.node), s.a.f.Short, s.role), s.a.node.Pos(),
								fmt.Sprintf("%s is shared between the lexer goroutine and the parser and written by at least one of them, but this %s is not under the mutex, atomic or a channel operation: data race", name, map[bool]string{true: "write", false: "read"}[s.a.write]))
						}
					}
					if bad == 0 {
						how := map[string]bool{}
						for _, s := range sites {
							how[s.a.prot] = true
						}
						var hs []string
						for h := range how {
							hs = append(hs, h)
						}
						sort.Strings(hs)
						rr.OKp(c.P, name, v.Pos(), "protected", fmt.Sprintf("%d accesses in both roles, all protected (%s)", len(sites), strings.Join(hs, ", ")))
					}
				}
			}
		}}
}

// CC4/CC5: channel discipline and atomic consistency.
func ruleCC4(pkgs ...string) Rule {
	floor := 3
	if len(pkgs) == 1 && pkgs[0] == "interp" {
		floor = 2 // the arithmetic lexer has one send and one close
	}
	return Rule{ID: "CC4", Kind: "must", Floor: floor,
		Doc: "the lexer's sends are arms of a select that also receives from the cancel channel; parser-side sends have a default arm; close(cancel) happens only under the mutex inside a select/default test of the same channel; a variable touched through sync/atomic anywhere is touched that way everywhere (CC5)",
		Run: func(c *Ctx, rr *core.RuleResult) {
			for _, pkg := range pkgs {
				fields := c.sharedStructFields(pkg)
				cancel := c.fieldVar(pkg, "lexer", "cancel")
				var lrole map[*core.Func]bool
				for _, g := range c.goRoots() {
					if g.Target.Pkg.Name == pkg {
						lrole = c.lexerRole(g.Target)
					}
				}
				prole := c.parserRole(pkg)
				atomicVars := map[*types.Var]bool{}
				for _, f := range c.funcsOfPkg(pkg, false) {
					for _, a := range c.accesses(f, fields) {
						if a.prot == "atomic" {
							atomicVars[core.FieldOf(f.Info(), a.node)] = true
						}
					}
				}
				for _, f := range c.funcsOfPkg(pkg, false) {
					info := f.Info()
					held := c.heldLockCtx(f)
					f.OwnNodes(func(n ast.Node) bool {
						switch n := n.(type) {
						case *ast.SendStmt:
							v := core.FieldOf(info, n.Chan)
							if v == nil {
								return true
							}
							key := fmt.Sprintf("%s|send %s", f.Name, exprStr(n.Chan))
							cc, _ := c.P.Parent(n).(*ast.CommClause)
							var sel *ast.SelectStmt
							if cc != nil {
								sel, _ = c.P.Parent(c.P.Parent(cc)).(*ast.SelectStmt)
							}
							if sel == nil {
								rr.Bad(f, key, n.Pos(), "plain send on a shared channel: it blocks forever once the receiver has stopped")
								return true
							}
							hasCancel, hasDefault := false, false
							for _, cl := range sel.Body.List {
								c2 := cl.(*ast.CommClause)
								if c2.Comm == nil {
									hasDefault = true
								} else if es, ok := c2.Comm.(*ast.ExprStmt); ok {
									if u, ok := ast.Unparen(es.X).(*ast.UnaryExpr); ok && u.Op == token.ARROW && core.FieldOf(info, u.X) == cancel && cancel != nil {
										hasCancel = true
									}
								}
							}
							switch {
							case lrole[f] && hasCancel:
								rr.OK(f, key, n.Pos(), "select-cancel", "the send can always be abandoned through the cancel channel")
							case hasDefault:
								rr.OK(f, key, n.Pos(), "select-default", "non-blocking send")
							default:
								rr.Bad(f, key, n.Pos(), "the select around this send has neither a receive from the cancel channel nor a default arm: it can block forever")
							}
						case *ast.CallExpr:
							if isBuiltinCall(info, n, "close") && len(n.Args) == 1 && core.FieldOf(info, n.Args[0]) == cancel && cancel != nil {
								key := fmt.Sprintf("%s|close(%s)", f.Name, exprStr(n.Args[0]))
								// must be in the default arm of a select receiving from the same channel, lock held
								cc, _ := enclosing(c.P, n, func(x ast.Node) bool { _, ok := x.(*ast.CommClause); return ok }).(*ast.CommClause)
								okSel := false
								if cc != nil && cc.Comm == nil {
									if sel, ok := c.P.Parent(c.P.Parent(cc)).(*ast.SelectStmt); ok {
										for _, cl := range sel.Body.List {
											if es, ok := cl.(*ast.CommClause).Comm.(*ast.ExprStmt); ok {
												if u, ok := ast.Unparen(es.X).(*ast.UnaryExpr); ok && u.Op == token.ARROW && core.FieldOf(info, u.X) == cancel {
													okSel = true
												}
											}
										}
									}
								}
								// the same test written with a predicate helper: if !l.cancelled() { close(l.cancel) }
								for _, gd := range guardsOf(c.P, n, nil) {
									if is, neg := c.callsCancelPredicate(info, gd.cond, cancel); is && ((neg && gd.pos) || (!neg && !gd.pos)) {
										okSel = true
									}
								}
								if okSel && held[n] {
									rr.OK(f, key, n.Pos(), "once", "closed at most once: tested with select/default under the mutex")
								} else {
									rr.Bad(f, key, n.Pos(), "close of the cancel channel is not protected by a select/default test under the mutex: a second error would panic with 'close of closed channel'")
								}
							}
						}
						return true
					})
					// CC5
					for _, a := range c.accesses(f, fields) {
						fv := core.FieldOf(info, a.node)
						if atomicVars[fv] {
							key := fmt.Sprintf("%s|atomic %s", f.Name, exprStr(a.node))
							if a.prot == "atomic" {
								rr.OK(f, key, a.node.Pos(), "atomic", "accessed through sync/atomic")
							} else {
								rr.Bad(f, key, a.node.Pos(), "this variable is accessed through sync/atomic elsewhere but plainly here: data race")
							}
						}
					}
				}
				_ = prole
			}
		}}
}

// CC17: what the evaluator's two goroutines share is the token rendezvous and
// the error slot, nothing else.
func ruleCC17(pkg string) Rule {
	return Rule{ID: "CC17", Kind: "must", Floor: 2,
		Doc: "determinism by role: every field of the arithmetic lexer that is accessed both from the lexer goroutine's functions and from the parser-side functions, with at least one write, is a channel (the token rendezvous, the cancel channel) or the error slot, whose winner CC11 decides. Anything else the two sides share - a counter kept with sync/atomic, a flag under the mutex - is free of races and still holds, when the other side reads it, whatever the schedule let the writer reach: an offset the lexer advances while the parser reduces is not a function of the expression",
		Run: func(c *Ctx, rr *core.RuleResult) {
			fields := c.sharedStructFields(pkg)
			var lrole map[*core.Func]bool
			for _, g := range c.goRoots() {
				if g.Target.Pkg.Name == pkg {
					lrole = c.lexerRole(g.Target)
				}
			}
			if lrole == nil {
				rr.Unkp(c.P, pkg+"|root", 0, "no goroutine root in package "+pkg)
				return
			}
			prole := c.parserRole(pkg)
			errSlot := c.fieldVar(pkg, "lexer", "err")
			spawnVars := map[types.Object]bool{}
			for _, sp := range c.spawns(pkg) {
				spawnVars[sp.Var] = true
			}
			type site struct {
				a    access
				role string
			}
			byField := map[*types.Var][]site{}
			for _, f := range c.funcsOfPkg(pkg, true) {
				inL, inP := lrole[f], prole[f]
				if !inL && !inP {
					continue
				}
				for _, a := range c.accesses(f, fields) {
					if a.via != nil && spawnVars[a.via] {
						continue
					}
					fv := core.FieldOf(f.Info(), a.node)
					if inL {
						byField[fv] = append(byField[fv], site{a, "lexer"})
					}
					if inP {
						byField[fv] = append(byField[fv], site{a, "parser"})
					}
				}
			}
			var fvs []*types.Var
			for v := range byField {
				fvs = append(fvs, v)
			}
			sort.Slice(fvs, func(i, j int) bool { return fields[fvs[i]] < fields[fvs[j]] })
			for _, v := range fvs {
				sites := byField[v]
				roles := map[string]bool{}
				anyWrite := false
				for _, s := range sites {
					roles[s.role] = true
					if s.a.write || s.a.prot == "atomic" {
						anyWrite = true
					}
				}
				if c.writtenAfterCtor(pkg, v) {
					anyWrite = true
				}
				if !(roles["lexer"] && roles["parser"]) || !anyWrite {
					continue
				}
				name := pkg + "." + fields[v] + "|shared value"
				_, isChan := v.Type().Underlying().(*types.Chan)
				switch {
				case isChan:
					rr.OKp(c.P, name, v.Pos(), "channel", "a channel: what passes is ordered by the hand-over itself")
				case v == errSlot && errSlot != nil:
					rr.OKp(c.P, name, v.Pos(), "error-slot", "the error slot: which store wins is decided by CC11")
				default:
					// the first read on the side that does not write it, else the first access
					at := sites[0]
					for _, s := range sites {
						if !s.a.write {
							at = s
							break
						}
					}
					rr.Bad(at.a.f, name, at.a.node.Pos(), fmt.Sprintf("%s is written on one side of the lexer/parser pair and read on the other, and is neither a channel nor the error slot: when it is read here (%s role) it holds whatever the schedule let the other goroutine reach, so the result is not a function of the expression", pkg+"."+fields[v], at.role))
				}
			}
		}}
}
