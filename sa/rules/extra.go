package rules

import (
	"fmt"
	"go/ast"
	"go/constant"
	"go/token"
	"go/types"
	"sort"
	"strings"

	"verif/sa/core"
)

// Rules added after independently written breaking changes showed gaps
// (DESIGN.md §8).  Each is a structural necessary condition of its property.

// ---------------------------------------------------------------------------
// CC8: a spawned lexer is cancelled and joined on the panic path too.

func ruleCC8(pkgs ...string) Rule {
	return Rule{ID: "CC8", Kind: "must", Floor: len(pkgs),
		Doc: "goroutine lifetime on every exit: in each function that starts a lexer goroutine, every return reachable after the spawn is preceded by the join, and a deferred recover handler (the exit taken when a reduce action panics) cancels the lexer and joins it before the function returns; otherwise the goroutine stays parked in emit forever",
		Run: func(c *Ctx, rr *core.RuleResult) {
			for _, pkg := range pkgs {
				cancel := c.fieldVar(pkg, "lexer", "cancel")
				for _, sp := range c.spawns(pkg) {
					f := sp.In
					info := f.Info()
					// constructors hand the lexer to their caller: the caller is checked
					returnsVar := false
					f.OwnNodes(func(n ast.Node) bool {
						if r, ok := n.(*ast.ReturnStmt); ok {
							for _, e := range r.Results {
								if id, ok := ast.Unparen(e).(*ast.Ident); ok && info.Uses[id] == sp.Var {
									returnsVar = true
								}
							}
						}
						return true
					})
					if returnsVar {
						continue
					}
					isJoin := func(in *types.Info) func(ast.Node) bool { return c.isJoinOf(pkg, in, sp.Var) }
					fl := core.NewFlow(f)
					after := fl.Reaches(func(n ast.Node) bool { return n == sp.At }, nil)
					joined := fl.MustSeen(true, isJoin(info), func(n ast.Node) bool { return n == sp.At })
					// a deferred closure whose body joins unconditionally runs on every exit
					deferJoin := false
					for _, st := range f.Body.List {
						if lit := deferredLit(st); lit != nil {
							for _, ls := range lit.Body.List {
								hit := false
								switch ls.(type) {
								case *ast.ExprStmt, *ast.AssignStmt:
									ast.Inspect(ls, func(x ast.Node) bool {
										if isJoin(info)(x) {
											hit = true
										}
										return true
									})
								}
								if hit {
									deferJoin = true
								}
							}
						}
					}
					f.OwnNodes(func(n ast.Node) bool {
						r, ok := n.(*ast.ReturnStmt)
						if !ok || !after[r] {
							return true
						}
						key := fmt.Sprintf("%s|return after %s", f.Name, spawnStr(sp))
						if deferJoin {
							rr.OK(f, key, r.Pos(), "joined-in-defer", "a deferred closure waits for the lexer goroutine on every exit")
						} else if joined[r] {
							rr.OK(f, key, r.Pos(), "joined", "the lexer goroutine has ended before this return")
						} else {
							rr.Bad(f, key, r.Pos(), "the function can return here while the lexer goroutine it started is still running (no join on this path): the goroutine keeps reading the caller's source or stays blocked forever")
						}
						return true
					})
					// deferred recover handlers
					for _, lit := range f.Lits {
						li := lit.Info()
						if _, isDefer := c.P.Parent(c.P.Parent(lit.Lit)).(*ast.DeferStmt); !isDefer {
							continue
						}
						hasRecover := false
						lit.OwnNodes(func(n ast.Node) bool {
							if call, ok := n.(*ast.CallExpr); ok && isBuiltinCall(li, call, "recover") {
								hasRecover = true
							}
							return true
						})
						if !hasRecover {
							continue
						}
						key := fmt.Sprintf("%s|recover handler cancels and joins", f.Name)
						cancels, joins := false, false
						lit.OwnNodes(func(n ast.Node) bool {
							if isJoin(li)(n) {
								joins = true
							}
							if call, ok := n.(*ast.CallExpr); ok {
								// x.Error(…) / x.error(…) close the cancel channel; or close(x.cancel) directly
								if se, ok := call.Fun.(*ast.SelectorExpr); ok {
									if id, ok := ast.Unparen(se.X).(*ast.Ident); ok && li.Uses[id] == sp.Var {
										for _, g := range c.P.CG().Callees(lit, call) {
											if closesField(g, cancel) {
												cancels = true
											}
										}
									}
								}
								if isBuiltinCall(li, call, "close") && len(call.Args) == 1 && core.FieldOf(li, call.Args[0]) == cancel && cancel != nil {
									cancels = true
								}
							}
							return true
						})
						if cancels && joins {
							rr.OK(lit, key, lit.Pos(), "cancel+join", "a panic in a reduce action cancels the lexer and waits for it")
						} else {
							rr.Bad(lit, key, lit.Pos(), fmt.Sprintf("the recover handler cancels=%v joins=%v the lexer goroutine: after a run-time fault in mid-expression the goroutine is left blocked in emit (one leaked goroutine per call)", cancels, joins))
						}
					}
				}
			}
		}}
}

func closesField(f *core.Func, v *types.Var) bool {
	if v == nil {
		return false
	}
	found := false
	info := f.Info()
	f.OwnNodes(func(n ast.Node) bool {
		if call, ok := n.(*ast.CallExpr); ok && isBuiltinCall(info, call, "close") && len(call.Args) == 1 && core.FieldOf(info, call.Args[0]) == v {
			found = true
		}
		return true
	})
	if found {
		return true
	}
	// one level of indirection (Error -> error)
	for _, call := range callsIn(f) {
		for _, g := range f.Prog.CG().Callees(f, call) {
			if g != f {
				gi := g.Info()
				g.OwnNodes(func(n ast.Node) bool {
					if c2, ok := n.(*ast.CallExpr); ok && isBuiltinCall(gi, c2, "close") && len(c2.Args) == 1 && core.FieldOf(gi, c2.Args[0]) == v {
						found = true
					}
					return true
				})
			}
		}
	}
	return found
}

func callsIn(f *core.Func) []*ast.CallExpr {
	var out []*ast.CallExpr
	f.OwnNodes(func(n ast.Node) bool {
		if c, ok := n.(*ast.CallExpr); ok {
			out = append(out, c)
		}
		return true
	})
	return out
}

// returnedToken is the expression a `return` of a token scanner delivers: the
// result itself, or - when the result is a call that is handed exactly one
// argument (`return l.tokEnd(WORD)`) - that argument.
func returnedToken(r *ast.ReturnStmt) ast.Expr {
	if len(r.Results) != 1 {
		return nil
	}
	e := ast.Unparen(r.Results[0])
	if call, ok := e.(*ast.CallExpr); ok && len(call.Args) == 1 {
		if _, isConv := call.Fun.(*ast.ArrayType); !isConv {
			if id, isID := call.Fun.(*ast.Ident); !isID || (id.Name != "int" && id.Name != "rune") {
				return ast.Unparen(call.Args[0])
			}
		}
	}
	return e
}

// isEOFMessageTest: e is a call (strings.Contains, HasSuffix, ...) or an
// equality whose constant operand mentions the parser's "unexpected EOF".
func isEOFMessageTest(info *types.Info, e ast.Expr) bool {
	mentions := func(x ast.Expr) bool {
		s, ok := constStr(info, x)
		return ok && strings.Contains(s, "unexpected EOF")
	}
	switch x := ast.Unparen(e).(type) {
	case *ast.CallExpr:
		for _, a := range x.Args {
			if mentions(a) {
				return true
			}
		}
	case *ast.BinaryExpr:
		if x.Op == token.EQL {
			return mentions(x.X) || mentions(x.Y)
		}
	}
	return false
}

// ---------------------------------------------------------------------------
// CC7: a syntax error always cancels the lexer.

func ruleCC7() Rule {
	return Rule{ID: "CC7", Kind: "must", Floor: 2,
		Doc: "every path through the lexers' error-recording functions closes the cancel channel, except the path taken for the parser's `unexpected EOF` after the lexer has already stopped; otherwise a lexer blocked in emit is never released and the join in ParseCommands/Eval waits forever",
		Run: func(c *Ctx, rr *core.RuleResult) {
			names := []string{"parser.(*lexer).error", "interp.(*lexer).Error"}
			// further functions that store into a lexer's error slot and are called from outside (lexer-side recorders)
			for _, pkg := range []string{"parser", "interp"} {
				errF := c.fieldVar(pkg, "lexer", "err")
				for _, g := range c.funcsOfPkg(pkg, false) {
					if g.Decl == nil || g.Name == names[0] || g.Name == names[1] {
						continue
					}
					stores, locks := false, false
					gi := g.Info()
					g.OwnNodes(func(n ast.Node) bool {
						if as, ok := n.(*ast.AssignStmt); ok {
							for _, l := range as.Lhs {
								if id, ok := ast.Unparen(l).(*ast.SelectorExpr); ok && core.FieldOf(gi, id) == errF {
									if x, ok := ast.Unparen(id.X).(*ast.Ident); ok && isRecv(g, gi.Uses[x]) {
										stores = true
									}
								}
							}
						}
						if call, ok := n.(*ast.CallExpr); ok && calleeName(gi, call) == "sync.(*Mutex).Lock" {
							locks = true
						}
						return true
					})
					// a recorder takes the lock itself; read() records reader errors and is covered by EF1
					if stores && locks && g.Short != "(*lexer).read" {
						names = append(names, g.Name)
					}
				}
			}
			for _, name := range names {
				f := c.mustFn(rr, name)
				if f == nil {
					continue
				}
				f = c.effective(f) // a thin wrapper hands the obligation to the function that does the work
				info := f.Info()
				cancel := c.fieldVar(f.Pkg.Name, "lexer", "cancel")
				fl := core.NewFlow(f)
				// a helper whose whole body is the close-once idiom counts as the close
				closesAlways := func(call *ast.CallExpr) bool {
					fo := core.StaticCallee(info, call)
					if fo == nil {
						return false
					}
					g := c.P.FuncOf(fo)
					if g == nil || g.Decl == nil || len(g.Body.List) == 0 {
						return false
					}
					sel, ok := g.Body.List[len(g.Body.List)-1].(*ast.SelectStmt)
					if !ok {
						return false
					}
					for _, st := range g.Body.List[:len(g.Body.List)-1] {
						stop := false
						ast.Inspect(st, func(x ast.Node) bool {
							switch x.(type) {
							case *ast.ReturnStmt, *ast.BranchStmt:
								stop = true
							}
							return true
						})
						if stop {
							return false
						}
					}
					has := false
					gi := g.Info()
					ast.Inspect(sel, func(x ast.Node) bool {
						if cl, ok := x.(*ast.CallExpr); ok && isBuiltinCall(gi, cl, "close") && len(cl.Args) == 1 && core.FieldOf(gi, cl.Args[0]) == cancel {
							has = true
						}
						return true
					})
					return has
				}
				// `if !l.cancelled() { close(l.cancel) }`: once the predicate has been asked in
				// such a statement the channel is closed on both outcomes
				closeOnceIf := func(st ast.Node) *ast.CallExpr {
					ifs, ok := st.(*ast.IfStmt)
					if !ok || ifs.Else != nil || len(ifs.Body.List) != 1 {
						return nil
					}
					is, neg := c.callsCancelPredicate(info, ifs.Cond, cancel)
					if !is || !neg {
						return nil
					}
					es, ok := ifs.Body.List[0].(*ast.ExprStmt)
					if !ok {
						return nil
					}
					call, ok := es.X.(*ast.CallExpr)
					if ok && isBuiltinCall(info, call, "close") && len(call.Args) == 1 && core.FieldOf(info, call.Args[0]) == cancel {
						pc, _ := ast.Unparen(ifs.Cond).(*ast.UnaryExpr)
						if pc != nil {
							if inner, ok := ast.Unparen(pc.X).(*ast.CallExpr); ok {
								return inner
							}
						}
					}
					return nil
				}
				predCalls := map[ast.Node]bool{}
				f.OwnNodes(func(n ast.Node) bool {
					if pcall := closeOnceIf(n); pcall != nil {
						predCalls[pcall] = true
					}
					return true
				})
				closed := fl.MustSeen(false, func(n ast.Node) bool {
					call, ok := n.(*ast.CallExpr)
					if !ok {
						return false
					}
					if predCalls[call] {
						return true
					}
					if isBuiltinCall(info, call, "close") && len(call.Args) == 1 && core.FieldOf(info, call.Args[0]) == cancel {
						return true
					}
					return closesAlways(call)
				}, nil)
				// a select whose receive arm is the "already closed" alternative also counts:
				// treat reaching the select statement that contains the close as the event
				sel := map[ast.Node]bool{}
				f.OwnNodes(func(n ast.Node) bool {
					if s, ok := n.(*ast.SelectStmt); ok {
						has := false
						ast.Inspect(s, func(x ast.Node) bool {
							if call, ok := x.(*ast.CallExpr); ok && isBuiltinCall(info, call, "close") && len(call.Args) == 1 && core.FieldOf(info, call.Args[0]) == cancel {
								has = true
							}
							return true
						})
						if has {
							sel[s] = true
						}
					}
					return true
				})
				// exits: explicit returns, and the end of the body
				var exits []ast.Node
				f.OwnNodes(func(n ast.Node) bool {
					if r, ok := n.(*ast.ReturnStmt); ok {
						exits = append(exits, r)
					}
					return true
				})
				nbad := 0
				for _, r := range exits {
					eofPath := false
					for _, gd := range guardsOf(c.P, r, nil) {
						// the guard itself is the test of the message (guardsOf has split conjunctions);
						// inside a disjunction the return is taken for other messages too
						if gd.pos && isEOFMessageTest(info, gd.cond) {
							eofPath = true
						}
					}
					key := f.Name + "|early return"
					if eofPath {
						rr.OK(f, key, r.Pos(), "interrupted", "returns without cancelling only when the parser saw EOF because the lexer had already stopped")
					} else if closed[r] {
						rr.OK(f, key, r.Pos(), "cancelled", "the cancel channel has been closed on this path")
					} else {
						nbad++
						rr.Bad(f, key, r.Pos(), "an error is handled without closing the cancel channel on this path: the lexer goroutine, blocked in emit, is never released and the caller's join waits forever (e.g. a reader fault on an operator's look-ahead followed by a syntax error)")
					}
				}
				// the fall-through end must pass the select/close
				if len(f.Body.List) > 0 {
					last := f.Body.List[len(f.Body.List)-1]
					key := f.Name + "|final cancel"
					viaHelper := false
					if es, ok := last.(*ast.ExprStmt); ok {
						if call, ok := es.X.(*ast.CallExpr); ok && closesAlways(call) {
							viaHelper = true
						}
					}
					if closeOnceIf(last) != nil {
						viaHelper = true
					}
					if sel[last] || viaHelper {
						rr.OK(f, key, last.Pos(), "select-close", "the function ends with the select that closes the cancel channel unless it is already closed")
					} else if _, isRet := last.(*ast.ReturnStmt); !isRet {
						rr.Bad(f, key, last.Pos(), "the function does not end with the select/close of the cancel channel")
					}
				}
				_ = nbad
			}
		}}
}

// ---------------------------------------------------------------------------
// TK: token-class definitions in the lexer.

func ruleTK(parts ...string) Rule {
	want := map[string]bool{}
	for _, p := range parts {
		want[p] = true
	}
	return Rule{ID: strings.Join(parts, "+"), Kind: "must", Floor: len(parts),
		Doc: "token classes are decided as POSIX defines them: IO_NUMBER only for a single literal consisting of ASCII digits '0'..'9' (TK2); NAME only for a single literal satisfying isName (TK1); ParseCommands' source switch tests io.RuneScanner before io.Reader so a caller's scanner is never wrapped in a read-ahead buffer (SRC1)",
		Run: func(c *Ctx, rr *core.RuleResult) {
			var raw *core.Func
			if want["TK2"] {
				raw = c.mustFn(rr, "parser.(*lexer).scanRawToken")
			}
			if raw != nil {
				info := raw.Info()
				n := 0
				raw.OwnNodes(func(x ast.Node) bool {
					r, ok := x.(*ast.ReturnStmt)
					if !ok || len(r.Results) != 1 {
						return true
					}
					// `return IO_NUMBER`, or the token handed through a helper: `return l.tokEnd(IO_NUMBER)`
					if isIO := exprStr(returnedToken(r)) == "IO_NUMBER"; !isIO {
						return true
					}
					n++
					key := raw.Name + "|return IO_NUMBER"
					// guards: len(l.word) == 1, *ast.Lit, and a preceding digit loop
					one, lit := false, false
					for _, gd := range guardsOf(c.P, r, nil) {
						if gd.pos && isLenFieldEq(info, gd.cond, "parser", "lexer", "word", 1) {
							one = true
						}
						if gd.pos && okVarOfAssert(c.P, raw, gd.cond, "*ast.Lit") {
							lit = true
						}
					}
					digits := false
					if blk, ok := c.P.Parent(r).(*ast.BlockStmt); ok {
						idx := stmtIndex(c.P, blk.List, r)
						if idx > 0 {
							if rs, ok := blk.List[idx-1].(*ast.RangeStmt); ok {
								digits = asciiDigitLoop(info, rs)
							}
							// the same test written with strings.IndexFunc / ContainsFunc and a predicate
							if ifs, ok := blk.List[idx-1].(*ast.IfStmt); ok && ifs.Init == nil && ifs.Else == nil {
								digits = c.notDigitSearch(info, ifs)
							}
						}
					}
					// ... or as a condition around the return
					for _, gd := range guardsOf(c.P, r, nil) {
						if c.allDigitsGuard(info, gd) {
							digits = true
						}
						// ... or a call of a helper that is the digit loop
						if call, ok := ast.Unparen(gd.cond).(*ast.CallExpr); ok && gd.pos {
							if fo := core.StaticCallee(info, call); fo != nil && c.allDigitsHelper(c.P.FuncOf(fo)) {
								digits = true
							}
						}
					}
					if one && lit && digits {
						rr.OK(raw, key, r.Pos(), "ascii-digits", "a single literal that a loop has checked to consist of '0'..'9' only")
					} else {
						rr.Bad(raw, key, r.Pos(), fmt.Sprintf("IO_NUMBER is returned for a word that is not checked to be a single (%v) literal (%v) of ASCII digits '0'..'9' (%v): words such as `-5`, `+1` or non-ASCII digits written against a redirection operator disappear from the argument list", one, lit, digits))
					}
					return true
				})
				if n == 0 {
					rr.Unk(raw, raw.Name+"|return IO_NUMBER", raw.Pos(), "the raw scanner never returns IO_NUMBER")
				}
			}
			// TK1: emit(NAME)
			emit := c.fn("parser.(*lexer).emit")
			for _, g := range c.funcsOfPkg("parser", false) {
				if !want["TK1"] {
					break
				}
				for _, call := range c.callsTo(g, emit) {
					if len(call.Args) != 1 || exprStr(call.Args[0]) != "NAME" {
						continue
					}
					key := g.Name + "|emit(NAME)"
					one, lit, name := false, false, false
					judge := func(h *core.Func, gds []guard) (one, lit, name bool) {
						for _, gd := range gds {
							if !gd.pos {
								continue
							}
							if isLenFieldEq(h.Info(), gd.cond, "parser", "lexer", "word", 1) {
								one = true
							}
							if okVarOfAssert(c.P, h, gd.cond, "*ast.Lit") {
								lit = true
							}
							if c.callsFunc(h.Info(), gd.cond, c.fn("parser.(*lexer).isName")) {
								name = true
							}
						}
						return
					}
					gds := guardsOf(c.P, call, nil)
					one, lit, name = judge(g, gds)
					// the test may live in a predicate of the lexer (`if !l.isForName() { … return }`):
					// what holds wherever it answers true holds here
					for _, gd := range gds {
						pc, isCall := ast.Unparen(gd.cond).(*ast.CallExpr)
						if !gd.pos || !isCall || len(pc.Args) != 0 {
							continue
						}
						se, isSel := ast.Unparen(pc.Fun).(*ast.SelectorExpr)
						if !isSel {
							continue
						}
						if id, isID := ast.Unparen(se.X).(*ast.Ident); !isID || !isRecv(g.Root(), g.Info().Uses[id]) {
							continue
						}
						fo := core.StaticCallee(g.Info(), pc)
						if fo == nil {
							continue
						}
						h := c.P.FuncOf(fo)
						if h == nil || h.Body == nil {
							continue
						}
						all := true
						nTrue := 0
						o2, l2, n2 := true, true, true
						h.OwnNodes(func(y ast.Node) bool {
							ret, isRet := y.(*ast.ReturnStmt)
							if !isRet {
								return true
							}
							if len(ret.Results) != 1 {
								all = false
								return true
							}
							tv, has := h.Info().Types[ret.Results[0]]
							if !has || tv.Value == nil {
								all = false
								return true
							}
							if tv.Value.String() == "true" {
								nTrue++
								a, b, d := judge(h, guardsOf(c.P, ret, nil))
								o2, l2, n2 = o2 && a, l2 && b, n2 && d
							}
							return true
						})
						if all && nTrue > 0 {
							one, lit, name = one || o2, lit || l2, name || n2
						}
					}
					if one && lit && name {
						rr.OK(g, key, call.Pos(), "single-name", "NAME is emitted only for a word that is exactly one literal satisfying isName")
					} else {
						rr.Bad(g, key, call.Pos(), fmt.Sprintf("NAME is emitted without requiring a single (%v) literal (%v) that is a name (%v): the grammar action keeps only the first part, so `for a$b` or `i\\ j` is accepted and its tail silently dropped", one, lit, name))
					}
				}
			}
			// SRC1
			if !want["SRC1"] {
				return
			}
			if f := c.mustFn(rr, "parser.open"); f != nil {
				info := f.Info()
				f.OwnNodes(func(x ast.Node) bool {
					ts, ok := x.(*ast.TypeSwitchStmt)
					if !ok {
						return true
					}
					iReader, iScanner := -1, -1
					for i, cl := range ts.Body.List {
						for _, e := range cl.(*ast.CaseClause).List {
							switch namedTypeName(info.Types[e].Type) {
							case "io.Reader":
								iReader = i
							case "io.RuneScanner":
								iScanner = i
							}
						}
					}
					key := f.Name + "|RuneScanner before Reader"
					switch {
					case iScanner < 0 || iReader < 0:
						rr.Unk(f, key, ts.Pos(), "the source switch does not list both io.RuneScanner and io.Reader")
					case iScanner < iReader:
						rr.OK(f, key, ts.Pos(), "ordered", "a RuneScanner is used as it is; only plain Readers are buffered")
					default:
						rr.Bad(f, key, ts.Pos(), "io.Reader is tested before io.RuneScanner: a caller's RuneScanner (which normally also implements Read) is wrapped in a bufio.Reader that reads ahead and is thrown away, so each call consumes far more than one command")
					}
					return true
				})
			}
		}}
}

// notDigitSearch recognises
//
//	if strings.IndexFunc(s, notDigit) != -1 { return WORD }     (or >= 0, or strings.ContainsFunc)
//
// where notDigit - a function literal or a function of the package - is
// `return r < '0' || r > '9'` in any spelling.
func (c *Ctx) notDigitSearch(info *types.Info, ifs *ast.IfStmt) bool {
	returnsWord := false
	for _, st := range ifs.Body.List {
		if rt, ok := st.(*ast.ReturnStmt); ok && len(rt.Results) == 1 && exprStr(returnedToken(rt)) == "WORD" {
			returnsWord = true
		}
	}
	if !returnsWord {
		return false
	}
	var call *ast.CallExpr
	cond := ast.Unparen(ifs.Cond)
	if be, ok := cond.(*ast.BinaryExpr); ok {
		cl, isCall := ast.Unparen(be.X).(*ast.CallExpr)
		v, isConst := constInt(info, be.Y)
		if isCall && isConst && calleeName(info, cl) == "strings.IndexFunc" && ((be.Op == token.NEQ && v == -1) || (be.Op == token.GEQ && v == 0) || (be.Op == token.GTR && v == -1)) {
			call = cl
		}
	} else if cl, ok := cond.(*ast.CallExpr); ok && calleeName(info, cl) == "strings.ContainsFunc" {
		call = cl
	}
	return c.notDigitPredicate(info, call)
}

// allDigitsGuard recognises a condition that holds only when no character of
// the searched string is outside '0'..'9': `strings.IndexFunc(s, notDigit) ==
// -1` (or < 0) known true, or `!= -1` / `>= 0` / strings.ContainsFunc known
// false.
func (c *Ctx) allDigitsGuard(info *types.Info, gd guard) bool {
	cond := ast.Unparen(gd.cond)
	if be, ok := cond.(*ast.BinaryExpr); ok {
		cl, isCall := ast.Unparen(be.X).(*ast.CallExpr)
		v, isConst := constInt(info, be.Y)
		if !isCall || !isConst || calleeName(info, cl) != "strings.IndexFunc" {
			return false
		}
		none := (be.Op == token.EQL && v == -1) || (be.Op == token.LSS && v == 0)
		some := (be.Op == token.NEQ && v == -1) || (be.Op == token.GEQ && v == 0) || (be.Op == token.GTR && v == -1)
		if (gd.pos && none) || (!gd.pos && some) {
			return c.notDigitPredicate(info, cl)
		}
		return false
	}
	if cl, ok := cond.(*ast.CallExpr); ok && !gd.pos && calleeName(info, cl) == "strings.ContainsFunc" {
		return c.notDigitPredicate(info, cl)
	}
	return false
}

// notDigitPredicate: the second argument of call is `r < '0' || r > '9'`.
func (c *Ctx) notDigitPredicate(info *types.Info, call *ast.CallExpr) bool {
	if call == nil || len(call.Args) != 2 {
		return false
	}
	// the predicate's body and rune parameter
	var body *ast.BlockStmt
	var ftype *ast.FuncType
	var pinfo = info
	switch p := ast.Unparen(call.Args[1]).(type) {
	case *ast.FuncLit:
		body, ftype = p.Body, p.Type
	default:
		var obj types.Object
		switch q := p.(type) {
		case *ast.Ident:
			obj = info.Uses[q]
		case *ast.SelectorExpr:
			obj = info.Uses[q.Sel]
		}
		if fo, ok := obj.(*types.Func); ok {
			if h := c.P.FuncOf(fo); h != nil && h.Body != nil {
				body, ftype, pinfo = h.Body, h.Type, h.Info()
			}
		}
	}
	if body == nil || len(body.List) != 1 || ftype.Params == nil || len(ftype.Params.List) != 1 || len(ftype.Params.List[0].Names) != 1 {
		return false
	}
	r := ftype.Params.List[0].Names[0].Name
	ret, ok := body.List[0].(*ast.ReturnStmt)
	if !ok || len(ret.Results) != 1 {
		return false
	}
	e := ast.Unparen(ret.Results[0])
	neg := false
	if u, ok := e.(*ast.UnaryExpr); ok && u.Op == token.NOT {
		neg, e = true, ast.Unparen(u.X)
	}
	be, ok := e.(*ast.BinaryExpr)
	if !ok {
		return false
	}
	lo, hi := false, false
	check := func(x ast.Expr, outside bool) {
		b, ok := ast.Unparen(x).(*ast.BinaryExpr)
		if !ok {
			return
		}
		xv, xok := constInt(pinfo, b.X)
		yv, yok := constInt(pinfo, b.Y)
		if outside { // r < '0', '0' > r, r > '9', '9' < r
			switch {
			case yok && exprStr(b.X) == r && yv == '0' && b.Op == token.LSS, xok && exprStr(b.Y) == r && xv == '0' && b.Op == token.GTR:
				lo = true
			case yok && exprStr(b.X) == r && yv == '9' && b.Op == token.GTR, xok && exprStr(b.Y) == r && xv == '9' && b.Op == token.LSS:
				hi = true
			}
		} else { // '0' <= r, r >= '0', r <= '9', '9' >= r
			switch {
			case xok && exprStr(b.Y) == r && xv == '0' && b.Op == token.LEQ, yok && exprStr(b.X) == r && yv == '0' && b.Op == token.GEQ:
				lo = true
			case yok && exprStr(b.X) == r && yv == '9' && b.Op == token.LEQ, xok && exprStr(b.Y) == r && xv == '9' && b.Op == token.GEQ:
				hi = true
			}
		}
	}
	switch {
	case be.Op == token.LOR && !neg:
		check(be.X, true)
		check(be.Y, true)
	case be.Op == token.LAND && neg:
		check(be.X, false)
		check(be.Y, false)
	}
	return lo && hi
}

func asciiDigitLoop(info *types.Info, rs *ast.RangeStmt) bool {
	return asciiDigitLoopReturning(info, rs, "WORD")
}

// allDigitsHelper: h is `func(s string) bool { for _, r := range s { if r is not '0'..'9' { return false } }; return true }`.
func (c *Ctx) allDigitsHelper(h *core.Func) bool {
	if h == nil || h.Body == nil || h.Decl == nil || len(h.Body.List) != 2 {
		return false
	}
	ret, ok2 := h.Body.List[1].(*ast.ReturnStmt)
	if !ok2 || len(ret.Results) != 1 || exprStr(ret.Results[0]) != "true" {
		return false
	}
	switch loop := h.Body.List[0].(type) {
	case *ast.RangeStmt:
		return asciiDigitLoopReturning(h.Info(), loop, "false")
	case *ast.ForStmt:
		// for i := 0; i < len(s); i++ { if s[i] < '0' || '9' < s[i] { return false } }
		if !countedLoop(h.Info(), loop) {
			return false
		}
		var elem string
		ast.Inspect(loop.Body, func(n ast.Node) bool {
			if ix, ok := n.(*ast.IndexExpr); ok && elem == "" {
				if t := h.Info().TypeOf(ix.X); t != nil {
					if b, isB := t.Underlying().(*types.Basic); isB && b.Info()&types.IsString != 0 {
						elem = exprStr(ix)
					}
				}
			}
			return true
		})
		return elem != "" && digitTestBody(h.Info(), loop.Body, elem, "false")
	}
	return false
}

func asciiDigitLoopReturning(info *types.Info, rs *ast.RangeStmt, what string) bool {
	if rs.Value == nil {
		return false
	}
	return digitTestBody(info, rs.Body, exprStr(rs.Value), what)
}

// digitTestBody: body contains `if <r is not in '0'..'9'> { return what }`.
func digitTestBody(info *types.Info, body *ast.BlockStmt, r, what string) bool {
	ok := false
	ast.Inspect(body, func(n ast.Node) bool {
		ifs, isIf := n.(*ast.IfStmt)
		if !isIf {
			return true
		}
		cond := ast.Unparen(ifs.Cond)
		neg := false
		if u, isU := cond.(*ast.UnaryExpr); isU && u.Op == token.NOT {
			neg = true
			cond = ast.Unparen(u.X)
		}
		be, isBE := cond.(*ast.BinaryExpr)
		if !isBE {
			return true
		}
		lo, hi := false, false
		check := func(e ast.Expr) {
			b, isB := ast.Unparen(e).(*ast.BinaryExpr)
			if !isB {
				return
			}
			// '0' <= r  /  r >= '0'  /  r <= '9'  /  '9' >= r   (or the negated forms r < '0', r > '9')
			xv, xok := constInt(info, b.X)
			yv, yok := constInt(info, b.Y)
			switch {
			case xok && exprStr(b.Y) == r && xv == '0' && (b.Op == token.LEQ || b.Op == token.GTR):
				lo = true
			case yok && exprStr(b.X) == r && yv == '0' && (b.Op == token.GEQ || b.Op == token.LSS):
				lo = true
			case yok && exprStr(b.X) == r && yv == '9' && (b.Op == token.LEQ || b.Op == token.GTR):
				hi = true
			case xok && exprStr(b.Y) == r && xv == '9' && (b.Op == token.GEQ || b.Op == token.LSS):
				hi = true
			}
		}
		if (be.Op == token.LAND && neg) || (be.Op == token.LOR && !neg) {
			check(be.X)
			check(be.Y)
		}
		returnsWord := false
		for _, s := range ifs.Body.List {
			if rt, isRet := s.(*ast.ReturnStmt); isRet && len(rt.Results) == 1 && exprStr(returnedToken(rt)) == what {
				returnsWord = true
			}
		}
		if lo && hi && returnsWord {
			ok = true
		}
		return true
	})
	return ok
}

// ---------------------------------------------------------------------------
// HD5, PO1, CM2, AL2: narrow necessary conditions in the lexer.

func ruleLX(parts ...string) Rule {
	want := map[string]bool{}
	for _, p := range parts {
		want[p] = true
	}
	return Rule{ID: strings.Join(parts, "+"), Kind: "must", Floor: len(parts),
		Doc: "lexer mechanisms with a single correct shape: at end of input inside a here-document the reader may stop without an error only if no further here-document is announced (HD5); the `<<-` delimiter test strips all leading tabs, not one (HD1b); two body literals are concatenated only when the second starts where the first ends (PO1); the nested lexer starts with no comments so the merge returns each once (CM2); read() truncates the alias stack to the alias it read from (AL2)",
		Run: func(c *Ctx, rr *core.RuleResult) {
			var hd *core.Func
			if want["HD5"] || want["HD1b"] || want["PO1"] {
				hd = c.heredocReader(rr)
			}
			if hd != nil {
				info := hd.Info()
				// the functions that make up the body reader: lexHeredoc and its private helpers
				var funcs []*core.Func
				var addWithLits func(g *core.Func)
				addWithLits = func(g *core.Func) {
					funcs = append(funcs, g)
					for _, l := range g.Lits {
						addWithLits(l)
					}
				}
				for _, g := range c.region(hd) {
					addWithLits(g)
				}
				// the delimiter matcher: the function (or closure) that compares a printed candidate with the delimiter
				isMatcherCall := func(e ast.Node) bool {
					hit := false
					ast.Inspect(e, func(x ast.Node) bool {
						call, ok := x.(*ast.CallExpr)
						if !ok {
							return true
						}
						for _, g := range c.P.CG().Callees(c.P.EnclosingFunc(call), call) {
							for _, m := range funcs {
								if g == m && g != hd && mentionsRedirOp(g) {
									hit = true
								}
							}
						}
						return true
					})
					return hit
				}
				// HD5: successful exits inside the read-error branch
				found := !want["HD5"]
				for _, g := range funcs {
					if found {
						break
					}
					g.OwnNodes(func(n ast.Node) bool {
						ifs, ok := n.(*ast.IfStmt)
						if !ok || found {
							return true
						}
						be, ok := ast.Unparen(ifs.Cond).(*ast.BinaryExpr)
						if !ok || be.Op != token.NEQ || !isNilIdent(info, be.Y) || !isErrorType(info.Types[be.X].Type) {
							return true
						}
						// must be the error of a read: the variable is bound by a call of read()
						if id, isID := ast.Unparen(be.X).(*ast.Ident); !isID || !boundToCallOf(c, g, info.Uses[id], c.fn("parser.(*lexer).read")) {
							return true
						}
						// the first read-error test of the body loop
						found = true
						nret := 0
						ast.Inspect(ifs.Body, func(x ast.Node) bool {
							r, isRet := x.(*ast.ReturnStmt)
							if !isRet {
								return true
							}
							// a successful exit: taken when the delimiter matcher said yes
							gs := guardsOf(c.P, r, ifs)
							success := false
							for _, gd := range gs {
								if gd.pos && isMatcherCall(gd.cond) {
									success = true
								}
							}
							if ifsInit := initOfEnclosingIfs(c.P, r, ifs); !success && ifsInit {
								success = false
							}
							if !success {
								return true
							}
							nret++
							key := hd.Name + "|EOF return only when nothing is pending"
							ok := false
							for _, gd := range gs {
								if !gd.pos && c.callsFunc(info, gd.cond, c.fn("parser.(*heredoc).exists")) {
									ok = true
								}
							}
							if ok {
								rr.OK(g, key, r.Pos(), "guarded", "stops without an error only when no further here-document is pending")
							} else {
								rr.Bad(g, key, r.Pos(), "at end of input the body reader can stop successfully although further here-documents are still announced: an unterminated here-document is accepted with a nil error")
							}
							return true
						})
						if nret == 0 {
							rr.OK(g, hd.Name+"|EOF return only when nothing is pending", ifs.Pos(), "no-success-exit", "the read-error branch never returns success").Trivial = true
						}
						return true
					})
				}
				// HD1b and PO1 in the body reader
				for _, g := range funcs {
					gi := g.Info()
					g.OwnNodes(func(n ast.Node) bool {
						switch n := n.(type) {
						case *ast.CallExpr:
							name := calleeName(gi, n)
							if !want["HD1b"] {
								return true
							}
							if (name == "strings.TrimPrefix" || name == "strings.TrimSuffix") && len(n.Args) == 2 {
								if s, ok := constStr(gi, n.Args[1]); ok && s == "\t" {
									rr.Bad(g, hd.Name+"|strips all leading tabs", n.Pos(), name+" removes at most one tab: a `<<-` delimiter (or body) line indented with two or more tabs is not recognised")
								}
							}
							if name == "strings.TrimLeft" && len(n.Args) == 2 {
								if s, ok := constStr(gi, n.Args[1]); ok && s == "\t" {
									rr.OK(g, hd.Name+"|strips all leading tabs", n.Pos(), "trim-left", "all leading tabs are stripped")
								}
							}
						case *ast.AssignStmt:
							// w2.Value += w1.Value
							if want["PO1"] && n.Tok == token.ADD_ASSIGN && len(n.Lhs) == 1 && fieldSel(gi, n.Lhs[0], "ast", "Lit", "Value") && fieldSel(gi, n.Rhs[0], "ast", "Lit", "Value") {
								a := exprStr(n.Lhs[0].(*ast.SelectorExpr).X)
								b := exprStr(n.Rhs[0].(*ast.SelectorExpr).X)
								key := hd.Name + "|literals merged only when contiguous"
								ok := false
								for _, gd := range guardsOf(c.P, n, nil) {
									if gd.pos && exprStr(gd.cond) == a+".End() == "+b+".Pos()" {
										ok = true
									}
									for _, cj := range conj(gd.cond) {
										if gd.pos && exprStr(cj) == a+".End() == "+b+".Pos()" {
											ok = true
										}
									}
								}
								if ok {
									rr.OK(g, key, n.Pos(), "contiguous", "the second literal starts where the first ends")
								} else {
									rr.Bad(g, key, n.Pos(), "two literals are concatenated without testing that they are adjacent in the source: after a line continuation the merged literal's position and End() no longer designate its text")
								}
							}
						}
						return true
					})
				}
			}
			// CM2
			if f := c.fn("parser.(*lexer).scanCmdSubst"); f != nil && want["CM2"] {
				info := f.Info()
				f.OwnNodes(func(n ast.Node) bool {
					cl, ok := n.(*ast.CompositeLit)
					if !ok || namedTypeName(info.Types[cl].Type) != "parser.lexer" {
						return true
					}
					key := f.Name + "|nested lexer starts without comments"
					seeded := false
					for _, el := range cl.Elts {
						if kv, ok := el.(*ast.KeyValueExpr); ok && exprStr(kv.Key) == "comments" {
							seeded = true
						}
					}
					if seeded {
						rr.Bad(f, key, cl.Pos(), "the nested lexer is created with the outer lexer's comments and its comments are appended back afterwards: every comment before a substitution is returned twice")
					} else {
						rr.OK(f, key, cl.Pos(), "empty", "the nested lexer collects only its own comments, which are merged once")
					}
					return true
				})
			}
			// AL3: the "previous alias ended in a blank" decision is taken once per scanToken call
			if f := c.fn("parser.(*lexer).scanToken"); f != nil && want["AL3"] {
				info := f.Info()
				var blankObj types.Object
				f.OwnNodes(func(n ast.Node) bool {
					switch n := n.(type) {
					case *ast.ValueSpec:
						for _, nm := range n.Names {
							if o := info.Defs[nm]; o != nil && o.Type().String() == "bool" {
								blankObj = o
							}
						}
					case *ast.AssignStmt:
						// `blank := …` declares it just as well
						if n.Tok == token.DEFINE {
							for _, l := range n.Lhs {
								if id, ok := l.(*ast.Ident); ok {
									if o := info.Defs[id]; o != nil && o.Type().String() == "bool" && blankObj == nil {
										blankObj = o
									}
								}
							}
						}
					}
					return true
				})
				key := f.Name + "|blank decision outside the rescan cycle"
				if blankObj == nil {
					rr.Unk(f, key, f.Pos(), "scanToken has no boolean flag declared with var")
				} else {
					fl := core.NewFlow(f)
					// an assignment that can reach itself again lies on a cycle
					onCycle := false
					f.OwnNodes(func(n ast.Node) bool {
						as, ok := n.(*ast.AssignStmt)
						if !ok {
							return true
						}
						for _, l := range as.Lhs {
							if id, ok := l.(*ast.Ident); ok && (info.Uses[id] == blankObj) {
								reach := fl.Reaches(func(x ast.Node) bool { return x == ast.Node(as) }, nil)
								if reach[as] {
									onCycle = true
								}
							}
						}
						return true
					})
					if onCycle {
						rr.Bad(f, key, f.Pos(), "the flag saying that the alias just exhausted ended in a blank is recomputed inside the rescan loop: after the first substitution the new alias is on top, the flag turns false and the replacement's own first word is no longer examined (alias chains after a blank-terminated alias stop early)")
					} else {
						rr.OK(f, key, f.Pos(), "once", "the flag is set before the rescan loop and holds for the whole chain")
					}
				}
			}
			// AL2
			if f := c.fn("parser.(*lexer).read"); f != nil && want["AL2"] {
				info := f.Info()
				aliases := c.fieldVar("parser", "lexer", "aliases")
				f.OwnNodes(func(n ast.Node) bool {
					r, ok := n.(*ast.ReturnStmt)
					if !ok {
						return true
					}
					// a return inside the loop over the alias stack
					var loop *ast.ForStmt
					for x := c.P.Parent(r); x != nil; x = c.P.Parent(x) {
						if fs, ok := x.(*ast.ForStmt); ok {
							loop = fs
							break
						}
					}
					if loop == nil {
						return true
					}
					key := f.Name + "|alias stack truncated to the alias read from"
					blk, _ := c.P.Parent(r).(*ast.BlockStmt)
					ok = false
					if blk != nil {
						for _, s := range blk.List {
							if s == ast.Stmt(r) {
								break
							}
							if as, isAs := s.(*ast.AssignStmt); isAs && len(as.Lhs) == 1 && core.FieldOf(info, as.Lhs[0]) == aliases {
								if se, isSl := as.Rhs[0].(*ast.SliceExpr); isSl && se.Low == nil && se.High != nil && strings.HasSuffix(exprStr(se.High), "+ 1") {
									ok = true
								}
							}
						}
					}
					if ok {
						rr.OK(f, key, r.Pos(), "truncated", "exhausted inner aliases are dropped as soon as an outer one is read again")
					} else {
						rr.Bad(f, key, r.Pos(), "read() returns a rune from an alias without dropping the exhausted aliases above it: their names stay blocked and their blank flag stays active after their expansion has ended")
					}
					return true
				})
			}
		}}
}

// ---------------------------------------------------------------------------
// AR3: the right operand of a lazy operator is read only after the left decided.

func ruleAR3() Rule {
	return Rule{ID: "AR3", Kind: "must", Floor: 4,
		Doc: "in the reductions of &&, || and ?: the value of a lazily evaluated operand is fetched (expand) only on paths that have compared the deciding operand's value with 0 and found the operand to be the one C evaluates, or while the operand's gate (see AR) is still open and every variable read is conditional on the gate; so a non-numeric variable in the operand C would skip raises no error. The actions are followed path by path with the helpers they call inlined",
		Run: func(c *Ctx, rr *core.RuleResult) {
			gi := c.grammar("interp")
			if gi.Err != nil {
				rr.Unkp(c.P, "interp|grammar", 0, gi.Err.Error())
				return
			}
			g := c.gate()
			// with a gate, reads are conditional on it whoever fetches
			readsGated := false
			if g.enter != nil && g.leave != nil && g.dead != nil {
				readsGated = true
				nreads := 0
				for _, e := range c.effects(g) {
					if e.kind == "read" {
						nreads++
						if e.f == nil || !c.deadGuarded(g, e.f, e.n, 0) {
							readsGated = false
						}
					}
				}
				if nreads == 0 {
					readsGated = false
				}
			}
			zero := constant.MakeInt64(0)
			for _, o := range g.operands {
				h := o.holder.prod
				cc := gi.Checked.Cases[h.N]
				if cc == nil {
					continue
				}
				key := fmt.Sprintf("interp|action of `%s` reads operand %d lazily", h, o.holder.idx)
				w := c.gateWalk(g, h)
				if w.why != "" {
					rr.Unkp(c.P, key, cc.Pos(), "the action could not be followed: "+w.why)
					continue
				}
				isD, _ := c.decidingPreds(g, h, 0)
				prefix := fmt.Sprintf("$%d.", o.holder.idx)
				fetches, guarded, gatedFetch := 0, 0, 0
				var badPos token.Pos
				for _, p := range w.paths {
					firstLeave := -1
					for i, ev := range p.events {
						if ev.kind == "leave" && firstLeave < 0 {
							firstLeave = i
						}
					}
					for i, ev := range p.events {
						if ev.kind != "expand" {
							continue
						}
						mine := false
						var visit func(v sval)
						visit = func(v sval) {
							switch v.kind {
							case svStruct:
								for _, f := range v.fields {
									visit(f)
								}
							case svOpaque:
								if strings.HasPrefix(v.origin, prefix) {
									mine = true
								}
							}
						}
						for _, a := range ev.args {
							visit(a)
						}
						if !mine {
							continue
						}
						fetches++
						ok := false
						for _, k := range p.cons[:ev.ncons] {
							if isD(k.v) && k.c.Kind() == constant.Int && constant.Compare(k.c, token.EQL, zero) && k.truth == !o.nonZero {
								ok = true
							}
						}
						switch {
						case ok:
							guarded++
						case o.marker != nil && readsGated && firstLeave >= 0 && i < firstLeave:
							if _, err := c.gatedOperand(g, o); err == nil {
								gatedFetch++
							} else {
								badPos = ev.pos
							}
						default:
							badPos = ev.pos
						}
					}
				}
				switch {
				case badPos.IsValid():
					rr.Badp(c.P, key, badPos, "the operand C would skip is fetched on a path that has not found it to be the one evaluated: `0 && S` with a non-numeric S fails with `invalid number` instead of yielding 0")
				case fetches == 0:
					rr.OKp(c.P, key, cc.Pos(), "not-fetched", "this action does not fetch the operand's value at all")
				case gatedFetch > 0:
					rr.OKp(c.P, key, cc.Pos(), "gated", fmt.Sprintf("fetched before the operand's gate is closed (every variable read is conditional on the gate); %d of %d fetches on paths that have tested the deciding operand", guarded, fetches))
				default:
					rr.OKp(c.P, key, cc.Pos(), "guarded", fmt.Sprintf("fetched only on paths where the deciding operand was tested against 0 (%d fetches on %d paths)", fetches, len(w.paths)))
				}
			}
		}}
}

func mentionsZeroTest(e ast.Expr) bool {
	found := false
	ast.Inspect(e, func(n ast.Node) bool {
		if be, ok := n.(*ast.BinaryExpr); ok && (be.Op == token.NEQ || be.Op == token.EQL) {
			if lit, ok := be.Y.(*ast.BasicLit); ok && lit.Value == "0" {
				found = true
			}
		}
		return true
	})
	return found
}

// ---------------------------------------------------------------------------
// NG1: no mutable package-level state.

func ruleNG1(pkgs ...string) Rule {
	return Rule{ID: "NG1", Kind: "must-not", Floor: 1,
		Doc: "no package-level variable of the package is written outside init() and none is a synchronised container (sync.Map, sync.Pool, map being filled at run time): the package's functions are functions of their arguments, so results cannot depend on earlier calls (caches, pools)",
		Run: func(c *Ctx, rr *core.RuleResult) {
			for _, pkg := range pkgs {
				pk := c.P.Pkgs[pkg]
				scope := pk.Types.Scope()
				globals := map[types.Object]bool{}
				for _, name := range scope.Names() {
					if v, ok := scope.Lookup(name).(*types.Var); ok {
						globals[v] = true
						t := namedTypeName(v.Type())
						if t == "sync.Map" || t == "sync.Pool" || t == "*sync.Pool" || t == "*sync.Map" {
							rr.Badp(c.P, pkg+"|global "+name, v.Pos(), "package-level "+t+": calls share state, so a result can depend on earlier calls")
						}
					}
				}
				n := 0
				for _, f := range c.funcsOfPkg(pkg, true) {
					if f.Root().Short == "init" {
						continue
					}
					// a table built lazily, once: the literal handed to (*sync.Once).Do is an init in disguise
					if f.Lit != nil {
						if call, ok := c.P.Parent(f.Lit).(*ast.CallExpr); ok {
							if len(call.Args) == 1 && call.Args[0] == ast.Expr(f.Lit) && strings.HasPrefix(calleeName(f.Info(), call), "sync.(*Once).Do") {
								continue
							}
						}
					}
					info := f.Info()
					rootOf := func(e ast.Expr) types.Object {
						for {
							switch x := ast.Unparen(e).(type) {
							case *ast.IndexExpr:
								e = x.X
								continue
							case *ast.SelectorExpr:
								if _, isField := info.Selections[x]; isField {
									e = x.X
									continue
								}
								return info.Uses[x.Sel]
							case *ast.Ident:
								return info.Uses[x]
							}
							return nil
						}
					}
					f.OwnNodes(func(x ast.Node) bool {
						switch x := x.(type) {
						case *ast.AssignStmt:
							for _, l := range x.Lhs {
								if o := rootOf(l); o != nil && globals[o] && !strings.HasPrefix(o.Name(), "yy") {
									n++
									rr.Bad(f, f.Name+"|writes global "+o.Name(), x.Pos(), "a package-level variable is written at run time: calls are not independent of each other")
								}
							}
						case *ast.IncDecStmt:
							if o := rootOf(x.X); o != nil && globals[o] && !strings.HasPrefix(o.Name(), "yy") {
								n++
								rr.Bad(f, f.Name+"|writes global "+o.Name(), x.Pos(), "a package-level variable is written at run time")
							}
						}
						return true
					})
				}
				rr.OKp(c.P, pkg+"|run-time writes to package-level variables", 0, "enumerated", fmt.Sprintf("%d package-level variables, %d written outside init()", len(globals), n))
			}
		}}
}

// ---------------------------------------------------------------------------
// PU9: Walk enumerates live entries.

func rulePU9() Rule {
	return Rule{ID: "PU9", Kind: "must", Floor: 1,
		Doc: "Walk hands the callback the value variable of a range over the variable map itself (never a later re-lookup by a snapshotted key, which yields a zero Var for an entry removed meanwhile)",
		Run: func(c *Ctx, rr *core.RuleResult) {
			f := c.mustFn(rr, "interp.(*ExecEnv).Walk")
			if f == nil {
				return
			}
			info := f.Info()
			vars := c.fieldVar("interp", "ExecEnv", "vars")
			var fnObj types.Object
			for _, fld := range f.Type.Params.List {
				for _, nm := range fld.Names {
					fnObj = info.Defs[nm]
				}
			}
			n := 0
			f.OwnNodes(func(x ast.Node) bool {
				call, ok := x.(*ast.CallExpr)
				if !ok || len(call.Args) != 1 {
					return true
				}
				id, ok := call.Fun.(*ast.Ident)
				if !ok || info.Uses[id] != fnObj {
					return true
				}
				n++
				key := f.Name + "|callback receives the ranged value"
				ok = false
				if aid, isID := ast.Unparen(call.Args[0]).(*ast.Ident); isID {
					for p := c.P.Parent(call); p != nil; p = c.P.Parent(p) {
						if rs, isR := p.(*ast.RangeStmt); isR && core.FieldOf(info, rs.X) == vars && rs.Value != nil {
							if vid, isV := rs.Value.(*ast.Ident); isV && info.Defs[vid] == info.Uses[aid] {
								ok = true
							}
						}
					}
				}
				if ok {
					rr.OK(f, key, call.Pos(), "live", "each callback argument is an entry present in the map at that moment")
				} else {
					rr.Bad(f, key, call.Pos(), "the callback is given `"+exprStr(call.Args[0])+"`, not the value of a range over the variable map: an entry unset during the walk is reported as a zero Var")
				}
				return true
			})
			if n == 0 {
				rr.Unk(f, f.Name+"|callback", f.Pos(), "Walk never calls its callback")
			}
		}}
}

// ---------------------------------------------------------------------------
// NL1: a nested lexer reads the same stream as the lexer that creates it.
//
// This is the premise of the PF1 exceptions for scanCmdSubst (ll.cmds[0]):
// "the nested parse succeeded on input starting with '(' or '`'" is true only
// when the nested lexer takes its runes from exactly the sources of the outer
// one.  The source fields are read off (*lexer).read: every field of the
// lexer through which a ReadRune call is made.

func ruleNL1() Rule {
	return Rule{ID: "NL1", Kind: "must", Floor: 2,
		Doc: "every lexer created inside a lexer method (the nested lexer of a command substitution) is initialised with each rune source of its creator - the fields through which (*lexer).read calls ReadRune - and the sources held by value (slices) are taken back afterwards: alias text and main source stay one stream across `$(`, `((` and '`'",
		Run: func(c *Ctx, rr *core.RuleResult) {
			read := c.mustFn(rr, "parser.(*lexer).read")
			if read == nil {
				return
			}
			info := read.Info()
			var srcs []*types.Var
			seen := map[*types.Var]bool{}
			read.OwnNodes(func(x ast.Node) bool {
				call, ok := x.(*ast.CallExpr)
				if !ok {
					return true
				}
				sel, ok := call.Fun.(*ast.SelectorExpr)
				if !ok || sel.Sel.Name != "ReadRune" {
					return true
				}
				// the lexer field at the root of the receiver expression
				e := sel.X
				for hops := 0; hops < 8; hops++ {
					switch y := ast.Unparen(e).(type) {
					case *ast.Ident:
						// a local bound to an element of the field (`a := l.aliases[i]`,
						// `for _, a := range l.aliases`)
						def := localDef(read, info, info.Uses[y])
						if def == nil {
							return true
						}
						e = def
						continue
					case *ast.IndexExpr:
						e = y.X
						continue
					case *ast.SelectorExpr:
						if id, isID := ast.Unparen(y.X).(*ast.Ident); isID && isRecv(read, info.Uses[id]) {
							if v := core.FieldOf(info, y); v != nil && !seen[v] {
								seen[v] = true
								srcs = append(srcs, v)
							}
							return true
						}
						e = y.X
						continue
					}
					return true
				}
				return true
			})
			if len(srcs) == 0 {
				rr.Unk(read, read.Name+"|rune sources", read.Pos(), "no ReadRune call through a lexer field found in read()")
				return
			}
			lexT := read.Obj.Type().(*types.Signature).Recv().Type()
			if p, ok := lexT.(*types.Pointer); ok {
				lexT = p.Elem()
			}
			n := 0
			for _, f := range c.funcsOfPkg("parser", false) {
				root := f.Root()
				if root.Obj == nil {
					continue
				}
				sig := root.Obj.Type().(*types.Signature)
				if sig.Recv() == nil {
					continue
				}
				rt := sig.Recv().Type()
				if p, ok := rt.(*types.Pointer); ok {
					rt = p.Elem()
				}
				if !types.Identical(rt, lexT) {
					continue
				}
				fi := f.Info()
				f.OwnNodes(func(x ast.Node) bool {
					cl, ok := x.(*ast.CompositeLit)
					if !ok {
						return true
					}
					tv, ok := fi.Types[cl]
					if !ok || !types.Identical(tv.Type, lexT) {
						return true
					}
					n++
					// the variable the literal is bound to
					var nested types.Object
					for p := c.P.Parent(cl); p != nil; p = c.P.Parent(p) {
						if as, isAs := p.(*ast.AssignStmt); isAs && len(as.Lhs) == 1 {
							if id, isID := as.Lhs[0].(*ast.Ident); isID {
								if nested = fi.Defs[id]; nested == nil {
									nested = fi.Uses[id]
								}
							}
							break
						}
						if _, isStmt := p.(ast.Stmt); isStmt {
							break
						}
					}
					for _, src := range srcs {
						key := f.Name + "|nested lexer shares " + src.Name()
						var init ast.Expr
						for _, el := range cl.Elts {
							if kv, isKV := el.(*ast.KeyValueExpr); isKV {
								if id, isID := kv.Key.(*ast.Ident); isID && fi.Uses[id] == src {
									init = kv.Value
								}
							}
						}
						fromRecv := false
						if se, isSel := ast.Unparen(init).(*ast.SelectorExpr); init != nil && isSel {
							if id, isID := ast.Unparen(se.X).(*ast.Ident); isID && isRecv(root, fi.Uses[id]) && core.FieldOf(fi, se) == src {
								fromRecv = true
							}
						}
						if !fromRecv {
							rr.Bad(f, key, cl.Pos(), "the nested lexer does not take `"+src.Name()+"` from its creator: text pending in that source is parsed by the wrong lexer (a substitution opened inside an alias value is read from the main source; at EOF the nested parse succeeds with no command and cmds[0] panics)")
							continue
						}
						// held by value: must be taken back
						if _, isSlice := src.Type().Underlying().(*types.Slice); isSlice {
							back := false
							ast.Inspect(root.Body, func(y ast.Node) bool {
								as, isAs := y.(*ast.AssignStmt)
								if !isAs || len(as.Lhs) != 1 || len(as.Rhs) != 1 {
									return true
								}
								ls, ok1 := ast.Unparen(as.Lhs[0]).(*ast.SelectorExpr)
								rs, ok2 := ast.Unparen(as.Rhs[0]).(*ast.SelectorExpr)
								if !ok1 || !ok2 || core.FieldOf(fi, ls) != src || core.FieldOf(fi, rs) != src {
									return true
								}
								lid, ok1 := ast.Unparen(ls.X).(*ast.Ident)
								rid, ok2 := ast.Unparen(rs.X).(*ast.Ident)
								if ok1 && ok2 && isRecv(root, fi.Uses[lid]) && nested != nil && fi.Uses[rid] == nested {
									back = true
								}
								return true
							})
							if !back {
								rr.Bad(f, key+" (taken back)", cl.Pos(), "`"+src.Name()+"` is a slice shared by value: what the nested lexer consumed or popped is not copied back to its creator")
								continue
							}
						}
						rr.OK(f, key, cl.Pos(), "shared", "initialised from the creator's field"+map[bool]string{true: " and copied back", false: ""}[isSliceVar(src)])
					}
					return true
				})
			}
			if n == 0 {
				rr.OKp(c.P, "parser|nested lexers", 0, "none", "no lexer is created inside a lexer method")
			}
		}}
}

func isSliceVar(v *types.Var) bool {
	_, ok := v.Type().Underlying().(*types.Slice)
	return ok
}

// isRecv reports whether obj is the receiver variable of f's declared root.
func isRecv(f *core.Func, obj types.Object) bool {
	if obj == nil {
		return false
	}
	root := f.Root()
	if root.Obj == nil {
		return false
	}
	recv := root.Obj.Type().(*types.Signature).Recv()
	return recv != nil && recv == obj
}

// ---------------------------------------------------------------------------
// ER1: a syntax error is dropped only in favour of an error already recorded.

func ruleER1() Rule {
	return Rule{ID: "ER1", Kind: "must", Floor: 2,
		Doc: "in the parser lexer's error function (and the helper it records through) every way of not recording the reported message - an early return, or the untaken side of a conditional store - is conditional on `l.err != nil`: a syntax error is discarded only when another error is already recorded, so an ill-formed program can never come back with a nil error",
		Run: func(c *Ctx, rr *core.RuleResult) {
			top := c.mustFn(rr, "parser.(*lexer).error")
			if top == nil {
				return
			}
			top = c.effective(top)
			errF := c.fieldVar("parser", "lexer", "err")
			storesDirectly := func(g *core.Func) bool {
				found := false
				gi := g.Info()
				g.OwnNodes(func(n ast.Node) bool {
					if as, ok := n.(*ast.AssignStmt); ok {
						for _, l := range as.Lhs {
							if core.FieldOf(gi, l) == errF {
								found = true
							}
						}
					}
					return true
				})
				return found
			}
			// the recorder region: error itself and the helpers it stores through
			region := []*core.Func{top}
			helper := map[*core.Func]bool{}
			top.OwnNodes(func(n ast.Node) bool {
				if call, ok := n.(*ast.CallExpr); ok {
					if fo := core.StaticCallee(top.Info(), call); fo != nil {
						if g := c.P.FuncOf(fo); g != nil && g != top && g.Decl != nil && storesDirectly(g) && !helper[g] {
							helper[g] = true
							region = append(region, g)
						}
					}
				}
				return true
			})
			n := 0
			for _, f := range region {
				info := f.Info()
				isStore := func(n ast.Node) bool {
					switch x := n.(type) {
					case *ast.AssignStmt:
						for _, l := range x.Lhs {
							if core.FieldOf(info, l) == errF {
								return true
							}
						}
					case *ast.CallExpr:
						if fo := core.StaticCallee(info, x); fo != nil && helper[c.P.FuncOf(fo)] && f == top {
							return true
						}
					}
					return false
				}
				var atoms func(e ast.Expr, pos bool, out *[]guard)
				atoms = func(e ast.Expr, pos bool, out *[]guard) {
					e = ast.Unparen(e)
					if u, ok := e.(*ast.UnaryExpr); ok && u.Op == token.NOT {
						atoms(u.X, !pos, out)
						return
					}
					if be, ok := e.(*ast.BinaryExpr); ok {
						if (be.Op == token.LAND && pos) || (be.Op == token.LOR && !pos) {
							atoms(be.X, pos, out)
							atoms(be.Y, pos, out)
							return
						}
					}
					*out = append(*out, guard{e, pos})
				}
				recorded := func(gs []guard) bool {
					for _, g := range gs {
						// the slot holds a syntax error (clause `case Error:` of a type switch on it)
						if g.pos && isSlotSyntaxAssert(info, g.cond, errF) {
							return true
						}
						be, ok := ast.Unparen(g.cond).(*ast.BinaryExpr)
						if !ok || core.FieldOf(info, be.X) != errF || !isNilIdent(info, be.Y) {
							continue
						}
						if (be.Op == token.NEQ && g.pos) || (be.Op == token.EQL && !g.pos) {
							return true
						}
					}
					return false
				}
				stored := core.NewFlow(f).MustSeen(false, isStore, nil)
				// a test of the function's own error parameter against nil says nothing about
				// the slot: `if err == nil { return }` has nothing to record
				paramNil := func(g guard) (isCmp, paramIsNil bool) {
					be, ok := ast.Unparen(g.cond).(*ast.BinaryExpr)
					if !ok || !isNilIdent(info, be.Y) || (be.Op != token.EQL && be.Op != token.NEQ) {
						return false, false
					}
					id, ok := ast.Unparen(be.X).(*ast.Ident)
					if !ok {
						return false, false
					}
					v, ok := info.Uses[id].(*types.Var)
					if !ok || !isParamOf(f, v) || !isErrorType(v.Type()) {
						return false, false
					}
					return true, (be.Op == token.EQL) == g.pos
				}
				f.OwnNodes(func(x ast.Node) bool {
					switch x := x.(type) {
					case *ast.ReturnStmt:
						if stored[x] {
							return true
						}
						nothing := false
						for _, g := range guardsOf(c.P, x, nil) {
							if isCmp, isNil := paramNil(g); isCmp && isNil {
								nothing = true
							}
						}
						if nothing {
							return true
						}
						n++
						key := f.Name + "|message dropped by early return"
						if recorded(guardsOf(c.P, x, nil)) {
							rr.OK(f, key, x.Pos(), "already-recorded", "returns without recording only when l.err != nil")
						} else {
							rr.Bad(f, key, x.Pos(), "the reported message is discarded on a path where no error is known to be recorded: the parse can end with a nil error although the parser rejected the input")
						}
					case *ast.IfStmt:
						hasStore := false
						for _, st := range x.Body.List {
							if isStore(st) {
								hasStore = true
							}
							if es, ok := st.(*ast.ExprStmt); ok && isStore(es.X) {
								hasStore = true
							}
						}
						if !hasStore || x.Else != nil {
							return true
						}
						n++
						key := f.Name + "|message dropped by conditional store"
						var gs []guard
						atoms(x.Cond, false, &gs)
						gs = append(gs, guardsOf(c.P, x, nil)...)
						if recorded(gs) {
							rr.OK(f, key, x.Pos(), "already-recorded", "the store is skipped only when l.err != nil")
						} else {
							rr.Bad(f, key, x.Pos(), "the store of the new error can be skipped while l.err may be nil")
						}
					}
					return true
				})
				// a helper's first store must be reachable with an empty slot: some store is guarded by `err == nil` or unguarded
				if f != top {
					okEmpty := false
					f.OwnNodes(func(x ast.Node) bool {
						as, ok := x.(*ast.AssignStmt)
						if !ok || !isStore(as) {
							return true
						}
						var gs []guard
						for _, g := range guardsOf(c.P, as, nil) {
							if isCmp, _ := paramNil(g); !isCmp {
								gs = append(gs, g)
							}
						}
						if len(gs) == 0 {
							okEmpty = true
						}
						for _, g := range gs {
							if be, ok := ast.Unparen(g.cond).(*ast.BinaryExpr); ok && core.FieldOf(info, be.X) == errF && isNilIdent(info, be.Y) && be.Op == token.EQL && g.pos && len(gs) == 1 {
								okEmpty = true
							}
						}
						return true
					})
					n++
					key := f.Name + "|records into an empty slot"
					if okEmpty {
						rr.OK(f, key, f.Pos(), "empty-slot", "with no error recorded the new one is always stored")
					} else {
						rr.Bad(f, key, f.Pos(), "no store is performed under `l.err == nil` alone: a first error may be lost")
					}
				}
			}
			if n == 0 {
				rr.OKp(c.P, top.Name+"|unconditional store", 0, "always", "every call records its message")
			}
		}}
}

// ---------------------------------------------------------------------------
// CC9: the token channel is a rendezvous.
//
// CC6's argument that the lexer's wait in heredoc.pop is always answered, and
// the claim that the amount of source consumed is fixed by the input, both rest
// on the lexer being at most one token ahead of the parser.

func ruleCC9(pkgs ...string) Rule {
	return Rule{ID: "CC9", Kind: "must", Floor: len(pkgs),
		Doc: "every channel on which a lexer sends tokens is created unbuffered. parser: the lexer reaches the newline after `<<WORD` only after the parser has received both tokens (so the push that pop waits for is certain), and it never scans ahead of a parser that has already failed (so the input consumed does not depend on the schedule). interp: Lex stops handing out tokens once an error is recorded; with a rendezvous the lexer cannot have recorded the error of a later character while an earlier token is still waiting, so which reductions (and assignments) happen before the error does not depend on the schedule",
		Run: func(c *Ctx, rr *core.RuleResult) {
			for _, pkg := range pkgs {
				c.cc9(rr, pkg)
			}
		}}
}

func (c *Ctx) cc9(rr *core.RuleResult, pkg string) {
	{
		{
			pk := c.P.Pkgs[pkg]
			// fields of the lexer sent on by functions of the package
			lexFields := map[*types.Var]bool{}
			if tn, ok := pk.Types.Scope().Lookup("lexer").(*types.TypeName); ok {
				if st, ok := tn.Type().Underlying().(*types.Struct); ok {
					for i := 0; i < st.NumFields(); i++ {
						lexFields[st.Field(i)] = true
					}
				}
			}
			sent := map[*types.Var]bool{}
			for _, f := range c.funcsOfPkg(pkg, false) {
				info := f.Info()
				f.OwnNodes(func(n ast.Node) bool {
					if s, ok := n.(*ast.SendStmt); ok {
						if v := core.FieldOf(info, s.Chan); v != nil && lexFields[v] {
							sent[v] = true
						}
					}
					return true
				})
			}
			if len(sent) == 0 {
				rr.Unkp(c.P, pkg+"|token channel", 0, "no send on a struct field found")
				return
			}
			n := 0
			check := func(f *core.Func, v *types.Var, e ast.Expr) {
				info := f.Info()
				call, ok := ast.Unparen(e).(*ast.CallExpr)
				key := f.Name + "|" + v.Name() + " unbuffered"
				if !ok || !isBuiltinCall(info, call, "make") {
					rr.Unk(f, key, e.Pos(), "the channel is not created by make at this site")
					return
				}
				n++
				if len(call.Args) == 1 {
					rr.OK(f, key, call.Pos(), "unbuffered", "make without capacity")
					return
				}
				if k, isConst := constInt(info, call.Args[1]); isConst && k == 0 {
					rr.OK(f, key, call.Pos(), "unbuffered", "capacity 0")
					return
				}
				if pkg == "interp" {
					rr.Bad(f, key, call.Pos(), "the token channel has a buffer: the lexer can park a good token, run on to a bad character and record its error before the parser has fetched the token; Lex then refuses the parked token, so whether the sub-expression before the error is reduced (and its assignment made) depends on the schedule")
				} else {
					rr.Bad(f, key, call.Pos(), "the token channel has a buffer: the lexer can count a here-document and wait in pop for a push the failed parser never makes (hang), and how far it reads ahead after a syntax error depends on the schedule")
				}
			}
			for _, f := range c.funcsOfPkg(pkg, false) {
				info := f.Info()
				f.OwnNodes(func(x ast.Node) bool {
					switch x := x.(type) {
					case *ast.KeyValueExpr:
						if id, ok := x.Key.(*ast.Ident); ok {
							if v, isVar := info.Uses[id].(*types.Var); isVar && sent[v] {
								check(f, v, x.Value)
							}
						}
					case *ast.AssignStmt:
						for i, l := range x.Lhs {
							if v := core.FieldOf(info, l); v != nil && sent[v] && len(x.Rhs) == len(x.Lhs) {
								check(f, v, x.Rhs[i])
							}
						}
					}
					return true
				})
			}
			if n == 0 {
				rr.Unkp(c.P, pkg+"|token channel", 0, "no creation site of the token channel found")
			}
		}
	}
}

// ---------------------------------------------------------------------------
// CC10: cancellation is observed only where the lexer hands over a token.

func ruleCC10(pkgs ...string) Rule {
	return Rule{ID: "CC10", Kind: "must-not", Floor: 1,
		Doc: "the cancel channel is never polled: a receive from it appears only as an alternative to a blocking communication (the send in emit), or in the close-once idiom `select { case <-cancel: default: close(cancel) }` whose receive arm does nothing; a poll elsewhere makes what the lexer does next - how much source it reads, which error it records - depend on when the parser got to close the channel",
		Run: func(c *Ctx, rr *core.RuleResult) {
			for _, pkg := range pkgs {
				cancel := c.fieldVar(pkg, "lexer", "cancel")
				if cancel == nil {
					rr.Unkp(c.P, pkg+"|cancel field", 0, "lexer.cancel not found")
					continue
				}
				n := 0
				for _, f := range c.funcsOfPkg(pkg, false) {
					info := f.Info()
					f.OwnNodes(func(x ast.Node) bool {
						u, ok := x.(*ast.UnaryExpr)
						if !ok || u.Op != token.ARROW || core.FieldOf(info, u.X) != cancel {
							return true
						}
						n++
						key := fmt.Sprintf("%s|receive from cancel #%d", f.Name, n)
						var cc *ast.CommClause
						var sel *ast.SelectStmt
						for p := c.P.Parent(u); p != nil; p = c.P.Parent(p) {
							if k, isCC := p.(*ast.CommClause); isCC && cc == nil {
								if k.Comm != nil && k.Comm.Pos() <= u.Pos() && u.End() <= k.Comm.End() {
									cc = k
								}
							}
							if s, isSel := p.(*ast.SelectStmt); isSel && cc != nil {
								sel = s
								break
							}
							if _, isFn := p.(*ast.FuncLit); isFn {
								break
							}
						}
						if sel == nil {
							// a plain blocking receive: waits for cancellation, decides nothing by timing
							rr.OK(f, key, u.Pos(), "blocking", "a blocking receive")
							return true
						}
						var dflt *ast.CommClause
						blockingOther := false
						for _, st := range sel.Body.List {
							k := st.(*ast.CommClause)
							if k.Comm == nil {
								dflt = k
							} else if k != cc {
								blockingOther = true
							}
						}
						if cancelPredicate(f.Root(), cancel) {
							// the question "already cancelled?" as a function: what matters is what the callers do with the answer
							okUse, badUse := 0, 0
							var badPos token.Pos
							calls, complete := c.callSitesOf(f.Root())
							for _, cs := range calls {
								ci := cs.in.Info()
								use := "other"
								for p := c.P.Parent(cs.call); p != nil; p = c.P.Parent(p) {
									ifs, isIf := p.(*ast.IfStmt)
									if !isIf {
										if _, isStmt := p.(ast.Stmt); isStmt {
											break
										}
										continue
									}
									is, neg := c.callsCancelPredicate(ci, ifs.Cond, cancel)
									if !is || ifs.Else != nil {
										break
									}
									if neg && len(ifs.Body.List) == 1 {
										if es, ok := ifs.Body.List[0].(*ast.ExprStmt); ok {
											if cl, ok := es.X.(*ast.CallExpr); ok && isBuiltinCall(ci, cl, "close") {
												use = "close-once"
											}
										}
									}
									if !neg && endsInPanicOrReturn(ci, ifs.Body.List) {
										// a pre-test: the next statement must be the hand-over select with the same bail-out
										if blk, ok := c.P.Parent(ifs).(*ast.BlockStmt); ok {
											if i := stmtIndex(c.P, blk.List, ifs); i >= 0 && i+1 < len(blk.List) {
												if next, ok := blk.List[i+1].(*ast.SelectStmt); ok {
													for _, st := range next.Body.List {
														k := st.(*ast.CommClause)
														if k.Comm != nil && recvFrom(ci, k.Comm, cancel) && endsInPanicOrReturn(ci, k.Body) {
															use = "pre-test"
														}
													}
												}
											}
										}
									}
									break
								}
								if use == "other" {
									badUse++
									badPos = cs.call.Pos()
								} else {
									okUse++
								}
							}
							if complete && badUse == 0 && okUse > 0 {
								rr.OK(f, key, u.Pos(), "predicate", fmt.Sprintf("asks whether cancel is closed; its %d callers use the answer only to close it once or as the pre-test of the hand-over", okUse))
							} else {
								rr.Badp(c.P, key, badPos, "the cancel channel is polled through a predicate and the answer steers the lexer elsewhere than in the close-once idiom or the hand-over's pre-test: the outcome depends on when the parser cancelled")
							}
							return true
						}
						switch {
						case dflt == nil && blockingOther:
							rr.OK(f, key, u.Pos(), "alternative", "alternative to a blocking communication")
						case dflt != nil && len(cc.Body) == 0 && closesOnly(info, dflt, cancel):
							rr.OK(f, key, u.Pos(), "close-once", "close-once idiom")
						case dflt != nil && len(dflt.Body) == 0 && sameBailoutFollows(c.P, info, sel, cc, cancel):
							// the pre-test of the hand-over: once cancel is closed the parser has stopped
							// receiving (or the lexer failed itself), so the following select could only
							// take its cancel arm - or, with both ready, a random one (CC12)
							rr.OK(f, key, u.Pos(), "pre-test", "tests cancel immediately before a select whose cancel arm does the same thing")
						case dflt == nil:
							rr.OK(f, key, u.Pos(), "blocking", "a blocking receive")
						default:
							rr.Bad(f, key, u.Pos(), "the cancel channel is polled (select with default): the code after it runs or not depending on whether the parser has already cancelled, so the result or the amount of source consumed depends on the schedule")
						}
						return true
					})
				}
				rr.OKp(c.P, pkg+"|receives from cancel enumerated", 0, "enumerated", fmt.Sprintf("%d receive sites", n))
			}
		}}
}

func closesOnly(info *types.Info, k *ast.CommClause, ch *types.Var) bool {
	if len(k.Body) != 1 {
		return false
	}
	es, ok := k.Body[0].(*ast.ExprStmt)
	if !ok {
		return false
	}
	call, ok := es.X.(*ast.CallExpr)
	return ok && isBuiltinCall(info, call, "close") && len(call.Args) == 1 && core.FieldOf(info, call.Args[0]) == ch
}

// ---------------------------------------------------------------------------
// LB1: the `linebreak` of sequential_sep in a for header.
//
// for_clause : For name linebreak In wordlist sequential_sep do_group, with
// sequential_sep : ';' linebreak | newline_list.  The lexer has to find the
// reserved word `do` itself, so it must skip that linebreak itself: in every
// function that looks for Do, each emitted separator is followed by a call of
// linebreak() before the next token is fetched or the state is handed on.

func ruleLB1() Rule {
	return Rule{ID: "LB1", Kind: "must", Floor: 3,
		Doc: "in every lexer state that looks for the reserved word `do` after a separator, each emit of ';' or newline is followed on every path by a call of linebreak() before the next token fetch or state hand-over: blank lines and comment lines are allowed between `for name;` / `in words;` and `do` (sequential_sep : ';' linebreak)",
		Run: func(c *Ctx, rr *core.RuleResult) {
			pk := c.P.Pkgs["parser"]
			doTok := pk.Types.Scope().Lookup("Do")
			lb := c.mustFn(rr, "parser.(*lexer).linebreak")
			emit := c.mustFn(rr, "parser.(*lexer).emit")
			raw := c.mustFn(rr, "parser.(*lexer).scanRawToken")
			scan := c.fn("parser.(*lexer).scanToken")
			tr := c.fn("parser.(*lexer).tr")
			if doTok == nil || lb == nil || emit == nil || raw == nil || tr == nil {
				return
			}
			isSepConst := func(info *types.Info, e ast.Expr) bool {
				k, ok := constInt(info, e)
				return ok && (k == ';' || k == '\n')
			}
			total := 0
			for _, f := range c.funcsOfPkg("parser", false) {
				if f.Lit != nil {
					continue
				}
				info := f.Info()
				// in scope: compares with Do and emits a separator
				looks := false
				f.OwnNodes(func(n ast.Node) bool {
					if id, ok := n.(*ast.Ident); ok && info.Uses[id] == doTok {
						if _, isCall := c.P.Parent(id).(*ast.CallExpr); !isCall {
							looks = true
						}
					}
					return true
				})
				if !looks || !c.callsFunc(info, f.Body, tr) {
					continue
				}
				isSepEmit := func(n ast.Node) bool {
					call, ok := n.(*ast.CallExpr)
					if !ok || len(call.Args) != 1 {
						return false
					}
					fo := core.StaticCallee(info, call)
					if fo == nil || c.P.FuncOf(fo) != emit {
						return false
					}
					if isSepConst(info, call.Args[0]) {
						return true
					}
					if _, isID := ast.Unparen(call.Args[0]).(*ast.Ident); isID {
						if cc := enclosingCase(c.P, call); cc != nil && len(cc.List) > 0 {
							for _, e := range cc.List {
								if !isSepConst(info, e) {
									return false
								}
							}
							return true
						}
					}
					return false
				}
				isLB := func(n ast.Node) bool {
					call, ok := n.(*ast.CallExpr)
					if !ok {
						return false
					}
					fo := core.StaticCallee(info, call)
					if fo == nil {
						return false
					}
					h := c.P.FuncOf(fo)
					if h == lb {
						return true
					}
					// a state helper that begins by skipping the linebreak (`if !l.linebreak() { return nil }`)
					if h != nil && h.Body != nil && h.Decl != nil && len(h.Body.List) > 0 {
						first := h.Body.List[0]
						found := false
						switch st := first.(type) {
						case *ast.IfStmt:
							if st.Init == nil {
								found = c.callsFunc(h.Info(), st.Cond, lb)
							}
						case *ast.ExprStmt:
							found = c.callsFunc(h.Info(), st.X, lb)
						}
						return found
					}
					return false
				}
				nsep := 0
				f.OwnNodes(func(n ast.Node) bool {
					if isSepEmit(n) {
						nsep++
					}
					return true
				})
				if nsep == 0 {
					continue
				}
				seen := core.NewFlow(f).MustSeen(true, isLB, isSepEmit)
				f.OwnNodes(func(n ast.Node) bool {
					switch x := n.(type) {
					case *ast.CallExpr:
						fo := core.StaticCallee(info, x)
						if fo == nil {
							return true
						}
						g := c.P.FuncOf(fo)
						if g != raw && (scan == nil || g != scan) {
							return true
						}
						total++
						key := fmt.Sprintf("%s|%s after a separator", f.Name, g.Short)
						if seen[x] {
							rr.OK(f, key, x.Pos(), "linebreak", "no separator was emitted since the last linebreak()")
						} else {
							rr.Bad(f, key, x.Pos(), "a token is fetched after `;`/newline was emitted without skipping the linebreak: `for x;` followed by a blank or comment line before `do` is rejected")
						}
					case *ast.ReturnStmt:
						if len(x.Results) != 1 || isNilIdent(info, x.Results[0]) {
							return true
						}
						total++
						key := f.Name + "|state handed over after a separator"
						if seen[x] || isLB(ast.Unparen(x.Results[0])) {
							rr.OK(f, key, x.Pos(), "linebreak", "no separator pending")
						} else {
							rr.Bad(f, key, x.Pos(), "the state is handed over after `;`/newline was emitted without skipping the linebreak that sequential_sep allows")
						}
					}
					return true
				})
			}
			if total == 0 {
				rr.Unkp(c.P, "parser|for header", 0, "no lexer state looking for `do` after a separator found")
			}
		}}
}

// ---------------------------------------------------------------------------
// PS1: two positions are compared with both coordinates.

func rulePS1(pkgs ...string) Rule {
	return Rule{ID: "PS1", Kind: "must", Floor: 1,
		Doc: "wherever the columns of two positions are compared for (in)equality, the same condition compares their lines too: adjacency of two tokens (is a blank needed between them?) cannot be decided from columns alone once the tokens are on different lines",
		Run: func(c *Ctx, rr *core.RuleResult) {
			n := 0
			for _, pkg := range pkgs {
				for _, f := range c.funcsOfPkg(pkg, false) {
					info := f.Info()
					coord := func(e ast.Expr, name string) bool {
						call, ok := ast.Unparen(e).(*ast.CallExpr)
						if !ok || len(call.Args) != 0 {
							return false
						}
						fo := core.StaticCallee(info, call)
						if fo == nil || fo.Name() != name || fo.Pkg() == nil || fo.Pkg().Name() != "ast" {
							return false
						}
						sig := fo.Type().(*types.Signature)
						return sig.Recv() != nil && namedTypeName(sig.Recv().Type()) == "ast.Pos"
					}
					f.OwnNodes(func(x ast.Node) bool {
						be, ok := x.(*ast.BinaryExpr)
						if !ok || (be.Op != token.EQL && be.Op != token.NEQ) || !coord(be.X, "Col") || !coord(be.Y, "Col") {
							return true
						}
						n++
						var top ast.Expr = be
						for {
							p, ok := c.P.Parent(top).(ast.Expr)
							if !ok {
								break
							}
							if _, isCall := p.(*ast.CallExpr); isCall {
								break
							}
							top = p
						}
						lines := false
						ast.Inspect(top, func(y ast.Node) bool {
							if b2, ok := y.(*ast.BinaryExpr); ok && b2.Op == be.Op && coord(b2.X, "Line") && coord(b2.Y, "Line") {
								lines = true
							}
							return true
						})
						key := f.Name + "|column comparison of two positions"
						if lines {
							rr.OK(f, key, be.Pos(), "line+col", "lines are compared in the same condition")
						} else {
							rr.Bad(f, key, be.Pos(), "two positions are compared by column only: tokens that happen to start in the same column of different lines are taken for adjacent (the printer glues `1` and `+` of an arithmetic expression broken over lines)")
						}
						return true
					})
				}
			}
			if n == 0 {
				rr.OKp(c.P, "column comparisons", 0, "none", "no position-to-position column comparison")
			}
		}}
}

// localDef returns the expression a local variable of f is defined from: the
// right-hand side of its `:=` / var declaration, or the ranged expression when
// it is the value variable of a range statement.
func localDef(f *core.Func, info *types.Info, obj types.Object) ast.Expr {
	if obj == nil {
		return nil
	}
	var out ast.Expr
	f.OwnNodes(func(n ast.Node) bool {
		switch x := n.(type) {
		case *ast.AssignStmt:
			if x.Tok == token.DEFINE && len(x.Lhs) == len(x.Rhs) {
				for i, l := range x.Lhs {
					if id, ok := l.(*ast.Ident); ok && info.Defs[id] == obj {
						out = x.Rhs[i]
					}
				}
			}
		case *ast.ValueSpec:
			for i, id := range x.Names {
				if info.Defs[id] == obj && i < len(x.Values) {
					out = x.Values[i]
				}
			}
		case *ast.RangeStmt:
			if id, ok := x.Value.(*ast.Ident); ok && info.Defs[id] == obj {
				out = x.X
			}
		}
		return true
	})
	return out
}

// sameBailoutFollows reports whether the statement after the polling select
// is a select with a receive from the same channel whose body equals the
// poll's receive arm (so the poll only removes the random choice between two
// ready cases, it adds no new behaviour).
func sameBailoutFollows(p *core.Program, info *types.Info, poll *ast.SelectStmt, arm *ast.CommClause, ch *types.Var) bool {
	blk, ok := p.Parent(poll).(*ast.BlockStmt)
	if !ok {
		return false
	}
	i := stmtIndex(p, blk.List, poll)
	if i < 0 || i+1 >= len(blk.List) {
		return false
	}
	next, ok := blk.List[i+1].(*ast.SelectStmt)
	if !ok {
		return false
	}
	for _, st := range next.Body.List {
		cc := st.(*ast.CommClause)
		// both arms leave the function by panicking or returning
		if cc.Comm != nil && recvFrom(info, cc.Comm, ch) && endsInPanicOrReturn(info, cc.Body) && endsInPanicOrReturn(info, arm.Body) {
			return true
		}
	}
	return false
}

// mentionsRedirOp reports whether g reads the Op field of an ast.Redir (the
// delimiter matcher distinguishes `<<` from `<<-`).
func mentionsRedirOp(g *core.Func) bool {
	info := g.Info()
	m := false
	g.OwnNodes(func(x ast.Node) bool {
		if se, ok := x.(*ast.SelectorExpr); ok {
			if v := core.FieldOf(info, se); v != nil && v.Name() == "Op" && v.Pkg() != nil && v.Pkg().Name() == "ast" {
				m = true
			}
		}
		return true
	})
	return m
}

func initOfEnclosingIfs(p *core.Program, n ast.Node, stop ast.Node) bool { return false }

// ---------------------------------------------------------------------------
// NL2: what the creator takes back from a nested lexer was given to it.

func ruleNL2() Rule {
	return Rule{ID: "NL2", Kind: "must", Floor: 2,
		Doc: "every scalar field the creator copies back from a nested lexer after a successful nested parse (`l.f = ll.f`) is initialised in the nested lexer's literal from the creator's own field: a field left at its zero value and only conditionally recomputed (the position, which mark() leaves alone while alias text is being read) would come back as zero - and a zero position means `absent` to the grammar actions, so the `&` or `!` after a command substitution inside an alias value is lost",
		Run: func(c *Ctx, rr *core.RuleResult) {
			f := c.mustFn(rr, "parser.(*lexer).scanCmdSubst")
			if f == nil {
				return
			}
			info := f.Info()
			// the nested literal and the variable it is bound to
			var lit *ast.CompositeLit
			var nested types.Object
			f.OwnNodes(func(n ast.Node) bool {
				cl, ok := n.(*ast.CompositeLit)
				if !ok || lit != nil || namedTypeName(info.Types[cl].Type) != "parser.lexer" {
					return true
				}
				lit = cl
				for p := c.P.Parent(cl); p != nil; p = c.P.Parent(p) {
					if as, isAs := p.(*ast.AssignStmt); isAs && len(as.Lhs) == 1 {
						if id, isID := as.Lhs[0].(*ast.Ident); isID {
							if nested = info.Defs[id]; nested == nil {
								nested = info.Uses[id]
							}
						}
						break
					}
				}
				return true
			})
			if lit == nil || nested == nil {
				rr.Unk(f, f.Name+"|nested lexer", f.Pos(), "no nested lexer literal bound to a variable found")
				return
			}
			inits := map[*types.Var]ast.Expr{}
			for _, el := range lit.Elts {
				if kv, ok := el.(*ast.KeyValueExpr); ok {
					if id, ok := kv.Key.(*ast.Ident); ok {
						if v, ok := info.Uses[id].(*types.Var); ok {
							inits[v] = kv.Value
						}
					}
				}
			}
			n := 0
			f.OwnNodes(func(x ast.Node) bool {
				as, ok := x.(*ast.AssignStmt)
				if !ok || len(as.Lhs) != 1 || len(as.Rhs) != 1 || as.Tok != token.ASSIGN {
					return true
				}
				ls, ok1 := ast.Unparen(as.Lhs[0]).(*ast.SelectorExpr)
				rs, ok2 := ast.Unparen(as.Rhs[0]).(*ast.SelectorExpr)
				if !ok1 || !ok2 {
					return true
				}
				fld := core.FieldOf(info, ls)
				if fld == nil || core.FieldOf(info, rs) != fld {
					return true
				}
				lid, ok1 := ast.Unparen(ls.X).(*ast.Ident)
				rid, ok2 := ast.Unparen(rs.X).(*ast.Ident)
				if !ok1 || !ok2 || !isRecv(f, info.Uses[lid]) || info.Uses[rid] != nested {
					return true
				}
				n++
				key := f.Name + "|" + fld.Name() + " taken back was handed over"
				init := inits[fld]
				fromRecv := false
				if se, isSel := ast.Unparen(init).(*ast.SelectorExpr); init != nil && isSel {
					if id, isID := ast.Unparen(se.X).(*ast.Ident); isID && isRecv(f, info.Uses[id]) && core.FieldOf(info, se) == fld {
						fromRecv = true
					}
				}
				if fromRecv {
					rr.OK(f, key, as.Pos(), "handed-over", "initialised from the creator's field in the nested lexer's literal")
				} else {
					rr.Bad(f, key, as.Pos(), "`"+fld.Name()+"` is copied back from the nested lexer but was not given to it: while alias text is being read mark() does not set the position, so it comes back as the zero position and every later token of the alias loses its position (zero means `absent`: the `&` after `` `x` y & `` in an alias value is dropped)")
				}
				return true
			})
			if n == 0 {
				rr.Unk(f, f.Name+"|copy-back", f.Pos(), "nothing is copied back from the nested lexer")
			}
		}}
}

// ---------------------------------------------------------------------------
// HD7: the lexer does not stop with a here-document announced.

func ruleHD7() Rule {
	return Rule{ID: "HD7", Kind: "must", Floor: 1,
		Doc: "when the lexer's state machine stops by itself (end of input before the line of a `<<` operator ended) the goroutine root tests whether a here-document is still announced and records an error; otherwise `cat <<E` at end of input is accepted with a nil error and a redirection that has no body",
		Run: func(c *Ctx, rr *core.RuleResult) {
			exists := c.mustFn(rr, "parser.(*heredoc).exists")
			if exists == nil {
				return
			}
			n := 0
			seenRoot := map[*core.Func]bool{}
			for _, g := range c.goRoots() {
				t := g.Target
				if t.Pkg.Name != "parser" || seenRoot[t] {
					continue
				}
				seenRoot[t] = true
				n++
				info := t.Info()
				key := t.Name + "|pending here-document at the end"
				// a test of exists() after the last loop of the root's body, guarding a call that reaches the error recorder
				ok := false
				extra := ""
				lastLoop := -1
				for i, st := range t.Body.List {
					if _, isFor := st.(*ast.ForStmt); isFor {
						lastLoop = i
					}
				}
				errFn := c.fn("parser.(*lexer).error")
				for i, st := range t.Body.List {
					if i <= lastLoop {
						continue
					}
					if ifs, isIf := st.(*ast.IfStmt); isIf && c.callsFunc(info, ifs.Cond, exists) && errFn != nil && c.callsReporter(info, ifs.Body) {
						// no further condition: a nested lexer stops at its closing `)` without reaching
						// end of input, a test of an eof flag would exempt `$(cat <<E)`
						if _, isCall := ast.Unparen(ifs.Cond).(*ast.CallExpr); isCall {
							ok = true
						} else {
							extra = exprStr(ifs.Cond)
						}
					}
				}
				if ok {
					rr.OK(t, key, t.Pos(), "tested", "a here-document still announced when the state machine stops is reported")
				} else if extra != "" {
					rr.Bad(t, key, t.Pos(), "the test for a pending here-document has a further condition (`"+extra+"`): where it does not hold - the nested lexer of `$(cat <<E)` stops at the `)` - the redirection is accepted without a body")
				} else {
					rr.Bad(t, key, t.Pos(), "the root never tests heredoc.exists() after its state machine has stopped: input ending right after `<<E` (no newline) is accepted with a nil error, the redirection keeps a nil body")
				}
			}
			if n == 0 {
				rr.Unkp(c.P, "parser|goroutine root", 0, "no goroutine root in package parser")
			}
		}}
}

// ---------------------------------------------------------------------------
// HD8 / LB2: what linebreak() may and may not swallow.

func ruleLBK() Rule {
	return Rule{ID: "LBK", Kind: "must", Floor: 2,
		Doc: "linebreak(), which the lexer calls where the grammar allows `linebreak` after a token (`&&`, `||`, `|`, `;;`, `in`, `)` of a case item …): (HD8) when it consumes a newline while a here-document is announced it hands over to the body reader - the body starts right after that newline, so `cat <<E &&` + newline + body must not read the body as commands; (LB2) it skips blanks before the newline like the token scanner does - `a && ` + newline + `b` is the same program as `a &&` + newline + `b`",
		Run: func(c *Ctx, rr *core.RuleResult) {
			f := c.mustFn(rr, "parser.(*lexer).linebreak")
			if f == nil {
				return
			}
			info := f.Info()
			exists := c.fn("parser.(*heredoc).exists")
			// the switch over the rune just read
			var sw *swInfo
			for _, s := range switches(c.P, f) {
				if s.clauseFor('\n') != nil && s.parent == nil {
					sw = s
				}
			}
			if sw == nil {
				rr.Unk(f, f.Name+"|rune switch", f.Pos(), "no switch over the rune with a newline case found")
				return
			}
			nl := sw.clauseFor('\n')
			// HD8
			key := f.Name + "|newline with a here-document announced"
			hands := false
			ast.Inspect(nl.cc, func(x ast.Node) bool {
				if ifs, ok := x.(*ast.IfStmt); ok && exists != nil && c.callsFunc(info, ifs.Cond, exists) {
					hands = true
				}
				return true
			})
			if hands {
				rr.OK(f, key, nl.cc.Pos(), "hands-over", "the newline case tests heredoc.exists() and lets the bodies be read")
			} else {
				rr.Bad(f, key, nl.cc.Pos(), "linebreak consumes the newline without asking whether a here-document is announced: for `cat <<E &&` followed by a newline the body lines are parsed as commands and the body attached later is wrong (`cat <<E && body`)")
			}
			// HD8b: the reader moves the cursor over whole lines; the position of the
			// next token must be taken afterwards
			if reader := c.heredocReader(nil); reader != nil {
				markFn := c.fn("parser.(*lexer).mark")
				isCallOf := func(g *core.Func) func(ast.Node) bool {
					return func(n ast.Node) bool {
						call, ok := n.(*ast.CallExpr)
						if !ok || g == nil {
							return false
						}
						fo := core.StaticCallee(info, call)
						return fo != nil && c.P.FuncOf(fo) == g
					}
				}
				nReader := 0
				f.OwnNodes(func(n ast.Node) bool {
					if isCallOf(reader)(n) {
						nReader++
					}
					return true
				})
				if nReader > 0 {
					marked := core.NewFlow(f).MustSeen(true, isCallOf(markFn), isCallOf(reader))
					readFn := c.fn("parser.(*lexer).read")
					bad := token.NoPos
					f.OwnNodes(func(n ast.Node) bool {
						switch x := n.(type) {
						case *ast.ReturnStmt:
							if len(x.Results) == 1 {
								if tv, ok := info.Types[x.Results[0]]; ok && tv.Value != nil && tv.Value.String() == "true" && !marked[x] {
									bad = x.Pos()
								}
							}
						case *ast.CallExpr:
							if isCallOf(readFn)(x) && !marked[x] {
								bad = x.Pos()
							}
						}
						return true
					})
					key := f.Name + "|position re-marked after the bodies were read"
					if bad == token.NoPos {
						rr.OK(f, key, nl.cc.Pos(), "marked", "mark() follows the body reader before the next character is read or linebreak returns")
					} else {
						rr.Bad(f, key, bad, "after the here-document bodies have been read linebreak goes on without mark(): the token that follows (`true` in `cat <<E &&` newline body newline `E` newline `true`) is recorded at the position of the line the bodies started on")
					}
				}
			}
			// HD8c: the same for a newline consumed anywhere else in the function (an inner
			// loop that scans a comment through the newline that ends it): between a point
			// where the rune just read is known to be a newline and the next read, or the
			// successful return, the pending here-documents are asked for
			{
				isNL := func(e ast.Expr) bool {
					v, ok := constInt(info, e)
					return ok && v == '\n'
				}
				condNL := func(e ast.Expr) bool {
					for _, cj := range conjuncts(e) {
						if be, ok := cj.(*ast.BinaryExpr); ok && be.Op == token.EQL && (isNL(be.X) || isNL(be.Y)) {
							return true
						}
					}
					return false
				}
				starts := map[ast.Node]bool{}
				empty := token.NoPos
				// go/cfg keeps no node for a break: a clause that only breaks is marked at the
				// statement the break leads to
				afterBreak := func(br *ast.BranchStmt) ast.Stmt {
					var target ast.Node
					for x := c.P.Parent(br); x != nil && target == nil; x = c.P.Parent(x) {
						switch y := x.(type) {
						case *ast.ForStmt, *ast.RangeStmt, *ast.SwitchStmt, *ast.TypeSwitchStmt, *ast.SelectStmt:
							if br.Label == nil {
								target = y
							} else if ls, ok := c.P.Parent(y).(*ast.LabeledStmt); ok && ls.Label.Name == br.Label.Name {
								target = ls
							}
						case *ast.FuncDecl, *ast.FuncLit:
							return nil
						}
					}
					if target == nil {
						return nil
					}
					var list []ast.Stmt
					switch blk := c.P.Parent(target).(type) {
					case *ast.BlockStmt:
						list = blk.List
					case *ast.CaseClause:
						list = blk.Body
					}
					for i, st := range list {
						if ast.Node(st) == target && i+1 < len(list) {
							return list[i+1]
						}
					}
					return nil
				}
				mark := func(body []ast.Stmt, at token.Pos) {
					if len(body) == 0 {
						empty = at
						return
					}
					if br, ok := body[0].(*ast.BranchStmt); ok {
						if nx := afterBreak(br); br.Tok == token.BREAK && nx != nil {
							starts[nx] = true
						} else {
							empty = at
						}
						return
					}
					starts[body[0]] = true
				}
				f.OwnNodes(func(n ast.Node) bool {
					switch x := n.(type) {
					case *ast.CaseClause:
						for _, e := range x.List {
							if isNL(e) || condNL(e) {
								mark(x.Body, x.Pos())
							}
						}
					case *ast.IfStmt:
						if condNL(x.Cond) {
							mark(x.Body.List, x.Pos())
						}
					}
					return true
				})
				readFn := c.fn("parser.(*lexer).read")
				reader := c.heredocReader(nil)
				asked := core.NewFlow(f).MustSeen(true, func(n ast.Node) bool {
					call, ok := n.(*ast.CallExpr)
					if !ok {
						return false
					}
					fo := core.StaticCallee(info, call)
					if fo == nil {
						return false
					}
					g := c.P.FuncOf(fo)
					return g != nil && (g == exists || g == reader)
				}, func(n ast.Node) bool { return starts[n] })
				bad := token.NoPos
				f.OwnNodes(func(n ast.Node) bool {
					switch x := n.(type) {
					case *ast.ReturnStmt:
						if len(x.Results) == 1 {
							if tv, ok := info.Types[x.Results[0]]; ok && tv.Value != nil && tv.Value.String() == "true" && !asked[x] {
								bad = x.Pos()
							}
						}
					case *ast.CallExpr:
						if fo := core.StaticCallee(info, x); fo != nil && readFn != nil && c.P.FuncOf(fo) == readFn && !asked[x] {
							bad = x.Pos()
						}
					}
					return true
				})
				key := f.Name + "|every newline consumed asks for pending here-documents"
				switch {
				case empty != token.NoPos:
					rr.Unk(f, key, empty, "a newline is recognised in a clause without statements; where the pending here-documents are asked for is not decided")
				case len(starts) == 0:
					rr.Unk(f, key, f.Pos(), "no place where the rune read is compared with a newline")
				case bad == token.NoPos:
					rr.OK(f, key, nl.cc.Pos(), "asked", fmt.Sprintf("%d place(s) know the rune to be a newline; each is followed by the test before the next read or the successful return", len(starts)))
				default:
					rr.Bad(f, key, bad, "a newline has been consumed (a comment scanned through the newline that ends it) and linebreak reads on or returns without asking whether a here-document is announced: the body lines are parsed as commands (`cat <<E | # c` + newline + body)")
				}
			}
			// LB2
			key = f.Name + "|blanks before the newline"
			sp, tab := sw.clauseFor(' '), sw.clauseFor('\t')
			if sp != nil && tab != nil {
				rr.OK(f, key, sp.cc.Pos(), "skipped", "blanks have their own case")
			} else {
				rr.Bad(f, key, sw.sw.Pos(), "a blank is handled by the default arm, which pushes it back and reports that no newline follows: `a && ` + newline + `b` is rejected with `unexpected EOF` although blanks between tokens are inert")
			}
		}}
}

// ---------------------------------------------------------------------------
// EF8: the nested lexer's error decides whether the substitution succeeded.

func ruleEF8() Rule {
	return Rule{ID: "EF8", Kind: "must", Floor: 1,
		Doc: "in scanCmdSubst every successful return (and the merge of the nested lexer's results) is reached only with the nested lexer's error slot tested nil: an error recorded only there - a reader fault on a look-ahead the nested parser never needed - must not be dropped because the nested parse was accepted",
		Run: func(c *Ctx, rr *core.RuleResult) {
			f := c.mustFn(rr, "parser.(*lexer).scanCmdSubst")
			if f == nil {
				return
			}
			info := f.Info()
			errF := c.fieldVar("parser", "lexer", "err")
			n := 0
			f.OwnNodes(func(x ast.Node) bool {
				r, ok := x.(*ast.ReturnStmt)
				if !ok || len(r.Results) != 1 {
					return true
				}
				if tv, has := info.Types[r.Results[0]]; !has || tv.Value == nil || tv.Value.String() != "true" {
					return true
				}
				n++
				key := fmt.Sprintf("%s|success only with the nested error slot empty #%d", f.Name, n)
				ok = false
				// the slot of the nested lexer, not the receiver's: the field itself, a local
				// copy of it, or what an accessor of the nested lexer returns for it
				nestedSlot := func(e ast.Expr) bool {
					fromNested := func(x ast.Expr) bool {
						if se, isSel := ast.Unparen(x).(*ast.SelectorExpr); isSel && core.FieldOf(info, x) == errF {
							if id, isID := ast.Unparen(se.X).(*ast.Ident); isID && !isRecv(f, info.Uses[id]) {
								return true
							}
						}
						return false
					}
					if fromNested(e) {
						return true
					}
					id, isID := ast.Unparen(e).(*ast.Ident)
					if !isID {
						return false
					}
					v, isVar := info.Uses[id].(*types.Var)
					if !isVar {
						return false
					}
					// a copy made in the header of the very if statement that tests it is tested
					// before anything can assign it again
					var header ast.Stmt
					if cmp, isCmp := c.P.Parent(id).(*ast.BinaryExpr); isCmp {
						if ifs, isIf := c.P.Parent(cmp).(*ast.IfStmt); isIf && ifs.Cond == ast.Expr(cmp) {
							header = ifs.Init
						}
					}
					if header == nil && reassigned(f, v) {
						return false
					}
					found := false
					f.OwnNodes(func(y ast.Node) bool {
						as, isAs := y.(*ast.AssignStmt)
						if !isAs || as.Tok != token.DEFINE || (header != nil && ast.Stmt(as) != header) {
							return true
						}
						for i, l := range as.Lhs {
							lid, isL := l.(*ast.Ident)
							if !isL || info.Defs[lid] != types.Object(v) {
								continue
							}
							if len(as.Lhs) == len(as.Rhs) {
								if fromNested(as.Rhs[i]) {
									found = true
								}
								continue
							}
							// _, _, err := ll.result()
							call, isCall := ast.Unparen(as.Rhs[0]).(*ast.CallExpr)
							if !isCall || len(as.Rhs) != 1 {
								continue
							}
							se, isSel := ast.Unparen(call.Fun).(*ast.SelectorExpr)
							if !isSel {
								continue
							}
							rid, isRID := ast.Unparen(se.X).(*ast.Ident)
							if !isRID || isRecv(f, info.Uses[rid]) {
								continue
							}
							fo := core.StaticCallee(info, call)
							if fo == nil {
								continue
							}
							m := c.P.FuncOf(fo)
							if m == nil || m.Body == nil || m.Decl == nil || m.Decl.Recv == nil || len(m.Decl.Recv.List) != 1 || len(m.Decl.Recv.List[0].Names) != 1 {
								continue
							}
							mi := m.Info()
							recv := mi.Defs[m.Decl.Recv.List[0].Names[0]]
							rets, good := 0, 0
							m.OwnNodes(func(z ast.Node) bool {
								if mr, isRet := z.(*ast.ReturnStmt); isRet {
									rets++
									if i < len(mr.Results) && core.FieldOf(mi, mr.Results[i]) == errF {
										if ms, ok2 := ast.Unparen(mr.Results[i]).(*ast.SelectorExpr); ok2 {
											if mid, ok3 := ast.Unparen(ms.X).(*ast.Ident); ok3 && mi.Uses[mid] == recv {
												good++
											}
										}
									}
								}
								return true
							})
							if rets > 0 && rets == good {
								found = true
							}
						}
						return true
					})
					return found
				}
				for _, g := range guardsOf(c.P, r, nil) {
					be, isBE := ast.Unparen(g.cond).(*ast.BinaryExpr)
					if !isBE || !isNilIdent(info, be.Y) {
						continue
					}
					if !(g.pos && be.Op == token.EQL || !g.pos && be.Op == token.NEQ) {
						continue
					}
					if nestedSlot(be.X) {
						ok = true
					}
				}
				if ok {
					rr.OK(f, key, r.Pos(), "tested", "reached only when the nested lexer recorded no error")
				} else {
					rr.Bad(f, key, r.Pos(), "the substitution is reported as scanned without the nested lexer's error slot having been tested nil on this path: a reader error recorded only by the nested lexer is lost and ParseCommands returns a tree with a nil error")
				}
				return true
			})
			if n == 0 {
				rr.Unk(f, f.Name+"|success return", f.Pos(), "scanCmdSubst has no `return true`")
			}
		}}
}

// ---------------------------------------------------------------------------
// PP1: what counts as a positional parameter is decided by spelling alone.

func rulePP1() Rule {
	return Rule{ID: "PP1", Kind: "must-not", Floor: 1,
		Doc: "isPosParam decides from the characters of the name only; its result does not depend on a numeric conversion succeeding: a name made of digits that overflows int is still a positional parameter (unset, not assignable), not an ordinary variable",
		Run: func(c *Ctx, rr *core.RuleResult) {
			f := c.mustFn(rr, "interp.(*ExecEnv).isPosParam")
			if f == nil {
				return
			}
			bad := false
			// everything the predicate can call in its own package
			var scope []*core.Func
			for g := range c.P.CG().Reachable(f) {
				if g.Pkg == f.Pkg && !g.Generated {
					scope = append(scope, g)
				}
			}
			sort.Slice(scope, func(i, j int) bool { return scope[i].Name < scope[j].Name })
			visit := func(g *core.Func, x ast.Node) bool {
				call, ok := x.(*ast.CallExpr)
				if !ok {
					return true
				}
				name := calleeName(g.Info(), call)
				if strings.HasPrefix(name, "strconv.Atoi") || strings.HasPrefix(name, "strconv.Parse") {
					// is the error result used?
					if as, isAs := c.P.Parent(call).(*ast.AssignStmt); isAs && len(as.Lhs) == 2 {
						if id, isID := as.Lhs[1].(*ast.Ident); isID && id.Name != "_" {
							bad = true
							rr.Bad(g, f.Name+"|decided by spelling", call.Pos(), "whether a name is a positional parameter depends on "+name+" succeeding: a digit string that overflows int (99999999999999999999) is treated as an ordinary variable - Set stores it and ${99999999999999999999:=w} assigns")
						}
					}
				}
				return true
			}
			for _, g := range scope {
				g := g
				g.OwnNodes(func(x ast.Node) bool { return visit(g, x) })
			}
			if !bad {
				rr.OK(f, f.Name+"|decided by spelling", f.Pos(), "character-test", "no numeric conversion decides the predicate")
			}
		}}
}

// ---------------------------------------------------------------------------
// BR4: field splitting looks at characters, not bytes.

func ruleBR4() Rule {
	return Rule{ID: "BR4", Kind: "must-not", Floor: 1,
		Doc: "split never tests a single byte of the text for membership in IFS (strings.IndexByte(ifs, s[j]), ifs containing byte(s[j])): one byte of a multi-byte character can equal a byte of a multi-byte IFS character, so characters would be cut in the middle",
		Run: func(c *Ctx, rr *core.RuleResult) {
			f := c.mustFn(rr, "interp.(*ExecEnv).split")
			if f == nil {
				return
			}
			bad := false
			c.regionNodes(f, func(g *core.Func, x ast.Node) bool {
				info := g.Info()
				call, ok := x.(*ast.CallExpr)
				if !ok {
					return true
				}
				name := calleeName(info, call)
				switch name {
				case "strings.IndexByte", "strings.LastIndexByte", "bytes.IndexByte":
				default:
					return true
				}
				if len(call.Args) != 2 {
					return true
				}
				// the needle is a byte taken from a string by indexing, directly or through a local
				needle := ast.Unparen(call.Args[1])
				if id, isID := needle.(*ast.Ident); isID {
					if d := localDef(g, info, info.Uses[id]); d != nil {
						needle = ast.Unparen(d)
					}
				}
				if ix, isIx := needle.(*ast.IndexExpr); isIx {
					if t := info.Types[ix.X].Type; t != nil && t.Underlying().String() == "string" {
						bad = true
						rr.Bad(g, f.Name+"|membership by character", call.Pos(), "a single byte of the text (`"+exprStr(ix)+"`) is looked up in the delimiter set: with IFS `、` the text `あ、い` is cut inside its characters")
					}
				}
				return true
			})
			if !bad {
				rr.OK(f, f.Name+"|membership by character", f.Pos(), "rune-wise", "no byte-wise membership test")
			}
		}}
}

// ---------------------------------------------------------------------------
// RC7: the construct stack grows only where a compound command begins.

// firstOfStart computes FIRST(start symbol) of a grammar: the terminals a
// complete sentence can begin with.
func firstOfStart(g *Grammar) map[string]bool {
	isTerm := func(s string) bool {
		if strings.HasPrefix(s, "'") {
			return true
		}
		_, ok := g.Tokens[s]
		return ok
	}
	nullable := map[string]bool{}
	first := map[string]map[string]bool{}
	for changed := true; changed; {
		changed = false
		for _, p := range g.Prods {
			if first[p.LHS] == nil {
				first[p.LHS] = map[string]bool{}
			}
			allNull := true
			for _, s := range p.RHS {
				if isTerm(s) {
					if !first[p.LHS][s] {
						first[p.LHS][s] = true
						changed = true
					}
					allNull = false
					break
				}
				for t := range first[s] {
					if !first[p.LHS][t] {
						first[p.LHS][t] = true
						changed = true
					}
				}
				if !nullable[s] {
					allNull = false
					break
				}
			}
			if allNull && !nullable[p.LHS] {
				nullable[p.LHS] = true
				changed = true
			}
		}
	}
	start := g.Start
	if start == "" && len(g.Prods) > 0 {
		start = g.Prods[0].LHS
	}
	return first[start]
}

func ruleRC7() Rule {
	return Rule{ID: "RC7", Kind: "must", Floor: 5,
		Doc: "the lexer's construct stack (the closers still expected: fi, done, esac, }, ) …) grows only where a compound command begins: on every path to an `l.stack = append(l.stack, …)` the function has emitted a terminal that can begin a command according to the grammar (FIRST of its start symbol: if, while, until, for, case, {, ( …). A clause keyword inside a construct (elif, then, else, do) replaces the top and never pushes - otherwise one closer pops one of two entries, the stack is never empty again and the next top-level newline no longer ends the command",
		Run: func(c *Ctx, rr *core.RuleResult) {
			gi := c.grammar("parser")
			if gi.Err != nil {
				rr.Unkp(c.P, "parser|grammar", 0, gi.Err.Error())
				return
			}
			openers := firstOfStart(gi.G)
			stackF := c.fieldVar("parser", "lexer", "stack")
			emit := c.mustFn(rr, "parser.(*lexer).emit")
			if stackF == nil {
				rr.Unkp(c.P, "anchor:lexer.stack", 0, "field lexer.stack not found")
				return
			}
			if emit == nil {
				return
			}
			isStack := func(info *types.Info, e ast.Expr) bool {
				sel, ok := ast.Unparen(e).(*ast.SelectorExpr)
				return ok && info.Uses[sel.Sel] == stackF
			}
			termOf := func(info *types.Info, e ast.Expr) string {
				switch x := ast.Unparen(e).(type) {
				case *ast.Ident:
					if _, ok := info.Uses[x].(*types.Const); ok {
						return x.Name
					}
				case *ast.BasicLit:
					if x.Kind == token.CHAR {
						return x.Value
					}
				}
				return ""
			}
			// grows reports the pushes of a function: assignments stack = append(stack, …)
			type push struct {
				f  *core.Func
				at ast.Node
			}
			growsIn := func(f *core.Func) []push {
				var out []push
				info := f.Info()
				f.OwnNodes(func(n ast.Node) bool {
					as, ok := n.(*ast.AssignStmt)
					if !ok || len(as.Lhs) != 1 || len(as.Rhs) != 1 || !isStack(info, as.Lhs[0]) {
						return true
					}
					call, ok := ast.Unparen(as.Rhs[0]).(*ast.CallExpr)
					if ok && isBuiltinCall(info, call, "append") && len(call.Args) >= 2 && isStack(info, call.Args[0]) {
						out = append(out, push{f, as})
					}
					return true
				})
				return out
			}
			openerEmit := func(f *core.Func) func(ast.Node) bool {
				info := f.Info()
				return func(n ast.Node) bool {
					call, ok := n.(*ast.CallExpr)
					if !ok || len(call.Args) != 1 {
						return false
					}
					fo := core.StaticCallee(info, call)
					if fo == nil || c.P.FuncOf(fo) != emit {
						return false
					}
					if t := termOf(info, call.Args[0]); t != "" {
						return openers[t]
					}
					if _, isID := ast.Unparen(call.Args[0]).(*ast.Ident); isID {
						if cc := enclosingCase(c.P, call); cc != nil && len(cc.List) > 0 {
							for _, e := range cc.List {
								if t := termOf(info, e); t == "" || !openers[t] {
									return false
								}
							}
							return true
						}
					}
					return false
				}
			}
			var check func(p push, depth int, via string)
			check = func(p push, depth int, via string) {
				f := p.f
				seen := core.NewFlow(f).MustSeen(false, openerEmit(f), nil)
				key := f.Name + "|push" + via
				if seen[p.at] {
					rr.OK(f, key, p.at.Pos(), "opener", "a terminal of FIRST(command) was emitted on every path to the push")
					return
				}
				// a helper that only pushes, or a state the construct's first state
				// hands over to (`return l.lexForBody`): the obligation moves to
				// every place that calls the function or takes it as a value
				if depth < 4 && f.Decl != nil && f.Obj != nil && !f.Obj.Exported() {
					var refs []push
					for _, g := range c.funcsOfPkg("parser", false) {
						ginfo := g.Info()
						g.OwnNodes(func(n ast.Node) bool {
							if sel, ok := n.(*ast.SelectorExpr); ok && ginfo.Uses[sel.Sel] == types.Object(f.Obj) {
								refs = append(refs, push{g, sel})
							} else if id, ok := n.(*ast.Ident); ok && ginfo.Uses[id] == types.Object(f.Obj) {
								if _, isSel := c.P.Parent(id).(*ast.SelectorExpr); !isSel {
									refs = append(refs, push{g, id})
								}
							}
							return true
						})
					}
					if len(refs) > 0 {
						for _, r := range refs {
							if r.f.Root() == f {
								continue // the state hands over to itself
							}
							check(r, depth+1, via+" through "+f.Short)
						}
						return
					}
				}
				rr.Bad(f, key, p.at.Pos(), "the construct stack grows here although no terminal that can begin a command was emitted on the way: a clause keyword (elif, then, else, do) must replace the expected closer on top, not push another - one `fi`/`done` then pops one of two entries, the stack never empties and the following newline no longer ends the command")
			}
			for _, f := range c.funcsOfPkg("parser", false) {
				for _, p := range growsIn(f) {
					check(p, 0, "")
				}
			}
		}}
}

// ---------------------------------------------------------------------------
// RD1: one call of read() takes one character from the input and returns it.

func ruleRD1() Rule {
	return Rule{ID: "RD1", Kind: "must", Floor: 2,
		Doc: "the parser lexer's read() is the only place characters enter the lexer: (a) on no path does one call take more than one character from a source (ReadRune on the input or on an alias value, directly or through a helper) - a character taken and not returned is lost to every scanner, quoted or not; (b) the rune it returns is the one ReadRune delivered, never a constant or a recomputed value",
		Run: func(c *Ctx, rr *core.RuleResult) {
			f := c.mustFn(rr, "parser.(*lexer).read")
			if f == nil {
				return
			}
			isReadRune := func(info *types.Info, call *ast.CallExpr) bool {
				fo := core.StaticCallee(info, call)
				return fo != nil && fo.Name() == "ReadRune" && fo.Type().(*types.Signature).Recv() != nil
			}
			// reads(g): the largest number of characters one call of g can take
			memo := map[*core.Func]int{}
			var reads func(g *core.Func, depth int) int
			reads = func(g *core.Func, depth int) int {
				if v, ok := memo[g]; ok {
					return v
				}
				memo[g] = 2 // recursion: unbounded
				if depth > 4 || g.Body == nil {
					return memo[g]
				}
				info := g.Info()
				_, n := core.NewFlow(g).MaxCount(2, func(x ast.Node) int {
					call, ok := x.(*ast.CallExpr)
					if !ok {
						return 0
					}
					if isReadRune(info, call) {
						return 1
					}
					if fo := core.StaticCallee(info, call); fo != nil {
						if h := c.P.FuncOf(fo); h != nil && h.Pkg == g.Pkg && !h.Generated && c.reachesReadRune(h) {
							return reads(h, depth+1) // a recursive call finds memo == 2: unbounded
						}
					}
					return 0
				})
				memo[g] = n
				return n
			}
			n := reads(f, 0)
			key := f.Name + "|characters taken per call"
			switch {
			case n == 1:
				rr.OK(f, key, f.Pos(), "path-count", "at most one ReadRune on every path through read() and its helpers")
			case n == 0:
				rr.Unk(f, key, f.Pos(), "no ReadRune call found in read(): the anchor does not read the input any more")
			default:
				rr.Bad(f, key, f.Pos(), "one call of read() can take two characters from the input (a second ReadRune on some path): the first one is delivered to nobody, or a pair of characters is folded into one - also inside quotes, where every character stands for itself")
			}
			// (b) returned rune is ReadRune's
			var badRet []*ast.ReturnStmt
			var badIn []*core.Func
			nret := 0
			okMemo := map[*core.Func]bool{}
			var delivers func(g *core.Func, depth int) bool
			// isSource: a call whose first result is a rune taken from a reader
			isSource := func(g *core.Func, call *ast.CallExpr, depth int) bool {
				info := g.Info()
				if isReadRune(info, call) {
					return true
				}
				if fo := core.StaticCallee(info, call); fo != nil {
					if h := c.P.FuncOf(fo); h != nil && h.Pkg == g.Pkg && !h.Generated && h.Body != nil && c.reachesReadRune(h) {
						return delivers(h, depth+1)
					}
				}
				return false
			}
			delivers = func(g *core.Func, depth int) bool {
				if v, ok := okMemo[g]; ok {
					return v
				}
				okMemo[g] = true // a recursive call hands on what the outer call checks
				if depth > 4 {
					okMemo[g] = false
					return false
				}
				info := g.Info()
				fromReader := map[types.Object]bool{}
				other := map[types.Object]bool{}
				g.OwnNodes(func(x ast.Node) bool {
					as, ok := x.(*ast.AssignStmt)
					if !ok {
						return true
					}
					for i, lhs := range as.Lhs {
						id, ok := lhs.(*ast.Ident)
						if !ok || id.Name == "_" {
							continue
						}
						obj := info.ObjectOf(id)
						if obj == nil {
							continue
						}
						if b, ok := obj.Type().Underlying().(*types.Basic); !ok || b.Kind() != types.Int32 {
							continue
						}
						if len(as.Rhs) == 1 && len(as.Lhs) > 1 && i == 0 {
							if call, ok := ast.Unparen(as.Rhs[0]).(*ast.CallExpr); ok && isSource(g, call, depth) {
								fromReader[obj] = true
								continue
							}
						}
						other[obj] = true
					}
					return true
				})
				good := true
				g.OwnNodes(func(x ast.Node) bool {
					ret, ok := x.(*ast.ReturnStmt)
					if !ok || len(ret.Results) == 0 {
						return true
					}
					if g == f {
						nret++
					}
					if len(ret.Results) == 1 {
						if call, ok := ast.Unparen(ret.Results[0]).(*ast.CallExpr); ok && isSource(g, call, depth) {
							return true
						}
					} else if id, isID := ast.Unparen(ret.Results[0]).(*ast.Ident); isID {
						if obj := info.ObjectOf(id); obj != nil && fromReader[obj] && !other[obj] {
							return true
						}
					}
					good = false
					badRet = append(badRet, ret)
					badIn = append(badIn, g)
					return true
				})
				okMemo[g] = good
				return good
			}
			if delivers(f, 0) && nret > 0 {
				rr.OK(f, f.Name+"|returned rune", f.Pos(), "def-use", fmt.Sprintf("%d return(s) hand on ReadRune's rune unchanged", nret))
			} else if nret == 0 {
				rr.Unk(f, f.Name+"|returned rune", f.Pos(), "read() has no return with a value: idiom not recognised")
			} else {
				for i, ret := range badRet {
					rr.Bad(badIn[i], f.Name+"|returned rune", ret.Pos(), "read() returns `"+exprStr(ret.Results[0])+"` here, which is not (only) the rune ReadRune delivered: a character is replaced on its way to the scanners")
				}
			}
		}}
}

// reachesReadRune reports whether g can call a ReadRune method.
func (c *Ctx) reachesReadRune(g *core.Func) bool {
	key := "reachesReadRune:" + g.Name
	if v, ok := c.cache[key]; ok {
		return v.(bool)
	}
	c.cache[key] = false
	found := false
	var scan func(h *core.Func)
	seen := map[*core.Func]bool{}
	scan = func(h *core.Func) {
		if seen[h] || found || h.Body == nil {
			return
		}
		seen[h] = true
		info := h.Info()
		h.OwnNodes(func(x ast.Node) bool {
			call, ok := x.(*ast.CallExpr)
			if !ok {
				return true
			}
			fo := core.StaticCallee(info, call)
			if fo == nil {
				return true
			}
			if fo.Name() == "ReadRune" && fo.Type().(*types.Signature).Recv() != nil {
				found = true
				return false
			}
			if k := c.P.FuncOf(fo); k != nil && k.Pkg == g.Pkg && !k.Generated {
				scan(k)
			}
			return true
		})
	}
	scan(g)
	c.cache[key] = found
	return found
}

// ---------------------------------------------------------------------------
// SRC2: nothing stands between the caller's source and the lexer's read().

func ruleSRC2() Rule {
	return Rule{ID: "SRC2", Kind: "must-not", Floor: 3,
		Doc: "the characters the scanners see are the characters of the caller's source, taken one at a time by read(): (a) no hand-written code of the parser outside read()/unread() and their private helpers calls a reading method (ReadRune, UnreadRune, Read, ReadByte, ReadString, Peek …) of a reader - a probe read before the lexer exists loses its error and its character; (b) the scanner handed to the lexer is the caller's own RuneScanner or a standard-library reader over the caller's data (bytes/strings/bufio), never a type of this package; (c) no type of the package implements ReadRune - a reader of our own between source and lexer can fold, drop or buffer characters below the tokenizer, where quoting is unknown",
		Run: func(c *Ctx, rr *core.RuleResult) {
			pk := c.P.Pkgs["parser"]
			if pk == nil {
				rr.Unkp(c.P, "parser", 0, "package parser not loaded")
				return
			}
			readFn, unreadFn := c.mustFn(rr, "parser.(*lexer).read"), c.mustFn(rr, "parser.(*lexer).unread")
			if readFn == nil || unreadFn == nil {
				return
			}
			allowed := map[*core.Func]bool{}
			for _, g := range c.region(readFn) {
				allowed[g] = true
			}
			for _, g := range c.region(unreadFn) {
				allowed[g] = true
			}
			readerMethods := map[string]bool{"ReadRune": true, "UnreadRune": true, "Read": true, "ReadByte": true, "UnreadByte": true, "ReadString": true, "ReadBytes": true, "ReadLine": true, "ReadSlice": true, "Peek": true, "Discard": true, "WriteTo": true, "ReadAt": true, "Seek": true}
			isReaderType := func(t types.Type) bool {
				for _, tt := range []types.Type{t, types.NewPointer(t)} {
					ms := types.NewMethodSet(tt)
					for i := 0; i < ms.Len(); i++ {
						if n := ms.At(i).Obj().Name(); n == "ReadRune" || n == "Read" {
							return true
						}
					}
				}
				return false
			}
			// (a)
			for _, f := range c.funcsOfPkg("parser", false) {
				info := f.Info()
				f.OwnNodes(func(n ast.Node) bool {
					call, ok := n.(*ast.CallExpr)
					if !ok {
						return true
					}
					se, ok := call.Fun.(*ast.SelectorExpr)
					if !ok || !readerMethods[se.Sel.Name] {
						return true
					}
					sel := info.Selections[se]
					if sel == nil || sel.Kind() != types.MethodVal || !isReaderType(sel.Recv()) {
						return true
					}
					key := f.Name + "|" + exprStr(call.Fun)
					if allowed[f.Root()] {
						rr.OK(f, key, call.Pos(), "reader", "inside read()/unread()")
					} else {
						rr.Bad(f, key, call.Pos(), "the source is touched outside the lexer's read()/unread(): what this call consumes (and any error it gets) bypasses the one place that records errors, counts lines and hands characters to the scanners")
					}
					return true
				})
			}
			// (b) what open returns
			if f := c.mustFn(rr, "parser.open"); f != nil {
				info := f.Info()
				var res types.Object
				if f.Type.Results != nil && len(f.Type.Results.List) > 0 && len(f.Type.Results.List[0].Names) > 0 {
					res = info.Defs[f.Type.Results.List[0].Names[0]]
				}
				// the value each clause of the source switch binds - unless the
				// function assigns to it (then it is no longer what the caller gave)
				reassigned := map[types.Object]bool{}
				f.OwnNodes(func(n ast.Node) bool {
					if as, ok := n.(*ast.AssignStmt); ok && as.Tok != token.DEFINE {
						for _, l := range as.Lhs {
							if id, ok := l.(*ast.Ident); ok {
								if o := info.Uses[id]; o != nil {
									reassigned[o] = true
								}
							}
						}
					}
					return true
				})
				isCallers := func(e ast.Expr, at ast.Node) bool {
					id, ok := ast.Unparen(e).(*ast.Ident)
					if !ok {
						return false
					}
					obj := info.Uses[id]
					if obj == nil || reassigned[obj] {
						return false
					}
					if cc := enclosingCase(c.P, at); cc != nil {
						if impl := info.Implicits[cc]; impl != nil {
							return obj == impl
						}
					}
					_, isVar := obj.(*types.Var)
					return isVar && isParamOf(f, obj.(*types.Var))
				}
				check := func(e ast.Expr, at ast.Node) {
					e = ast.Unparen(e)
					pos := at.Pos()
					key := f.Name + "|source " + normExpr(info, e)
					switch x := e.(type) {
					case *ast.Ident:
						if isNilIdent(info, x) {
							return
						}
						if isCallers(x, at) {
							rr.OK(f, key, pos, "caller's", "the caller's value is used as it is")
							return
						}
					case *ast.CallExpr:
						if fo := core.StaticCallee(info, x); fo != nil && fo.Pkg() != nil {
							switch fo.Pkg().Path() {
							case "bytes", "strings", "bufio":
								if len(x.Args) >= 1 && isCallers(x.Args[0], at) {
									// further arguments (a buffer size) must not be made from the source
									clean := true
									for _, a := range x.Args[1:] {
										ast.Inspect(a, func(y ast.Node) bool {
											if id, ok := y.(*ast.Ident); ok && isCallers(id, at) {
												clean = false
											}
											return clean
										})
									}
									if clean {
										rr.OK(f, key, pos, "std reader", fo.Pkg().Path()+"."+fo.Name()+" over the caller's value itself")
										return
									}
								}
								rr.Bad(f, key, pos, "the lexer reads `"+exprStr(e)+"`: a reader over something derived from the caller's source, not over the source itself - a copy of a stream is never advanced for the caller (successive calls re-read the same text), and a rewritten text (line endings, byte order mark) is not the program that was given, also inside quotes and here-documents")
								return
							}
						}
					}
					rr.Bad(f, key, pos, "the lexer's source is `"+exprStr(e)+"`, which is neither the caller's scanner nor a standard-library reader over the caller's data: a reader of this package between source and lexer changes what every scanner - also inside quotes - gets to see")
				}
				f.OwnNodes(func(n ast.Node) bool {
					switch s := n.(type) {
					case *ast.AssignStmt:
						if len(s.Lhs) == len(s.Rhs) {
							for i, l := range s.Lhs {
								if id, ok := l.(*ast.Ident); ok && res != nil && info.ObjectOf(id) == res {
									check(s.Rhs[i], s)
								}
							}
						}
					case *ast.ReturnStmt:
						if len(s.Results) == 2 {
							check(s.Results[0], s)
						}
					}
					return true
				})
			}
			// (c)
			scope := pk.Types.Scope()
			n := 0
			for _, name := range scope.Names() {
				tn, ok := scope.Lookup(name).(*types.TypeName)
				if !ok || tn.IsAlias() {
					continue
				}
				if _, isIface := tn.Type().Underlying().(*types.Interface); isIface {
					continue
				}
				for _, tt := range []types.Type{tn.Type(), types.NewPointer(tn.Type())} {
					ms := types.NewMethodSet(tt)
					for i := 0; i < ms.Len(); i++ {
						m := ms.At(i).Obj()
						if m.Name() == "ReadRune" && m.Pkg() == pk.Types {
							n++
							rr.Badp(c.P, "parser."+name+"|ReadRune", m.Pos(), "type "+name+" of package parser implements ReadRune: a home-made reader between the source and the lexer")
						}
					}
				}
			}
			if n == 0 {
				rr.OKp(c.P, "parser|no ReadRune implementation", pk.Syntax[0].Pos(), "none", "no type of the package implements ReadRune")
			}
		}}
}

// ---------------------------------------------------------------------------
// CM3/CM4: what linebreak() does while it is inside a comment.

func ruleCM3() Rule {
	return Rule{ID: "CM3", Kind: "must", Floor: 2,
		Doc: "linebreak() collects a comment in the lexer's buffer from '#' to the end of the line. While its comment flag is set, every clause of its switch over the rune read, except the newline's, appends the rune to the buffer and neither moves the token position (mark) nor leaves (CM3: a second '#' is text, not a new comment) - the one exception being the closing back-quote of the command substitution the lexer is in, where the comment is flushed and linebreak returns (CM4: `a # c` inside back-quotes)",
		Run: func(c *Ctx, rr *core.RuleResult) {
			f := c.mustFn(rr, "parser.(*lexer).linebreak")
			if f == nil {
				return
			}
			info := f.Info()
			markFn := c.fn("parser.(*lexer).mark")
			commentFn := c.fn("parser.(*lexer).comment")
			cmdSubst := c.fieldVar("parser", "lexer", "cmdSubst")
			// the comment flag: the bool local a clause listing '#' sets to true
			var sw *ast.SwitchStmt
			var hash types.Object
			f.OwnNodes(func(n ast.Node) bool {
				s, ok := n.(*ast.SwitchStmt)
				if !ok || s.Tag == nil {
					return true
				}
				for _, cl := range s.Body.List {
					cc := cl.(*ast.CaseClause)
					lists := false
					for _, e := range cc.List {
						if v, ok := constInt(info, e); ok && v == '#' {
							lists = true
						}
					}
					if !lists {
						continue
					}
					ast.Inspect(cc, func(x ast.Node) bool {
						if as, ok := x.(*ast.AssignStmt); ok && len(as.Lhs) == 1 && len(as.Rhs) == 1 {
							if id, ok := as.Lhs[0].(*ast.Ident); ok {
								if tv, ok := info.Types[as.Rhs[0]]; ok && tv.Value != nil && tv.Value.String() == "true" {
									sw, hash = s, info.ObjectOf(id)
								}
							}
						}
						return true
					})
				}
				return true
			})
			if sw == nil || hash == nil {
				rr.Unk(f, f.Name+"|comment flag", f.Pos(), "no switch clause for '#' that sets a boolean flag: idiom not recognised")
				return
			}
			runeObj := types.Object(nil)
			if id, ok := ast.Unparen(sw.Tag).(*ast.Ident); ok {
				runeObj = info.ObjectOf(id)
			}
			isHash := func(e ast.Expr) (bool, bool) { // (is the flag, negated)
				e = ast.Unparen(e)
				if u, ok := e.(*ast.UnaryExpr); ok && u.Op == token.NOT {
					if id, ok := ast.Unparen(u.X).(*ast.Ident); ok && info.ObjectOf(id) == hash {
						return true, true
					}
					return false, false
				}
				if id, ok := e.(*ast.Ident); ok && info.ObjectOf(id) == hash {
					return true, false
				}
				return false, false
			}
			isBackquoteExit := func(cond ast.Expr) bool {
				// r == '`' && l.cmdSubst == '`'
				seenR, seenC := false, false
				for _, cj := range conj(cond) {
					be, ok := ast.Unparen(cj).(*ast.BinaryExpr)
					if !ok || be.Op != token.EQL {
						return false
					}
					v, okv := constInt(info, be.Y)
					if !okv || v != '`' {
						return false
					}
					if id, ok := ast.Unparen(be.X).(*ast.Ident); ok && info.ObjectOf(id) == runeObj {
						seenR = true
					} else if cmdSubst != nil && core.FieldOf(info, be.X) == cmdSubst {
						seenC = true
					} else {
						return false
					}
				}
				return seenR && seenC
			}
			// walk a statement list with the flag known true
			type res struct{ wrote, bad bool }
			var problems []string
			var walk func(list []ast.Stmt, wrote bool, inExit bool) (bool, bool) // (wrote, terminated)
			nExit := 0
			walk = func(list []ast.Stmt, wrote bool, inExit bool) (bool, bool) {
				for _, st := range list {
					switch s := st.(type) {
					case *ast.IfStmt:
						if is, neg := isHash(s.Cond); is {
							if !neg {
								w, t := walk(s.Body.List, wrote, inExit)
								wrote = w
								if t {
									return wrote, true
								}
							} else if s.Else != nil {
								if b, ok := s.Else.(*ast.BlockStmt); ok {
									w, t := walk(b.List, wrote, inExit)
									wrote = w
									if t {
										return wrote, true
									}
								}
							}
							continue
						}
						if isBackquoteExit(s.Cond) {
							nExit++
							// must flush the comment and return
							flushed, returned := false, false
							ast.Inspect(s.Body, func(x ast.Node) bool {
								switch y := x.(type) {
								case *ast.CallExpr:
									if fo := core.StaticCallee(info, y); fo != nil && commentFn != nil && c.P.FuncOf(fo) == commentFn {
										flushed = true
									}
								case *ast.ReturnStmt:
									returned = true
								}
								return true
							})
							if !flushed || !returned {
								problems = append(problems, fmt.Sprintf("line %d: the back-quote exit does not flush the comment and return", c.P.Fset.Position(s.Pos()).Line))
							}
							continue
						}
						// unknown condition: both branches must behave
						w1, t1 := walk(s.Body.List, wrote, inExit)
						w2, t2 := wrote, false
						if b, ok := s.Else.(*ast.BlockStmt); ok {
							w2, t2 = walk(b.List, wrote, inExit)
						}
						if t1 && t2 {
							return w1 && w2, true
						}
						wrote = (w1 || t1) && (w2 || t2) && (w1 || w2)
					case *ast.ReturnStmt:
						problems = append(problems, fmt.Sprintf("line %d: linebreak() returns in the middle of a comment", c.P.Fset.Position(s.Pos()).Line))
						return wrote, true
					case *ast.AssignStmt:
						for _, l := range s.Lhs {
							if id, ok := l.(*ast.Ident); ok && info.ObjectOf(id) == hash {
								if tv, ok := info.Types[s.Rhs[0]]; !ok || tv.Value == nil || tv.Value.String() != "true" {
									problems = append(problems, fmt.Sprintf("line %d: the comment flag is cleared before the end of the line", c.P.Fset.Position(s.Pos()).Line))
								}
							}
						}
					case *ast.ExprStmt:
						if call, ok := s.X.(*ast.CallExpr); ok {
							if fo := core.StaticCallee(info, call); fo != nil && markFn != nil && c.P.FuncOf(fo) == markFn {
								problems = append(problems, fmt.Sprintf("line %d: mark() moves the position while a comment is being collected", c.P.Fset.Position(s.Pos()).Line))
							}
							if se, ok := call.Fun.(*ast.SelectorExpr); ok && se.Sel.Name == "WriteRune" && len(call.Args) == 1 {
								if id, ok := ast.Unparen(call.Args[0]).(*ast.Ident); ok && info.ObjectOf(id) == runeObj {
									wrote = true
								}
							}
						}
					}
				}
				return wrote, false
			}
			n := 0
			for _, cl := range sw.Body.List {
				cc := cl.(*ast.CaseClause)
				isNL := false
				for _, e := range cc.List {
					if v, ok := constInt(info, e); ok && v == '\n' {
						isNL = true
					}
				}
				if isNL {
					continue
				}
				n++
				label := "default"
				if len(cc.List) > 0 {
					label = exprStr(cc.List[0])
				}
				key := f.Name + "|in a comment, case " + label
				problems = nil
				wrote, term := walk(cc.Body, false, false)
				switch {
				case len(problems) > 0:
					rr.Bad(f, key, cc.Pos(), "while a comment is being collected this clause does not just append the character: "+strings.Join(problems, "; ")+" - the character is lost from the comment's text or the comment's position moves")
				case !wrote && !term:
					rr.Bad(f, key, cc.Pos(), "while a comment is being collected this clause does not append the character to the buffer: it is lost from the comment's text")
				default:
					rr.OK(f, key, cc.Pos(), "appends", "with the comment flag set the clause appends the rune and does nothing else")
				}
			}
			key := f.Name + "|comment ends at the closing back-quote"
			if nExit > 0 {
				rr.OK(f, key, sw.Pos(), "exit", "a comment in a back-quoted substitution is flushed at the closing back-quote")
			} else {
				rr.Bad(f, key, sw.Pos(), "inside a back-quoted command substitution a comment runs past the closing back-quote to the end of the line: `a # c` is rejected")
			}
			_ = n
		}}
}

// ---------------------------------------------------------------------------
// AR5: text becomes a number only below the parser.

func ruleAR5() Rule {
	return Rule{ID: "AR5", Kind: "must-not", Floor: 2,
		Doc: "in the arithmetic evaluator, strconv's text-to-integer conversions (ParseInt, ParseUint, Atoi) are applied only inside reduce actions, or in helpers called only from reduce actions: the text they get was cut by the lexer into a NUMBER token or is a variable's value. A conversion in Eval itself (a fast path in front of the parser) sees raw text, so whatever strconv accepts and C does not (0b101, 0o17, 1_000) becomes an expression, and the error it returns is not an ArithExprError",
		Run: func(c *Ctx, rr *core.RuleResult) {
			gen := ""
			for _, g := range c.P.Gen {
				if g.Pkg == "interp" {
					gen = g.GoFile
				}
			}
			if gen == "" {
				rr.Unkp(c.P, "interp|grammar", 0, "no generated parser in package interp")
				return
			}
			var yyparse *core.Func
			for _, f := range c.funcsOfPkg("interp", true) {
				if f.Generated && f.Decl != nil && strings.HasSuffix(f.Short, "Parse") && strings.Contains(f.Short, "ParserImpl") {
					yyparse = f
				}
			}
			if yyparse == nil {
				rr.Unkp(c.P, "interp|yyParse", 0, "the generated parser's Parse method was not found")
				return
			}
			memo := map[*core.Func]int{} // 1 below the parser, 2 not
			var below func(f *core.Func, depth int) bool
			below = func(f *core.Func, depth int) bool {
				f = f.Root()
				if f == yyparse {
					return true
				}
				if v, ok := memo[f]; ok {
					return v == 1
				}
				memo[f] = 2
				if depth > 4 {
					return false
				}
				calls, complete := c.callSitesOf(f)
				if !complete || len(calls) == 0 {
					return false
				}
				for _, cs := range calls {
					if !below(cs.in, depth+1) {
						return false
					}
				}
				memo[f] = 1
				return true
			}
			// scope: the generated file, what the reduce actions reach, and the entry point with
			// what it calls before the parser runs - wherever these are declared
			scope := map[*core.Func]bool{}
			for f := range c.gate().regionSet {
				scope[f] = true
			}
			if ev := c.fn("interp.(*ExecEnv).Eval"); ev != nil {
				scope[ev] = true
				ei := ev.Info()
				ev.OwnNodes(func(n ast.Node) bool {
					if call, ok := n.(*ast.CallExpr); ok {
						if fo := core.StaticCallee(ei, call); fo != nil {
							if h := c.P.FuncOf(fo); h != nil && h.Pkg == ev.Pkg && !h.Generated {
								scope[h] = true
							}
						}
					}
					return true
				})
			}
			for _, f := range c.funcsOfPkg("interp", true) {
				if c.P.Fset.Position(f.Pos()).Filename != gen && !scope[f.Root()] {
					continue
				}
				info := f.Info()
				f.OwnNodes(func(n ast.Node) bool {
					call, ok := n.(*ast.CallExpr)
					if !ok {
						return true
					}
					switch calleeName(info, call) {
					case "strconv.ParseInt", "strconv.ParseUint", "strconv.Atoi":
					default:
						return true
					}
					key := f.Name + "|" + normExpr(info, call)
					if below(f, 0) {
						rr.OK(f, key, call.Pos(), "below the parser", "applied to a token or a variable's value inside a reduction")
					} else {
						rr.Bad(f, key, call.Pos(), "text is converted to a number outside the reduce actions: the conversion sees text the lexer has not cut into tokens, so strconv's own syntax (0b101, 0o17, 1_000, a sign) is accepted where the grammar would reject it, and its error is not an ArithExprError")
					}
					return true
				})
			}
		}}
}

// ---------------------------------------------------------------------------
// MK1: the token position is not moved while literal text is pending.

func ruleMK1() Rule {
	return Rule{ID: "MK1", Kind: "must-not", Floor: 10,
		Doc: "lit() stamps the text collected in the lexer's buffer with l.pos. Inside one scanner function no path leads from a write into the buffer to a mark() - which moves l.pos to the current column - without the buffer having been flushed (lit(), comment(), Reset()) in between: otherwise the pending literal is recorded at the position of whatever follows it. A helper that flushes and then marks (`lit(); mark(-1); return scanX()`) counts, at its call, as the flush and the mark it contains",
		Run: func(c *Ctx, rr *core.RuleResult) {
			buf := c.fieldVar("parser", "lexer", "b")
			markFn := c.fn("parser.(*lexer).mark")
			if buf == nil || markFn == nil {
				rr.Unkp(c.P, "anchor:lexer.b/mark", 0, "lexer.b or lexer.mark not found")
				return
			}
			flushers := map[*core.Func]bool{}
			for _, n := range []string{"parser.(*lexer).lit", "parser.(*lexer).comment"} {
				if g := c.fn(n); g != nil {
					flushers[g] = true
				}
			}
			// summaries of the helpers: does a mark in it (or below it) happen before it has
			// flushed, and has it flushed whenever it returns
			type summary struct {
				marks, marksUnflushed, alwaysFlushes bool
			}
			sums := map[*core.Func]*summary{}
			var summarise func(h *core.Func, depth int) *summary
			calleeOf := func(info *types.Info, n ast.Node) (*ast.CallExpr, *core.Func) {
				call, ok := n.(*ast.CallExpr)
				if !ok {
					return nil, nil
				}
				fo := core.StaticCallee(info, call)
				if fo == nil {
					return call, nil
				}
				return call, c.P.FuncOf(fo)
			}
			summarise = func(h *core.Func, depth int) *summary {
				if s, ok := sums[h]; ok {
					return s
				}
				s := &summary{}
				sums[h] = s // recursion: counted as neither marking nor flushing
				if h == nil || h.Body == nil || h.Decl == nil || depth > 3 || h == markFn || flushers[h] {
					return s
				}
				// the character source marks where alias text ends; that is not the scanners' protocol
				if rd := c.fn("parser.(*lexer).read"); rd != nil && c.effective(h) == c.effective(rd) {
					return s
				}
				// only small helpers of the lexer are looked into: the scanners themselves are judged on their own
				if len(h.Body.List) > 6 {
					return s
				}
				info := h.Info()
				isFlush := func(n ast.Node) bool {
					call, g := calleeOf(info, n)
					if call == nil {
						return false
					}
					if se, ok := call.Fun.(*ast.SelectorExpr); ok && se.Sel.Name == "Reset" && core.FieldOf(info, se.X) == buf {
						return true
					}
					if g == nil {
						return false
					}
					return flushers[g] || (g != h && summarise(g, depth+1).alwaysFlushes && !summarise(g, depth+1).marksUnflushed)
				}
				isMark := func(n ast.Node) (bool, bool) { // marks, and before the callee has flushed
					_, g := calleeOf(info, n)
					if g == nil {
						return false, false
					}
					if g == markFn {
						return true, true
					}
					if g != h {
						gs := summarise(g, depth+1)
						return gs.marks, gs.marksUnflushed
					}
					return false, false
				}
				flushed := core.NewFlow(h).MustSeen(false, isFlush, nil)
				h.OwnNodes(func(n ast.Node) bool {
					if m, early := isMark(n); m {
						s.marks = true
						if early && !flushed[n] {
							s.marksUnflushed = true
						}
					}
					return true
				})
				// flushed at every return (a flush inside the returned expression counts), and the body ends in a return
				rets, good := 0, 0
				h.OwnNodes(func(n ast.Node) bool {
					ret, ok := n.(*ast.ReturnStmt)
					if !ok {
						return true
					}
					rets++
					okRet := flushed[ret]
					ast.Inspect(ret, func(x ast.Node) bool {
						if x != nil && isFlush(x) {
							okRet = true
						}
						return true
					})
					if okRet {
						good++
					}
					return true
				})
				endsInReturn := false
				if k := len(h.Body.List); k > 0 {
					_, endsInReturn = h.Body.List[k-1].(*ast.ReturnStmt)
				}
				s.alwaysFlushes = rets > 0 && rets == good && endsInReturn
				return s
			}
			// linebreak() writes the buffer only while its comment flag is set and marks
			// only while it is clear; that exclusion is what CM3 checks (same check)
			commentLoop := c.fn("parser.(*lexer).linebreak")
			for _, f := range c.funcsOfPkg("parser", false) {
				if f.Body == nil || flushers[f.Root()] {
					continue
				}
				if commentLoop != nil && f.Root() == commentLoop {
					rr.OK(f, f.Name+"|marks exclusive with the comment flag", f.Pos(), "CM3", "writes happen with the comment flag set, marks with it clear: decided by CM3")
					continue
				}
				info := f.Info()
				isWrite := func(n ast.Node) bool {
					call, ok := n.(*ast.CallExpr)
					if !ok {
						return false
					}
					se, ok := call.Fun.(*ast.SelectorExpr)
					return ok && strings.HasPrefix(se.Sel.Name, "Write") && core.FieldOf(info, se.X) == buf
				}
				isFlush := func(n ast.Node) bool {
					call, g := calleeOf(info, n)
					if call == nil {
						return false
					}
					if se, ok := call.Fun.(*ast.SelectorExpr); ok && se.Sel.Name == "Reset" && core.FieldOf(info, se.X) == buf {
						return true
					}
					if g == nil {
						return false
					}
					if flushers[g] {
						return true
					}
					gs := summarise(g, 0)
					return gs.alwaysFlushes && !gs.marksUnflushed
				}
				hasWrite := false
				f.OwnNodes(func(n ast.Node) bool {
					if isWrite(n) {
						hasWrite = true
					}
					return true
				})
				if !hasWrite {
					continue
				}
				pending := core.NewFlow(f).Reaches(isWrite, isFlush)
				k := 0
				f.OwnNodes(func(n ast.Node) bool {
					call, g := calleeOf(info, n)
					if call == nil || g == nil {
						return true
					}
					var gs *summary
					if g != markFn {
						gs = summarise(g, 0)
						if !gs.marks {
							return true
						}
					}
					// only marks inside a scanner loop: there the text of earlier
					// iterations is what may be pending.  A mark after the loop, or the
					// `write the first character, then mark it` idiom outside a loop,
					// is reached with pending text only on paths the error tests exclude
					inLoop := false
					for p := c.P.Parent(call); p != nil; p = c.P.Parent(p) {
						switch p.(type) {
						case *ast.ForStmt, *ast.RangeStmt:
							inLoop = true
						case *ast.FuncLit, *ast.FuncDecl:
							p = nil
						}
						if p == nil || inLoop {
							break
						}
					}
					if !inLoop {
						return true
					}
					k++
					key := fmt.Sprintf("%s|mark #%d in the scanner loop", f.Name, k)
					switch {
					case gs != nil && !gs.marksUnflushed:
						rr.OK(f, key, call.Pos(), "flushed-in-helper", g.Short+" flushes the buffer before it marks")
					case pending[call]:
						rr.Bad(f, key, call.Pos(), "mark() can be reached with text still pending in the buffer (no lit()/comment() since the last write): the pending literal will be recorded at the position marked here, i.e. at the position of what follows it")
					default:
						rr.OK(f, key, call.Pos(), "flushed", "every path from a buffer write to this mark passes a flush")
					}
					return true
				})
			}
		}}
}

// ---------------------------------------------------------------------------
// RC8: a state that restarts the pipeline after an alias substitution is
// entered only where reserved words are recognised.

func ruleRC8() Rule {
	return Rule{ID: "RC8", Kind: "must", Floor: 1,
		Doc: "a lexer state that, after a successful alias substitution, restarts at the beginning of a pipeline (returns lexPipeline under subst()) treats the replacement text as the start of a command: `!`, `{` and reserved words in it are recognised. Such a state may be entered only from a dispatcher that itself translates reserved words (calls tr on the token it dispatches), i.e. at a command position; entered from a mid-command state (after an assignment word or a redirection) an alias value starting with `!` or a reserved word would no longer be the same program as the text with the value pasted in",
		Run: func(c *Ctx, rr *core.RuleResult) {
			subst := c.mustFn(rr, "parser.(*lexer).subst")
			start := c.mustFn(rr, "parser.(*lexer).lexPipeline")
			tr := c.mustFn(rr, "parser.(*lexer).tr")
			if subst == nil || start == nil || tr == nil {
				return
			}
			calls := func(f *core.Func, g *core.Func) bool {
				found := false
				info := f.Info()
				f.OwnNodes(func(n ast.Node) bool {
					if call, ok := n.(*ast.CallExpr); ok {
						if fo := core.StaticCallee(info, call); fo != nil && c.P.FuncOf(fo) == g {
							found = true
						}
					}
					return !found
				})
				return found
			}
			n := 0
			for _, f := range c.funcsOfPkg("parser", false) {
				if f.Decl == nil || f.Obj == nil || f == start {
					continue
				}
				info := f.Info()
				restarts := false
				f.OwnNodes(func(x ast.Node) bool {
					ret, ok := x.(*ast.ReturnStmt)
					if !ok || len(ret.Results) != 1 {
						return true
					}
					se, ok := ast.Unparen(ret.Results[0]).(*ast.SelectorExpr)
					if !ok || info.Uses[se.Sel] != types.Object(start.Obj) {
						return true
					}
					for _, gd := range guardsOf(c.P, ret, nil) {
						if !gd.pos {
							continue
						}
						ast.Inspect(gd.cond, func(y ast.Node) bool {
							if call, ok := y.(*ast.CallExpr); ok {
								if fo := core.StaticCallee(info, call); fo != nil && c.P.FuncOf(fo) == subst {
									restarts = true
								}
							}
							return true
						})
					}
					return true
				})
				if !restarts {
					continue
				}
				// every place that calls f or takes it as a value
				for _, g := range c.funcsOfPkg("parser", false) {
					ginfo := g.Info()
					g.OwnNodes(func(x ast.Node) bool {
						se, ok := x.(*ast.SelectorExpr)
						if !ok || ginfo.Uses[se.Sel] != types.Object(f.Obj) {
							return true
						}
						n++
						key := g.Name + "|enters " + f.Short
						// stored in a package-level table: the state is entered by whoever reads the table
						if readers := c.tableReaders(g, se); len(readers) > 0 {
							for _, h := range readers {
								hkey := h.Name + "|enters " + f.Short + " through a table"
								if calls(h.Root(), tr) {
									rr.OK(h, hkey, se.Pos(), "command position", "the dispatcher that looks the state up translates reserved words: it stands at the beginning of a command")
								} else {
									rr.Bad(h, hkey, se.Pos(), f.Short+" restarts the pipeline after an alias substitution (reserved words and `!` in the alias value are recognised), but the function that takes it from the table does not recognise reserved words itself - a position inside a command, where an alias value must be taken as plain words")
								}
							}
							return true
						}
						if calls(g.Root(), tr) {
							rr.OK(g, key, se.Pos(), "command position", "the dispatcher translates reserved words: it stands at the beginning of a command")
						} else {
							rr.Bad(g, key, se.Pos(), f.Short+" restarts the pipeline after an alias substitution (reserved words and `!` in the alias value are recognised), but it is entered here from a state that does not recognise reserved words itself - a position inside a command, where an alias value must be taken as plain words")
						}
						return true
					})
				}
			}
			if n == 0 {
				rr.Unkp(c.P, "parser|state restarting the pipeline after subst()", 0, "no state returns lexPipeline under subst(): idiom not recognised")
			}
		}}
}

// ---------------------------------------------------------------------------
// LP1: helpers of the arithmetic reductions have no unbounded loop.

func ruleLP1() Rule {
	return Rule{ID: "LP1", Kind: "must-not", Floor: 1,
		Doc: "the hand-written functions the arithmetic reduce actions call (expand, calculate, … in the grammar's tail) run to completion: every loop in them is a range loop or a counted loop, and none of them calls itself. A loop that follows data (a variable whose value names another variable …) spins for ever on a cycle, inside yyParse, where Eval's recover() cannot help",
		Run: func(c *Ctx, rr *core.RuleResult) {
			gen := ""
			for _, g := range c.P.Gen {
				if g.Pkg == "interp" {
					gen = g.GoFile
				}
			}
			n := 0
			// the helpers are what the reduce actions reach by static calls, wherever they are
			// declared (the grammar's tail, or a file of their own), plus the rest of the tail
			below := c.gate().regionSet
			for _, f := range c.funcsOfPkg("interp", false) {
				if f.Decl == nil || f.Short == "(*ExecEnv).Eval" || f.Short == "init" {
					continue
				}
				if c.P.Fset.Position(f.Pos()).Filename != gen && !below[f] {
					continue
				}
				info := f.Info()
				n++
				bad := false
				f.OwnNodes(func(x ast.Node) bool {
					switch s := x.(type) {
					case *ast.ForStmt:
						if !countedLoop(info, s) {
							bad = true
							rr.Bad(f, f.Name+"|loop", s.Pos(), "a loop that is neither a range nor a counted loop in a helper of the arithmetic reductions: its termination depends on the data (e.g. on variable values forming no cycle)")
						}
					case *ast.CallExpr:
						if fo := core.StaticCallee(info, s); fo != nil && c.P.FuncOf(fo) == f.Root() {
							bad = true
							rr.Bad(f, f.Name+"|recursion", s.Pos(), "a helper of the arithmetic reductions calls itself: its termination depends on the data")
						}
					}
					return true
				})
				if !bad {
					rr.OK(f, f.Name+"|bounded", f.Pos(), "bounded", "no data-driven loop, no self-call")
				}
			}
			if n == 0 {
				rr.Unkp(c.P, "interp|grammar tail", 0, "no hand-written function in the arithmetic grammar's file")
			}
		}}
}

// ---------------------------------------------------------------------------
// PS2: positions are stored as they are given.

func rulePS2() Rule {
	return Rule{ID: "PS2", Kind: "must-not", Floor: 2,
		Doc: "ast.Pos is a pair of unbounded integers: its constructor and its accessors neither mask, shift, clamp nor narrow what they are given (no &, <<, >>, &^, no conversion to a sized integer, no comparison with a numeric limit). Line 1000000 and column 5000 are positions like any other: the here-document reader looks for `Col() == 1`, the printer compares End() with Pos()",
		Run: func(c *Ctx, rr *core.RuleResult) {
			pk := c.P.Pkgs["ast"]
			if pk == nil {
				rr.Unkp(c.P, "ast", 0, "package ast not loaded")
				return
			}
			posT, _ := pk.Types.Scope().Lookup("Pos").(*types.TypeName)
			if posT == nil {
				rr.Unkp(c.P, "ast.Pos", 0, "type ast.Pos not found")
				return
			}
			// representation: only plain int fields
			key := "ast.Pos|representation"
			if st, ok := posT.Type().Underlying().(*types.Struct); ok {
				okRep := st.NumFields() >= 2
				for i := 0; i < st.NumFields(); i++ {
					if b, ok := st.Field(i).Type().Underlying().(*types.Basic); !ok || b.Kind() != types.Int {
						okRep = false
					}
				}
				if okRep {
					rr.OKp(c.P, key, posT.Pos(), "ints", "line and column are plain ints")
				} else {
					rr.Badp(c.P, key, posT.Pos(), "ast.Pos is not a struct of plain ints: a narrower or packed representation cannot hold every line and column")
				}
			} else {
				rr.Badp(c.P, key, posT.Pos(), "ast.Pos is not a struct of plain ints (a packed representation): lines and columns beyond its bit fields wrap around or saturate, e.g. column 4097 reads back as 1")
			}
			for _, f := range c.funcsOfPkg("ast", false) {
				if f.Decl == nil {
					continue
				}
				// the constructor and the methods of Pos
				isPosFn := false
				if f.Decl.Recv != nil && len(f.Decl.Recv.List) == 1 {
					if t := f.Info().Types[f.Decl.Recv.List[0].Type].Type; t != nil && strings.TrimPrefix(namedTypeName(t), "*") == "ast.Pos" {
						isPosFn = true
					}
				} else if f.Type.Results != nil && len(f.Type.Results.List) == 1 && f.Obj != nil && f.Obj.Exported() {
					if t := f.Info().Types[f.Type.Results.List[0].Type].Type; t != nil && namedTypeName(t) == "ast.Pos" {
						isPosFn = true
					}
				}
				if !isPosFn {
					continue
				}
				info := f.Info()
				bad := ""
				f.OwnNodes(func(x ast.Node) bool {
					switch e := x.(type) {
					case *ast.BinaryExpr:
						switch e.Op {
						case token.AND, token.OR, token.XOR, token.SHL, token.SHR, token.AND_NOT:
							if tv, ok := info.Types[e]; ok && tv.Value == nil {
								bad = "bit operation `" + exprStr(e) + "`"
							}
						}
					case *ast.CallExpr:
						if tv, ok := info.Types[e.Fun]; ok && tv.IsType() && len(e.Args) == 1 {
							if b, ok := tv.Type.Underlying().(*types.Basic); ok && b.Info()&types.IsInteger != 0 && b.Kind() != types.Int {
								if av, ok := info.Types[e.Args[0]]; ok && av.Value == nil {
									bad = "narrowing conversion `" + exprStr(e) + "`"
								}
							}
						}
					}
					return true
				})
				k := f.Name + "|stores and returns what it is given"
				if bad == "" {
					rr.OK(f, k, f.Pos(), "projection", "no masking, shifting or narrowing")
				} else {
					rr.Bad(f, k, f.Pos(), bad+" in a position constructor/accessor: large lines or columns are not kept as they are")
				}
			}
		}}
}

// ---------------------------------------------------------------------------
// BQ1: only the closing back-quote closes a back-quoted substitution.

func ruleBQ1() Rule {
	return Rule{ID: "BQ1", Kind: "must", Floor: 2,
		Doc: "the lexer of a back-quoted command substitution presents the substitution to the grammar as `( … )`: it returns the token ')' when it meets the closing back-quote. The input can spell ')' too, so (a) where the scanner turns the back-quote into ')' it sets a flag of the lexer, and (b) the clause of lexToken that ends a substitution at its outermost ')' reads that flag for the back-quote kind - otherwise \"`echo)\" is accepted as `echo`",
		Run: func(c *Ctx, rr *core.RuleResult) {
			raw := c.mustFn(rr, "parser.(*lexer).scanRawToken")
			lt := c.mustFn(rr, "parser.(*lexer).lexToken")
			cmdSubst := c.fieldVar("parser", "lexer", "cmdSubst")
			if raw == nil || lt == nil || cmdSubst == nil {
				return
			}
			info := raw.Info()
			// (a) `return ')'` inside the clause for '`'
			var flag *types.Var
			n := 0
			raw.OwnNodes(func(x ast.Node) bool {
				ret, ok := x.(*ast.ReturnStmt)
				if !ok || len(ret.Results) != 1 {
					return true
				}
				if v, ok := constInt(info, returnedToken(ret)); !ok || v != ')' {
					return true
				}
				cc := enclosingCase(c.P, ret)
				isBQ := false
				if cc != nil {
					for _, e := range cc.List {
						if v, ok := constInt(info, e); ok && v == '`' {
							isBQ = true
						}
					}
				}
				if !isBQ {
					return true
				}
				n++
				key := raw.Name + "|back-quote returned as ')'"
				// the statement before the return assigns true to a field of the lexer
				var set *types.Var
				if blk, ok := c.P.Parent(ret).(*ast.BlockStmt); ok {
					if i := stmtIndex(c.P, blk.List, ret); i > 0 {
						if as, ok := blk.List[i-1].(*ast.AssignStmt); ok && len(as.Lhs) == 1 && len(as.Rhs) == 1 {
							if tv, ok := info.Types[as.Rhs[0]]; ok && tv.Value != nil && tv.Value.String() == "true" {
								set = core.FieldOf(info, as.Lhs[0])
							}
						}
					}
				}
				if set != nil {
					flag = set
					rr.OK(raw, key, ret.Pos(), "flagged", "the scanner records that this ')' stands for the closing back-quote ("+set.Name()+")")
				} else {
					rr.Bad(raw, key, ret.Pos(), "the closing back-quote is handed to the grammar as ')' without any record that it was a back-quote: a ')' written in the input closes the substitution just as well (\"`echo)\" is accepted)")
				}
				return true
			})
			if n == 0 {
				rr.Unk(raw, raw.Name+"|back-quote returned as ')'", raw.Pos(), "the raw scanner does not return ')' under case '`': idiom not recognised")
				return
			}
			// (b) the closer clause of lexToken tests the flag
			li := lt.Info()
			key := lt.Name + "|closer of a back-quoted substitution"
			reads := false
			lt.OwnNodes(func(x ast.Node) bool {
				if se, ok := x.(*ast.SelectorExpr); ok && flag != nil && core.FieldOf(li, se) == flag {
					for _, gd := range guardsOf(c.P, se, nil) {
						ast.Inspect(gd.cond, func(y ast.Node) bool {
							if s2, ok := y.(*ast.SelectorExpr); ok && core.FieldOf(li, s2) == cmdSubst {
								reads = true
							}
							return true
						})
					}
					// or in the same condition
					for p := c.P.Parent(se); p != nil; p = c.P.Parent(p) {
						if e, ok := p.(ast.Expr); ok {
							ast.Inspect(e, func(y ast.Node) bool {
								if s2, ok := y.(*ast.SelectorExpr); ok && core.FieldOf(li, s2) == cmdSubst {
									reads = true
								}
								return true
							})
						} else {
							break
						}
					}
				}
				return true
			})
			if reads {
				rr.OK(lt, key, lt.Pos(), "tested", "a ')' ends a back-quoted substitution only if the scanner produced it from the closing back-quote")
			} else {
				rr.Bad(lt, key, lt.Pos(), "lexToken ends a substitution at any outermost ')' without asking whether, in a back-quoted substitution, it came from the closing back-quote")
			}
		}}
}
