package rules

import (
	"fmt"
	"go/ast"
	"go/token"
	"go/types"
	"sort"
	"strings"

	"verif/sa/core"
)

// pf1Site is one potential run-time panic site.
type pf1Site struct {
	f    *core.Func
	kind string // IDX SLC TA DIV NILOPT
	node ast.Node
	expr string // locals replaced by their types (rename-stable key)
	raw  string // as written (for messages)
	res  core.BoundsResult
	pre  string // non-empty: discharged through a precondition verified at every call site
}

// pf1Sites enumerates and decides the panic obligations of one function
// (cached per function).
func (c *Ctx) pf1Sites(f *core.Func) []*pf1Site {
	key := "pf1:" + f.Name
	if v, ok := c.cache[key]; ok {
		return v.([]*pf1Site)
	}
	var out []*pf1Site
	fa := core.NewFacts(f)
	fa.MinLenAxiom = c.minLenAxiom(f.Info())
	info := f.Info()
	seen := map[ast.Node]bool{}
	fa.Run(func(n ast.Node, st *core.State) {
		if seen[n] {
			// a node may be replayed under several states (short-circuit
			// joins); keep the weakest verdict
			for _, s := range out {
				if s.node == n && s.res.OK {
					if r := decide(fa, info, s.kind, n, st, c); !r.OK {
						s.res = r
					}
				}
			}
			return
		}
		kind := ""
		switch n := n.(type) {
		case *ast.IndexExpr:
			if tv, ok := info.Types[n.X]; ok && tv.IsType() {
				return
			}
			if _, ok := info.Instances[funIdentOf(n.X)]; ok {
				return
			}
			if fa.IsSeq(n.X) {
				kind = "IDX"
			}
		case *ast.SliceExpr:
			kind = "SLC"
		case *ast.TypeAssertExpr:
			if n.Type == nil {
				return // type switch
			}
			if isCommaOk(c.P, n) {
				return
			}
			kind = "TA"
		case *ast.BinaryExpr:
			switch n.Op {
			case token.QUO, token.REM, token.SHL, token.SHR:
				if tv, ok := info.Types[n.Y]; ok && tv.Value == nil {
					if tx, ok := info.Types[n.X]; ok && isIntegerType(tx.Type) {
						kind = "DIV"
					}
				}
			}
		case *ast.SelectorExpr:
			if isOptionalASTField(info, n.X) {
				kind = "NILOPT"
			}
		case *ast.CallExpr:
			// make panics on a negative length or capacity
			if isBuiltinCall(info, n, "make") && len(n.Args) >= 2 {
				for _, a := range n.Args[1:] {
					if tv, ok := info.Types[a]; ok && tv.Value == nil {
						kind = "MAKE"
					}
				}
			}
			// bytes.Repeat / strings.Repeat panic on a negative count
			switch calleeName(info, n) {
			case "bytes.Repeat", "strings.Repeat":
				if len(n.Args) == 2 {
					if tv, ok := info.Types[n.Args[1]]; ok && tv.Value == nil {
						kind = "REP"
					}
				}
			}
		}
		if kind == "" {
			return
		}
		seen[n] = true
		s := &pf1Site{f: f, kind: kind, node: n, expr: normExpr(info, n.(ast.Expr)), raw: exprStr(n.(ast.Expr))}
		s.res = decide(fa, info, kind, n, st, c)
		out = append(out, s)
	})
	// DIV by op-assign (x /= y)
	f.OwnNodes(func(n ast.Node) bool {
		if as, ok := n.(*ast.AssignStmt); ok {
			switch as.Tok {
			case token.QUO_ASSIGN, token.REM_ASSIGN, token.SHL_ASSIGN, token.SHR_ASSIGN:
				if tv, ok := info.Types[as.Rhs[0]]; ok && tv.Value == nil {
					out = append(out, &pf1Site{f: f, kind: "DIV", node: as, expr: normExpr(info, as.Lhs[0]) + as.Tok.String() + normExpr(info, as.Rhs[0]), raw: exprStr(as.Lhs[0]) + as.Tok.String() + exprStr(as.Rhs[0]),
						res: core.BoundsResult{Why: "divisor/shift count is not a constant"}})
				}
			}
		}
		return true
	})
	c.cache[key] = out
	c.pf1Preconditions(f, out)
	c.pf1FieldPreconditions(f, out)
	return out
}

// minLenAxiom returns the length invariants that hold for every value the
// library itself builds, whichever function looks at it.  Each has a producer
// rule that runs in the same checks (GR3 for the AST shapes; the ExecEnv
// assumption is listed in the evidence).
func (c *Ctx) minLenAxiom(info *types.Info) func(e ast.Expr) (int, string) {
	nonEmpty := map[string]bool{"CmdSubst.List": true}
	for _, f := range requiredNonEmptyFields {
		nonEmpty[f] = true
	}
	return func(e ast.Expr) (int, string) {
		if tv, ok := info.Types[e]; ok && tv.Type != nil && namedTypeName(tv.Type) == "ast.List" {
			return 1, "list-nonempty"
		}
		if se, ok := e.(*ast.SelectorExpr); ok {
			if v := core.FieldOf(info, se); v != nil && v.Pkg() != nil {
				if sel := info.Selections[se]; sel != nil {
					owner := namedTypeName(sel.Recv())
					owner = strings.TrimPrefix(owner, "*")
					switch {
					case strings.HasPrefix(owner, "ast.") && nonEmpty[strings.TrimPrefix(owner, "ast.")+"."+v.Name()]:
						return 1, "compound-list-nonempty"
					case owner == "interp.ExecEnv" && v.Name() == "Args":
						return 1, "args-nonempty"
					}
				}
			}
		}
		return 0, ""
	}
}

// pf1Preconditions tries to discharge the failing index/slice sites of f
// whose missing fact is "this parameter is non-empty": the function is
// re-analysed under that assumption and the assumption is then verified at
// every call site (recursively when the argument is the caller's own
// parameter).  This is what makes the verdict independent of where a piece of
// code lives: extracting a helper moves the obligation to the call site.
func (c *Ctx) pf1Preconditions(f *core.Func, sites []*pf1Site) {
	var failing []*pf1Site
	for _, s := range sites {
		if !s.res.OK && (s.kind == "IDX" || s.kind == "SLC") {
			failing = append(failing, s)
		}
	}
	if len(failing) == 0 || f.Type.Params == nil {
		return
	}
	info := f.Info()
	var params []*types.Var
	for _, fld := range f.Type.Params.List {
		for _, id := range fld.Names {
			if v, ok := info.Defs[id].(*types.Var); ok {
				switch u := v.Type().Underlying().(type) {
				case *types.Slice:
					params = append(params, v)
				case *types.Basic:
					if u.Info()&types.IsString != 0 {
						params = append(params, v)
					}
				}
			}
		}
	}
	for _, p := range params {
		// does assuming len(p) >= 1 help?
		fa := core.NewFacts(f)
		fa.MinLenAxiom = c.minLenAxiom(info)
		fa.AssumeMinLen = map[*types.Var]int{p: 1}
		helped := map[*pf1Site]core.BoundsResult{}
		fa.Run(func(n ast.Node, st *core.State) {
			for _, s := range failing {
				if s.node == n && !s.res.OK {
					r := decide(fa, info, s.kind, n, st, c)
					if prev, seen := helped[s]; !seen || (prev.OK && !r.OK) {
						helped[s] = r
					}
				}
			}
		})
		any := false
		for _, r := range helped {
			if r.OK {
				any = true
			}
		}
		if !any {
			continue
		}
		ok, why := c.paramNonEmpty(f, p, map[*core.Func]bool{}, 0)
		if !ok {
			continue
		}
		for s, r := range helped {
			if r.OK {
				s.res = r
				s.pre = fmt.Sprintf("len(%s) >= 1 at every call: %s", p.Name(), why)
			}
		}
	}
}

// pf1FieldPreconditions does for a string or slice *field of a pointer
// parameter* (`pe.Op[0]` in a helper that is handed the *ast.ParamExp) what
// pf1Preconditions does for a parameter: the site is re-decided under the
// assumption that the field is non-empty at entry, and the assumption is
// verified at every call - there the call must stand in a case clause of a
// switch over that very field of the argument whose constants are all
// non-empty, or under a comparison of it with a non-empty constant.
func (c *Ctx) pf1FieldPreconditions(f *core.Func, sites []*pf1Site) {
	if f.Type.Params == nil {
		return
	}
	info := f.Info()
	for _, s := range sites {
		if s.res.OK || s.kind != "IDX" {
			continue
		}
		ix := s.node.(*ast.IndexExpr)
		se, ok := ast.Unparen(ix.X).(*ast.SelectorExpr)
		if !ok {
			continue
		}
		pid, ok := ast.Unparen(se.X).(*ast.Ident)
		if !ok {
			continue
		}
		pv, ok := info.Uses[pid].(*types.Var)
		if !ok || !isParamOf(f, pv) || assignedIn(f, pv) {
			continue
		}
		fv := core.FieldOf(info, se)
		if fv == nil {
			continue
		}
		// the field is not written in f
		written := false
		f.OwnNodes(func(n ast.Node) bool {
			if as, isAs := n.(*ast.AssignStmt); isAs {
				for _, l := range as.Lhs {
					if core.FieldOf(info, l) == fv {
						written = true
					}
				}
			}
			return true
		})
		if written {
			continue
		}
		fa := core.NewFacts(f)
		fa.MinLenAxiom = c.minLenAxiom(info)
		fa.AssumeMinLenOf = []ast.Expr{se}
		var res *core.BoundsResult
		fa.Run(func(n ast.Node, st *core.State) {
			if n == s.node {
				r := decide(fa, info, s.kind, n, st, c)
				if res == nil || (res.OK && !r.OK) {
					res = &r
				}
			}
		})
		if res == nil || !res.OK {
			continue
		}
		idx, k := -1, 0
		for _, fld := range f.Type.Params.List {
			for _, id := range fld.Names {
				if info.Defs[id] == types.Object(pv) {
					idx = k
				}
				k++
			}
		}
		calls, complete := c.callSitesOf(f)
		if idx < 0 || !complete || len(calls) == 0 {
			continue
		}
		all := true
		var whys []string
		for _, cs := range calls {
			if idx >= len(cs.call.Args) {
				all = false
				break
			}
			aid, isID := ast.Unparen(cs.call.Args[idx]).(*ast.Ident)
			if !isID {
				all = false
				break
			}
			ci := cs.in.Info()
			av := ci.Uses[aid]
			okSite := false
			nonEmptyConst := func(e ast.Expr) bool {
				sv, isC := constStr(ci, e)
				return isC && sv != ""
			}
			isField := func(e ast.Expr) bool {
				s2, isSel := ast.Unparen(e).(*ast.SelectorExpr)
				if !isSel || core.FieldOf(ci, s2) != fv {
					return false
				}
				x, isX := ast.Unparen(s2.X).(*ast.Ident)
				return isX && ci.Uses[x] == av
			}
			for p := c.P.Parent(cs.call); p != nil && !okSite; p = c.P.Parent(p) {
				cc, isCC := p.(*ast.CaseClause)
				if !isCC || len(cc.List) == 0 {
					continue
				}
				sw, isSw := c.P.Parent(c.P.Parent(cc)).(*ast.SwitchStmt)
				if !isSw || sw.Tag == nil || !isField(sw.Tag) {
					continue
				}
				good := true
				for _, e := range cc.List {
					if !nonEmptyConst(e) {
						good = false
					}
				}
				okSite = good
			}
			for _, gd := range guardsOf(c.P, cs.call, nil) {
				if be, isBE := ast.Unparen(gd.cond).(*ast.BinaryExpr); isBE && gd.pos && be.Op == token.EQL && isField(be.X) && nonEmptyConst(be.Y) {
					okSite = true
				}
			}
			if av != nil {
				if v, isVar := av.(*types.Var); isVar && assignedIn(cs.in, v) && !isParamOf(cs.in, v) {
					okSite = false
				}
			}
			if !okSite {
				all = false
				break
			}
			whys = append(whys, cs.in.Short)
		}
		if !all {
			continue
		}
		s.res = *res
		s.pre = fmt.Sprintf("len(%s.%s) >= 1 at every call (the call stands under a case of that field with non-empty constants): %s", pv.Name(), fv.Name(), strings.Join(whys, ", "))
	}
}

// paramNonEmpty verifies that every call of f passes a provably non-empty
// value for parameter p.
func (c *Ctx) paramNonEmpty(f *core.Func, p *types.Var, visiting map[*core.Func]bool, depth int) (bool, string) {
	if depth > 3 || visiting[f] {
		return false, ""
	}
	visiting[f] = true
	defer delete(visiting, f)
	idx := -1
	k := 0
	for _, fld := range f.Type.Params.List {
		for _, id := range fld.Names {
			if f.Info().Defs[id] == types.Object(p) {
				idx = k
			}
			k++
		}
	}
	if idx < 0 {
		return false, ""
	}
	calls, complete := c.callSitesOf(f)
	if !complete || len(calls) == 0 {
		return false, ""
	}
	var whys []string
	for _, cs := range calls {
		if idx >= len(cs.call.Args) || cs.call.Ellipsis.IsValid() {
			return false, ""
		}
		arg := ast.Unparen(cs.call.Args[idx])
		st, fa := c.stateAtCall(cs.in, cs.call)
		if fa == nil {
			return false, ""
		}
		if ok, why := fa.ProveMinLen(arg, st, 1); ok {
			whys = append(whys, cs.in.Short+": "+why)
			continue
		}
		// a reduce action handing over a $n that GR3 proves non-empty
		if cs.in.Generated || c.P.Fset.Position(cs.call.Pos()).Filename == c.generatedFileOf(cs.in) {
			if ok, why := c.reduceArgNonEmpty(cs.call, arg); ok {
				whys = append(whys, why)
				continue
			}
		}
		// the caller's own parameter: recurse
		if id, isID := arg.(*ast.Ident); isID {
			if v, isVar := cs.in.Info().Uses[id].(*types.Var); isVar && isParamOf(cs.in, v) && !assignedIn(cs.in, v) {
				if ok, why := c.paramNonEmpty(cs.in, v, visiting, depth+1); ok {
					whys = append(whys, cs.in.Short+" <- "+why)
					continue
				}
			}
		}
		return false, ""
	}
	sort.Strings(whys)
	if len(whys) > 3 {
		whys = append(whys[:3], fmt.Sprintf("... (%d call sites)", len(calls)))
	}
	return true, strings.Join(whys, "; ")
}

// generatedFileOf returns the goyacc output file of f's package ("" if none).
func (c *Ctx) generatedFileOf(f *core.Func) string {
	for _, g := range c.P.Gen {
		if g.Pkg == f.Pkg.Name {
			return g.GoFile
		}
	}
	return ""
}

type callSite struct {
	in   *core.Func
	call *ast.CallExpr
}

// callSitesOf lists the calls of f.  complete is false when f may be called
// from somewhere the analysis does not see (exported, or used as a value).
func (c *Ctx) callSitesOf(f *core.Func) (calls []callSite, complete bool) {
	return c.callSites(f, false)
}

// callSites is callSitesOf; with moduleOnly an exported function counts as
// completely known when the module itself only ever calls it (callers outside
// the module are not what the properties speak about).
func (c *Ctx) callSites(f *core.Func, moduleOnly bool) (calls []callSite, complete bool) {
	key := "callsites:" + f.Name
	if moduleOnly {
		key = "callsites-module:" + f.Name
	}
	type res struct {
		calls    []callSite
		complete bool
	}
	if v, ok := c.cache[key]; ok {
		r := v.(res)
		return r.calls, r.complete
	}
	complete = true
	var target types.Object
	if f.Decl != nil {
		if f.Obj == nil || (f.Obj.Exported() && !moduleOnly) {
			complete = false
		}
		target = f.Obj
	} else {
		// a literal bound to a local variable: `name := func(...) {...}`
		if as, ok := c.P.Parent(f.Lit).(*ast.AssignStmt); ok && len(as.Lhs) == 1 && len(as.Rhs) == 1 && as.Rhs[0] == ast.Expr(f.Lit) {
			if id, ok := as.Lhs[0].(*ast.Ident); ok {
				target = f.Info().Defs[id]
			}
		}
		if target == nil {
			complete = false
		}
	}
	if target != nil {
		for _, g := range c.P.Funcs {
			if g.Pkg != f.Pkg && !(f.Obj != nil && f.Obj.Exported()) {
				continue
			}
			info := g.Info()
			g.OwnNodes(func(n ast.Node) bool {
				id, ok := n.(*ast.Ident)
				if !ok || info.Uses[id] != target {
					return true
				}
				var fun ast.Node = id
				if se, isSel := c.P.Parent(id).(*ast.SelectorExpr); isSel && se.Sel == id {
					fun = se
				}
				call, isCall := c.P.Parent(fun).(*ast.CallExpr)
				if !isCall || call.Fun != fun {
					complete = false
					return true
				}
				calls = append(calls, callSite{in: g, call: call})
				return true
			})
		}
	}
	c.cache[key] = res{calls, complete}
	return
}

// stateAtCall returns the abstract state holding before the call (after its
// operands) in function g.
func (c *Ctx) stateAtCall(g *core.Func, call *ast.CallExpr) (*core.State, *core.Facts) {
	key := "callstates:" + g.Name
	type res struct {
		fa *core.Facts
		st map[*ast.CallExpr]*core.State
	}
	var r res
	if v, ok := c.cache[key]; ok {
		r = v.(res)
	} else {
		r.fa = core.NewFacts(g)
		r.fa.MinLenAxiom = c.minLenAxiom(g.Info())
		r.st = map[*ast.CallExpr]*core.State{}
		seen := map[*ast.CallExpr]bool{}
		r.fa.Run(func(n ast.Node, st *core.State) {
			if ce, ok := n.(*ast.CallExpr); ok {
				if seen[ce] {
					r.st[ce] = core.JoinStates(r.st[ce], st)
				} else {
					seen[ce] = true
					r.st[ce] = core.CloneState(st)
				}
			}
		})
		c.cache[key] = r
	}
	st, ok := r.st[call]
	if !ok {
		// never visited: unreachable code
		return nil, r.fa
	}
	return st, r.fa
}

// assignedIn reports whether v is assigned anywhere in f (then its entry
// value is not what reaches the call).
func assignedIn(f *core.Func, v *types.Var) bool {
	info := f.Info()
	found := false
	ast.Inspect(f.Body, func(n ast.Node) bool {
		switch x := n.(type) {
		case *ast.AssignStmt:
			for _, l := range x.Lhs {
				if id, ok := ast.Unparen(l).(*ast.Ident); ok && info.Uses[id] == types.Object(v) {
					found = true
				}
			}
		case *ast.UnaryExpr:
			if x.Op == token.AND {
				if id, ok := ast.Unparen(x.X).(*ast.Ident); ok && info.Uses[id] == types.Object(v) {
					found = true
				}
			}
		}
		return true
	})
	return found
}

func funIdentOf(e ast.Expr) *ast.Ident {
	switch e := e.(type) {
	case *ast.Ident:
		return e
	case *ast.SelectorExpr:
		return e.Sel
	}
	return nil
}

func isIntegerType(t types.Type) bool {
	b, ok := t.Underlying().(*types.Basic)
	return ok && b.Info()&types.IsInteger != 0
}

func decide(fa *core.Facts, info *types.Info, kind string, n ast.Node, st *core.State, c *Ctx) core.BoundsResult {
	switch kind {
	case "IDX":
		res := fa.CheckIndex(n.(*ast.IndexExpr), st)
		if !res.OK && st != nil {
			if r, ok := c.indexByRange(fa, fa.F, n.(*ast.IndexExpr), st); ok {
				return r
			}
		}
		return res
	case "SLC":
		return fa.CheckSlice(n.(*ast.SliceExpr), st)
	case "NILOPT":
		return fa.CheckNonNil(n.(*ast.SelectorExpr).X, st)
	case "TA":
		if st == nil {
			return core.BoundsResult{OK: true, Trivial: true, Why: "unreachable"}
		}
		ta := n.(*ast.TypeAssertExpr)
		// asserting to an interface the static type already implements
		if tv, ok := info.Types[ta.X]; ok {
			if tt, ok := info.Types[ta.Type]; ok {
				if it, ok := tt.Type.Underlying().(*types.Interface); ok && types.Implements(tv.Type, it) && false {
					return core.BoundsResult{OK: true, Why: "static type implements the target interface"}
				}
			}
		}
		// the generated parser hands its yyLexer straight to the actions and the tail
		// functions; YY1 checks that yyParse is only ever given a *lexer
		if tv, ok := info.Types[ta.X]; ok && tv.Type != nil {
			if tt, ok := info.Types[ta.Type]; ok && tt.Type != nil {
				xn, tn := namedTypeName(tv.Type), namedTypeName(tt.Type)
				if strings.HasSuffix(xn, ".yyLexer") && tn == "*"+strings.TrimSuffix(xn, "yyLexer")+"lexer" {
					return core.BoundsResult{OK: true, Inv: "yylex-is-lexer", Why: "the yyLexer given to yyParse is always a *lexer (YY1)"}
				}
			}
		}
		// e.(error) on the value of recover() in the deferred handler of the function that
		// runs the arithmetic parser: PF5 shows that only run-time errors can be recovered there
		if tt, ok := info.Types[ta.Type]; ok && tt.Type != nil && tt.Type.String() == "error" && fa.F.Pkg.Name == "interp" && fa.F.Lit != nil {
			if id, ok := ast.Unparen(ta.X).(*ast.Ident); ok {
				if d := localDef(fa.F, info, info.Uses[id]); d != nil {
					if call, ok := ast.Unparen(d).(*ast.CallExpr); ok && isBuiltinCall(info, call, "recover") {
						if _, isDefer := c.P.Parent(c.P.Parent(fa.F.Lit)).(*ast.DeferStmt); isDefer && c.callsYyParseDirectly(fa.F.Parent) {
							return core.BoundsResult{OK: true, Inv: "evaluator-recovers", Why: "only run-time errors (division by zero, negative shift) can be recovered here (PF5)"}
						}
					}
				}
			}
		}
		return core.BoundsResult{Why: "single-value type assertion; dynamic type not established by a guard"}
	case "MAKE":
		if st == nil {
			return core.BoundsResult{OK: true, Trivial: true, Why: "unreachable"}
		}
		call := n.(*ast.CallExpr)
		for _, a := range call.Args[1:] {
			if tv, ok := info.Types[a]; ok && tv.Value != nil {
				continue
			}
			if y, ok := fa.Linearize(a); ok && st.ProveLinLE(core.Lin{}, y, 0) {
				continue
			}
			// len(x) - k with len(x) >= k known (an axiom of the type or field)
			if be, ok := ast.Unparen(a).(*ast.BinaryExpr); ok && be.Op == token.SUB {
				if lc, ok := ast.Unparen(be.X).(*ast.CallExpr); ok && isBuiltinCall(info, lc, "len") && len(lc.Args) == 1 {
					if k, ok := constInt(info, be.Y); ok && k >= 0 {
						if ok2, _ := fa.ProveMinLen(lc.Args[0], st, int(k)); ok2 {
							continue
						}
					}
				}
			}
			return core.BoundsResult{Why: "a length or capacity handed to make may be negative"}
		}
		return core.BoundsResult{OK: true, Why: "sizes proved non-negative"}
	case "REP":
		if st == nil {
			return core.BoundsResult{OK: true, Trivial: true, Why: "unreachable"}
		}
		call := n.(*ast.CallExpr)
		if y, ok := fa.Linearize(call.Args[1]); ok && st.ProveLinLE(core.Lin{}, y, 0) {
			return core.BoundsResult{OK: true, Why: "repeat count proved non-negative"}
		}
		return core.BoundsResult{Why: "the repeat count may be negative (bytes.Repeat / strings.Repeat panic)"}
	case "DIV":
		if st == nil {
			return core.BoundsResult{OK: true, Trivial: true, Why: "unreachable"}
		}
		be := n.(*ast.BinaryExpr)
		if y, ok := fa.Linearize(be.Y); ok {
			switch be.Op {
			case token.QUO, token.REM:
				if st.ProveLinLE(core.Lin{Off: 1}, y, 0) || st.ProveLinLE(y, core.Lin{Off: -1}, 0) {
					return core.BoundsResult{OK: true, Why: "divisor proved non-zero"}
				}
			default:
				if st.ProveLinLE(core.Lin{}, y, 0) {
					return core.BoundsResult{OK: true, Why: "shift count proved non-negative"}
				}
			}
		}
		if tv, ok := info.Types[be.Y]; ok && (be.Op == token.SHL || be.Op == token.SHR) {
			if b, ok := tv.Type.Underlying().(*types.Basic); ok && b.Info()&types.IsUnsigned != 0 {
				return core.BoundsResult{OK: true, Why: "unsigned shift count"}
			}
		}
		return core.BoundsResult{Why: "divisor may be zero / shift count may be negative"}
	}
	return core.BoundsResult{}
}

// isCommaOk reports whether the assertion is used in v, ok := x.(T) form.
func isCommaOk(p *core.Program, ta *ast.TypeAssertExpr) bool {
	var parent ast.Node = p.Parent(ta)
	for {
		if pe, ok := parent.(*ast.ParenExpr); ok {
			parent = p.Parent(pe)
			continue
		}
		break
	}
	switch s := parent.(type) {
	case *ast.AssignStmt:
		return len(s.Lhs) == 2 && len(s.Rhs) == 1
	case *ast.ValueSpec:
		return len(s.Names) == 2 && len(s.Values) == 1
	}
	return false
}

// Optional pointer fields of the AST ("or nil" by documentation and by
// what the grammar produces): the only one is Redir.N.
func isOptionalASTField(info *types.Info, x ast.Expr) bool {
	v := core.FieldOf(info, x)
	if v == nil || v.Pkg() == nil || v.Pkg().Name() != "ast" {
		return false
	}
	return v.Name() == "N"
}

// runPF1 reports the obligations of every function in scope.
func runPF1(c *Ctx, rr *core.RuleResult, scope map[*core.Func]bool, fatal map[*core.Func]bool) {
	nf := 0
	for _, f := range sortedFuncs(scope) {
		if f.Generated {
			continue
		}
		nf++
		for _, s := range c.pf1Sites(f) {
			key := fmt.Sprintf("%s|%s|%s", f.Name, s.kind, s.expr)
			where := ""
			if fatal != nil && fatal[f] {
				where = " [runs in a lexer goroutine: a panic here kills the process]"
			}
			if s.res.OK && s.pre != "" {
				rr.OK(f, key, s.node.Pos(), "precondition", s.res.Why+" with "+s.pre)
				continue
			}
			if s.res.OK && s.res.Inv != "" {
				rr.OK(f, key, s.node.Pos(), "invariant:"+s.res.Inv, s.res.Why)
				continue
			}
			if s.res.OK {
				o := rr.OK(f, key, s.node.Pos(), "guard", s.res.Why)
				o.Trivial = s.res.Trivial
				if s.res.Trivial {
					o.How = "const"
				}
				continue
			}
			if s.kind == "SLC" && c.gateReslice(f, s.node) {
				rr.OK(f, key, s.node.Pos(), "invariant:gate-is-open", "the pop of the lazy-operand gate: AR6 shows that every close follows an open of the same production, and only reduce actions call it (AR), so the slice is non-empty")
				continue
			}
			if inv := lookupInvariant(c, f, s); inv != nil {
				if inv.Producer != "" {
					rr.OK(f, key, s.node.Pos(), "invariant:"+inv.Name, inv.Reason)
				} else {
					rr.OK(f, key, s.node.Pos(), "exception", inv.Reason)
				}
				continue
			}
			rr.Bad(f, key, s.node.Pos(), fmt.Sprintf("%s %s may panic%s: %s", s.kind, s.raw, where, s.res.Why))
		}
	}
	rr.Note("%d functions in scope", nf)
	names := map[string]bool{}
	for f := range scope {
		names[f.Name] = true
	}
	if stale := unusedExceptions(func(fn string) bool { return names[fn] }); len(stale) > 0 {
		rr.Note("exception-table entries that matched no site (stale, harmless): %v", stale)
	}
}

// pfException is one reasoned discharge: a named construct and why the
// guard engine need not prove it.
type pfException struct {
	Func     string // full name, or prefix ending in *
	Kind     string
	Expr     string // types.ExprString of the node
	Name     string
	Producer string // rule that checks the producer side of the invariant
	Reason   string
}

func lookupInvariant(c *Ctx, f *core.Func, s *pf1Site) *pfException {
	for i := range pfExceptions {
		e := &pfExceptions[i]
		if e.Kind != s.kind || e.Expr != s.expr {
			continue
		}
		if e.Func == f.Name || (strings.HasSuffix(e.Func, "*") && strings.HasPrefix(f.Name, strings.TrimSuffix(e.Func, "*"))) {
			pfUsed[i] = true
			return e
		}
	}
	// the construct may have moved into a private helper of the function the
	// entry names (same expression, same package, reachable only from there:
	// the context the reason speaks about is unchanged)
	for i := range pfExceptions {
		e := &pfExceptions[i]
		if e.Kind != s.kind || e.Expr != s.expr || strings.HasSuffix(e.Func, "*") {
			continue
		}
		if c.inRegion(e.Func, f) {
			pfUsed[i] = true
			return e
		}
	}
	return nil
}

var pfUsed = map[int]bool{}

// unusedExceptions lists table entries no site matched (stale entries).
func unusedExceptions(inScope func(fn string) bool) []string {
	var out []string
	for i, e := range pfExceptions {
		if !pfUsed[i] && inScope(e.Func) {
			out = append(out, e.Func+"|"+e.Kind+"|"+e.Expr)
		}
	}
	return out
}

// DumpPF1 prints every site (tooling for maintaining the exception table).
func DumpPF1(c *Ctx) {
	for _, f := range c.P.Funcs {
		if f.Generated {
			continue
		}
		for _, s := range c.pf1Sites(f) {
			fmt.Printf("%s\t%s\t%s\t%s\n", f.Name, s.kind, s.raw, s.expr)
		}
	}
}

func (c *Ctx) callsYyParseDirectly(f *core.Func) bool {
	if f == nil || f.Body == nil {
		return false
	}
	found := false
	for _, st := range f.Body.List {
		ast.Inspect(st, func(n ast.Node) bool {
			if _, isLit := n.(*ast.FuncLit); isLit {
				return false
			}
			if call, ok := n.(*ast.CallExpr); ok {
				if id, ok := call.Fun.(*ast.Ident); ok && id.Name == "yyParse" {
					found = true
				}
			}
			return true
		})
	}
	return found
}
