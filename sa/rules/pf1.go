package rules

import (
	"fmt"
	"go/ast"
	"go/token"
	"go/types"
	"strings"

	"verif/sa/core"
)

// pf1Site is one potential run-time panic site.
type pf1Site struct {
	f    *core.Func
	kind string // IDX SLC TA DIV NILOPT
	node ast.Node
	expr string // locals replaced by their types (rename-stable key)
	raw  string // as written (for messages)
	res  core.BoundsResult
}

// pf1Sites enumerates and decides the panic obligations of one function
// (cached per function).
func (c *Ctx) pf1Sites(f *core.Func) []*pf1Site {
	key := "pf1:" + f.Name
	if v, ok := c.cache[key]; ok {
		return v.([]*pf1Site)
	}
	var out []*pf1Site
	fa := core.NewFacts(f)
	info := f.Info()
	seen := map[ast.Node]bool{}
	fa.Run(func(n ast.Node, st *core.State) {
		if seen[n] {
			// a node may be replayed under several states (short-circuit
			// joins); keep the weakest verdict
			for _, s := range out {
				if s.node == n && s.res.OK {
					if r := decide(fa, info, s.kind, n, st, c); !r.OK {
						s.res = r
					}
				}
			}
			return
		}
		kind := ""
		switch n := n.(type) {
		case *ast.IndexExpr:
			if tv, ok := info.Types[n.X]; ok && tv.IsType() {
				return
			}
			if _, ok := info.Instances[funIdentOf(n.X)]; ok {
				return
			}
			if fa.IsSeq(n.X) {
				kind = "IDX"
			}
		case *ast.SliceExpr:
			kind = "SLC"
		case *ast.TypeAssertExpr:
			if n.Type == nil {
				return // type switch
			}
			if isCommaOk(c.P, n) {
				return
			}
			kind = "TA"
		case *ast.BinaryExpr:
			switch n.Op {
			case token.QUO, token.REM, token.SHL, token.SHR:
				if tv, ok := info.Types[n.Y]; ok && tv.Value == nil {
					if tx, ok := info.Types[n.X]; ok && isIntegerType(tx.Type) {
						kind = "DIV"
					}
				}
			}
		case *ast.SelectorExpr:
			if isOptionalASTField(info, n.X) {
				kind = "NILOPT"
			}
		}
		if kind == "" {
			return
		}
		seen[n] = true
		s := &pf1Site{f: f, kind: kind, node: n, expr: normExpr(info, n.(ast.Expr)), raw: exprStr(n.(ast.Expr))}
		s.res = decide(fa, info, kind, n, st, c)
		out = append(out, s)
	})
	// DIV by op-assign (x /= y)
	f.OwnNodes(func(n ast.Node) bool {
		if as, ok := n.(*ast.AssignStmt); ok {
			switch as.Tok {
			case token.QUO_ASSIGN, token.REM_ASSIGN, token.SHL_ASSIGN, token.SHR_ASSIGN:
				if tv, ok := info.Types[as.Rhs[0]]; ok && tv.Value == nil {
					out = append(out, &pf1Site{f: f, kind: "DIV", node: as, expr: normExpr(info, as.Lhs[0]) + as.Tok.String() + normExpr(info, as.Rhs[0]), raw: exprStr(as.Lhs[0]) + as.Tok.String() + exprStr(as.Rhs[0]),
						res: core.BoundsResult{Why: "divisor/shift count is not a constant"}})
				}
			}
		}
		return true
	})
	c.cache[key] = out
	return out
}

func funIdentOf(e ast.Expr) *ast.Ident {
	switch e := e.(type) {
	case *ast.Ident:
		return e
	case *ast.SelectorExpr:
		return e.Sel
	}
	return nil
}

func isIntegerType(t types.Type) bool {
	b, ok := t.Underlying().(*types.Basic)
	return ok && b.Info()&types.IsInteger != 0
}

func decide(fa *core.Facts, info *types.Info, kind string, n ast.Node, st *core.State, c *Ctx) core.BoundsResult {
	switch kind {
	case "IDX":
		return fa.CheckIndex(n.(*ast.IndexExpr), st)
	case "SLC":
		return fa.CheckSlice(n.(*ast.SliceExpr), st)
	case "NILOPT":
		return fa.CheckNonNil(n.(*ast.SelectorExpr).X, st)
	case "TA":
		if st == nil {
			return core.BoundsResult{OK: true, Trivial: true, Why: "unreachable"}
		}
		ta := n.(*ast.TypeAssertExpr)
		// asserting to an interface the static type already implements
		if tv, ok := info.Types[ta.X]; ok {
			if tt, ok := info.Types[ta.Type]; ok {
				if it, ok := tt.Type.Underlying().(*types.Interface); ok && types.Implements(tv.Type, it) && false {
					return core.BoundsResult{OK: true, Why: "static type implements the target interface"}
				}
			}
		}
		return core.BoundsResult{Why: "single-value type assertion; dynamic type not established by a guard"}
	case "DIV":
		if st == nil {
			return core.BoundsResult{OK: true, Trivial: true, Why: "unreachable"}
		}
		be := n.(*ast.BinaryExpr)
		if y, ok := fa.Linearize(be.Y); ok {
			switch be.Op {
			case token.QUO, token.REM:
				if st.ProveLinLE(core.Lin{Off: 1}, y, 0) || st.ProveLinLE(y, core.Lin{Off: -1}, 0) {
					return core.BoundsResult{OK: true, Why: "divisor proved non-zero"}
				}
			default:
				if st.ProveLinLE(core.Lin{}, y, 0) {
					return core.BoundsResult{OK: true, Why: "shift count proved non-negative"}
				}
			}
		}
		if tv, ok := info.Types[be.Y]; ok && (be.Op == token.SHL || be.Op == token.SHR) {
			if b, ok := tv.Type.Underlying().(*types.Basic); ok && b.Info()&types.IsUnsigned != 0 {
				return core.BoundsResult{OK: true, Why: "unsigned shift count"}
			}
		}
		return core.BoundsResult{Why: "divisor may be zero / shift count may be negative"}
	}
	return core.BoundsResult{}
}

// isCommaOk reports whether the assertion is used in v, ok := x.(T) form.
func isCommaOk(p *core.Program, ta *ast.TypeAssertExpr) bool {
	var parent ast.Node = p.Parent(ta)
	for {
		if pe, ok := parent.(*ast.ParenExpr); ok {
			parent = p.Parent(pe)
			continue
		}
		break
	}
	switch s := parent.(type) {
	case *ast.AssignStmt:
		return len(s.Lhs) == 2 && len(s.Rhs) == 1
	case *ast.ValueSpec:
		return len(s.Names) == 2 && len(s.Values) == 1
	}
	return false
}

// Optional pointer fields of the AST ("or nil" by documentation and by
// what the grammar produces): the only one is Redir.N.
func isOptionalASTField(info *types.Info, x ast.Expr) bool {
	v := core.FieldOf(info, x)
	if v == nil || v.Pkg() == nil || v.Pkg().Name() != "ast" {
		return false
	}
	return v.Name() == "N"
}

// runPF1 reports the obligations of every function in scope.
func runPF1(c *Ctx, rr *core.RuleResult, scope map[*core.Func]bool, fatal map[*core.Func]bool) {
	nf := 0
	for _, f := range sortedFuncs(scope) {
		if f.Generated {
			continue
		}
		nf++
		for _, s := range c.pf1Sites(f) {
			key := fmt.Sprintf("%s|%s|%s", f.Name, s.kind, s.expr)
			where := ""
			if fatal != nil && fatal[f] {
				where = " [runs in a lexer goroutine: a panic here kills the process]"
			}
			if s.res.OK {
				o := rr.OK(f, key, s.node.Pos(), "guard", s.res.Why)
				o.Trivial = s.res.Trivial
				if s.res.Trivial {
					o.How = "const"
				}
				continue
			}
			if inv := lookupInvariant(c, f, s); inv != nil {
				if inv.Producer != "" {
					rr.OK(f, key, s.node.Pos(), "invariant:"+inv.Name, inv.Reason)
				} else {
					rr.OK(f, key, s.node.Pos(), "exception", inv.Reason)
				}
				continue
			}
			rr.Bad(f, key, s.node.Pos(), fmt.Sprintf("%s %s may panic%s: %s", s.kind, s.raw, where, s.res.Why))
		}
	}
	rr.Note("%d functions in scope", nf)
	names := map[string]bool{}
	for f := range scope {
		names[f.Name] = true
	}
	if stale := unusedExceptions(func(fn string) bool { return names[fn] }); len(stale) > 0 {
		rr.Note("exception-table entries that matched no site (stale, harmless): %v", stale)
	}
}

// pfException is one reasoned discharge: a named construct and why the
// guard engine need not prove it.
type pfException struct {
	Func     string // full name, or prefix ending in *
	Kind     string
	Expr     string // types.ExprString of the node
	Name     string
	Producer string // rule that checks the producer side of the invariant
	Reason   string
}

func lookupInvariant(c *Ctx, f *core.Func, s *pf1Site) *pfException {
	for i := range pfExceptions {
		e := &pfExceptions[i]
		if e.Kind != s.kind || e.Expr != s.expr {
			continue
		}
		if e.Func == f.Name || (strings.HasSuffix(e.Func, "*") && strings.HasPrefix(f.Name, strings.TrimSuffix(e.Func, "*"))) {
			pfUsed[i] = true
			return e
		}
	}
	return nil
}

var pfUsed = map[int]bool{}

// unusedExceptions lists table entries no site matched (stale entries).
func unusedExceptions(inScope func(fn string) bool) []string {
	var out []string
	for i, e := range pfExceptions {
		if !pfUsed[i] && inScope(e.Func) {
			out = append(out, e.Func+"|"+e.Kind+"|"+e.Expr)
		}
	}
	return out
}

// DumpPF1 prints every site (tooling for maintaining the exception table).
func DumpPF1(c *Ctx) {
	for _, f := range c.P.Funcs {
		if f.Generated {
			continue
		}
		for _, s := range c.pf1Sites(f) {
			fmt.Printf("%s\t%s\t%s\t%s\n", f.Name, s.kind, s.raw, s.expr)
		}
	}
}
