package rules

import (
	"fmt"
	"go/ast"
	"go/parser"
	"go/token"
	"os"
	"os/exec"
	"path/filepath"
	"reflect"
	"sort"
	"strconv"
	"strings"

	"verif/sa/core"
)

// GenView is what the checker reads from a goyacc-generated Go file.
type GenView struct {
	File   *ast.File
	Tables map[string][]int64
	Names  map[string][]string // string tables (yyToknames…)
	Consts map[string]int64
	Cases  map[int]*ast.CaseClause // reduce switch
	Switch *ast.SwitchStmt
}

func evalInt(e ast.Expr) (int64, bool) {
	switch e := e.(type) {
	case *ast.BasicLit:
		if e.Kind == token.INT {
			v, err := strconv.ParseInt(e.Value, 0, 64)
			return v, err == nil
		}
		if e.Kind == token.CHAR {
			r, _, _, err := strconv.UnquoteChar(e.Value[1:len(e.Value)-1], '\'')
			return int64(r), err == nil
		}
	case *ast.UnaryExpr:
		if v, ok := evalInt(e.X); ok {
			switch e.Op {
			case token.SUB:
				return -v, true
			case token.ADD:
				return v, true
			}
		}
	case *ast.ParenExpr:
		return evalInt(e.X)
	}
	return 0, false
}

// readGen extracts tables, constants and reduce cases from a parsed file.
func readGen(f *ast.File) *GenView {
	g := &GenView{File: f, Tables: map[string][]int64{}, Names: map[string][]string{}, Consts: map[string]int64{}, Cases: map[int]*ast.CaseClause{}}
	for _, d := range f.Decls {
		switch d := d.(type) {
		case *ast.GenDecl:
			for _, sp := range d.Specs {
				vs, ok := sp.(*ast.ValueSpec)
				if !ok || len(vs.Names) != 1 || len(vs.Values) != 1 {
					continue
				}
				name := vs.Names[0].Name
				switch v := vs.Values[0].(type) {
				case *ast.CompositeLit:
					var ints []int64
					var strs []string
					okI, okS := true, true
					for _, el := range v.Elts {
						if n, ok := evalInt(el); ok {
							ints = append(ints, n)
							okS = false
						} else if bl, ok := el.(*ast.BasicLit); ok && bl.Kind == token.STRING {
							s, _ := strconv.Unquote(bl.Value)
							strs = append(strs, s)
							okI = false
						} else {
							okI, okS = false, false
						}
					}
					if okI && strings.HasPrefix(name, "yy") {
						g.Tables[name] = ints
					} else if okS && strings.HasPrefix(name, "yy") {
						g.Names[name] = strs
					}
				default:
					if n, ok := evalInt(v); ok {
						g.Consts[name] = n
					}
				}
			}
		case *ast.FuncDecl:
			if d.Body == nil {
				continue
			}
			ast.Inspect(d.Body, func(n ast.Node) bool {
				sw, ok := n.(*ast.SwitchStmt)
				if !ok {
					return true
				}
				if id, ok := sw.Tag.(*ast.Ident); ok && id.Name == "yynt" {
					g.Switch = sw
					for _, cl := range sw.Body.List {
						cc := cl.(*ast.CaseClause)
						for _, e := range cc.List {
							if k, ok := evalInt(e); ok {
								g.Cases[int(k)] = cc
							}
						}
					}
				}
				return true
			})
		}
	}
	return g
}

// astEqual compares two syntax trees ignoring positions and comments.
func astEqual(a, b interface{}) bool {
	return valEqual(reflect.ValueOf(a), reflect.ValueOf(b))
}

func valEqual(a, b reflect.Value) bool {
	if !a.IsValid() || !b.IsValid() {
		return a.IsValid() == b.IsValid()
	}
	if a.Type() != b.Type() {
		return false
	}
	switch a.Kind() {
	case reflect.Interface, reflect.Ptr:
		if a.Kind() == reflect.Ptr {
			switch x := a.Interface().(type) {
			case *ast.Object, *ast.Scope, *ast.CommentGroup:
				return true
			case *ast.Ident:
				// identifiers are compared by the spelling found in the files
				// (the loader may have mapped a renamed object back to its
				// reference name in the type-checked tree)
				y := b.Interface().(*ast.Ident)
				if x == nil || y == nil {
					return x == y
				}
				return origIdentName(x) == origIdentName(y)
			}
		}
		if a.IsNil() || b.IsNil() {
			return a.IsNil() == b.IsNil()
		}
		return valEqual(a.Elem(), b.Elem())
	case reflect.Struct:
		for i := 0; i < a.NumField(); i++ {
			if a.Type().Field(i).Type == reflect.TypeOf(token.Pos(0)) {
				continue
			}
			if !valEqual(a.Field(i), b.Field(i)) {
				return false
			}
		}
		return true
	case reflect.Slice:
		if a.Len() != b.Len() {
			return false
		}
		for i := 0; i < a.Len(); i++ {
			if !valEqual(a.Index(i), b.Index(i)) {
				return false
			}
		}
		return true
	case reflect.String:
		return a.String() == b.String()
	case reflect.Int, reflect.Int64, reflect.Int32, reflect.Int8, reflect.Int16:
		return a.Int() == b.Int()
	case reflect.Uint, reflect.Uint64, reflect.Uint32, reflect.Uint8:
		return a.Uint() == b.Uint()
	case reflect.Bool:
		return a.Bool() == b.Bool()
	case reflect.Map:
		return true
	}
	return true
}

// GrammarInfo bundles everything about one grammar.
type GrammarInfo struct {
	Gen      *core.GenFile
	G        *Grammar
	Checked  *GenView // the checked-in .go file
	Regen    *GenView // goyacc output for the working-tree .y
	Conflict string   // conflicts line of the verbose listing
	Err      error
	AstFile  *ast.File
}

// grammar loads (once) the grammar, the checked-in generated file and the
// regenerated one for a package.
func (c *Ctx) grammar(pkg string) *GrammarInfo {
	key := "grammar:" + pkg
	if v, ok := c.cache[key]; ok {
		return v.(*GrammarInfo)
	}
	gi := &GrammarInfo{}
	c.cache[key] = gi
	for _, g := range c.P.Gen {
		if g.Pkg == pkg {
			gi.Gen = g
		}
	}
	if gi.Gen == nil {
		gi.Err = fmt.Errorf("no //go:generate goyacc directive found in package %s", pkg)
		return gi
	}
	gr, err := ReadGrammar(gi.Gen.YFile)
	if err != nil {
		gi.Err = err
		return gi
	}
	gi.G = gr
	// the checked-in file, from the type-checked program
	for _, f := range c.P.Pkgs[pkg].Syntax {
		if c.P.Fset.Position(f.Pos()).Filename == gi.Gen.GoFile {
			gi.AstFile = f
			gi.Checked = readGen(f)
		}
	}
	if gi.Checked == nil {
		gi.Err = fmt.Errorf("generated file %s is not part of package %s", gi.Gen.GoFile, pkg)
		return gi
	}
	// regenerate
	tmp, err := os.MkdirTemp("", "sacheck-goyacc-")
	if err != nil {
		gi.Err = err
		return gi
	}
	defer os.RemoveAll(tmp)
	src, err := os.ReadFile(gi.Gen.YFile)
	if err != nil {
		gi.Err = err
		return gi
	}
	base := filepath.Base(gi.Gen.YFile)
	os.WriteFile(filepath.Join(tmp, base), src, 0o644)
	goyacc := filepath.Join(c.VerifDir, "bin", "goyacc")
	cmd := exec.Command(goyacc, "-l", "-o", "out.go", "-v", "y.output", base)
	cmd.Dir = tmp
	outb, err := cmd.CombinedOutput()
	if err != nil {
		gi.Err = fmt.Errorf("goyacc failed on %s: %v: %s", gi.Gen.YFile, err, outb)
		return gi
	}
	rf, err := parser.ParseFile(token.NewFileSet(), filepath.Join(tmp, "out.go"), nil, parser.SkipObjectResolution)
	if err != nil {
		gi.Err = fmt.Errorf("regenerated parser does not parse: %v", err)
		return gi
	}
	gi.Regen = readGen(rf)
	if lst, err := os.ReadFile(filepath.Join(tmp, "y.output")); err == nil {
		for _, line := range strings.Split(string(lst), "\n") {
			if strings.Contains(line, "conflicts reported") {
				gi.Conflict = strings.TrimSpace(line)
			}
		}
	}
	if strings.Contains(string(outb), "conflicts") && gi.Conflict == "" {
		gi.Conflict = strings.TrimSpace(string(outb))
	}
	return gi
}

// ---------------------------------------------------------------------------
// GR1 / GR2

func ruleGR1(pkgs ...string) Rule {
	return Rule{ID: "GR1", Kind: "agreement", Floor: 20,
		Doc: "the checked-in generated parser equals what goyacc generates from the working-tree grammar: every yy* table and constant by value, every reduce action by syntax tree (the hand-written tail is not compared)",
		Run: func(c *Ctx, rr *core.RuleResult) {
			for _, pkg := range pkgs {
				gi := c.grammar(pkg)
				if gi.Err != nil {
					rr.Unkp(c.P, pkg+"|grammar", 0, gi.Err.Error())
					continue
				}
				pos := gi.AstFile.Pos()
				var names []string
				for n := range gi.Regen.Tables {
					names = append(names, n)
				}
				sort.Strings(names)
				for _, n := range names {
					key := pkg + "|table " + n
					a, ok := gi.Checked.Tables[n]
					b := gi.Regen.Tables[n]
					if !ok {
						rr.Badp(c.P, key, pos, "table missing from the checked-in parser")
						continue
					}
					if len(a) != len(b) {
						rr.Badp(c.P, key, pos, fmt.Sprintf("table has %d entries, goyacc generates %d: the checked-in parser is not what its grammar generates", len(a), len(b)))
						continue
					}
					diff := -1
					for i := range a {
						if a[i] != b[i] {
							diff = i
							break
						}
					}
					if diff >= 0 {
						rr.Badp(c.P, key, pos, fmt.Sprintf("entry %d is %d, goyacc generates %d: the checked-in parser is not what its grammar generates", diff, a[diff], b[diff]))
					} else {
						rr.OKp(c.P, key, pos, "equal", fmt.Sprintf("%d entries", len(a))).Trivial = true
					}
				}
				for n, b := range gi.Regen.Names {
					key := pkg + "|names " + n
					a := gi.Checked.Names[n]
					if strings.Join(a, "\x00") == strings.Join(b, "\x00") {
						rr.OKp(c.P, key, pos, "equal", fmt.Sprintf("%d entries", len(a))).Trivial = true
					} else if n == "yyToknames" || n == "yyStatenames" {
						rr.Badp(c.P, key, pos, "name table differs from goyacc's output")
					}
				}
				var cn []string
				for n := range gi.Regen.Consts {
					cn = append(cn, n)
				}
				sort.Strings(cn)
				bad := 0
				for _, n := range cn {
					if a, ok := gi.Checked.Consts[n]; !ok || a != gi.Regen.Consts[n] {
						bad++
						rr.Badp(c.P, pkg+"|const "+n, pos, fmt.Sprintf("constant is %d in the checked-in parser, goyacc generates %d", a, gi.Regen.Consts[n]))
					}
				}
				if bad == 0 {
					rr.OKp(c.P, pkg+"|constants", pos, "equal", fmt.Sprintf("%d constants", len(cn))).Trivial = true
				}
				// reduce actions
				var ks []int
				for k := range gi.Regen.Cases {
					ks = append(ks, k)
				}
				for k := range gi.Checked.Cases {
					if _, ok := gi.Regen.Cases[k]; !ok {
						ks = append(ks, k)
					}
				}
				sort.Ints(ks)
				for _, k := range ks {
					key := fmt.Sprintf("%s|action %d", pkg, k)
					a, okA := gi.Checked.Cases[k]
					b, okB := gi.Regen.Cases[k]
					prod := ""
					if k-1 < len(gi.G.Prods) && k >= 1 {
						prod = gi.G.Prods[k-1].String()
					}
					switch {
					case !okA:
						rr.Badp(c.P, key, pos, "reduce action for `"+prod+"` is missing from the checked-in parser")
					case !okB:
						rr.Badp(c.P, key, a.Pos(), "the checked-in parser has a reduce action the grammar does not generate")
					case !astEqual(a.Body, b.Body):
						rr.Badp(c.P, key, a.Pos(), "reduce action for `"+prod+"` differs from what goyacc generates from the grammar file: the compiled parser and its grammar disagree")
					default:
						rr.OKp(c.P, key, a.Pos(), "equal", prod)
					}
				}
			}
		}}
}

func ruleGR2(pkgs ...string) Rule {
	return Rule{ID: "GR2", Kind: "must", Floor: len(pkgs),
		Doc: "goyacc reports 0 shift/reduce and 0 reduce/reduce conflicts for the grammar (the LALR tables encode the grammar without silent disambiguation)",
		Run: func(c *Ctx, rr *core.RuleResult) {
			for _, pkg := range pkgs {
				gi := c.grammar(pkg)
				if gi.Err != nil {
					rr.Unkp(c.P, pkg+"|grammar", 0, gi.Err.Error())
					continue
				}
				key := pkg + "|conflicts"
				if strings.HasPrefix(gi.Conflict, "0 shift/reduce, 0 reduce/reduce") {
					rr.OKp(c.P, key, gi.AstFile.Pos(), "goyacc", gi.Conflict)
				} else if gi.Conflict == "" {
					rr.Unkp(c.P, key, gi.AstFile.Pos(), "no conflict summary in goyacc's listing")
				} else {
					rr.Badp(c.P, key, gi.AstFile.Pos(), "grammar is ambiguous for LALR(1): "+gi.Conflict)
				}
			}
		}}
}

// ---------------------------------------------------------------------------
// GR4: the here-document hand-off needs no look-ahead.

func ruleGR4() Rule {
	return Rule{ID: "GR4", Kind: "must", Floor: 1,
		Doc: "every LALR state that reduces the production whose action pushes the here-document redirection does so without asking the lexer for a look-ahead token (yyPact[s] <= yyFlag); otherwise lexer (waiting in pop) and parser (waiting in Lex) would wait for each other",
		Run: func(c *Ctx, rr *core.RuleResult) {
			gi := c.grammar("parser")
			if gi.Err != nil {
				rr.Unkp(c.P, "parser|grammar", 0, gi.Err.Error())
				return
			}
			gv := gi.Checked
			push := c.fn("parser.(*heredoc).push")
			if push == nil {
				rr.Unkp(c.P, "anchor:heredoc.push", 0, "parser.(*heredoc).push not found")
				return
			}
			info := c.P.Pkgs["parser"].TypesInfo
			K := map[int]bool{}
			for k, cc := range gv.Cases {
				ast.Inspect(cc, func(n ast.Node) bool {
					if call, ok := n.(*ast.CallExpr); ok {
						if fo := core.StaticCallee(info, call); fo != nil && c.P.FuncOf(fo) == push {
							K[k] = true
						}
					}
					return true
				})
			}
			if len(K) == 0 {
				rr.Unkp(c.P, "parser|push-production", gi.AstFile.Pos(), "no reduce action calls heredoc.push")
				return
			}
			def, pact, exca := gv.Tables["yyDef"], gv.Tables["yyPact"], gv.Tables["yyExca"]
			flag, ok := gv.Consts["yyFlag"]
			if !ok || len(def) == 0 || len(pact) != len(def) {
				rr.Unkp(c.P, "parser|tables", gi.AstFile.Pos(), "yyDef/yyPact/yyFlag not found in the generated parser")
				return
			}
			for s := range def {
				if !K[int(def[s])] {
					continue
				}
				key := fmt.Sprintf("parser|state %d reduces %d", s, def[s])
				if pact[s] <= flag {
					rr.OKp(c.P, key, gv.Cases[int(def[s])].Pos(), "no-lookahead", fmt.Sprintf("yyPact[%d] = %d <= yyFlag", s, pact[s]))
				} else {
					rr.Badp(c.P, key, gv.Cases[int(def[s])].Pos(), fmt.Sprintf("state %d must read a look-ahead token before reducing the here-document production (yyPact = %d): the lexer blocks in heredoc.pop until the push, the parser blocks in Lex until the next token", s, pact[s]))
				}
			}
			for i := 0; i+1 < len(exca); i += 2 {
				if exca[i] >= 0 && K[int(exca[i+1])] {
					rr.Badp(c.P, fmt.Sprintf("parser|exca %d", i), gi.AstFile.Pos(), "the here-document production is reduced from an exception-table state, i.e. depending on a look-ahead token")
				}
			}
		}}
}

func origIdentName(id *ast.Ident) string {
	if p := core.CurrentProgram; p != nil {
		if n, ok := p.OrigName[id]; ok {
			return n
		}
	}
	return id.Name
}
