package rules

import (
	"fmt"
	"go/ast"
	"go/token"
	"go/types"
	"strings"

	"verif/sa/core"
)

// ruleCC6: the here-document counter/queue protocol between the goroutines.
func ruleCC6() Rule {
	return Rule{ID: "CC6", Kind: "must", Floor: 3,
		Doc: "here-document hand-off: the lexer announces (inc) only a here-operator whose delimiter word it has scanned; only the io_here reduction pushes; pop blocks only while the atomic counter says a push is still due, removes the oldest entry (FIFO, HD3) and decrements once per entry removed",
		Run: func(c *Ctx, rr *core.RuleResult) {
			inc := c.mustFn(rr, "parser.(*heredoc).inc")
			push := c.mustFn(rr, "parser.(*heredoc).push")
			pop := c.mustFn(rr, "parser.(*heredoc).pop")
			if inc == nil || push == nil || pop == nil {
				return
			}
			cg := c.P.CG()
			// callers
			for _, f := range c.funcsOfPkg("parser", true) {
				info := f.Info()
				f.OwnNodes(func(n ast.Node) bool {
					call, ok := n.(*ast.CallExpr)
					if !ok {
						return true
					}
					for _, g := range cg.Callees(f, call) {
						switch g {
						case inc:
							key := f.Name + "|heredoc.inc()"
							// guarded by tok == WORD and a flag set only for the here operators
							okWord, okOp := false, false
							for _, gd := range guardsOf(c.P, call, nil) {
								if !gd.pos {
									continue
								}
								if be, ok := ast.Unparen(gd.cond).(*ast.BinaryExpr); ok && be.Op == token.EQL && exprStr(be.Y) == "WORD" {
									okWord = true
								}
								if id, ok := ast.Unparen(gd.cond).(*ast.Ident); ok {
									if flagSetOnlyFor(c.P, f, id, []string{"HEREDOC", "HEREDOCI"}) {
										okOp = true
									}
								}
							}
							if okWord && okOp {
								rr.OK(f, key, call.Pos(), "guarded", "announced only for << / <<- followed by a scanned delimiter word")
							} else {
								rr.Bad(f, key, call.Pos(), "a here-document is announced without requiring both a here-operator and a scanned WORD: the parser never pushes the matching redirection and the lexer waits in pop forever (or an announced body is never read)")
							}
						case push:
							key := f.Name + "|heredoc.push()"
							if f.Generated {
								rr.OK(f, key, call.Pos(), "reduction", "pushed from a reduce action (GR4 checks that it needs no look-ahead)")
							} else {
								rr.Bad(f, key, call.Pos(), "heredoc.push is called outside the grammar's reduce actions")
							}
						}
					}
					_ = info
					return true
				})
			}
			// pop: structure
			info := pop.Info()
			var loop *ast.ForStmt
			pop.OwnNodes(func(n ast.Node) bool {
				if fs, ok := n.(*ast.ForStmt); ok && loop == nil {
					loop = fs
				}
				return true
			})
			keyL := pop.Name + "|wait-loop"
			if loop == nil || loop.Cond == nil || !containsAtomicLoad(info, loop.Cond) {
				rr.Bad(pop, keyL, pop.Pos(), "pop does not loop on the atomic announcement counter: it can wait for a push that will never come, or return nil while a push is due")
			} else {
				// the blocking receive must be inside the loop
				inLoopRecv := false
				ast.Inspect(loop.Body, func(n ast.Node) bool {
					if u, ok := n.(*ast.UnaryExpr); ok && u.Op == token.ARROW {
						inLoopRecv = true
					}
					return true
				})
				outRecv := false
				pop.OwnNodes(func(n ast.Node) bool {
					if u, ok := n.(*ast.UnaryExpr); ok && u.Op == token.ARROW && !(loop.Body.Pos() <= u.Pos() && u.End() <= loop.Body.End()) {
						outRecv = true
					}
					return true
				})
				if inLoopRecv && !outRecv {
					rr.OK(pop, keyL, loop.Pos(), "guarded-wait", "the only blocking receive is inside the loop guarded by the counter")
				} else {
					rr.Bad(pop, keyL, loop.Pos(), "pop blocks on the wake-up channel outside the counter-guarded loop")
				}
			}
			// FIFO and single decrement in the branch that removes an element
			removes, decs, first := 0, 0, false
			pop.OwnNodes(func(n ast.Node) bool {
				switch n := n.(type) {
				case *ast.AssignStmt:
					if len(n.Lhs) == 1 && len(n.Rhs) == 1 && fieldSel(info, n.Lhs[0], "parser", "heredoc", "stack") {
						if se, ok := n.Rhs[0].(*ast.SliceExpr); ok && se.High == nil && exprStr(se.Low) == "1" {
							removes++
						} else {
							removes += 100
						}
					}
				case *ast.IndexExpr:
					if fieldSel(info, n.X, "parser", "heredoc", "stack") && exprStr(n.Index) == "0" {
						first = true
					}
				case *ast.CallExpr:
					if name := calleeName(info, n); len(n.Args) >= 1 && strings.Contains(exprStr(n.Args[len(n.Args)-1]), "^uint32(0)") &&
						(name == "sync/atomic.AddUint32" && len(n.Args) == 2 || name == "sync/atomic.(*Uint32).Add" && len(n.Args) == 1) {
						decs++
					}
				}
				return true
			})
			keyQ := pop.Name + "|fifo"
			if removes == 1 && first {
				rr.OK(pop, keyQ, pop.Pos(), "fifo", "returns stack[0] and keeps stack[1:]")
			} else {
				rr.Bad(pop, keyQ, pop.Pos(), "pop does not remove exactly the oldest entry: bodies would be attached to the wrong redirection when several here-documents share a line")
			}
			keyD := pop.Name + "|decrement"
			if decs == 1 && removes == 1 {
				rr.OK(pop, keyD, pop.Pos(), "once", "the counter is decremented exactly once, next to the removal")
			} else {
				rr.Bad(pop, keyD, pop.Pos(), fmt.Sprintf("%d decrement(s) for %d removal(s) of a queue entry: counter and queue drift apart", decs, removes))
			}
			// push appends
			pinfo := push.Info()
			app := false
			push.OwnNodes(func(n ast.Node) bool {
				if as, ok := n.(*ast.AssignStmt); ok && len(as.Lhs) == 1 && fieldSel(pinfo, as.Lhs[0], "parser", "heredoc", "stack") {
					if call, ok := as.Rhs[0].(*ast.CallExpr); ok && isBuiltinCall(pinfo, call, "append") && exprStr(call.Args[0]) == exprStr(as.Lhs[0]) {
						app = true
					}
				}
				return true
			})
			if app {
				rr.OK(push, push.Name+"|append", push.Pos(), "fifo", "push appends at the end")
			} else {
				rr.Bad(push, push.Name+"|append", push.Pos(), "push does not append to the end of the queue")
			}
		}}
}

// flagSetOnlyFor reports whether the boolean local id is assigned true only
// under case labels drawn from names, and nowhere else.
func flagSetOnlyFor(p *core.Program, f *core.Func, id *ast.Ident, names []string) bool {
	info := f.Info()
	obj := info.Uses[id]
	ok, n := true, 0
	f.OwnNodes(func(x ast.Node) bool {
		as, isAs := x.(*ast.AssignStmt)
		if !isAs {
			return true
		}
		for i, l := range as.Lhs {
			lid, isID := l.(*ast.Ident)
			if !isID || (info.Uses[lid] != obj && info.Defs[lid] != obj) || i >= len(as.Rhs) {
				continue
			}
			if exprStr(as.Rhs[i]) != "true" {
				// flag := tok == A || tok == B  - the same thing in one expression
				if onlyEqualsOf(as.Rhs[i], names) {
					n++
					continue
				}
				if exprStr(as.Rhs[i]) != "false" {
					ok = false
				}
				continue
			}
			n++
			cc := enclosingCase(p, as)
			if cc == nil {
				ok = false
				continue
			}
			for _, e := range cc.List {
				found := false
				for _, nm := range names {
					if exprStr(e) == nm {
						found = true
					}
				}
				if !found {
					ok = false
				}
			}
		}
		return true
	})
	return ok && n > 0
}

// onlyEqualsOf reports whether e is a disjunction of comparisons `x == N`
// with every N one of names.
func onlyEqualsOf(e ast.Expr, names []string) bool {
	e = ast.Unparen(e)
	be, ok := e.(*ast.BinaryExpr)
	if !ok {
		return false
	}
	if be.Op == token.LOR {
		return onlyEqualsOf(be.X, names) && onlyEqualsOf(be.Y, names)
	}
	if be.Op != token.EQL {
		return false
	}
	for _, nm := range names {
		if exprStr(be.Y) == nm || exprStr(be.X) == nm {
			return true
		}
	}
	return false
}

// containsAtomicLoad reports whether e contains a load through sync/atomic:
// atomic.LoadXxx(&v) or the Load method of one of the package's typed values.
func containsAtomicLoad(info *types.Info, e ast.Node) bool {
	found := false
	ast.Inspect(e, func(n ast.Node) bool {
		if call, ok := n.(*ast.CallExpr); ok {
			name := calleeName(info, call)
			if strings.HasPrefix(name, "sync/atomic.Load") || (strings.HasPrefix(name, "sync/atomic.(*") && strings.HasSuffix(name, ").Load")) {
				found = true
			}
		}
		return !found
	})
	return found
}
