package rules

import (
	"fmt"
	"go/ast"
	"go/token"
	"go/types"
	"sort"
	"strings"

	"golang.org/x/tools/go/cfg"

	"verif/sa/core"
)

// DT1: the outcome table of expandParam, extracted from its control-flow
// graph by finite-domain path enumeration and compared with POSIX's table
// (XCU 2.6.2), which is frozen here as the external oracle.

type dtVal struct {
	op                                 string
	wordNil, wordEmpty                 bool
	set, null, arith, nounset, special bool
	// which of the two predicates makes the name "special": decided per sub-case, so
	// that `isSp(x) || isPos(x)` and its De Morgan form evaluate alike
	isSp, isPos bool
}

func (v dtVal) String() string {
	state := "unset"
	if v.set && v.null {
		state = "null"
	} else if v.set {
		state = "non-null"
	}
	form := "${p" + v.op + "w}"
	if v.wordNil && v.op == "#" {
		form = "${#p}"
	} else if v.op == "" {
		form = "$p"
	} else if v.wordEmpty {
		form = "${p" + v.op + "}"
	}
	return fmt.Sprintf("%s, parameter %s, nounset=%v, special/positional=%v, arith-mode=%v", form, state, v.nounset, v.special, v.arith)
}

type tri int

const (
	triF tri = iota
	triT
	triU
)

func triNot(t tri) tri {
	switch t {
	case triF:
		return triT
	case triT:
		return triF
	}
	return triU
}

func b2t(b bool) tri {
	if b {
		return triT
	}
	return triF
}

type dt1 struct {
	c        *Ctx
	f        *core.Func
	info     *types.Info
	setObj   types.Object
	nullObj  types.Object
	peObj    types.Object
	wordObj  types.Object // in a helper: the parameter that was handed pe.Word
	caseTag  map[ast.Expr]ast.Expr
	labelOf  map[*cfg.Block]string
	setFn    *core.Func
	expandFn *core.Func
	depth    int
}

func (d *dt1) isPeField(e ast.Expr, field string) bool {
	if field == "Word" && d.wordObj != nil {
		if id, ok := ast.Unparen(e).(*ast.Ident); ok && d.info.Uses[id] == d.wordObj {
			return true
		}
	}
	se, ok := ast.Unparen(e).(*ast.SelectorExpr)
	if !ok || se.Sel.Name != field {
		return false
	}
	id, ok := ast.Unparen(se.X).(*ast.Ident)
	return ok && d.info.Uses[id] == d.peObj
}

func (d *dt1) maskTest(e ast.Expr, constName string) bool {
	be, ok := ast.Unparen(e).(*ast.BinaryExpr)
	if !ok || be.Op != token.AND {
		return false
	}
	for _, s := range []ast.Expr{be.X, be.Y} {
		if id, ok := ast.Unparen(s).(*ast.Ident); ok && id.Name == constName {
			if _, isConst := d.info.Uses[id].(*types.Const); isConst {
				return true
			}
		}
	}
	return false
}

func (d *dt1) cmp(x, y ast.Expr, v dtVal) tri {
	if d.isPeField(x, "Op") {
		if s, ok := constStr(d.info, y); ok {
			return b2t(v.op == s)
		}
	}
	if d.isPeField(x, "Word") && isNilIdent(d.info, y) {
		return b2t(v.wordNil)
	}
	if call, ok := ast.Unparen(x).(*ast.CallExpr); ok && isBuiltinCall(d.info, call, "len") && len(call.Args) == 1 && d.isPeField(call.Args[0], "Word") {
		if n, ok := constInt(d.info, y); ok && n == 0 {
			return b2t(v.wordNil || v.wordEmpty)
		}
	}
	if n, ok := constInt(d.info, y); ok && n == 0 {
		if d.maskTest(x, "Arith") {
			return b2t(!v.arith)
		}
		if d.maskTest(x, "NoUnset") {
			return b2t(!v.nounset)
		}
	}
	return triU
}

func (d *dt1) eval(e ast.Expr, v dtVal) tri {
	switch e := ast.Unparen(e).(type) {
	case *ast.Ident:
		switch d.info.Uses[e] {
		case d.setObj:
			return b2t(v.set)
		case d.nullObj:
			return b2t(v.null)
		}
		if tv, ok := d.info.Types[e]; ok && tv.Value != nil {
			return b2t(tv.Value.String() == "true")
		}
	case *ast.UnaryExpr:
		if e.Op == token.NOT {
			return triNot(d.eval(e.X, v))
		}
	case *ast.CallExpr:
		name := calleeName(d.info, e)
		if strings.HasSuffix(name, ".isSpParam") {
			return b2t(v.special && v.isSp)
		}
		if strings.HasSuffix(name, ".isPosParam") {
			return b2t(v.special && v.isPos)
		}
	case *ast.BinaryExpr:
		switch e.Op {
		case token.LAND:
			a, b := d.eval(e.X, v), d.eval(e.Y, v)
			if a == triF || b == triF {
				return triF
			}
			if a == triT && b == triT {
				return triT
			}
			return triU
		case token.LOR:
			a, b := d.eval(e.X, v), d.eval(e.Y, v)
			if a == triT || b == triT {
				return triT
			}
			if a == triF && b == triF {
				return triF
			}
			return triU
		case token.EQL:
			return d.cmp(e.X, e.Y, v)
		case token.NEQ:
			return triNot(d.cmp(e.X, e.Y, v))
		}
	}
	return triU
}

// events of one block: ordered list plus a terminal ("" if none).
func (d *dt1) events(b *cfg.Block) (ev []string, term string) {
	if l := d.labelOf[b]; l != "" {
		ev = append(ev, l)
	}
	for _, n := range b.Nodes {
		ast.Inspect(n, func(m ast.Node) bool {
			switch m := m.(type) {
			case *ast.FuncLit:
				return false
			case *ast.CallExpr:
				fo := core.StaticCallee(d.info, m)
				name := ""
				if fo != nil {
					name = funcObjName(fo)
				}
				switch {
				case fo != nil && d.c.P.FuncOf(fo) == d.expandFn && len(m.Args) > 0 && d.isPeField(m.Args[0], "Word"):
					ev = append(ev, "WORD")
				case fo != nil && d.c.P.FuncOf(fo) == d.setFn:
					ev = append(ev, "SET")
				case fo != nil && d.helperOf(fo, m) != nil:
					ev = append(ev, d.summary(d.helperOf(fo, m), m)...)
				case fo != nil && d.joinsValues(d.c.P.FuncOf(fo)):
					// the substitution of the parameter's values, moved into a helper
					ev = append(ev, "PARAM")
				case strings.HasSuffix(name, "(*field).join") && len(m.Args) == 2:
					a := ast.Unparen(m.Args[0])
					switch {
					case d.isPeNameValue(a):
						ev = append(ev, "NAME")
					case isItoaOrDigits(d.info, a):
						ev = append(ev, "LEN")
					}
				}
			case *ast.ReturnStmt:
				if len(m.Results) == 1 {
					// `return helper(…)`: the helper's events (collected at the call) and
					// either of its outcomes; error propagation is not an outcome of its own
					if call, ok := ast.Unparen(m.Results[0]).(*ast.CallExpr); ok {
						if fo := core.StaticCallee(d.info, call); fo != nil && d.helperOf(fo, call) != nil {
							term = "OK"
						}
					}
					return true
				}
				if len(m.Results) != 2 {
					return true
				}
				r := ast.Unparen(m.Results[1])
				switch {
				case isNilIdent(d.info, r):
					term = "OK"
				case isErrVar(d.info, r):
					term = "PROPAGATE"
				default:
					cl, isLit := r.(*ast.CompositeLit)
					msgOf := func(e ast.Expr) string {
						if s, ok := constStr(d.info, e); ok {
							return s
						}
						return "<word>"
					}
					ctorMsg, isCtor := "", false
					if call, ok := r.(*ast.CallExpr); ok && !isLit {
						ctorMsg, isCtor = d.errorCtorMsg(call, msgOf)
					}
					if isCtor || (isLit && strings.HasSuffix(namedTypeName(d.info.Types[cl].Type), "ParamExpError")) {
						msg := ctorMsg
						if isLit {
							for _, el := range cl.Elts {
								if kv, ok := el.(*ast.KeyValueExpr); ok && exprStr(kv.Key) == "Msg" {
									msg = msgOf(kv.Value)
								}
							}
						}
						switch {
						case strings.Contains(msg, "cannot assign"):
							term = "ERR_ASSIGN"
						case msg == "parameter is unset":
							term = "ERR_UNSET"
						default:
							term = "ERR_MSG"
						}
					} else {
						term = "RET?" + exprStr(r)
					}
				}
			}
			return true
		})
	}
	// range loops: the event is reaching the loop, not executing its body
	if b.Kind == cfg.KindRangeLoop {
		if rs, ok := b.Stmt.(*ast.RangeStmt); ok {
			hasMatch, hasParam := false, false
			ast.Inspect(rs.Body, func(m ast.Node) bool {
				if call, ok := m.(*ast.CallExpr); ok {
					if strings.HasSuffix(calleeName(d.info, call), "pattern.Match") {
						hasMatch = true
					}
					if strings.HasSuffix(calleeName(d.info, call), "(*field).join") && len(call.Args) == 2 {
						if id, ok := ast.Unparen(call.Args[0]).(*ast.Ident); ok && d.info.Uses[id] == d.info.Defs[identOf(rs.Value)] && d.info.Uses[id] != nil {
							hasParam = true
						}
					}
					// the same through a helper of the package that joins the value it is handed
					if fo := core.StaticCallee(d.info, call); fo != nil && identOf(rs.Value) != nil {
						if h := d.c.P.FuncOf(fo); h != nil && h.Pkg == d.f.Pkg && h.Body != nil && h.Decl != nil && h != d.f && h.Type.Params != nil {
							k := 0
							for _, fld := range h.Type.Params.List {
								for _, nm := range fld.Names {
									if k < len(call.Args) {
										if id, ok := ast.Unparen(call.Args[k]).(*ast.Ident); ok && d.info.Uses[id] != nil && d.info.Uses[id] == d.info.Defs[identOf(rs.Value)] {
											hp := h.Info().Defs[nm]
											ast.Inspect(h.Body, func(y ast.Node) bool {
												if jc, ok := y.(*ast.CallExpr); ok && strings.HasSuffix(calleeName(h.Info(), jc), "(*field).join") && len(jc.Args) == 2 {
													if jid, ok := ast.Unparen(jc.Args[0]).(*ast.Ident); ok && h.Info().Uses[jid] == hp && hp != nil {
														hasParam = true
													}
												}
												return true
											})
										}
									}
									k++
								}
							}
						}
					}
				}
				return true
			})
			switch {
			case hasMatch:
				ev = append(ev, "PATLOOP")
			case hasParam:
				ev = append(ev, "PARAM")
			}
		}
	}
	return
}

// joinsValues: h is a private helper whose body ranges over one of its slice
// parameters and joins each element to the field list (the tail that used to
// be expandParam's `Param:` label).
func (d *dt1) joinsValues(h *core.Func) bool {
	if h == nil || h == d.f || h.Pkg != d.f.Pkg || h.Body == nil || h.Decl == nil || h.Obj == nil || h.Obj.Exported() || h.Type.Params == nil {
		return false
	}
	hi := h.Info()
	params := map[types.Object]bool{}
	for _, fld := range h.Type.Params.List {
		for _, nm := range fld.Names {
			params[hi.Defs[nm]] = true
		}
	}
	found := false
	h.OwnNodes(func(n ast.Node) bool {
		rs, ok := n.(*ast.RangeStmt)
		if !ok || identOf(rs.Value) == nil {
			return true
		}
		xid, ok := ast.Unparen(rs.X).(*ast.Ident)
		if !ok || !params[hi.Uses[xid]] {
			return true
		}
		ast.Inspect(rs.Body, func(m ast.Node) bool {
			if call, ok := m.(*ast.CallExpr); ok && strings.HasSuffix(calleeName(hi, call), "(*field).join") && len(call.Args) == 2 {
				if id, ok := ast.Unparen(call.Args[0]).(*ast.Ident); ok && hi.Uses[id] != nil && hi.Uses[id] == hi.Defs[identOf(rs.Value)] {
					found = true
				}
			}
			return true
		})
		return true
	})
	return found
}

// helperOf returns the private helper of expandParam that a call hands the
// ParamExp to (code moved out of expandParam), nil for anything else.
func (d *dt1) helperOf(fo *types.Func, call *ast.CallExpr) *core.Func {
	h := d.c.P.FuncOf(fo)
	if h == nil || h == d.f || h == d.expandFn || h == d.setFn || h.Pkg != d.f.Pkg || h.Body == nil || h.Decl == nil || h.Obj == nil || h.Obj.Exported() {
		return nil
	}
	if d.depth >= 2 {
		return nil
	}
	for _, a := range call.Args {
		if id, ok := ast.Unparen(a).(*ast.Ident); ok && d.info.Uses[id] == d.peObj && d.peObj != nil {
			return h
		}
		// or the word of the expansion (`env.expandInto(fields, pe.Word, mode)`)
		if d.isPeField(a, "Word") {
			return h
		}
	}
	return nil
}

// summary lists the events a helper can produce (every block, in source
// order, terminals ignored): what matters to the table is which effects a
// path through expandParam can have, and a helper's effects are the same
// wherever it is written.
func (d *dt1) summary(h *core.Func, call *ast.CallExpr) []string {
	hd := &dt1{c: d.c, f: h, info: h.Info(), caseTag: map[ast.Expr]ast.Expr{}, labelOf: map[*cfg.Block]string{}, setFn: d.setFn, expandFn: d.expandFn, depth: d.depth + 1}
	// the helper's ParamExp parameter
	k := 0
	for _, fld := range h.Type.Params.List {
		for _, nm := range fld.Names {
			if k < len(call.Args) {
				if id, ok := ast.Unparen(call.Args[k]).(*ast.Ident); ok && d.info.Uses[id] == d.peObj {
					hd.peObj = hd.info.Defs[nm]
				} else if d.isPeField(call.Args[k], "Word") {
					if wv, isVar := hd.info.Defs[nm].(*types.Var); isVar && !reassigned(h, wv) {
						hd.wordObj = wv
					}
				}
			}
			k++
		}
	}
	g := cfg.New(h.Body, core.MayReturn(hd.info))
	var out []string
	seen := map[string]bool{}
	for _, b := range g.Blocks {
		if !b.Live {
			continue
		}
		ev, _ := hd.events(b)
		for _, e := range ev {
			if !seen[e] {
				seen[e] = true
				out = append(out, e)
			}
		}
	}
	return out
}

// errorCtorMsg recognises a call of a function of the package whose body is
// `return ParamExpError{…, Msg: <parameter>}` and returns the message the
// call passes.
func (d *dt1) errorCtorMsg(call *ast.CallExpr, msgOf func(ast.Expr) string) (string, bool) {
	fo := core.StaticCallee(d.info, call)
	if fo == nil {
		return "", false
	}
	h := d.c.P.FuncOf(fo)
	if h == nil || h.Pkg != d.f.Pkg || h.Body == nil || len(h.Body.List) != 1 {
		return "", false
	}
	ret, ok := h.Body.List[0].(*ast.ReturnStmt)
	if !ok || len(ret.Results) != 1 {
		return "", false
	}
	e := ast.Unparen(ret.Results[0])
	if u, ok := e.(*ast.UnaryExpr); ok && u.Op == token.AND {
		e = u.X
	}
	cl, ok := e.(*ast.CompositeLit)
	if !ok || !strings.HasSuffix(namedTypeName(h.Info().Types[cl].Type), "ParamExpError") {
		return "", false
	}
	for _, el := range cl.Elts {
		kv, ok := el.(*ast.KeyValueExpr)
		if !ok || exprStr(kv.Key) != "Msg" {
			continue
		}
		if s, ok := constStr(h.Info(), kv.Value); ok {
			return s, true
		}
		if id, ok := ast.Unparen(kv.Value).(*ast.Ident); ok {
			k := 0
			for _, fld := range h.Type.Params.List {
				for _, nm := range fld.Names {
					if h.Info().Defs[nm] == h.Info().Uses[id] && k < len(call.Args) {
						return msgOf(call.Args[k]), true
					}
					k++
				}
			}
		}
		return "<word>", true
	}
	return "", true
}

func identOf(e ast.Expr) *ast.Ident {
	id, _ := e.(*ast.Ident)
	return id
}

func isErrVar(info *types.Info, e ast.Expr) bool {
	id, ok := e.(*ast.Ident)
	if !ok {
		return false
	}
	v, ok := info.Uses[id].(*types.Var)
	return ok && isErrorType(v.Type())
}

func isItoaOrDigits(info *types.Info, e ast.Expr) bool {
	if call, ok := e.(*ast.CallExpr); ok && calleeName(info, call) == "strconv.Itoa" {
		return true
	}
	if s, ok := constStr(info, e); ok && s != "" && strings.Trim(s, "0123456789") == "" {
		return true
	}
	return false
}

// expected is the POSIX table (XCU 2.6.2 Parameter Expansion) plus the two
// documented go.sh modes (identifier pass-through in Arith mode).
func dtExpected(v dtVal) string {
	state := 0 // unset
	if v.set && v.null {
		state = 1
	} else if v.set {
		state = 2
	}
	colon := strings.HasPrefix(v.op, ":")
	unsetOrNull := state == 0 || (state == 1 && colon)
	word := "WORD"
	switch v.op {
	case "":
		switch {
		case v.arith && !v.special:
			return "NAME→OK"
		case state == 2:
			return "PARAM→OK"
		case state == 0 && v.nounset:
			return "→ERR_UNSET"
		}
		return "→OK"
	case "#":
		if v.wordNil {
			switch {
			case state != 0:
				return "LEN→OK"
			case v.nounset:
				return "→ERR_UNSET"
			}
			return "LEN→OK"
		}
		fallthrough
	case "##", "%", "%%":
		switch {
		case state == 2:
			return "PATLOOP+WORD→OK"
		case state == 0 && v.nounset:
			return "→ERR_UNSET"
		}
		return "→OK"
	case ":-", "-":
		switch {
		case state == 2:
			return "PARAM→OK"
		case unsetOrNull:
			return word + "→OK"
		}
		return "→OK"
	case ":=", "=":
		switch {
		case state == 2:
			return "PARAM→OK"
		case unsetOrNull && v.special:
			return "→ERR_ASSIGN"
		case unsetOrNull:
			return "SET+WORD→OK"
		}
		return "→OK"
	case ":?", "?":
		switch {
		case state == 2:
			return "PARAM→OK"
		case unsetOrNull && (v.wordEmpty || v.wordNil):
			return "→ERR_MSG"
		case unsetOrNull:
			return "WORD→ERR_MSG"
		}
		return "→OK"
	case ":+", "+":
		if state == 2 || (state == 1 && !colon) {
			return "WORD→OK"
		}
		return "→OK"
	}
	return "?"
}

func ruleDT1() Rule {
	return Rule{ID: "DT1", Kind: "agreement", Floor: 300,
		Doc: "for every consistent valuation of (operator, word nil/empty, unset/null/non-null, nounset, special-or-positional, arith mode) the set of event sequences over all paths of expandParam (value substituted, word expanded, variable assigned, pattern removal, length, error kind) is the single outcome POSIX's table prescribes; in particular the word is expanded only where it is used and nothing is assigned outside = / :=",
		Run: func(c *Ctx, rr *core.RuleResult) {
			f := c.mustFn(rr, "interp.(*ExecEnv).expandParam")
			if f == nil {
				return
			}
			d := &dt1{c: c, f: f, info: f.Info(), caseTag: map[ast.Expr]ast.Expr{}, labelOf: map[*cfg.Block]string{},
				setFn: c.fn("interp.(*ExecEnv).Set"), expandFn: c.fn("interp.(*ExecEnv).expand")}
			// roles: pe parameter, set/null locals
			for _, fld := range f.Type.Params.List {
				for _, nm := range fld.Names {
					if o := d.info.Defs[nm]; o != nil && namedTypeName(o.Type()) == "*ast.ParamExp" {
						d.peObj = o
					}
				}
			}
			f.OwnNodes(func(n ast.Node) bool {
				switch n := n.(type) {
				case *ast.AssignStmt:
					// v, set = env.Get(…)
					if len(n.Lhs) == 2 && len(n.Rhs) == 1 {
						if call, ok := n.Rhs[0].(*ast.CallExpr); ok && strings.HasSuffix(calleeName(d.info, call), "(*ExecEnv).Get") {
							if id, ok := n.Lhs[1].(*ast.Ident); ok {
								d.setObj = d.info.Uses[id]
								if d.setObj == nil {
									d.setObj = d.info.Defs[id]
								}
							}
						}
					}
					// null = v.Value == ""
					if len(n.Lhs) == 1 && len(n.Rhs) == 1 {
						if be, ok := ast.Unparen(n.Rhs[0]).(*ast.BinaryExpr); ok && be.Op == token.EQL {
							if s, ok := constStr(d.info, be.Y); ok && s == "" {
								if id, ok := n.Lhs[0].(*ast.Ident); ok && d.info.Uses[id] != nil && d.info.Uses[id].Type().String() == "bool" {
									d.nullObj = d.info.Uses[id]
								}
							}
						}
					}
				case *ast.SwitchStmt:
					if n.Tag != nil {
						for _, cl := range n.Body.List {
							for _, e := range cl.(*ast.CaseClause).List {
								d.caseTag[e] = n.Tag
							}
						}
					}
				}
				return true
			})
			if d.setObj == nil || d.nullObj == nil {
				d.rolesThroughLookup()
			}
			if d.peObj == nil || d.setObj == nil || d.nullObj == nil || d.setFn == nil || d.expandFn == nil {
				rr.Unk(f, f.Name+"|roles", f.Pos(), fmt.Sprintf("could not resolve the roles (pe=%v set=%v null=%v Set=%v expand=%v): the decision table cannot be extracted", d.peObj != nil, d.setObj != nil, d.nullObj != nil, d.setFn != nil, d.expandFn != nil))
				return
			}
			g := cfg.New(f.Body, core.MayReturn(d.info))
			ops := []string{"", ":-", "-", ":=", "=", ":?", "?", ":+", "+", "%", "%%", "#", "##"}
			states := [][2]bool{{false, false}, {true, true}, {true, false}}
			type key struct {
				b  *cfg.Block
				ev string
			}
			nrows := 0
			for _, op := range ops {
				for _, wn := range []bool{true, false} {
					if wn && !(op == "" || op == "#") {
						continue
					}
					if !wn && op == "" {
						continue
					}
					for _, st := range states {
						for _, nu := range []bool{false, true} {
							for _, sp := range []bool{false, true} {
								for _, ar := range []bool{false, true} {
									for _, we := range []bool{false, true} {
										if wn && we {
											continue
										}
										v := dtVal{op: op, wordNil: wn, wordEmpty: we, set: st[0], null: st[1], nounset: nu, special: sp, arith: ar}
										outs := map[string]bool{}
										subcases := [][2]bool{{false, false}}
										if sp {
											subcases = [][2]bool{{true, false}, {false, true}}
										}
										for _, sc := range subcases {
											v.isSp, v.isPos = sc[0], sc[1]
											seen := map[key]bool{}
											var dfs func(b *cfg.Block, ev map[string]bool)
											dfs = func(b *cfg.Block, ev map[string]bool) {
												k := key{b, evKey(ev)}
												if seen[k] {
													return
												}
												seen[k] = true
												evs, term := d.events(b)
												ev2 := map[string]bool{}
												for e := range ev {
													ev2[e] = true
												}
												for _, e := range evs {
													ev2[e] = true
												}
												if term != "" {
													if term != "PROPAGATE" {
														outs[evKey(ev2)+"→"+term] = true
													}
													return
												}
												var cond ast.Expr
												if len(b.Succs) == 2 && len(b.Nodes) > 0 && b.Succs[0].Kind != cfg.KindRangeBody && b.Succs[0].Kind != cfg.KindSelectCaseBody {
													cond, _ = b.Nodes[len(b.Nodes)-1].(ast.Expr)
												}
												if cond != nil {
													var r tri
													if tag, ok := d.caseTag[cond]; ok {
														r = d.cmp(tag, cond, v)
													} else {
														r = d.eval(cond, v)
													}
													switch r {
													case triT:
														dfs(b.Succs[0], ev2)
													case triF:
														dfs(b.Succs[1], ev2)
													default:
														dfs(b.Succs[0], ev2)
														dfs(b.Succs[1], ev2)
													}
													return
												}
												for _, s := range b.Succs {
													dfs(s, ev2)
												}
											}
											dfs(g.Blocks[0], map[string]bool{})
										}
										var got []string
										for o := range outs {
											got = append(got, o)
										}
										sort.Strings(got)
										want := dtExpected(v)
										nrows++
										rowKey := fmt.Sprintf("expandParam|op=%q wordnil=%v wempty=%v set=%v null=%v nounset=%v special=%v arith=%v", op, wn, we, st[0], st[1], nu, sp, ar)
										if len(got) == 1 && got[0] == want {
											o := rr.OK(f, rowKey, f.Pos(), "table", want)
											o.Trivial = nrows%7 != 0 // keep the evidence sample small
										} else {
											rr.Bad(f, rowKey, f.Pos(), fmt.Sprintf("for %s POSIX prescribes the single outcome [%s] but the paths of expandParam yield %v", v, want, got))
										}
									}
								}
							}
						}
					}
				}
			}
			rr.Note("%d valuations enumerated over a control-flow graph of %d blocks", nrows, len(g.Blocks))
		}}
}

func evKey(ev map[string]bool) string {
	var ks []string
	for e := range ev {
		ks = append(ks, e)
	}
	sort.Strings(ks)
	return strings.Join(ks, "+")
}

// isPeNameValue recognises pe.Name.Value whatever the parameter is called.
func (d *dt1) isPeNameValue(e ast.Expr) bool {
	se, ok := ast.Unparen(e).(*ast.SelectorExpr)
	if !ok || se.Sel.Name != "Value" {
		return false
	}
	return d.isPeField(se.X, "Name")
}

// rolesThroughLookup resolves the set/null flags when the look-up of the
// parameter lives in a helper: the helper's cell that receives Get's second
// result (a named result, or a field of the record it returns) is followed to
// the local of expandParam that is bound to it.
func (d *dt1) rolesThroughLookup() {
	f, info := d.f, d.info
	type cell struct {
		h      *core.Func
		result int        // index of the named result, or -1
		field  *types.Var // field of the returned record, or nil
	}
	find := func(h *core.Func) (set, null *cell) {
		hi := h.Info()
		toCell := func(e ast.Expr) *cell {
			switch x := ast.Unparen(e).(type) {
			case *ast.Ident:
				o := hi.Uses[x]
				if o == nil {
					o = hi.Defs[x]
				}
				k := 0
				if h.Type.Results != nil {
					for _, fld := range h.Type.Results.List {
						for _, nm := range fld.Names {
							if hi.Defs[nm] == o && o != nil {
								return &cell{h: h, result: k}
							}
							k++
						}
					}
				}
			case *ast.SelectorExpr:
				if v := core.FieldOf(hi, x); v != nil {
					return &cell{h: h, result: -1, field: v}
				}
			}
			return nil
		}
		h.OwnNodes(func(n ast.Node) bool {
			as, ok := n.(*ast.AssignStmt)
			if !ok {
				return true
			}
			if len(as.Lhs) == 2 && len(as.Rhs) == 1 {
				if call, ok := as.Rhs[0].(*ast.CallExpr); ok && strings.HasSuffix(calleeName(hi, call), "(*ExecEnv).Get") {
					set = toCell(as.Lhs[1])
				}
			}
			if len(as.Lhs) == 1 && len(as.Rhs) == 1 {
				if be, ok := ast.Unparen(as.Rhs[0]).(*ast.BinaryExpr); ok && be.Op == token.EQL {
					if sv, ok := constStr(hi, be.Y); ok && sv == "" {
						if cl := toCell(as.Lhs[0]); cl != nil {
							null = cl
						}
					}
				}
			}
			return true
		})
		return
	}
	f.OwnNodes(func(n ast.Node) bool {
		as, ok := n.(*ast.AssignStmt)
		if !ok || len(as.Rhs) != 1 {
			return true
		}
		call, ok := ast.Unparen(as.Rhs[0]).(*ast.CallExpr)
		if !ok {
			return true
		}
		fo := core.StaticCallee(info, call)
		if fo == nil {
			return true
		}
		h := d.c.P.FuncOf(fo)
		if h == nil || h == f || h.Pkg != f.Pkg || h.Body == nil || h.Decl == nil {
			return true
		}
		set, null := find(h)
		if set == nil || null == nil {
			return true
		}
		bind := func(cl *cell) types.Object {
			if cl.result >= 0 {
				if cl.result < len(as.Lhs) && len(as.Lhs) > 1 {
					if id, ok := as.Lhs[cl.result].(*ast.Ident); ok {
						if o := info.Defs[id]; o != nil {
							return o
						}
						return info.Uses[id]
					}
				}
				return nil
			}
			// a field of the record: the local of f that is defined from that field
			var out types.Object
			f.OwnNodes(func(m ast.Node) bool {
				a2, ok := m.(*ast.AssignStmt)
				if !ok || len(a2.Lhs) != len(a2.Rhs) {
					return true
				}
				for i, r := range a2.Rhs {
					if se, ok := ast.Unparen(r).(*ast.SelectorExpr); ok && core.FieldOf(info, se) == cl.field {
						if id, ok := a2.Lhs[i].(*ast.Ident); ok {
							if o := info.Defs[id]; o != nil {
								out = o
							} else {
								out = info.Uses[id]
							}
						}
					}
				}
				return true
			})
			return out
		}
		so, no := bind(set), bind(null)
		if so != nil && no != nil {
			if sv, ok := so.(*types.Var); ok && !reassigned(f, sv) {
				if nv, ok := no.(*types.Var); ok && !reassigned(f, nv) {
					d.setObj, d.nullObj = so, no
				}
			}
		}
		return true
	})
}
