package rules

import (
	"fmt"
	"go/ast"
	"go/token"
	"go/types"
	"strings"

	"verif/sa/core"
)

// Rules for the defects repaired after round 9 (AV-AY) and the finding CM6.

// fieldOfRedir reports whether e selects the named field of an *ast.Redir.
func fieldOfRedir(info *types.Info, e ast.Expr, name string) bool {
	se, ok := ast.Unparen(e).(*ast.SelectorExpr)
	if !ok || se.Sel.Name != name {
		return false
	}
	v := core.FieldOf(info, se)
	return v != nil && v.Pkg() != nil && v.Pkg().Name() == "ast"
}

// bodyPrinter returns the printer function that writes here-document bodies:
// the one that hands Redir.Heredoc and Redir.Delim to the word printer.
func (c *Ctx) bodyPrinter() (*core.Func, *ast.CallExpr, *ast.CallExpr) {
	for _, f := range c.funcsOfPkg("printer", false) {
		if f.Decl == nil {
			continue
		}
		info := f.Info()
		var body, delim *ast.CallExpr
		f.OwnNodes(func(n ast.Node) bool {
			call, ok := n.(*ast.CallExpr)
			if !ok || len(call.Args) != 1 {
				return true
			}
			if fieldOfRedir(info, call.Args[0], "Heredoc") && body == nil {
				body = call
			}
			if fieldOfRedir(info, call.Args[0], "Delim") && delim == nil {
				delim = call
			}
			return true
		})
		if body != nil && delim != nil {
			return f, body, delim
		}
	}
	return nil, nil, nil
}

// flushRegion: the printer functions on the way from newline() to the function
// that prints bodies (the flusher, and helpers it was split into).
func (c *Ctx) flushRegion(nl, body *core.Func) map[*core.Func]bool {
	out := map[*core.Func]bool{}
	if nl == nil || body == nil {
		return out
	}
	cg := c.P.CG()
	from := cg.Reachable(nl)
	for f := range from {
		if f == nl || f.Pkg != body.Pkg || f.Decl == nil {
			continue
		}
		if f == body || cg.Reachable(f)[body] {
			out[f] = true
		}
	}
	// helpers the region calls that touch the stack (`pending()`)
	stack := c.fieldVar("printer", "printer", "stack")
	for f := range from {
		if out[f] || f == nl || f.Pkg != body.Pkg || f.Decl == nil || stack == nil {
			continue
		}
		called := false
		for g := range out {
			if cg.Edges[g][f] {
				called = true
			}
		}
		if !called {
			continue
		}
		info := f.Info()
		f.OwnNodes(func(n ast.Node) bool {
			if se, ok := n.(*ast.SelectorExpr); ok && core.FieldOf(info, se) == stack {
				out[f] = true
			}
			return true
		})
	}
	return out
}

// PR2: body and delimiter are kept apart.
func rulePR2() Rule {
	return Rule{ID: "PR2", Kind: "must", Floor: 1,
		Doc: "the function that prints a here-document writes, between the body and the delimiter, a <backslash><newline> under a test that looks at the last part of the body: a body with an unquoted delimiter whose last line was continued does not end with a newline, and the delimiter must begin a line (otherwise `foo\\`-newline-`EOF` is printed as `fooEOF`, a here-document delimited by EOF)",
		Run: func(c *Ctx, rr *core.RuleResult) {
			f, body, delim := c.bodyPrinter()
			if f == nil {
				rr.Unkp(c.P, "printer|here-document bodies", 0, "no printer function hands Redir.Heredoc and Redir.Delim to the word printer")
				return
			}
			info := f.Info()
			key := f.Name + "|continued last line"
			ok, nonEmpty := false, false
			f.OwnNodes(func(n ast.Node) bool {
				call, isCall := n.(*ast.CallExpr)
				if !isCall || call.Pos() < body.End() || call.Pos() > delim.Pos() {
					return true
				}
				writes := false
				for _, a := range call.Args {
					if s, isC := constStr(info, a); isC && s == "\\\n" {
						writes = true
					}
				}
				if !writes {
					return true
				}
				// under a test (condition or its init statement) that looks at the body
				for x := c.P.Parent(call); x != nil; x = c.P.Parent(x) {
					ifs, isIf := x.(*ast.IfStmt)
					if !isIf {
						if _, isFn := x.(*ast.FuncDecl); isFn {
							break
						}
						continue
					}
					// `if n := len(r.Heredoc); n != 0` / `if len(r.Heredoc) != 0`
					lenVar := types.Object(nil)
					if as, isAs := ifs.Init.(*ast.AssignStmt); isAs && len(as.Lhs) == 1 && len(as.Rhs) == 1 {
						if lc, isCall := ast.Unparen(as.Rhs[0]).(*ast.CallExpr); isCall && isBuiltinCall(info, lc, "len") && len(lc.Args) == 1 && fieldOfRedir(info, lc.Args[0], "Heredoc") {
							if id, isID := as.Lhs[0].(*ast.Ident); isID {
								lenVar = info.Defs[id]
							}
						}
					}
					for _, cj := range conj(ifs.Cond) {
						be, isBE := ast.Unparen(cj).(*ast.BinaryExpr)
						if !isBE || (be.Op != token.NEQ && be.Op != token.GTR) {
							continue
						}
						if v, isC := constInt(info, be.Y); !isC || v != 0 {
							continue
						}
						if id, isID := ast.Unparen(be.X).(*ast.Ident); isID && lenVar != nil && info.Uses[id] == lenVar {
							nonEmpty = true
						}
						if lc, isCall := ast.Unparen(be.X).(*ast.CallExpr); isCall && isBuiltinCall(info, lc, "len") && len(lc.Args) == 1 && fieldOfRedir(info, lc.Args[0], "Heredoc") {
							nonEmpty = true
						}
					}
					// or a predicate of the package that is handed the body and answers false for an empty one
					ast.Inspect(ifs.Cond, func(y ast.Node) bool {
						pc, isCall := y.(*ast.CallExpr)
						if !isCall {
							return true
						}
						handed := -1
						for i, a := range pc.Args {
							if fieldOfRedir(info, a, "Heredoc") {
								handed = i
							}
						}
						if handed < 0 {
							return true
						}
						if fo := core.StaticCallee(info, pc); fo != nil {
							if h := c.P.FuncOf(fo); h != nil && h.Body != nil && c.falseForEmpty(h, handed) {
								nonEmpty = true
							}
						}
						return true
					})
					for _, part := range []ast.Node{ifs.Init, ifs.Cond} {
						if part == nil || (part == ast.Node(ifs.Init) && ifs.Init == nil) {
							continue
						}
						ast.Inspect(part, func(y ast.Node) bool {
							if e, isE := y.(ast.Expr); isE && fieldOfRedir(info, e, "Heredoc") {
								ok = true
							}
							return true
						})
					}
				}
				return true
			})
			if ok && !nonEmpty {
				rr.Bad(f, key+" (non-empty body)", delim.Pos(), "the continuation between body and delimiter is written without the body having been tested non-empty: for a here-document without a body whose delimiter is quoted the <backslash><newline> becomes the body")
			}
			if ok {
				rr.OK(f, key, body.Pos(), "separated", "a continuation is written between body and delimiter when the body does not end a line")
			} else {
				rr.Bad(f, key, delim.Pos(), "the delimiter is written directly behind the body: a body whose last line ended in <backslash><newline> is printed glued to the delimiter and the output is a here-document delimited by EOF")
			}
		}}
}

// PR3: a pattern that spells the closing reserved word keeps its parenthesis.
func rulePR3() Rule {
	return Rule{ID: "PR3", Kind: "must", Floor: 1,
		Doc: "wherever the printer writes the patterns of a case item it writes the optional `(` under a comparison with the word `esac`: as the first pattern of an item that word would otherwise end the case command (`case x in (esac) ;; esac`)",
		Run: func(c *Ctx, rr *core.RuleResult) {
			pats := c.fieldVar("ast", "CaseItem", "Patterns")
			if pats == nil {
				rr.Unkp(c.P, "ast.CaseItem.Patterns", 0, "field not found")
				return
			}
			n := 0
			for _, f := range c.funcsOfPkg("printer", false) {
				if f.Decl == nil {
					continue
				}
				info := f.Info()
				var loops []*ast.RangeStmt
				f.OwnNodes(func(x ast.Node) bool {
					if rs, ok := x.(*ast.RangeStmt); ok && core.FieldOf(info, rs.X) == pats {
						loops = append(loops, rs)
					}
					return true
				})
				for _, rs := range loops {
					n++
					key := fmt.Sprintf("%s|patterns #%d", f.Name, n)
					ok := false
					f.OwnNodes(func(x ast.Node) bool {
						call, isCall := x.(*ast.CallExpr)
						if !isCall || call.Pos() > rs.Pos() || len(call.Args) != 1 {
							return true
						}
						if v, isC := constInt(info, call.Args[0]); !isC || v != '(' {
							if s, isS := constStr(info, call.Args[0]); !isS || s != "(" {
								return true
							}
						}
						for _, gd := range guardsOf(c.P, call, nil) {
							ast.Inspect(gd.cond, func(y ast.Node) bool {
								if e, isE := y.(ast.Expr); isE {
									if s, isC := constStr(info, e); isC && s == "esac" {
										ok = true
									}
								}
								return true
							})
						}
						return true
					})
					if ok {
						rr.OK(f, key, rs.Pos(), "parenthesis", "`(` is written when the first pattern is esac")
					} else {
						rr.Bad(f, key, rs.Pos(), "the patterns of a case item are written without ever writing the optional `(`: an item whose first pattern is the word esac is printed as the end of the case command")
					}
				}
			}
			if n == 0 {
				rr.Unkp(c.P, "printer|case patterns", 0, "no loop over CaseItem.Patterns in the printer")
			}
		}}
}

// PR4: the bodies follow the line of their operators.
func rulePR4() Rule {
	return Rule{ID: "PR4", Kind: "must", Floor: 2,
		Doc: "the printer's newline() - which ends every line of commands, in every construct - first calls the function that writes the pending here-document bodies, and that function takes the pending redirections of every frame from the current line's base upwards, not only the top one: a here-document operator followed on the same line by a compound command that continues on the next lines (`cat <<E | while read l; do`) has its body directly after that line. A line feed written anywhere else is written by that function itself or listed with its reason (inside an arithmetic expansion a newline does not end a line of commands)",
		Run: func(c *Ctx, rr *core.RuleResult) {
			nl := c.mustFn(rr, "printer.(*printer).newline")
			flusher, _, _ := c.bodyPrinter()
			stack := c.fieldVar("printer", "printer", "stack")
			if nl == nil || flusher == nil || stack == nil {
				if flusher == nil {
					rr.Unkp(c.P, "printer|here-document bodies", 0, "no printer function hands Redir.Heredoc and Redir.Delim to the word printer")
				}
				return
			}
			info := nl.Info()
			isLF := func(in *types.Info, call *ast.CallExpr) bool {
				if len(call.Args) != 1 {
					return false
				}
				if v, ok := constInt(in, call.Args[0]); ok && v == '\n' {
					return true
				}
				if s, ok := constStr(in, call.Args[0]); ok && strings.Contains(s, "\n") && !strings.Contains(s, "\\\n") {
					return true
				}
				return false
			}
			region := c.flushRegion(nl, flusher)
			// (a) newline flushes first
			fl := core.NewFlow(nl)
			flushed := fl.MustSeen(false, func(n ast.Node) bool {
				call, ok := n.(*ast.CallExpr)
				if !ok {
					return false
				}
				fo := core.StaticCallee(info, call)
				return fo != nil && (c.effective(c.P.FuncOf(fo)) == flusher || region[c.P.FuncOf(fo)])
			}, nil)
			nw := 0
			nl.OwnNodes(func(n ast.Node) bool {
				if call, ok := n.(*ast.CallExpr); ok && isLF(info, call) {
					nw++
					key := nl.Name + "|bodies before the line feed"
					if flushed[call] {
						rr.OK(nl, key, call.Pos(), "flushed", "the pending bodies are written before the line ends")
					} else {
						rr.Bad(nl, key, call.Pos(), "newline() ends the line without writing the pending here-document bodies first: a body is printed only when the command that holds its operator is complete, which is too late when a compound command on the same line continues on the next ones")
					}
				}
				return true
			})
			if nw == 0 {
				rr.Unk(nl, nl.Name+"|bodies before the line feed", nl.Pos(), "newline() writes no line feed")
			}
			// (b) the flusher looks at every frame: it ranges or counts over the stack
			all := false
			members := []*core.Func{flusher}
			for g := range region {
				if g != flusher {
					members = append(members, g)
				}
			}
			for _, g := range members {
				gi := g.Info()
				g.OwnNodes(func(n ast.Node) bool {
					switch x := n.(type) {
					case *ast.RangeStmt:
						if core.FieldOf(gi, x.X) == stack {
							all = true
						}
					case *ast.ForStmt:
						if x.Cond != nil {
							ast.Inspect(x.Cond, func(y ast.Node) bool {
								if call, ok := y.(*ast.CallExpr); ok && isBuiltinCall(gi, call, "len") && len(call.Args) == 1 && core.FieldOf(gi, call.Args[0]) == stack {
									all = true
								}
								return true
							})
						}
					}
					return true
				})
			}
			key := flusher.Name + "|every frame of the line"
			if all {
				rr.OK(flusher, key, flusher.Pos(), "all-frames", "the pending redirections of all frames are taken")
			} else {
				rr.Bad(flusher, key, flusher.Pos(), "only the top frame's here-documents are written: an operator in an enclosing frame of the same line keeps its body until that frame is popped, behind the lines of the nested command")
			}
			// (e) the lines of a command substitution are read by a lexer of their own: while they are
			// printed, the frames of the command around it are out of reach of the flusher
			cl := c.fn("printer.(*printer).compoundList")
			for _, f := range c.funcsOfPkg("printer", false) {
				if f.Decl == nil || f.Type.Params == nil || cl == nil {
					continue
				}
				isSubst := false
				for _, fld := range f.Type.Params.List {
					if t := f.Info().TypeOf(fld.Type); t != nil && namedTypeName(t) == "*ast.CmdSubst" {
						isSubst = true
					}
				}
				sites := c.callsTo(f, cl)
				if !isSubst || len(sites) == 0 {
					continue
				}
				finfo := f.Info()
				// fields the flusher reads
				read := map[*types.Var]bool{}
				for _, g := range members {
					gi := g.Info()
					g.OwnNodes(func(n ast.Node) bool {
						if se, ok := n.(*ast.SelectorExpr); ok {
							if v := core.FieldOf(gi, se); v != nil && isIntegerType(v.Type()) {
								read[v] = true
							}
						}
						return true
					})
				}
				isRaise := func(n ast.Node) bool {
					as, ok := n.(*ast.AssignStmt)
					if !ok || len(as.Lhs) != 1 || len(as.Rhs) != 1 {
						return false
					}
					v := core.FieldOf(finfo, as.Lhs[0])
					if v == nil || !read[v] {
						return false
					}
					lc, isCall := ast.Unparen(as.Rhs[0]).(*ast.CallExpr)
					return isCall && isBuiltinCall(finfo, lc, "len") && len(lc.Args) == 1 && core.FieldOf(finfo, lc.Args[0]) == stack
				}
				// the barrier stands until the bound is assigned again (restored)
				raised := core.NewFlow(f).MustSeen(false, isRaise, func(n ast.Node) bool {
					as, ok := n.(*ast.AssignStmt)
					if !ok || isRaise(n) {
						return false
					}
					for _, l := range as.Lhs {
						if v := core.FieldOf(finfo, l); v != nil && read[v] {
							return true
						}
					}
					return false
				})
				nCL := len(sites)
				// a line ended by the substitution's printer itself is a line of the substitution
				sites = append(sites, c.callsTo(f, nl)...)
				for i, call := range sites {
					key := fmt.Sprintf("%s|line barrier #%d", f.Name, i+1)
					if raised[call] {
						rr.OK(f, key, call.Pos(), "barrier", "the flusher's lower bound is raised to the current depth before the lines of the substitution are printed")
					} else if i >= nCL {
						rr.Bad(f, key, call.Pos(), "the printer of a command substitution ends a line while the frames of the surrounding command are within the flusher's reach: the body of a here-document announced before the substitution on the same line is written inside `$( )`, where the nested lexer does not read it")
					} else {
						rr.Bad(f, key, call.Pos(), "the commands of a multi-line command substitution are printed with the frames of the surrounding command within the flusher's reach: a here-document announced before the substitution on the same line has its body written inside `$( )`, where the nested lexer does not read it")
					}
				}
			}
			// (c) other line feeds
			allowed := map[string]string{
				"printer.(*printer).arithExpr": "inside an arithmetic expansion or command a newline is part of the expression, not the end of a line of commands",
			}
			for name, why := range allowed {
				if g := c.fn(name); g != nil {
					key := g.Name + "|no end of line inside"
					if sites := c.callsTo(g, nl); len(sites) > 0 {
						rr.Bad(g, key, sites[0].Pos(), "newline() is called where a line feed does not end a line of commands ("+why+"): the pending here-document bodies are written in the middle of a word")
					} else {
						rr.OK(g, key, g.Pos(), "raw", why)
					}
				}
			}
			for _, f := range c.funcsOfPkg("printer", false) {
				if f == nl || f.Root() == flusher || region[f.Root()] {
					continue
				}
				finfo := f.Info()
				k := 0
				f.OwnNodes(func(n ast.Node) bool {
					call, ok := n.(*ast.CallExpr)
					if !ok || !isLF(finfo, call) {
						return true
					}
					if se, isSel := call.Fun.(*ast.SelectorExpr); !isSel || !strings.HasPrefix(se.Sel.Name, "Write") {
						return true
					}
					k++
					key := fmt.Sprintf("%s|line feed #%d", f.Name, k)
					if why, ok := allowed[f.Root().Name]; ok {
						rr.OK(f, key, call.Pos(), "listed", why)
					} else if r := f.Root(); r.Obj != nil && r.Obj.Exported() && r.Decl != nil && calledFromEntriesOnly(c, r) && !touchesFrames(c, r) {
						// an entry point the printing functions do not call back into, which prints whole nodes only
						rr.OK(f, key, call.Pos(), "between-nodes", "written by an exported entry point between the nodes it prints: every printing function leaves the here-document stack as it found it (PU8), so nothing is pending there")
					} else {
						rr.Bad(f, key, call.Pos(), "a line feed is written without going through newline(): here-document bodies pending on this line are not written before it")
					}
					return true
				})
			}
		}}
}

// HD10: no newline token without a look at the pending here-documents.
func ruleHD10() Rule {
	return Rule{ID: "HD10", Kind: "must", Floor: 3,
		Doc: "the bodies of the here-documents announced on a line begin after its newline, whichever state of the lexer meets it: wherever a state emits the newline token (emit('\\n'), or emit(tok) under a case that lists '\\n'), every path since the token was scanned has called the pending-here-document test or the body reader (or compared the token with '\\n' on the way to them). A state that emits the newline unexamined - the separator of a for clause - lets the body be lexed as commands",
		Run: func(c *Ctx, rr *core.RuleResult) {
			emit := c.mustFn(rr, "parser.(*lexer).emit")
			exists := c.mustFn(rr, "parser.(*heredoc).exists")
			reader := c.heredocReader(rr)
			if emit == nil || exists == nil || reader == nil {
				return
			}
			scanners := map[*core.Func]bool{}
			for _, n := range []string{"parser.(*lexer).scanRawToken", "parser.(*lexer).scanToken"} {
				if g := c.fn(n); g != nil {
					scanners[g] = true
				}
			}
			for _, f := range c.funcsOfPkg("parser", false) {
				if f.Decl == nil {
					continue
				}
				info := f.Info()
				var sites []*ast.CallExpr
				for _, call := range c.callsTo(f, emit) {
					if len(call.Args) != 1 {
						continue
					}
					if v, ok := constInt(info, call.Args[0]); ok {
						if v == '\n' {
							sites = append(sites, call)
						}
						continue
					}
					if cc := enclosingCase(c.P, call); cc != nil {
						for _, e := range cc.List {
							if v, ok := constInt(info, e); ok && v == '\n' {
								sites = append(sites, call)
							}
						}
					}
				}
				// (b) the body reader is called for a newline only
				for i, call := range c.callsTo(f, reader) {
					cc := enclosingCase(c.P, call)
					if cc == nil {
						continue
					}
					other := ""
					for _, e := range cc.List {
						if v, ok := constInt(info, e); ok && v != '\n' && v < 128 && v > 0 {
							other = exprStr(e)
						}
					}
					if other == "" {
						continue
					}
					pinned := false
					for _, gd := range guardsOf(c.P, call, cc) {
						if be, ok := ast.Unparen(gd.cond).(*ast.BinaryExpr); ok && gd.pos && be.Op == token.EQL {
							if v, isC := constInt(info, be.Y); isC && v == '\n' {
								pinned = true
							}
						}
					}
					key := fmt.Sprintf("%s|bodies read at a newline only #%d", f.Name, i+1)
					if pinned {
						rr.OK(f, key, call.Pos(), "newline-only", "under the other separators of the clause the reader is not called")
					} else {
						rr.Bad(f, key, call.Pos(), "the here-document bodies are read when the token is "+other+", not a newline: the text behind it on the same line is taken for the body (`{ cat <<A; for i in 1 2; do …; }`)")
					}
				}
				if len(sites) == 0 {
					continue
				}
				callee := func(n ast.Node) *core.Func {
					call, ok := n.(*ast.CallExpr)
					if !ok {
						return nil
					}
					fo := core.StaticCallee(info, call)
					if fo == nil {
						return nil
					}
					return c.P.FuncOf(fo)
				}
				looked := core.NewFlow(f).MustSeen(false, func(n ast.Node) bool {
					if g := callee(n); g != nil && (g == exists || g == reader) {
						return true
					}
					// the comparison that separates the newline from the other separators
					if be, ok := n.(*ast.BinaryExpr); ok && (be.Op == token.EQL || be.Op == token.NEQ) {
						if v, isC := constInt(info, be.Y); isC && v == '\n' {
							return true
						}
					}
					return false
				}, func(n ast.Node) bool {
					g := callee(n)
					return g != nil && scanners[g]
				})
				for i, call := range sites {
					key := fmt.Sprintf("%s|newline token #%d", f.Name, i+1)
					if looked[call] {
						rr.OK(f, key, call.Pos(), "examined", "the pending here-documents were looked at before the newline is handed to the parser")
					} else {
						rr.Bad(f, key, call.Pos(), "the newline token is emitted without a look at the pending here-documents: the bodies announced on this line are lexed as commands (`cat <<E; for i in 1 2` newline body)")
					}
				}
			}
		}}
}

// CM6: a `#` begins a comment only at the beginning of a token.
func ruleCM6() Rule {
	return Rule{ID: "CM6", Kind: "must-not", Floor: 1,
		Doc: "XCU 2.3 rule 9: a `#` is the beginning of a comment only where a new token would begin; inside a word it is an ordinary character (`echo a#b` has the argument `a#b`). In the raw token scanner's clause for `#`, a word in progress is therefore continued with the character - it is not returned as a finished word so that the `#` begins a comment at the next call",
		Run: func(c *Ctx, rr *core.RuleResult) {
			f := c.mustFn(rr, "parser.(*lexer).scanRawToken")
			if f == nil {
				return
			}
			info := f.Info()
			n := 0
			for _, sw := range switches(c.P, f) {
				cl := sw.clauseFor('#')
				if cl == nil {
					continue
				}
				n++
				key := f.Name + "|# inside a word"
				bad := token.NoPos
				for _, st := range cl.cc.Body {
					ast.Inspect(st, func(x ast.Node) bool {
						ret, ok := x.(*ast.ReturnStmt)
						if !ok || len(ret.Results) != 1 {
							return true
						}
						if id, isID := ast.Unparen(ret.Results[0]).(*ast.Ident); isID && id.Name == "WORD" {
							if _, isConst := info.Uses[id].(*types.Const); isConst {
								bad = ret.Pos()
							}
						}
						return true
					})
				}
				if bad != token.NoPos {
					rr.Bad(f, key, bad, "a `#` met while a word is being scanned ends the word and begins a comment: `echo a#b c` is parsed as `echo a` plus the comment `b c`, and `$(echo a#b)` or `{ echo a#b; }` are syntax errors because the comment swallows the closing token")
				} else {
					rr.OK(f, key, cl.cc.Pos(), "token-start-only", "a `#` never ends a word in progress")
				}
			}
			if n == 0 {
				rr.Unk(f, f.Name+"|# inside a word", f.Pos(), "the raw token scanner has no clause for `#`")
			}
		}}
}

// SP4: special parameters are set whatever they hold.
func ruleSP4() Rule {
	return Rule{ID: "SP4", Kind: "must-not", Floor: 1,
		Doc: "ExecEnv.Get decides whether a special parameter is set from which parameter it is, never from its value being non-empty: `$-` with no option on, `$0` with an empty name are set but null (`${-+w}` is w), and only `$!` can be unset. No assignment to Get's `set` result compares a value with the empty string",
		Run: func(c *Ctx, rr *core.RuleResult) {
			f := c.mustFn(rr, "interp.(*ExecEnv).Get")
			if f == nil {
				return
			}
			info := f.Info()
			var setObj types.Object
			if f.Type.Results != nil {
				for _, fld := range f.Type.Results.List {
					for _, nm := range fld.Names {
						if o := info.Defs[nm]; o != nil && o.Type().String() == "bool" {
							setObj = o
						}
					}
				}
			}
			key := f.Name + "|set is not derived from the value"
			if setObj == nil {
				rr.Unk(f, key, f.Pos(), "Get has no named boolean result")
				return
			}
			bad := token.NoPos
			n := 0
			f.OwnNodes(func(x ast.Node) bool {
				as, ok := x.(*ast.AssignStmt)
				if !ok || len(as.Lhs) != len(as.Rhs) {
					return true
				}
				for i, l := range as.Lhs {
					id, isID := ast.Unparen(l).(*ast.Ident)
					if !isID || info.Uses[id] != setObj {
						continue
					}
					n++
					ast.Inspect(as.Rhs[i], func(y ast.Node) bool {
						be, isBE := y.(*ast.BinaryExpr)
						if !isBE || (be.Op != token.NEQ && be.Op != token.EQL) {
							return true
						}
						if s, isC := constStr(info, be.Y); isC && s == "" {
							// a comparison of the *name* with "" would be harmless, but there is none to make
							if xid, isX := ast.Unparen(be.X).(*ast.Ident); !isX || !isParamOf(f, info.Uses[xid]) {
								bad = be.Pos()
							}
						}
						return true
					})
				}
				return true
			})
			// (b) `$!` is the one special parameter that can be unset: the tail shared by the
			// clauses of the special parameters does not report all of them as set
			for _, sw := range switches(c.P, f) {
				cl := sw.clauseFor0("!")
				if cl == nil {
					continue
				}
				blk, ok := c.P.Parent(sw.sw).(*ast.BlockStmt)
				if !ok {
					continue
				}
				for _, st := range blk.List {
					as, isAs := st.(*ast.AssignStmt)
					if !isAs || st.Pos() < sw.sw.End() || len(as.Lhs) != 1 || len(as.Rhs) != 1 {
						continue
					}
					if id, isID := ast.Unparen(as.Lhs[0]).(*ast.Ident); isID && info.Uses[id] == setObj {
						if tv, has := info.Types[as.Rhs[0]]; has && tv.Value != nil && tv.Value.String() == "true" {
							rr.Bad(f, f.Name+"|$! can be unset", as.Pos(), "every special parameter, `$!` included, is reported as set: while no background command was started `${!-w}` must expand to w and `$!` is an error under nounset")
						} else {
							rr.OK(f, f.Name+"|$! can be unset", as.Pos(), "by-name", "the shared tail does not set the flag unconditionally")
						}
					}
				}
			}
			switch {
			case bad != token.NoPos:
				rr.Bad(f, key, bad, "whether a special parameter is set is derived from its value being non-empty: `$-` while no option is on is reported as unset, so `${-+w}` expands to nothing and `${--w}` to w")
			case n == 0:
				rr.Unk(f, key, f.Pos(), "Get never assigns its `set` result")
			default:
				rr.OK(f, key, f.Pos(), "by-name", fmt.Sprintf("%d assignment(s) to the result, none compares a value with \"\"", n))
			}
		}}
}

// BR6: the ends of text nodes count characters.
func ruleBR6() Rule {
	return Rule{ID: "BR6", Kind: "must-not", Floor: 1,
		Doc: "no Pos()/End() method of package ast advances a column by the byte length of free text (the string fields the lexer fills from the source: Lit.Value, Comment.Text): columns count characters, so the text is counted rune by rune. The lengths of operator spellings (Op fields, which hold ASCII operators) are not affected",
		Run: func(c *Ctx, rr *core.RuleResult) {
			free := map[*types.Var]bool{}
			for _, nm := range [][2]string{{"Lit", "Value"}, {"Comment", "Text"}} {
				if v := c.fieldVar("ast", nm[0], nm[1]); v != nil {
					free[v] = true
				}
			}
			if len(free) == 0 {
				rr.Unkp(c.P, "ast|text fields", 0, "Lit.Value / Comment.Text not found")
				return
			}
			n := 0
			for _, f := range c.funcsOfPkg("ast", false) {
				if f.Decl == nil || f.Decl.Recv == nil || (f.Decl.Name.Name != "End" && f.Decl.Name.Name != "Pos") {
					continue
				}
				info := f.Info()
				n++
				bad := token.NoPos
				f.OwnNodes(func(x ast.Node) bool {
					call, ok := x.(*ast.CallExpr)
					if !ok || !isBuiltinCall(info, call, "len") || len(call.Args) != 1 {
						return true
					}
					if v := core.FieldOf(info, call.Args[0]); v != nil && free[v] {
						bad = call.Pos()
					}
					return true
				})
				key := f.Name + "|text counted in characters"
				if bad != token.NoPos {
					rr.Bad(f, key, bad, "a position is advanced by the byte length of source text: for text with multi-byte characters the position lies beyond the end of the line")
				} else {
					rr.OK(f, key, f.Pos(), "runes", "no byte length of free text enters the position")
				}
			}
			if n == 0 {
				rr.Unkp(c.P, "ast|End methods", 0, "no Pos/End methods found in package ast")
			}
		}}
}

// AL5: the trailing blank of every alias that ends here counts.
func ruleAL5() Rule {
	return Rule{ID: "AL5", Kind: "must", Floor: 1,
		Doc: "the values of nested alias substitutions can end at the same character (outer='a ', a='b': both end behind `b`). Whether the next word is examined is decided from every alias on the stack whose text is used up, down to the first one that still has text: the `blank` flag of the aliases is read inside a loop over the stack, not from the topmost entry alone",
		Run: func(c *Ctx, rr *core.RuleResult) {
			blank := c.fieldVar("parser", "alias", "blank")
			stack := c.fieldVar("parser", "lexer", "aliases")
			text := c.fieldVar("parser", "alias", "value")
			if blank == nil || stack == nil {
				rr.Unkp(c.P, "parser.alias.blank", 0, "the alias record's blank flag or the lexer's alias stack was not found")
				return
			}
			n := 0
			for _, f := range c.funcsOfPkg("parser", false) {
				info := f.Info()
				f.OwnNodes(func(x ast.Node) bool {
					se, ok := x.(*ast.SelectorExpr)
					if !ok || core.FieldOf(info, se) != blank {
						return true
					}
					// reads only (the composite literal that builds the record uses a key, not a selector)
					if as, isAs := c.P.Parent(se).(*ast.AssignStmt); isAs {
						for _, l := range as.Lhs {
							if l == ast.Expr(se) {
								return true
							}
						}
					}
					n++
					key := fmt.Sprintf("%s|blank flag read #%d", f.Name, n)
					inLoop := false
					endsAtText := false
					for p := c.P.Parent(se); p != nil; p = c.P.Parent(p) {
						switch y := p.(type) {
						case *ast.ForStmt:
							ast.Inspect(y, func(z ast.Node) bool {
								if s2, isSel := z.(*ast.SelectorExpr); isSel && core.FieldOf(info, s2) == stack {
									inLoop = true
								}
								return true
							})
							// the loop goes on only while the entries are used up: one conjunct of its
							// condition looks at the entry's text
							if y.Cond != nil {
								for _, cj := range conj(y.Cond) {
									ast.Inspect(cj, func(z ast.Node) bool {
										if s2, isSel := z.(*ast.SelectorExpr); isSel && text != nil && core.FieldOf(info, s2) == text {
											endsAtText = true
										}
										// or a method of the alias record that looks at it (a.len())
										if call, isCall := z.(*ast.CallExpr); isCall {
											if fo := core.StaticCallee(info, call); fo != nil {
												if h := c.P.FuncOf(fo); h != nil && h.Body != nil && text != nil {
													h.OwnNodes(func(w ast.Node) bool {
														if s3, ok3 := w.(*ast.SelectorExpr); ok3 && core.FieldOf(h.Info(), s3) == text {
															endsAtText = true
														}
														return true
													})
												}
											}
										}
										return true
									})
								}
							}
						case *ast.RangeStmt:
							if core.FieldOf(info, y.X) == stack {
								inLoop = true
							}
						}
					}
					if inLoop && !endsAtText {
						rr.Bad(f, key, se.Pos(), "the flags of the alias stack are collected without stopping at the first entry that still has text: the trailing blank of an alias whose value is not used up yet (or of one below it) makes a word in the middle of that value subject to substitution")
					} else if inLoop {
						rr.OK(f, key, se.Pos(), "all-ended", "every alias whose text is used up is consulted, down to the first one that still has text")
					} else {
						rr.Bad(f, key, se.Pos(), "only one entry of the alias stack is asked whether its value ends in a blank: when that value ends in another alias, the inner one (which has no trailing blank) hides it and the next word is not examined (outer='a ', a='b': `outer x`)")
					}
					return true
				})
			}
			if n == 0 {
				rr.Unkp(c.P, "parser|blank flag", 0, "the blank flag is never read")
			}
		}}
}

// falseForEmpty: predicate h answers false when its argument number idx is
// empty: a return of the constant false is guarded by `len(param) == 0` (or by
// a variable bound to that length compared with 0).
func (c *Ctx) falseForEmpty(h *core.Func, idx int) bool {
	if h.Type.Params == nil {
		return false
	}
	info := h.Info()
	var pv types.Object
	k := 0
	for _, fld := range h.Type.Params.List {
		for _, nm := range fld.Names {
			if k == idx {
				pv = info.Defs[nm]
			}
			k++
		}
	}
	if pv == nil {
		return false
	}
	lenVars := map[types.Object]bool{}
	h.OwnNodes(func(n ast.Node) bool {
		as, ok := n.(*ast.AssignStmt)
		if !ok || len(as.Lhs) != len(as.Rhs) {
			return true
		}
		for i, r := range as.Rhs {
			if lc, isCall := ast.Unparen(r).(*ast.CallExpr); isCall && isBuiltinCall(info, lc, "len") && len(lc.Args) == 1 {
				if id, isID := ast.Unparen(lc.Args[0]).(*ast.Ident); isID && info.Uses[id] == pv {
					if lid, isL := as.Lhs[i].(*ast.Ident); isL {
						if o := info.Defs[lid]; o != nil {
							lenVars[o] = true
						}
					}
				}
			}
		}
		return true
	})
	found := false
	h.OwnNodes(func(n ast.Node) bool {
		ret, ok := n.(*ast.ReturnStmt)
		if !ok || len(ret.Results) != 1 {
			return true
		}
		if tv, has := info.Types[ret.Results[0]]; !has || tv.Value == nil || tv.Value.String() != "false" {
			return true
		}
		for _, gd := range guardsOf(c.P, ret, nil) {
			be, isBE := ast.Unparen(gd.cond).(*ast.BinaryExpr)
			if !isBE || !gd.pos || be.Op != token.EQL {
				continue
			}
			if v, isC := constInt(info, be.Y); !isC || v != 0 {
				continue
			}
			if id, isID := ast.Unparen(be.X).(*ast.Ident); isID && lenVars[info.Uses[id]] {
				found = true
			}
			if lc, isCall := ast.Unparen(be.X).(*ast.CallExpr); isCall && isBuiltinCall(info, lc, "len") && len(lc.Args) == 1 {
				if id, isID := ast.Unparen(lc.Args[0]).(*ast.Ident); isID && info.Uses[id] == pv {
					found = true
				}
			}
		}
		return true
	})
	return found
}

// touchesFrames reports whether f itself pushes or pops a frame of the
// printer's here-document stack, or writes the stack field.
func touchesFrames(c *Ctx, f *core.Func) bool {
	push := c.fn("printer.(*printer).push")
	pop := c.fn("printer.(*printer).heredoc")
	stack := c.fieldVar("printer", "printer", "stack")
	info := f.Info()
	found := false
	f.OwnNodes(func(n ast.Node) bool {
		switch x := n.(type) {
		case *ast.CallExpr:
			if fo := core.StaticCallee(info, x); fo != nil {
				if g := c.effective(c.P.FuncOf(fo)); g != nil && (g == push || g == pop) {
					found = true
				}
			}
		case *ast.SelectorExpr:
			if stack != nil && core.FieldOf(info, x) == stack {
				found = true
			}
		}
		return true
	})
	return found
}

// calledFromEntriesOnly reports whether every call of f inside the module is
// made by an exported function (not by a method of the unexported printer).
func calledFromEntriesOnly(c *Ctx, f *core.Func) bool {
	sites, _ := c.callSites(f, true)
	for _, cs := range sites {
		r := cs.in.Root()
		if r.Obj == nil || !r.Obj.Exported() || r.Pkg != f.Pkg {
			return false
		}
		if r.Decl != nil && r.Decl.Recv != nil && len(r.Decl.Recv.List) == 1 {
			n := strings.TrimPrefix(namedTypeName(r.Info().TypeOf(r.Decl.Recv.List[0].Type)), "*")
			if i := strings.LastIndex(n, "."); i >= 0 {
				n = n[i+1:]
			}
			if !ast.IsExported(n) {
				return false
			}
		}
	}
	return true
}
