package rules

import (
	"fmt"
	"go/ast"
	"go/token"
	"go/types"

	"verif/sa/core"
)

// Value ranges of small integers that are chosen from constants.
//
// The guard engine proves bounds from comparisons.  Code that selects a row of
// a table by a *code* (a section number, an order, an operator class) makes no
// comparison: the index is one of a handful of constants, returned by a helper
// or read from a table that is itself constant.  valueRange computes the
// closed interval of such an expression from the program text:
//
//	a constant;
//	a local variable that is defined once, from such an expression, or that
//	  is the value variable of a range over a constant table of integers;
//	a call of a function of the library whose every return statement returns
//	  such an expression;
//	an element of a package-level table that nothing writes (constantGlobal).
//
// Anything else has no range, and the obligation stays with the guard engine.

type vrange struct {
	lo, hi int64
	why    string
}

func (c *Ctx) valueRange(f *core.Func, e ast.Expr, depth int) (vrange, bool) {
	if depth > 4 {
		return vrange{}, false
	}
	info := f.Info()
	e = ast.Unparen(e)
	if k, ok := constInt(info, e); ok {
		return vrange{k, k, "constant"}, true
	}
	switch x := e.(type) {
	case *ast.Ident:
		v, ok := info.Uses[x].(*types.Var)
		if !ok || v.IsField() || v.Pkg() == nil || v.Parent() == v.Pkg().Scope() {
			return vrange{}, false
		}
		if reassigned(f, v) {
			return vrange{}, false
		}
		// value variable of a range statement
		var r vrange
		found := false
		f.OwnNodes(func(n ast.Node) bool {
			switch s := n.(type) {
			case *ast.RangeStmt:
				if id, ok := s.Value.(*ast.Ident); ok && info.Defs[id] == types.Object(v) && s.Tok == token.DEFINE {
					if er, ok := c.elemRange(f, s.X, 1); ok {
						r, found = er, true
					}
				}
			case *ast.AssignStmt:
				if s.Tok == token.DEFINE && len(s.Lhs) == len(s.Rhs) {
					for i, l := range s.Lhs {
						if id, ok := l.(*ast.Ident); ok && info.Defs[id] == types.Object(v) {
							if er, ok := c.valueRange(f, s.Rhs[i], depth+1); ok {
								r, found = er, true
							}
						}
					}
				}
			}
			return true
		})
		return r, found
	case *ast.CallExpr:
		fo := core.StaticCallee(info, x)
		if fo == nil {
			return vrange{}, false
		}
		g := c.P.FuncOf(fo)
		if g == nil || g.Decl == nil || g.Body == nil {
			return vrange{}, false
		}
		if res := g.Decl.Type.Results; res == nil || len(res.List) != 1 || len(res.List[0].Names) > 0 {
			return vrange{}, false
		}
		var out vrange
		n := 0
		ok := true
		g.OwnNodes(func(y ast.Node) bool {
			ret, isRet := y.(*ast.ReturnStmt)
			if !isRet {
				return true
			}
			if len(ret.Results) != 1 {
				ok = false
				return true
			}
			r, rok := c.valueRange(g, ret.Results[0], depth+1)
			if !rok {
				ok = false
				return true
			}
			if n == 0 || r.lo < out.lo {
				out.lo = r.lo
			}
			if n == 0 || r.hi > out.hi {
				out.hi = r.hi
			}
			n++
			return true
		})
		if !ok || n == 0 {
			return vrange{}, false
		}
		out.why = fmt.Sprintf("every return of %s is a constant in [%d,%d]", g.Name, out.lo, out.hi)
		return out, true
	case *ast.IndexExpr:
		return c.elemRange(f, x.X, 1)
	}
	return vrange{}, false
}

// elemRange is the range of the integers found level index steps below x, where
// x is (an element of ... of) a constant package-level table.
func (c *Ctx) elemRange(f *core.Func, x ast.Expr, level int) (vrange, bool) {
	info := f.Info()
	x = ast.Unparen(x)
	switch y := x.(type) {
	case *ast.IndexExpr:
		return c.elemRange(f, y.X, level+1)
	case *ast.CallExpr:
		// a function of the library whose every return hands out a constant table
		fo := core.StaticCallee(info, y)
		if fo == nil || level > 3 {
			return vrange{}, false
		}
		g := c.P.FuncOf(fo)
		if g == nil || g.Decl == nil || g.Body == nil || g == f {
			return vrange{}, false
		}
		if res := g.Decl.Type.Results; res == nil || len(res.List) != 1 || len(res.List[0].Names) > 0 {
			return vrange{}, false
		}
		var out vrange
		n, ok := 0, true
		g.OwnNodes(func(z ast.Node) bool {
			ret, isRet := z.(*ast.ReturnStmt)
			if !isRet {
				return true
			}
			if len(ret.Results) != 1 {
				ok = false
				return true
			}
			r, rok := c.elemRange(g, ret.Results[0], level)
			if !rok {
				ok = false
				return true
			}
			if n == 0 || r.lo < out.lo {
				out.lo = r.lo
			}
			if n == 0 || r.hi > out.hi {
				out.hi = r.hi
			}
			n++
			return true
		})
		if !ok || n == 0 {
			return vrange{}, false
		}
		out.why = fmt.Sprintf("every return of %s is a constant table with elements in [%d,%d]", g.Name, out.lo, out.hi)
		return out, true
	case *ast.Ident:
		v, ok := info.Uses[y].(*types.Var)
		if !ok || v.Pkg() == nil || v.Parent() != v.Pkg().Scope() || !c.constantGlobal(v) {
			return vrange{}, false
		}
		lit := c.globalLiteral(f.Pkg.Name, v)
		if lit == nil {
			return vrange{}, false
		}
		// the element type level steps down must be an integer
		t := v.Type()
		for i := 0; i < level; i++ {
			switch u := t.Underlying().(type) {
			case *types.Array:
				t = u.Elem()
			case *types.Slice:
				t = u.Elem()
			default:
				return vrange{}, false
			}
		}
		if !isIntegerType(t) {
			return vrange{}, false
		}
		pinfo := c.P.Pkgs[f.Pkg.Name].TypesInfo
		out := vrange{0, 0, ""} // an element an array literal leaves out is zero
		ok = true
		var walk func(cl *ast.CompositeLit, d int)
		walk = func(cl *ast.CompositeLit, d int) {
			for _, el := range cl.Elts {
				if kv, isKV := el.(*ast.KeyValueExpr); isKV {
					el = kv.Value
				}
				if d < level {
					inner, isLit := ast.Unparen(el).(*ast.CompositeLit)
					if !isLit {
						ok = false
						continue
					}
					walk(inner, d+1)
					continue
				}
				k, isC := constInt(pinfo, el)
				if !isC {
					ok = false
					continue
				}
				if k < out.lo {
					out.lo = k
				}
				if k > out.hi {
					out.hi = k
				}
			}
		}
		walk(lit, 1)
		if !ok {
			return vrange{}, false
		}
		out.why = fmt.Sprintf("elements of the constant table %s lie in [%d,%d]", v.Name(), out.lo, out.hi)
		return out, true
	}
	return vrange{}, false
}

// reassigned reports whether a local variable is written after its
// definition (assignment, increment, address taken).
func reassigned(f *core.Func, v *types.Var) bool {
	info := f.Info()
	found := false
	isV := func(e ast.Expr) bool {
		id, ok := ast.Unparen(e).(*ast.Ident)
		return ok && info.Uses[id] == types.Object(v)
	}
	ast.Inspect(f.Body, func(n ast.Node) bool {
		switch x := n.(type) {
		case *ast.AssignStmt:
			for _, l := range x.Lhs {
				if isV(l) {
					found = true
				}
			}
		case *ast.IncDecStmt:
			if isV(x.X) {
				found = true
			}
		case *ast.UnaryExpr:
			if x.Op == token.AND && isV(x.X) {
				found = true
			}
		case *ast.RangeStmt:
			if x.Tok == token.ASSIGN && (x.Key != nil && isV(x.Key) || x.Value != nil && isV(x.Value)) {
				found = true
			}
		}
		return true
	})
	return found
}

// indexByRange decides an index obligation the guard engine could not: the
// index has a constant range that fits the length known for the operand.
func (c *Ctx) indexByRange(fa *core.Facts, f *core.Func, e *ast.IndexExpr, st *core.State) (core.BoundsResult, bool) {
	r, ok := c.valueRange(f, e.Index, 0)
	if !ok || r.lo < 0 {
		return core.BoundsResult{}, false
	}
	info := f.Info()
	if tv, ok := info.Types[e.X]; ok && tv.Type != nil {
		u := tv.Type.Underlying()
		if p, isPtr := u.(*types.Pointer); isPtr {
			u = p.Elem().Underlying()
		}
		if a, isArr := u.(*types.Array); isArr {
			if r.hi < a.Len() {
				return core.BoundsResult{OK: true, Why: fmt.Sprintf("index in [%d,%d] (%s), array of %d", r.lo, r.hi, r.why, a.Len())}, true
			}
			return core.BoundsResult{}, false
		}
	}
	if ok2, why := fa.ProveMinLen(e.X, st, int(r.hi)+1); ok2 {
		return core.BoundsResult{OK: true, Why: fmt.Sprintf("index in [%d,%d] (%s), length: %s", r.lo, r.hi, r.why, why)}, true
	}
	return core.BoundsResult{}, false
}
