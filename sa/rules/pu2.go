package rules

import (
	"fmt"
	"go/ast"
	"go/token"
	"go/types"
	"sort"
	"strings"

	"verif/sa/core"
)

// rulePU3: expansion and parsing do not write where they must not.
func rulePU3() Rule {
	return Rule{ID: "PU3", Kind: "must-not", Floor: 2,
		Doc: "package interp never stores through an AST-typed address (Expand/Eval leave the words they are given untouched); package parser never stores into an ExecEnv nor calls Set/Unset",
		Run: func(c *Ctx, rr *core.RuleResult) {
			n := 0
			for _, f := range c.funcsOfPkg("interp", true) {
				for _, st := range astStores(c, f) {
					n++
					rr.Bad(f, f.Name+"|"+st.what, st.node.Pos(), "the expander modifies the AST it was given: "+st.what)
				}
			}
			rr.OKp(c.P, "interp|ast-stores", 0, "enumerated", fmt.Sprintf("%d stores through AST-typed addresses in package interp", n))
			m := 0
			for _, f := range c.funcsOfPkg("parser", true) {
				info := f.Info()
				f.OwnNodes(func(x ast.Node) bool {
					switch x := x.(type) {
					case *ast.AssignStmt:
						for _, l := range x.Lhs {
							if tgt := envFieldTarget(info, l); tgt != "" {
								m++
								rr.Bad(f, f.Name+"|"+exprStr(l)+" =", x.Pos(), "the parser writes into the execution environment ("+tgt+")")
							}
						}
					case *ast.CallExpr:
						name := calleeName(info, x)
						if strings.HasSuffix(name, "interp.(*ExecEnv).Set") || strings.HasSuffix(name, "interp.(*ExecEnv).Unset") {
							m++
							rr.Bad(f, f.Name+"|"+exprStr(x.Fun), x.Pos(), "the parser changes the variable store")
						}
					}
					return true
				})
			}
			rr.OKp(c.P, "parser|env-writes", 0, "enumerated", fmt.Sprintf("%d writes to an ExecEnv in package parser", m))
		}}
}

// envFieldTarget returns the ExecEnv field an assignment target writes
// (directly, an element, or a map entry), or "".
func envFieldTarget(info *types.Info, l ast.Expr) string {
	l = ast.Unparen(l)
	for {
		switch x := l.(type) {
		case *ast.IndexExpr:
			l = ast.Unparen(x.X)
			continue
		case *ast.SliceExpr:
			l = ast.Unparen(x.X)
			continue
		}
		break
	}
	v := core.FieldOf(info, l)
	if v == nil || v.Pkg() == nil || v.Pkg().Name() != "interp" {
		return ""
	}
	if fieldSel(info, l, "interp", "ExecEnv", v.Name()) {
		return v.Name()
	}
	return ""
}

// rulePU4: Args, Opts, Aliases, vars are written only where they may be.
func rulePU4() Rule {
	return Rule{ID: "PU4", Kind: "must-not", Floor: 2,
		Doc: "who-may-write: ExecEnv.Args/Opts/Aliases are assigned (field, element, map entry, delete) only in NewExecEnv; ExecEnv.vars only in NewExecEnv, Set and Unset; the store in Set comes after the read-only test for special and positional parameters (PU5)",
		Run: func(c *Ctx, rr *core.RuleResult) {
			allowed := map[string]map[string]bool{
				"Args": {"interp.NewExecEnv": true}, "Opts": {"interp.NewExecEnv": true}, "Aliases": {"interp.NewExecEnv": true},
				"vars": {"interp.NewExecEnv": true, "interp.(*ExecEnv).Set": true, "interp.(*ExecEnv).Unset": true},
			}
			for _, pkg := range c.P.Order {
				for _, f := range c.funcsOfPkg(pkg, true) {
					info := f.Info()
					report := func(tgt string, pos token.Pos, what string) {
						if allowed[tgt] == nil {
							// any other (e.g. newly added, derived or cached) state of the environment
							allowed[tgt] = map[string]bool{"interp.NewExecEnv": true, "interp.(*ExecEnv).Set": true, "interp.(*ExecEnv).Unset": true}
						}
						key := f.Name + "|" + what
						owned := allowed[tgt][f.Root().Name]
						if !owned {
							// a private helper of an owner (code extracted from it) still is the owner
							for o := range allowed[tgt] {
								if c.inRegion(o, f) {
									owned = true
								}
							}
						}
						if owned {
							rr.OK(f, key, pos, "owner", "written by one of the functions that own "+tgt)
						} else {
							rr.Bad(f, key, pos, fmt.Sprintf("ExecEnv.%s is modified outside %v", tgt, keysOf(allowed[tgt])))
						}
					}
					// locals that alias a slice field of the environment (a = env.Args[1:])
					alias := map[types.Object]string{}
					f.OwnNodes(func(x ast.Node) bool {
						as, ok := x.(*ast.AssignStmt)
						if !ok || len(as.Lhs) != len(as.Rhs) {
							return true
						}
						for i, l := range as.Lhs {
							id, ok := l.(*ast.Ident)
							if !ok {
								continue
							}
							r := ast.Unparen(as.Rhs[i])
							if se, ok := r.(*ast.SliceExpr); ok {
								r = ast.Unparen(se.X)
							}
							// a helper of the package that returns (a slice of) a field of the environment
							if call, ok := r.(*ast.CallExpr); ok {
								if tgt := c.returnsEnvField(info, call); tgt != "" {
									o := info.Defs[id]
									if o == nil {
										o = info.Uses[id]
									}
									if o != nil {
										alias[o] = tgt
									}
								}
							}
							if tgt := envFieldTarget(info, r); tgt != "" {
								if _, isSel := r.(*ast.SelectorExpr); isSel {
									o := info.Defs[id]
									if o == nil {
										o = info.Uses[id]
									}
									if o != nil {
										alias[o] = tgt
									}
								}
							}
						}
						return true
					})
					// copies of an alias are aliases (a = args)
					for round := 0; round < 3; round++ {
						f.OwnNodes(func(x ast.Node) bool {
							as, ok := x.(*ast.AssignStmt)
							if !ok || len(as.Lhs) != len(as.Rhs) {
								return true
							}
							for i, l := range as.Lhs {
								id, ok := l.(*ast.Ident)
								if !ok {
									continue
								}
								r := ast.Unparen(as.Rhs[i])
								if se, ok := r.(*ast.SliceExpr); ok {
									r = ast.Unparen(se.X)
								}
								if rid, ok := r.(*ast.Ident); ok {
									if tgt := alias[info.Uses[rid]]; tgt != "" {
										o := info.Defs[id]
										if o == nil {
											o = info.Uses[id]
										}
										if o != nil && alias[o] == "" {
											alias[o] = tgt
										}
									}
								}
							}
							return true
						})
					}
					aliasTarget := func(e ast.Expr) string {
						if ix, ok := ast.Unparen(e).(*ast.IndexExpr); ok {
							if id, ok := ast.Unparen(ix.X).(*ast.Ident); ok {
								return alias[info.Uses[id]]
							}
						}
						return ""
					}
					f.OwnNodes(func(x ast.Node) bool {
						switch x := x.(type) {
						case *ast.AssignStmt:
							for _, l := range x.Lhs {
								if tgt := envFieldTarget(info, l); tgt != "" {
									report(tgt, x.Pos(), exprStr(l)+" "+x.Tok.String())
								} else if tgt := aliasTarget(l); tgt != "" {
									key := f.Name + "|" + exprStr(l) + " " + x.Tok.String() + " (alias of " + tgt + ")"
									rr.Bad(f, key, x.Pos(), "an element is written through a local slice that aliases ExecEnv."+tgt+": the caller's "+tgt+" is modified")
								}
							}
						case *ast.IncDecStmt:
							if tgt := envFieldTarget(info, x.X); tgt != "" {
								report(tgt, x.Pos(), exprStr(x.X)+x.Tok.String())
							}
						case *ast.CallExpr:
							// an alias (or the field itself, or a slice of it) handed to a
							// function that writes the elements of that parameter
							if fo := core.StaticCallee(info, x); fo != nil {
								if h := c.P.FuncOf(fo); h != nil && h.Body != nil {
									for i, a := range x.Args {
										a = ast.Unparen(a)
										tgt := ""
										if id, ok := a.(*ast.Ident); ok {
											tgt = alias[info.Uses[id]]
										} else {
											b := a
											if se, ok := b.(*ast.SliceExpr); ok {
												b = ast.Unparen(se.X)
											}
											if _, isSel := b.(*ast.SelectorExpr); isSel {
												if t := envFieldTarget(info, b); t != "" {
													if _, isSlice := info.Types[a].Type.Underlying().(*types.Slice); isSlice {
														tgt = t
													}
												}
											}
										}
										if tgt == "" {
											continue
										}
										if c.writesParamElems(h, i, 0) {
											key := f.Name + "|" + h.Short + "(" + exprStr(a) + ") (alias of " + tgt + ")"
											rr.Bad(f, key, x.Pos(), "a slice that aliases ExecEnv."+tgt+" is handed to "+h.Short+", which writes the elements of that parameter: the caller's "+tgt+" is modified")
										}
									}
								}
							}
							if isBuiltinCall(info, x, "delete") && len(x.Args) == 2 {
								if tgt := envFieldTarget(info, x.Args[0]); tgt != "" {
									report(tgt, x.Pos(), "delete("+exprStr(x.Args[0])+")")
								}
							}
							if isBuiltinCall(info, x, "copy") && len(x.Args) == 2 {
								if tgt := envFieldTarget(info, x.Args[0]); tgt != "" {
									report(tgt, x.Pos(), "copy("+exprStr(x.Args[0])+", …)")
								}
							}
							if name := calleeName(info, x); strings.HasPrefix(name, "sort.") && len(x.Args) >= 1 {
								if tgt := envFieldTarget(info, x.Args[0]); tgt != "" {
									report(tgt, x.Pos(), name+"("+exprStr(x.Args[0])+")")
								}
							}
						case *ast.CompositeLit:
							// an ExecEnv literal outside NewExecEnv bypasses the constructor's invariants
							if namedTypeName(info.Types[x].Type) == "interp.ExecEnv" && f.Root().Name != "interp.NewExecEnv" && !c.inRegion("interp.NewExecEnv", f) {
								rr.Bad(f, f.Name+"|ExecEnv{…}", x.Pos(), "an ExecEnv is built outside NewExecEnv")
							}
						}
						return true
					})
				}
			}
			// PU5
			if f := c.mustFn(rr, "interp.(*ExecEnv).Set"); f != nil {
				info := f.Info()
				found := false
				f.OwnNodes(func(x ast.Node) bool {
					as, ok := x.(*ast.AssignStmt)
					if !ok {
						return true
					}
					for _, l := range as.Lhs {
						if envFieldTarget(info, l) != "vars" {
							continue
						}
						found = true
						sp, pp := false, false
						for _, gd := range guardsOf(c.P, as, nil) {
							if gd.pos {
								continue
							}
							for _, d := range disjuncts(gd.cond) {
								if call, ok := ast.Unparen(d).(*ast.CallExpr); ok {
									switch {
									case strings.HasSuffix(calleeName(info, call), ".isSpParam"):
										sp = true
									case strings.HasSuffix(calleeName(info, call), ".isPosParam"):
										pp = true
									}
								}
							}
						}
						key := f.Name + "|read-only-guard"
						if sp && pp {
							rr.OK(f, key, as.Pos(), "guarded", "the store is reached only when the name is neither a special nor a positional parameter")
						} else {
							rr.Bad(f, key, as.Pos(), fmt.Sprintf("Set stores without first rejecting special (tested: %v) and positional (tested: %v) parameter names: they become assignable", sp, pp))
						}
					}
					return true
				})
				if !found {
					rr.Unk(f, f.Name+"|read-only-guard", f.Pos(), "Set does not store into vars")
				}
			}
		}}
}

func keysOf(m map[string]bool) []string {
	var out []string
	for k := range m {
		out = append(out, k)
	}
	return out
}

// rulePU6: who calls Set / Unset.
func rulePU6() Rule {
	return Rule{ID: "PU6", Kind: "must", Floor: 3,
		Doc: "ExecEnv.Set is called only by the := / = arm of expandParam and by the arithmetic assignment, ++ and -- reductions; nothing in the repository calls Unset; in expandParam no error return is reachable after the Set (PU7)",
		Run: func(c *Ctx, rr *core.RuleResult) {
			set := c.mustFn(rr, "interp.(*ExecEnv).Set")
			unset := c.mustFn(rr, "interp.(*ExecEnv).Unset")
			if set == nil || unset == nil {
				return
			}
			gi := c.grammar("interp")
			for _, pkg := range c.P.Order {
				for _, f := range c.funcsOfPkg(pkg, true) {
					info := f.Info()
					f.OwnNodes(func(x ast.Node) bool {
						call, ok := x.(*ast.CallExpr)
						if !ok {
							return true
						}
						fo := core.StaticCallee(info, call)
						if fo == nil {
							return true
						}
						switch c.P.FuncOf(fo) {
						case unset:
							rr.Bad(f, f.Name+"|Unset", call.Pos(), "Unset is called from library code: expansion or evaluation can remove variables")
						case set:
							key := f.Name + "|Set(" + exprStr(call.Args[0]) + ")"
							switch {
							case f.Name == "interp.(*ExecEnv).expandParam":
								cc := enclosingCaseWithStrings(c.P, info, call)
								ok := cc != nil
								var labels []string
								if cc != nil {
									for _, e := range cc.List {
										s, _ := constStr(info, e)
										labels = append(labels, s)
										if s != ":=" && s != "=" {
											ok = false
										}
									}
								}
								if ok {
									rr.OK(f, key, call.Pos(), "assign-arm", fmt.Sprintf("inside case %v", labels))
								} else {
									rr.Bad(f, key, call.Pos(), fmt.Sprintf("expandParam assigns a variable outside the := / = arm (enclosing case %v)", labels))
								}
							case f.Generated && f.Pkg.Name == "interp":
								cc := enclosingCase(c.P, call)
								k := -1
								if cc != nil && len(cc.List) == 1 {
									if v, ok := evalInt(cc.List[0]); ok {
										k = int(v)
									}
								}
								prod := ""
								okProd := false
								if gi.Err == nil && k >= 1 && k <= len(gi.G.Prods) {
									p := gi.G.Prods[k-1]
									prod = p.String()
									for _, s := range p.RHS {
										if s == "INC" || s == "DEC" || s == "assign_op" {
											okProd = true
										}
									}
								}
								if okProd {
									rr.OK(f, key+"@"+prod, call.Pos(), "assignment-production", prod)
								} else {
									rr.Bad(f, key+"@"+prod, call.Pos(), "a reduce action that is not an assignment, ++ or -- stores a variable: `"+prod+"`")
								}
							default:
								// a helper all of whose callers are assignment, ++ or -- reductions
								// (the four increment actions sharing one function)
								var viaHelper func(h *core.Func, depth int) (bool, string)
								viaHelper = func(h *core.Func, depth int) (bool, string) {
									if depth > 2 || h.Pkg.Name != "interp" || h.Decl == nil {
										return false, ""
									}
									calls, complete := c.callSitesOf(h)
									if !complete || len(calls) == 0 {
										return false, ""
									}
									var prods []string
									for _, cs := range calls {
										if cs.in.Generated {
											cc := enclosingCase(c.P, cs.call)
											k := -1
											if cc != nil && len(cc.List) == 1 {
												if v, ok := evalInt(cc.List[0]); ok {
													k = int(v)
												}
											}
											okProd := false
											if gi.Err == nil && k >= 1 && k <= len(gi.G.Prods) {
												pr := gi.G.Prods[k-1]
												for _, sy := range pr.RHS {
													if sy == "INC" || sy == "DEC" || sy == "assign_op" {
														okProd = true
													}
												}
												prods = append(prods, pr.String())
											}
											if !okProd {
												return false, ""
											}
											continue
										}
										ok, why := viaHelper(cs.in.Root(), depth+1)
										if !ok {
											return false, ""
										}
										prods = append(prods, why)
									}
									sort.Strings(prods)
									return true, strings.Join(prods, "; ")
								}
								if ok, why := viaHelper(f.Root(), 0); ok {
									rr.OK(f, key, call.Pos(), "assignment-production", "helper called only from: "+why)
								} else {
									rr.Bad(f, key, call.Pos(), "Set is called from "+f.Name+": expansion/evaluation may change the store only through ${name:=word}, ${name=word} and the arithmetic assignment operators")
								}
							}
						}
						return true
					})
				}
			}
			// PU7
			if f := c.mustFn(rr, "interp.(*ExecEnv).expandParam"); f != nil {
				info := f.Info()
				fl := core.NewFlow(f)
				after := fl.Reaches(func(n ast.Node) bool {
					call, ok := n.(*ast.CallExpr)
					if !ok {
						return false
					}
					fo := core.StaticCallee(info, call)
					return fo != nil && c.P.FuncOf(fo) == set
				}, nil)
				bad := 0
				f.OwnNodes(func(x ast.Node) bool {
					r, ok := x.(*ast.ReturnStmt)
					if !ok || len(r.Results) != 2 || !after[r] {
						return true
					}
					if !isNilIdent(info, r.Results[1]) {
						bad++
						rr.Bad(f, f.Name+"|error return after Set", r.Pos(), "an error can be returned after the variable has been assigned: a failing expansion leaves a trace in the store")
					}
					return true
				})
				if bad == 0 {
					rr.OK(f, f.Name+"|no error return after Set", f.Pos(), "reachability", "every return reachable after the Set call returns a nil error")
				}
			}
		}}
}

func enclosingCaseWithStrings(p *core.Program, info *types.Info, n ast.Node) *ast.CaseClause {
	for x := p.Parent(n); x != nil; x = p.Parent(x) {
		switch x := x.(type) {
		case *ast.CaseClause:
			for _, e := range x.List {
				if _, ok := constStr(info, e); ok {
					return x
				}
			}
		case *ast.FuncDecl, *ast.FuncLit:
			return nil
		}
	}
	return nil
}

// writesParamElems reports whether h assigns an element of its idx-th
// parameter (p[i] = …, copy(p, …), sort of p) or hands it on to a function
// that does.
func (c *Ctx) writesParamElems(h *core.Func, idx int, depth int) bool {
	if depth > 3 || h.Type == nil || h.Type.Params == nil {
		return false
	}
	info := h.Info()
	var param types.Object
	k := 0
	for _, fld := range h.Type.Params.List {
		for _, id := range fld.Names {
			if k == idx {
				param = info.Defs[id]
			}
			k++
		}
	}
	if param == nil {
		return false
	}
	isP := func(e ast.Expr) bool {
		e = ast.Unparen(e)
		if se, ok := e.(*ast.SliceExpr); ok {
			e = ast.Unparen(se.X)
		}
		id, ok := e.(*ast.Ident)
		return ok && info.Uses[id] == param
	}
	found := false
	h.OwnNodes(func(n ast.Node) bool {
		switch x := n.(type) {
		case *ast.AssignStmt:
			for _, l := range x.Lhs {
				if ix, ok := ast.Unparen(l).(*ast.IndexExpr); ok && isP(ix.X) {
					found = true
				}
			}
		case *ast.IncDecStmt:
			if ix, ok := ast.Unparen(x.X).(*ast.IndexExpr); ok && isP(ix.X) {
				found = true
			}
		case *ast.CallExpr:
			if isBuiltinCall(info, x, "copy") && len(x.Args) == 2 && isP(x.Args[0]) {
				found = true
			}
			if name := calleeName(info, x); strings.HasPrefix(name, "sort.") && len(x.Args) >= 1 && isP(x.Args[0]) {
				found = true
			}
			if fo := core.StaticCallee(info, x); fo != nil {
				if g := c.P.FuncOf(fo); g != nil && g != h && g.Body != nil {
					for i, a := range x.Args {
						if isP(a) && c.writesParamElems(g, i, depth+1) {
							found = true
						}
					}
				}
			}
		}
		return !found
	})
	return found
}

// ---------------------------------------------------------------------------
// PU10: Get looks a name up in the variable map only after it has decided that
// the name is neither a special nor a positional parameter.

func rulePU10() Rule {
	return Rule{ID: "PU10", Kind: "must", Floor: 1,
		Doc: "in ExecEnv.Get every read of the variable map is reached only after the name has been tested for a special parameter (the switch over the one-character names, or isSpParam) and for a positional parameter (isPosParam) on every path: the map can hold such names - NewExecEnv imports the process environment unfiltered - and they must not shadow $1, $#, $0 …",
		Run: func(c *Ctx, rr *core.RuleResult) {
			f := c.mustFn(rr, "interp.(*ExecEnv).Get")
			if f == nil {
				return
			}
			info := f.Info()
			vars := c.fieldVar("interp", "ExecEnv", "vars")
			isPos := c.fn("interp.(*ExecEnv).isPosParam")
			isSp := c.fn("interp.(*ExecEnv).isSpParam")
			if vars == nil {
				rr.Unkp(c.P, "anchor:ExecEnv.vars", 0, "field ExecEnv.vars not found")
				return
			}
			var nameParam types.Object
			if f.Type.Params != nil && len(f.Type.Params.List) > 0 && len(f.Type.Params.List[0].Names) > 0 {
				nameParam = info.Defs[f.Type.Params.List[0].Names[0]]
			}
			callOf := func(n ast.Node, g *core.Func) bool {
				call, ok := n.(*ast.CallExpr)
				if !ok || g == nil {
					return false
				}
				fo := core.StaticCallee(info, call)
				return fo != nil && c.P.FuncOf(fo) == g
			}
			posSeen := core.NewFlow(f).MustSeen(false, func(n ast.Node) bool { return callOf(n, isPos) }, nil)
			// the switch over a name whose clauses list one-character strings
			spSwitch := func(info *types.Info, n ast.Node, name types.Object) bool {
				sw, ok := n.(*ast.SwitchStmt)
				if !ok || sw.Tag == nil {
					return false
				}
				id, ok := ast.Unparen(sw.Tag).(*ast.Ident)
				if !ok || info.Uses[id] != name {
					return false
				}
				for _, cl := range sw.Body.List {
					for _, e := range cl.(*ast.CaseClause).List {
						if s, ok := constStr(info, e); ok && len(s) == 1 {
							return true
						}
					}
				}
				return false
			}
			// a helper of the package that is handed the name and decides the special parameters itself
			decidesSpecials := func(call *ast.CallExpr) bool {
				fo := core.StaticCallee(info, call)
				if fo == nil {
					return false
				}
				h := c.P.FuncOf(fo)
				if h == nil || h.Pkg != f.Pkg || h.Body == nil || h == f || h.Type.Params == nil {
					return false
				}
				for i, a := range call.Args {
					id, ok := ast.Unparen(a).(*ast.Ident)
					if !ok || info.Uses[id] != nameParam {
						continue
					}
					var hp types.Object
					k := 0
					for _, fld := range h.Type.Params.List {
						for _, nm := range fld.Names {
							if k == i {
								hp = h.Info().Defs[nm]
							}
							k++
						}
					}
					if hp == nil {
						continue
					}
					found := false
					h.OwnNodes(func(x ast.Node) bool {
						if spSwitch(h.Info(), x, hp) {
							found = true
						}
						if hc, ok := x.(*ast.CallExpr); ok && isSp != nil {
							if ho := core.StaticCallee(h.Info(), hc); ho != nil && c.P.FuncOf(ho) == isSp {
								found = true
							}
						}
						return !found
					})
					if found {
						return true
					}
				}
				return false
			}
			spSeen := core.NewFlow(f).MustSeen(false, func(n ast.Node) bool {
				if callOf(n, isSp) {
					return true
				}
				if call, ok := n.(*ast.CallExpr); ok && decidesSpecials(call) {
					return true
				}
				// a lookup of the name in a constant table of one-character names
				if ix, ok := n.(*ast.IndexExpr); ok {
					if id, ok := ast.Unparen(ix.Index).(*ast.Ident); ok && info.Uses[id] == nameParam {
						for _, k := range c.globalMapKeys(info, ix.X) {
							if len(k) == 1 {
								return true
							}
						}
					}
				}
				return spSwitch(info, n, nameParam)
			}, nil)
			// a name of any other length than one is no special parameter: the
			// test `len(name) == 1` failing decides it too
			lenTest := core.NewFlow(f).MustSeen(false, func(n ast.Node) bool {
				be, ok := n.(*ast.BinaryExpr)
				if !ok || (be.Op != token.EQL && be.Op != token.NEQ) {
					return false
				}
				call, ok := ast.Unparen(be.X).(*ast.CallExpr)
				if !ok || !isBuiltinCall(info, call, "len") || len(call.Args) != 1 {
					return false
				}
				id, ok := ast.Unparen(call.Args[0]).(*ast.Ident)
				v, okv := constInt(info, be.Y)
				return ok && info.Uses[id] == nameParam && okv && v == 1
			}, nil)
			n := 0
			f.OwnNodes(func(x ast.Node) bool {
				ix, ok := x.(*ast.IndexExpr)
				if !ok || core.FieldOf(info, ix.X) != vars {
					return true
				}
				// reads only: an assignment target is PU4's business
				if as, ok := c.P.Parent(ix).(*ast.AssignStmt); ok {
					for _, l := range as.Lhs {
						if l == ast.Expr(ix) {
							return true
						}
					}
				}
				n++
				key := fmt.Sprintf("%s|read of vars #%d", f.Name, n)
				switch {
				case !posSeen[ix]:
					rr.Bad(f, key, ix.Pos(), "the variable map is consulted on a path that has not asked isPosParam: an imported environment entry named like a positional parameter (`1=x prog`) shadows $1")
				case !spSeen[ix] && !lenTest[ix]:
					rr.Bad(f, key, ix.Pos(), "the variable map is consulted on a path that has not dealt with the special parameters: an imported environment entry named `#`, `0`, `?` … shadows the parameter")
				default:
					rr.OK(f, key, ix.Pos(), "after the tests", "special and positional names never reach the map")
				}
				return true
			})
			if n == 0 {
				rr.Unk(f, f.Name+"|read of vars", f.Pos(), "Get does not read ExecEnv.vars: idiom not recognised")
			}
		}}
}

// returnsEnvField recognises a call of a function of package interp every
// return of which hands back a slice field of the environment (or a slice of
// it) without copying: `func (env *ExecEnv) posParams() []string { return
// env.Args[1:] }`.  It returns the field's name.
func (c *Ctx) returnsEnvField(info *types.Info, call *ast.CallExpr) string {
	fo := core.StaticCallee(info, call)
	if fo == nil {
		return ""
	}
	h := c.P.FuncOf(fo)
	if h == nil || h.Pkg.Name != "interp" || h.Body == nil || h.Type.Results == nil || h.Type.Results.NumFields() != 1 {
		return ""
	}
	hi := h.Info()
	tgt := ""
	all := true
	nret := 0
	h.OwnNodes(func(n ast.Node) bool {
		ret, ok := n.(*ast.ReturnStmt)
		if !ok || len(ret.Results) != 1 {
			return true
		}
		nret++
		r := ast.Unparen(ret.Results[0])
		if se, ok := r.(*ast.SliceExpr); ok {
			r = ast.Unparen(se.X)
		}
		if _, isSel := r.(*ast.SelectorExpr); !isSel {
			if !isNilIdent(hi, r) {
				all = false
			}
			return true
		}
		if t := envFieldTarget(hi, r); t != "" {
			if _, isSlice := hi.Types[ret.Results[0]].Type.Underlying().(*types.Slice); isSlice {
				tgt = t
				return true
			}
		}
		all = false
		return true
	})
	if nret == 0 || !all {
		return ""
	}
	return tgt
}

// ---------------------------------------------------------------------------
// PR1: the printer does not let two tokens make a third.

func rulePR1() Rule {
	return Rule{ID: "PR1", Kind: "must", Floor: 3,
		Doc: "where the printer writes an operator and then text it does not control, the two must not make a longer operator of the shell's table: (a) `<<` followed by a delimiter that begins with a hyphen is `<<-` - redir() writes a blank between them under a test that mentions both; (b) `(` followed by a command whose text begins with `(` is `((`, the arithmetic command, and `$(` followed by it is `$((`, the arithmetic expansion - on the paths of subshell() and cmdSubst() that print the only command on the same line a blank is written under a test made by a helper that looks for a leading subshell or arithmetic command. Otherwise printing turns one construct into another (`( (a) )` into `((a))`)",
		Run: func(c *Ctx, rr *core.RuleResult) {
			space := c.fn("printer.(*printer).space")
			command := c.fn("printer.(*printer).command")
			if space == nil || command == nil {
				rr.Unkp(c.P, "printer|space/command", 0, "the printer's space() or command() was not found")
				return
			}
			callsFn := func(info *types.Info, n ast.Node, g *core.Func) bool {
				found := false
				ast.Inspect(n, func(x ast.Node) bool {
					if call, ok := x.(*ast.CallExpr); ok {
						if fo := core.StaticCallee(info, call); fo != nil && c.P.FuncOf(fo) == g {
							found = true
						}
					}
					return !found
				})
				return found
			}
			// (a)
			if f := c.mustFn(rr, "printer.(*printer).redir"); f != nil {
				info := f.Info()
				ok := false
				f.OwnNodes(func(n ast.Node) bool {
					call, isCall := n.(*ast.CallExpr)
					if !isCall {
						return true
					}
					if fo := core.StaticCallee(info, call); fo == nil || c.P.FuncOf(fo) != space {
						return true
					}
					op, hyphen := false, false
					for _, gd := range guardsOf(c.P, call, nil) {
						if !gd.pos {
							continue
						}
						ast.Inspect(gd.cond, func(x ast.Node) bool {
							if e, isE := x.(ast.Expr); isE {
								if s, isC := constStr(info, e); isC && s == "<<" {
									op = true
								}
								if s, isC := constStr(info, e); isC && s == "-" {
									hyphen = true
								}
								if v, isC := constInt(info, e); isC && v == '-' {
									if _, isLit := e.(*ast.BasicLit); isLit {
										hyphen = true
									}
								}
							}
							return true
						})
					}
					if op && hyphen {
						ok = true
					}
					return true
				})
				key := f.Name + "|<< and a hyphen"
				if ok {
					rr.OK(f, key, f.Pos(), "separated", "a blank is written when the operator is << and the delimiter begins with a hyphen")
				} else {
					rr.Bad(f, key, f.Pos(), "the operator and the word are written next to each other whatever they are: `cat << -E` is printed as `cat <<-E`, a different operator (with the styles that put no blank behind a redirection operator)")
				}
			}
			// (b)
			leading := func(h *core.Func) bool {
				if h == nil || h.Body == nil {
					return false
				}
				sub, arith := false, false
				h.OwnNodes(func(n ast.Node) bool {
					if e, ok := n.(ast.Expr); ok {
						switch exprStr(e) {
						case "*ast.Subshell":
							sub = true
						case "*ast.ArithEval":
							arith = true
						}
					}
					return true
				})
				return sub && arith
			}
			for _, name := range []string{"printer.(*printer).subshell", "printer.(*printer).cmdSubst"} {
				f := c.mustFn(rr, name)
				if f == nil {
					continue
				}
				info := f.Info()
				n := 0
				f.OwnNodes(func(x ast.Node) bool {
					call, isCall := x.(*ast.CallExpr)
					if !isCall {
						return true
					}
					if fo := core.StaticCallee(info, call); fo == nil || c.P.FuncOf(fo) != command {
						return true
					}
					n++
					key := fmt.Sprintf("%s|the only command on the same line #%d", f.Name, n)
					// the statement before the call, in the same block, is `if <helper(…)> { space() }`
					ok := false
					var list []ast.Stmt
					var self ast.Node = call
					for p := c.P.Parent(call); p != nil; p = c.P.Parent(p) {
						if b, isB := p.(*ast.BlockStmt); isB {
							list = b.List
							break
						}
						self = p
					}
					for i, st := range list {
						if ast.Node(st) != self || i == 0 {
							continue
						}
						ifs, isIf := list[i-1].(*ast.IfStmt)
						if !isIf || !callsFn(info, ifs.Body, space) {
							continue
						}
						ast.Inspect(ifs.Cond, func(y ast.Node) bool {
							if cl, isCl := y.(*ast.CallExpr); isCl {
								if fo := core.StaticCallee(info, cl); fo != nil && leading(c.P.FuncOf(fo)) {
									ok = true
								}
							}
							return true
						})
					}
					if ok {
						rr.OK(f, key, call.Pos(), "separated", "a blank is written when the command's text begins with a parenthesis")
					} else {
						rr.Bad(f, key, call.Pos(), "the command is printed directly behind the opening parenthesis whatever it begins with: a subshell or an arithmetic command there makes `((` (or `$((`), which is read back as an arithmetic command (expansion)")
					}
					return true
				})
				if n == 0 {
					rr.Unk(f, f.Name+"|the only command on the same line", f.Pos(), "no call of command() in this function")
				}
			}
		}}
}
