package rules

import (
	"fmt"
	"go/ast"
	"go/token"
	"go/types"
	"strings"

	"verif/sa/core"
)

// rulePU3: expansion and parsing do not write where they must not.
func rulePU3() Rule {
	return Rule{ID: "PU3", Kind: "must-not", Floor: 2,
		Doc: "package interp never stores through an AST-typed address (Expand/Eval leave the words they are given untouched); package parser never stores into an ExecEnv nor calls Set/Unset",
		Run: func(c *Ctx, rr *core.RuleResult) {
			n := 0
			for _, f := range c.funcsOfPkg("interp", true) {
				for _, st := range astStores(c, f) {
					n++
					rr.Bad(f, f.Name+"|"+st.what, st.node.Pos(), "the expander modifies the AST it was given: "+st.what)
				}
			}
			rr.OKp(c.P, "interp|ast-stores", 0, "enumerated", fmt.Sprintf("%d stores through AST-typed addresses in package interp", n))
			m := 0
			for _, f := range c.funcsOfPkg("parser", true) {
				info := f.Info()
				f.OwnNodes(func(x ast.Node) bool {
					switch x := x.(type) {
					case *ast.AssignStmt:
						for _, l := range x.Lhs {
							if tgt := envFieldTarget(info, l); tgt != "" {
								m++
								rr.Bad(f, f.Name+"|"+exprStr(l)+" =", x.Pos(), "the parser writes into the execution environment ("+tgt+")")
							}
						}
					case *ast.CallExpr:
						name := calleeName(info, x)
						if strings.HasSuffix(name, "interp.(*ExecEnv).Set") || strings.HasSuffix(name, "interp.(*ExecEnv).Unset") {
							m++
							rr.Bad(f, f.Name+"|"+exprStr(x.Fun), x.Pos(), "the parser changes the variable store")
						}
					}
					return true
				})
			}
			rr.OKp(c.P, "parser|env-writes", 0, "enumerated", fmt.Sprintf("%d writes to an ExecEnv in package parser", m))
		}}
}

// envFieldTarget returns the ExecEnv field an assignment target writes
// (directly, an element, or a map entry), or "".
func envFieldTarget(info *types.Info, l ast.Expr) string {
	l = ast.Unparen(l)
	for {
		switch x := l.(type) {
		case *ast.IndexExpr:
			l = ast.Unparen(x.X)
			continue
		case *ast.SliceExpr:
			l = ast.Unparen(x.X)
			continue
		}
		break
	}
	v := core.FieldOf(info, l)
	if v == nil || v.Pkg() == nil || v.Pkg().Name() != "interp" {
		return ""
	}
	if fieldSel(info, l, "interp", "ExecEnv", v.Name()) {
		return v.Name()
	}
	return ""
}

// rulePU4: Args, Opts, Aliases, vars are written only where they may be.
func rulePU4() Rule {
	return Rule{ID: "PU4", Kind: "must-not", Floor: 2,
		Doc: "who-may-write: ExecEnv.Args/Opts/Aliases are assigned (field, element, map entry, delete) only in NewExecEnv; ExecEnv.vars only in NewExecEnv, Set and Unset; the store in Set comes after the read-only test for special and positional parameters (PU5)",
		Run: func(c *Ctx, rr *core.RuleResult) {
			allowed := map[string]map[string]bool{
				"Args": {"interp.NewExecEnv": true}, "Opts": {"interp.NewExecEnv": true}, "Aliases": {"interp.NewExecEnv": true},
				"vars": {"interp.NewExecEnv": true, "interp.(*ExecEnv).Set": true, "interp.(*ExecEnv).Unset": true},
			}
			for _, pkg := range c.P.Order {
				for _, f := range c.funcsOfPkg(pkg, true) {
					info := f.Info()
					report := func(tgt string, pos token.Pos, what string) {
						if allowed[tgt] == nil {
							// any other (e.g. newly added, derived or cached) state of the environment
							allowed[tgt] = map[string]bool{"interp.NewExecEnv": true, "interp.(*ExecEnv).Set": true, "interp.(*ExecEnv).Unset": true}
						}
						key := f.Name + "|" + what
						owned := allowed[tgt][f.Root().Name]
						if !owned {
							// a private helper of an owner (code extracted from it) still is the owner
							for o := range allowed[tgt] {
								if c.inRegion(o, f) {
									owned = true
								}
							}
						}
						if owned {
							rr.OK(f, key, pos, "owner", "written by one of the functions that own "+tgt)
						} else {
							rr.Bad(f, key, pos, fmt.Sprintf("ExecEnv.%s is modified outside %v", tgt, keysOf(allowed[tgt])))
						}
					}
					// locals that alias a slice field of the environment (a = env.Args[1:])
					alias := map[types.Object]string{}
					f.OwnNodes(func(x ast.Node) bool {
						as, ok := x.(*ast.AssignStmt)
						if !ok || len(as.Lhs) != len(as.Rhs) {
							return true
						}
						for i, l := range as.Lhs {
							id, ok := l.(*ast.Ident)
							if !ok {
								continue
							}
							r := ast.Unparen(as.Rhs[i])
							if se, ok := r.(*ast.SliceExpr); ok {
								r = ast.Unparen(se.X)
							}
							if tgt := envFieldTarget(info, r); tgt != "" {
								if _, isSel := r.(*ast.SelectorExpr); isSel {
									o := info.Defs[id]
									if o == nil {
										o = info.Uses[id]
									}
									if o != nil {
										alias[o] = tgt
									}
								}
							}
						}
						return true
					})
					aliasTarget := func(e ast.Expr) string {
						if ix, ok := ast.Unparen(e).(*ast.IndexExpr); ok {
							if id, ok := ast.Unparen(ix.X).(*ast.Ident); ok {
								return alias[info.Uses[id]]
							}
						}
						return ""
					}
					f.OwnNodes(func(x ast.Node) bool {
						switch x := x.(type) {
						case *ast.AssignStmt:
							for _, l := range x.Lhs {
								if tgt := envFieldTarget(info, l); tgt != "" {
									report(tgt, x.Pos(), exprStr(l)+" "+x.Tok.String())
								} else if tgt := aliasTarget(l); tgt != "" {
									key := f.Name + "|" + exprStr(l) + " " + x.Tok.String() + " (alias of " + tgt + ")"
									rr.Bad(f, key, x.Pos(), "an element is written through a local slice that aliases ExecEnv."+tgt+": the caller's "+tgt+" is modified")
								}
							}
						case *ast.IncDecStmt:
							if tgt := envFieldTarget(info, x.X); tgt != "" {
								report(tgt, x.Pos(), exprStr(x.X)+x.Tok.String())
							}
						case *ast.CallExpr:
							if isBuiltinCall(info, x, "delete") && len(x.Args) == 2 {
								if tgt := envFieldTarget(info, x.Args[0]); tgt != "" {
									report(tgt, x.Pos(), "delete("+exprStr(x.Args[0])+")")
								}
							}
							if isBuiltinCall(info, x, "copy") && len(x.Args) == 2 {
								if tgt := envFieldTarget(info, x.Args[0]); tgt != "" {
									report(tgt, x.Pos(), "copy("+exprStr(x.Args[0])+", …)")
								}
							}
							if name := calleeName(info, x); strings.HasPrefix(name, "sort.") && len(x.Args) >= 1 {
								if tgt := envFieldTarget(info, x.Args[0]); tgt != "" {
									report(tgt, x.Pos(), name+"("+exprStr(x.Args[0])+")")
								}
							}
						case *ast.CompositeLit:
							// an ExecEnv literal outside NewExecEnv bypasses the constructor's invariants
							if namedTypeName(info.Types[x].Type) == "interp.ExecEnv" && f.Root().Name != "interp.NewExecEnv" {
								rr.Bad(f, f.Name+"|ExecEnv{…}", x.Pos(), "an ExecEnv is built outside NewExecEnv")
							}
						}
						return true
					})
				}
			}
			// PU5
			if f := c.mustFn(rr, "interp.(*ExecEnv).Set"); f != nil {
				info := f.Info()
				found := false
				f.OwnNodes(func(x ast.Node) bool {
					as, ok := x.(*ast.AssignStmt)
					if !ok {
						return true
					}
					for _, l := range as.Lhs {
						if envFieldTarget(info, l) != "vars" {
							continue
						}
						found = true
						sp, pp := false, false
						for _, gd := range guardsOf(c.P, as, nil) {
							if gd.pos {
								continue
							}
							for _, d := range disjuncts(gd.cond) {
								if call, ok := ast.Unparen(d).(*ast.CallExpr); ok {
									switch {
									case strings.HasSuffix(calleeName(info, call), ".isSpParam"):
										sp = true
									case strings.HasSuffix(calleeName(info, call), ".isPosParam"):
										pp = true
									}
								}
							}
						}
						key := f.Name + "|read-only-guard"
						if sp && pp {
							rr.OK(f, key, as.Pos(), "guarded", "the store is reached only when the name is neither a special nor a positional parameter")
						} else {
							rr.Bad(f, key, as.Pos(), fmt.Sprintf("Set stores without first rejecting special (tested: %v) and positional (tested: %v) parameter names: they become assignable", sp, pp))
						}
					}
					return true
				})
				if !found {
					rr.Unk(f, f.Name+"|read-only-guard", f.Pos(), "Set does not store into vars")
				}
			}
		}}
}

func keysOf(m map[string]bool) []string {
	var out []string
	for k := range m {
		out = append(out, k)
	}
	return out
}

// rulePU6: who calls Set / Unset.
func rulePU6() Rule {
	return Rule{ID: "PU6", Kind: "must", Floor: 3,
		Doc: "ExecEnv.Set is called only by the := / = arm of expandParam and by the arithmetic assignment, ++ and -- reductions; nothing in the repository calls Unset; in expandParam no error return is reachable after the Set (PU7)",
		Run: func(c *Ctx, rr *core.RuleResult) {
			set := c.mustFn(rr, "interp.(*ExecEnv).Set")
			unset := c.mustFn(rr, "interp.(*ExecEnv).Unset")
			if set == nil || unset == nil {
				return
			}
			gi := c.grammar("interp")
			for _, pkg := range c.P.Order {
				for _, f := range c.funcsOfPkg(pkg, true) {
					info := f.Info()
					f.OwnNodes(func(x ast.Node) bool {
						call, ok := x.(*ast.CallExpr)
						if !ok {
							return true
						}
						fo := core.StaticCallee(info, call)
						if fo == nil {
							return true
						}
						switch c.P.FuncOf(fo) {
						case unset:
							rr.Bad(f, f.Name+"|Unset", call.Pos(), "Unset is called from library code: expansion or evaluation can remove variables")
						case set:
							key := f.Name + "|Set(" + exprStr(call.Args[0]) + ")"
							switch {
							case f.Name == "interp.(*ExecEnv).expandParam":
								cc := enclosingCaseWithStrings(c.P, info, call)
								ok := cc != nil
								var labels []string
								if cc != nil {
									for _, e := range cc.List {
										s, _ := constStr(info, e)
										labels = append(labels, s)
										if s != ":=" && s != "=" {
											ok = false
										}
									}
								}
								if ok {
									rr.OK(f, key, call.Pos(), "assign-arm", fmt.Sprintf("inside case %v", labels))
								} else {
									rr.Bad(f, key, call.Pos(), fmt.Sprintf("expandParam assigns a variable outside the := / = arm (enclosing case %v)", labels))
								}
							case f.Generated && f.Pkg.Name == "interp":
								cc := enclosingCase(c.P, call)
								k := -1
								if cc != nil && len(cc.List) == 1 {
									if v, ok := evalInt(cc.List[0]); ok {
										k = int(v)
									}
								}
								prod := ""
								okProd := false
								if gi.Err == nil && k >= 1 && k <= len(gi.G.Prods) {
									p := gi.G.Prods[k-1]
									prod = p.String()
									for _, s := range p.RHS {
										if s == "INC" || s == "DEC" || s == "assign_op" {
											okProd = true
										}
									}
								}
								if okProd {
									rr.OK(f, key+"@"+prod, call.Pos(), "assignment-production", prod)
								} else {
									rr.Bad(f, key+"@"+prod, call.Pos(), "a reduce action that is not an assignment, ++ or -- stores a variable: `"+prod+"`")
								}
							default:
								rr.Bad(f, key, call.Pos(), "Set is called from "+f.Name+": expansion/evaluation may change the store only through ${name:=word}, ${name=word} and the arithmetic assignment operators")
							}
						}
						return true
					})
				}
			}
			// PU7
			if f := c.mustFn(rr, "interp.(*ExecEnv).expandParam"); f != nil {
				info := f.Info()
				fl := core.NewFlow(f)
				after := fl.Reaches(func(n ast.Node) bool {
					call, ok := n.(*ast.CallExpr)
					if !ok {
						return false
					}
					fo := core.StaticCallee(info, call)
					return fo != nil && c.P.FuncOf(fo) == set
				}, nil)
				bad := 0
				f.OwnNodes(func(x ast.Node) bool {
					r, ok := x.(*ast.ReturnStmt)
					if !ok || len(r.Results) != 2 || !after[r] {
						return true
					}
					if !isNilIdent(info, r.Results[1]) {
						bad++
						rr.Bad(f, f.Name+"|error return after Set", r.Pos(), "an error can be returned after the variable has been assigned: a failing expansion leaves a trace in the store")
					}
					return true
				})
				if bad == 0 {
					rr.OK(f, f.Name+"|no error return after Set", f.Pos(), "reachability", "every return reachable after the Set call returns a nil error")
				}
			}
		}}
}

func enclosingCaseWithStrings(p *core.Program, info *types.Info, n ast.Node) *ast.CaseClause {
	for x := p.Parent(n); x != nil; x = p.Parent(x) {
		switch x := x.(type) {
		case *ast.CaseClause:
			for _, e := range x.List {
				if _, ok := constStr(info, e); ok {
					return x
				}
			}
		case *ast.FuncDecl, *ast.FuncLit:
			return nil
		}
	}
	return nil
}
