package rules

import (
	"fmt"
	"os"
	"strings"
	"unicode"
)

// Grammar is the subset of a yacc file the two grammars of go.sh use.
type Grammar struct {
	File      string
	Tokens    map[string]string // terminal -> union field
	TokOrder  []string
	Types     map[string]string // nonterminal -> union field
	Prec      []PrecLevel       // in declaration order (lowest first)
	Prods     []*Production     // Prods[0] is production 1
	Start     string
	UnionDecl string
}

type PrecLevel struct {
	Assoc string // left | right | nonassoc
	Toks  []string
}

type Production struct {
	N      int // 1-based production number (goyacc's case label)
	LHS    string
	RHS    []string
	Action string
	Line   int
}

func (p *Production) String() string {
	if len(p.RHS) == 0 {
		return p.LHS + ": /* empty */"
	}
	return p.LHS + ": " + strings.Join(p.RHS, " ")
}

// IsTerminal reports whether sym is a declared token or a character literal.
func (g *Grammar) IsTerminal(sym string) bool {
	if strings.HasPrefix(sym, "'") {
		return true
	}
	_, ok := g.Tokens[sym]
	return ok
}

type ytok struct {
	kind string // ident | char | action | mark | colon | bar | pct | other
	val  string
	line int
}

// ReadGrammar parses a .y file.
func ReadGrammar(path string) (*Grammar, error) {
	b, err := os.ReadFile(path)
	if err != nil {
		return nil, err
	}
	src := string(b)
	g := &Grammar{File: path, Tokens: map[string]string{}, Types: map[string]string{}}
	// split sections
	i1 := strings.Index(src, "\n%%")
	if i1 < 0 {
		return nil, fmt.Errorf("%s: no rules section", path)
	}
	decl := src[:i1]
	rest := src[i1+3:]
	rules := rest
	if i2 := strings.Index(rest, "\n%%"); i2 >= 0 {
		rules = rest[:i2]
	}
	// declarations
	inProlog := false
	inUnion := false
	for _, line := range strings.Split(decl, "\n") {
		t := strings.TrimSpace(line)
		switch {
		case t == "%{":
			inProlog = true
			continue
		case t == "%}":
			inProlog = false
			continue
		}
		if inProlog {
			continue
		}
		if strings.HasPrefix(t, "%union") {
			inUnion = true
			continue
		}
		if inUnion {
			if t == "}" {
				inUnion = false
			} else {
				g.UnionDecl += t + "\n"
			}
			continue
		}
		if !strings.HasPrefix(t, "%") {
			continue
		}
		fields := strings.Fields(t)
		head := fields[0]
		typ := ""
		if i := strings.Index(head, "<"); i >= 0 {
			typ = strings.TrimSuffix(head[i+1:], ">")
			head = head[:i]
		}
		names := fields[1:]
		switch head {
		case "%token":
			for _, n := range names {
				g.Tokens[n] = typ
				g.TokOrder = append(g.TokOrder, n)
			}
		case "%type":
			for _, n := range names {
				g.Types[n] = typ
			}
		case "%left", "%right", "%nonassoc":
			g.Prec = append(g.Prec, PrecLevel{Assoc: head[1:], Toks: names})
		case "%start":
			if len(names) > 0 {
				g.Start = names[0]
			}
		}
	}
	// rules
	baseLine := strings.Count(src[:i1+3], "\n") + 1
	toks, err := ylex(rules, baseLine)
	if err != nil {
		return nil, fmt.Errorf("%s: %v", path, err)
	}
	var cur *Production
	lhs := ""
	flush := func() {
		if cur != nil {
			cur.N = len(g.Prods) + 1
			g.Prods = append(g.Prods, cur)
			cur = nil
		}
	}
	for i := 0; i < len(toks); i++ {
		t := toks[i]
		switch t.kind {
		case "ident":
			if i+1 < len(toks) && toks[i+1].kind == "colon" {
				flush()
				lhs = t.val
				cur = &Production{LHS: lhs, Line: t.line}
				i++
				continue
			}
			if cur == nil {
				return nil, fmt.Errorf("%s:%d: symbol %q outside a rule", path, t.line, t.val)
			}
			cur.RHS = append(cur.RHS, t.val)
		case "char":
			if cur == nil {
				return nil, fmt.Errorf("%s:%d: literal outside a rule", path, t.line)
			}
			cur.RHS = append(cur.RHS, t.val)
		case "action":
			if cur == nil {
				return nil, fmt.Errorf("%s:%d: action outside a rule", path, t.line)
			}
			if cur.Action != "" {
				return nil, fmt.Errorf("%s:%d: mid-rule actions are not supported", path, t.line)
			}
			cur.Action = t.val
		case "bar":
			flush()
			cur = &Production{LHS: lhs, Line: t.line}
		case "pct":
			// %prec TOKEN
			if t.val == "%prec" && i+1 < len(toks) {
				i++
			}
		}
	}
	flush()
	if g.Start == "" && len(g.Prods) > 0 {
		g.Start = g.Prods[0].LHS
	}
	return g, nil
}

func ylex(s string, line int) ([]ytok, error) {
	var out []ytok
	for i := 0; i < len(s); {
		c := s[i]
		switch {
		case c == '\n':
			line++
			i++
		case c == ' ' || c == '\t' || c == '\r':
			i++
		case c == '/' && i+1 < len(s) && s[i+1] == '*':
			j := strings.Index(s[i+2:], "*/")
			if j < 0 {
				return nil, fmt.Errorf("line %d: unterminated comment", line)
			}
			line += strings.Count(s[i:i+2+j+2], "\n")
			i += 2 + j + 2
		case c == '/' && i+1 < len(s) && s[i+1] == '/':
			for i < len(s) && s[i] != '\n' {
				i++
			}
		case c == ':':
			out = append(out, ytok{"colon", ":", line})
			i++
		case c == '|':
			out = append(out, ytok{"bar", "|", line})
			i++
		case c == ';':
			i++
		case c == '\'':
			j := i + 1
			for j < len(s) && s[j] != '\'' {
				if s[j] == '\\' {
					j++
				}
				j++
			}
			out = append(out, ytok{"char", s[i : j+1], line})
			i = j + 1
		case c == '{':
			start := i
			depth := 0
			startLine := line
			for i < len(s) {
				switch s[i] {
				case '\n':
					line++
				case '{':
					depth++
				case '}':
					depth--
				case '"':
					i++
					for i < len(s) && s[i] != '"' {
						if s[i] == '\\' {
							i++
						}
						i++
					}
				case '`':
					i++
					for i < len(s) && s[i] != '`' {
						if s[i] == '\n' {
							line++
						}
						i++
					}
				case '\'':
					i++
					for i < len(s) && s[i] != '\'' {
						if s[i] == '\\' {
							i++
						}
						i++
					}
				case '/':
					if i+1 < len(s) && s[i+1] == '/' {
						for i < len(s) && s[i] != '\n' {
							i++
						}
						continue
					}
				}
				i++
				if depth == 0 {
					break
				}
			}
			if depth != 0 {
				return nil, fmt.Errorf("line %d: unbalanced action", startLine)
			}
			out = append(out, ytok{"action", s[start:i], startLine})
		case c == '%':
			j := i + 1
			for j < len(s) && (unicode.IsLetter(rune(s[j]))) {
				j++
			}
			out = append(out, ytok{"pct", s[i:j], line})
			i = j
		case c == '_' || unicode.IsLetter(rune(c)):
			j := i
			for j < len(s) && (s[j] == '_' || unicode.IsLetter(rune(s[j])) || unicode.IsDigit(rune(s[j]))) {
				j++
			}
			out = append(out, ytok{"ident", s[i:j], line})
			i = j
		default:
			return nil, fmt.Errorf("line %d: unexpected character %q", line, c)
		}
	}
	return out, nil
}
