package rules

import (
	"fmt"
	"go/ast"
	"go/constant"
	"go/token"
	"go/types"
	"sort"
	"strings"

	"verif/sa/core"
)

// ---------------------------------------------------------------------------
// Marker nonterminals and the gate protocol of the arithmetic evaluator.
//
// A yacc evaluator computes in reduce actions, so the right operand of && has
// been reduced - its assignments made, its divisions carried out - before the
// action of && runs.  The grammar therefore splits each lazily evaluated
// operator: a marker nonterminal (`land_lhs: land_expr LAND`) is reduced after
// the deciding operand and before the first token of the lazy one, its action
// opens a gate (enter(live)), the action that follows the lazy operand closes
// it (leave()), and every effect is conditional on the gate (dead()).  The
// functions below recover that structure from the grammar and the code - by
// shape, not by name - so that AR, AR3, AR6 and GR5 can reason about it.

// symOrigin locates a symbol of an inlined right-hand side in the grammar as
// written: production and 1-based index ($idx).
type symOrigin struct {
	prod *Production
	idx  int
}

// inlProd is a production with its marker nonterminals replaced by their
// right-hand sides: the language is the same, the shape is the textbook one.
type inlProd struct {
	top *Production
	rhs []string
	org []symOrigin
}

func (p *inlProd) String() string { return p.top.LHS + ": " + strings.Join(p.rhs, " ") }

// markerNTs returns the nonterminals that exist only to run an action in the
// middle of another production: exactly one production of at least two
// symbols, not recursive, used only as the first symbol of other right-hand
// sides, not the start symbol.
func markerNTs(G *Grammar) map[string]*Production {
	count := map[string]int{}
	only := map[string]*Production{}
	for _, p := range G.Prods {
		count[p.LHS]++
		only[p.LHS] = p
	}
	out := map[string]*Production{}
	for nt, n := range count {
		p := only[nt]
		if n != 1 || nt == G.Start || len(p.RHS) < 2 {
			continue
		}
		ok, used := true, false
		for _, s := range p.RHS {
			if s == nt {
				ok = false
			}
		}
		for _, q := range G.Prods {
			for i, s := range q.RHS {
				if s != nt {
					continue
				}
				used = true
				if i != 0 {
					ok = false
				}
			}
		}
		if ok && used {
			out[nt] = p
		}
	}
	// a marker may begin with a marker (cond_then: cond_if expr ':'), but a cycle
	// of them derives nothing
	for nt := range out {
		seen := map[string]bool{}
		for cur := nt; out[cur] != nil; cur = out[cur].RHS[0] {
			if seen[cur] {
				delete(out, nt)
				break
			}
			seen[cur] = true
		}
	}
	return out
}

// inlineMarkers expands the markers in every production that is not itself a
// marker's.
func inlineMarkers(G *Grammar) ([]*inlProd, map[string]*Production) {
	markers := markerNTs(G)
	var expand func(p *Production, depth int) ([]string, []symOrigin)
	expand = func(p *Production, depth int) (rhs []string, org []symOrigin) {
		for i, s := range p.RHS {
			if m := markers[s]; m != nil && i == 0 && depth < 8 {
				r, o := expand(m, depth+1)
				rhs = append(rhs, r...)
				org = append(org, o...)
				continue
			}
			rhs = append(rhs, s)
			org = append(org, symOrigin{p, i + 1})
		}
		return
	}
	var out []*inlProd
	for _, p := range G.Prods {
		if markers[p.LHS] != nil {
			continue
		}
		r, o := expand(p, 0)
		out = append(out, &inlProd{top: p, rhs: r, org: o})
	}
	return out, markers
}

// lazyOperand is one operand C evaluates conditionally.
type lazyOperand struct {
	op      string // "&&", "||", "?: then", "?: else"
	sym     string // its nonterminal
	prod    *inlProd
	pos     int         // index in prod.rhs
	holder  symOrigin   // where the grammar as written has it ($holder.idx of holder.prod)
	marker  *Production // the production reduced right before its first token; nil: none
	nonZero bool        // evaluated iff the deciding operand is non-zero
}

// gateInfo is what the lazy-evaluation rules share.
type gateInfo struct {
	err      string
	operands []*lazyOperand
	markers  map[string]*Production
	inl      []*inlProd

	cell         gateCell   // the gate: a slice field of the lexer, or a named slice type its methods work on
	enter, leave *core.Func // the functions that do the work (wrappers resolved)
	dead         *core.Func
	region       []*core.Func // hand-written functions reachable from the reduce actions
	regionSet    map[*core.Func]bool
}

func (c *Ctx) spellOf(pkg string) func(string) string {
	spell, _ := c.opsTable(pkg)
	return func(tok string) string {
		if s, ok := spell[tok]; ok {
			return s
		}
		switch tok {
		case "LAND":
			return "&&"
		case "LOR":
			return "||"
		}
		return strings.Trim(tok, "'")
	}
}

// gate analyses (once) the lazily evaluated operators of the interp grammar.
func (c *Ctx) gate() *gateInfo {
	if v, ok := c.cache["gate"]; ok {
		return v.(*gateInfo)
	}
	g := &gateInfo{regionSet: map[*core.Func]bool{}}
	c.cache["gate"] = g
	gi := c.grammar("interp")
	if gi.Err != nil {
		g.err = gi.Err.Error()
		return g
	}
	G := gi.G
	g.inl, g.markers = inlineMarkers(G)
	sp := c.spellOf("interp")
	add := func(p *inlProd, op string, pos int, nonZero bool) {
		o := &lazyOperand{op: op, sym: p.rhs[pos], prod: p, pos: pos, holder: p.org[pos], nonZero: nonZero}
		// the symbol before the operand ends a production other than the one holding the
		// operand: that production has been reduced when the operand's first token is read
		if prev := p.org[pos-1]; prev.prod != o.holder.prod && prev.idx == len(prev.prod.RHS) {
			o.marker = prev.prod
		}
		g.operands = append(g.operands, o)
	}
	for _, p := range g.inl {
		switch {
		case len(p.rhs) == 3 && G.IsTerminal(p.rhs[1]) && sp(p.rhs[1]) == "&&":
			add(p, "&&", 2, true)
		case len(p.rhs) == 3 && G.IsTerminal(p.rhs[1]) && sp(p.rhs[1]) == "||":
			add(p, "||", 2, false)
		case len(p.rhs) == 5 && sp(p.rhs[1]) == "?" && sp(p.rhs[3]) == ":":
			add(p, "?: then", 2, true)
			add(p, "?: else", 4, false)
		}
	}
	// region: hand-written functions of the package statically called from the actions
	pk := c.P.Pkgs["interp"]
	info := pk.TypesInfo
	var work []*core.Func
	push := func(f *core.Func) {
		if f == nil || g.regionSet[f] || f.Generated || f.Body == nil || f.Pkg != pk {
			return
		}
		g.regionSet[f] = true
		g.region = append(g.region, f)
		work = append(work, f)
	}
	for _, p := range G.Prods {
		if cc := gi.Checked.Cases[p.N]; cc != nil {
			ast.Inspect(cc, func(n ast.Node) bool {
				if call, ok := n.(*ast.CallExpr); ok {
					if fo := core.StaticCallee(info, call); fo != nil {
						push(c.P.FuncOf(fo))
					}
				}
				return true
			})
		}
	}
	for len(work) > 0 {
		f := work[0]
		work = work[1:]
		f.OwnNodes(func(n ast.Node) bool {
			if call, ok := n.(*ast.CallExpr); ok {
				if fo := core.StaticCallee(info, call); fo != nil {
					if h := c.P.FuncOf(fo); h != nil && (h.Obj == nil || !h.Obj.Exported()) {
						push(h)
					}
				}
			}
			return true
		})
	}
	sort.Slice(g.region, func(i, j int) bool { return g.region[i].Name < g.region[j].Name })
	// the gate: a function called from a marker's action with one bool argument that
	// appends to a slice field of the lexer
	for _, o := range g.operands {
		if o.marker == nil || g.enter != nil {
			continue
		}
		cc := gi.Checked.Cases[o.marker.N]
		if cc == nil {
			continue
		}
		ast.Inspect(cc, func(n ast.Node) bool {
			call, ok := n.(*ast.CallExpr)
			if !ok || len(call.Args) != 1 || g.enter != nil {
				return true
			}
			if b, ok := info.TypeOf(call.Args[0]).Underlying().(*types.Basic); !ok || b.Info()&types.IsBoolean == 0 {
				return true
			}
			fo := core.StaticCallee(info, call)
			if fo == nil {
				return true
			}
			f := c.P.FuncOf(fo)
			if f == nil || !g.regionSet[f] {
				return true
			}
			// `func (l *lexer) enter(live bool) { l.lazy.push(live) }`: the function that does the work
			f = c.effective(f)
			if v := appendedCell(f); v != nil {
				g.enter, g.cell = f, *v
			}
			return true
		})
	}
	if g.cell.isZero() {
		return g
	}
	for _, f := range c.funcsOfPkg("interp", false) {
		if f == g.enter || f.Body == nil || f.Decl == nil {
			continue
		}
		fi := f.Info()
		writes, reads, reslices := false, false, false
		f.OwnNodes(func(n ast.Node) bool {
			switch n := n.(type) {
			case *ast.AssignStmt:
				for i, l := range n.Lhs {
					if g.cell.is(fi, l) {
						writes = true
						if i < len(n.Rhs) {
							if se, ok := ast.Unparen(n.Rhs[i]).(*ast.SliceExpr); ok && g.cell.is(fi, se.X) {
								reslices = true
							}
						}
					}
				}
			case *ast.SelectorExpr:
				if g.cell.field != nil && g.cell.is(fi, n) {
					reads = true
				}
			case *ast.Ident:
				if g.cell.named != nil && g.cell.is(fi, n) {
					reads = true
				}
			}
			return true
		})
		if c.effective(f) != f {
			continue // a wrapper; the function it hands over to is the one
		}
		sig := f.Obj.Type().(*types.Signature)
		switch {
		case writes && reslices && g.leave == nil:
			g.leave = f
		case !writes && reads && sig.Params().Len() == 0 && sig.Results().Len() == 1 && isBool(sig.Results().At(0).Type()) && g.dead == nil:
			g.dead = f
		}
	}
	return g
}

func isBool(t types.Type) bool {
	b, ok := t.Underlying().(*types.Basic)
	return ok && b.Info()&types.IsBoolean != 0
}

// gateCell is where the gate lives: a slice field of a struct, or - when the
// stack is a type of its own - the value its methods receive.
type gateCell struct {
	field *types.Var
	named *types.Named
}

func (gc gateCell) isZero() bool { return gc.field == nil && gc.named == nil }

func (gc gateCell) name() string {
	if gc.field != nil {
		return gc.field.Name()
	}
	if gc.named != nil {
		return gc.named.Obj().Name()
	}
	return "?"
}

// is reports whether e denotes the gate.
func (gc gateCell) is(info *types.Info, e ast.Expr) bool {
	e = ast.Unparen(e)
	if gc.field != nil {
		return core.FieldOf(info, e) == gc.field
	}
	if gc.named == nil {
		return false
	}
	if st, ok := e.(*ast.StarExpr); ok {
		e = ast.Unparen(st.X)
	}
	t := info.TypeOf(e)
	if t == nil {
		return false
	}
	if p, ok := t.(*types.Pointer); ok {
		t = p.Elem()
	}
	n, ok := t.(*types.Named)
	return ok && n.Obj() == gc.named.Obj()
}

// appendedCell returns what f grows by `X = append(X, …)`: a struct field, or
// the receiver of a method of a named slice type.
func appendedCell(f *core.Func) *gateCell {
	var out *gateCell
	fi := f.Info()
	f.OwnNodes(func(n ast.Node) bool {
		as, ok := n.(*ast.AssignStmt)
		if !ok || len(as.Lhs) != 1 || len(as.Rhs) != 1 || out != nil {
			return true
		}
		call, isCall := ast.Unparen(as.Rhs[0]).(*ast.CallExpr)
		if !isCall || len(call.Args) < 2 {
			return true
		}
		if id, ok := call.Fun.(*ast.Ident); !ok || id.Name != "append" || exprStr(ast.Unparen(call.Args[0])) != exprStr(ast.Unparen(as.Lhs[0])) {
			return true
		}
		if v := core.FieldOf(fi, as.Lhs[0]); v != nil {
			if _, isSlice := v.Type().Underlying().(*types.Slice); isSlice {
				out = &gateCell{field: v}
			}
			return true
		}
		lhs := ast.Unparen(as.Lhs[0])
		if st, ok := lhs.(*ast.StarExpr); ok {
			lhs = ast.Unparen(st.X)
		}
		if id, ok := lhs.(*ast.Ident); ok && isRecv(f, fi.Uses[id]) {
			t := fi.TypeOf(id)
			if p, ok := t.(*types.Pointer); ok {
				t = p.Elem()
			}
			if nm, ok := t.(*types.Named); ok {
				if _, isSlice := nm.Underlying().(*types.Slice); isSlice {
					out = &gateCell{named: nm}
				}
			}
		}
		return true
	})
	return out
}

// gateWalk walks the action of p with the gate's functions as events and the
// helpers that reach them inlined (cached).
func (c *Ctx) gateWalk(g *gateInfo, p *Production) *actionWalk {
	return c.gateWalkWith(g, p, nil)
}

// gateWalkWith is gateWalk that also follows the helpers of the package that
// return a value of type also (the type of the grammar's value member): what
// such a helper does to the members of the value it is handed, or builds, is
// then seen on the paths instead of being an opaque result.
func (c *Ctx) gateWalkWith(g *gateInfo, p *Production, also types.Type) *actionWalk {
	key := fmt.Sprintf("gateWalk:%d:%v", p.N, also != nil)
	if v, ok := c.cache[key]; ok {
		return v.(*actionWalk)
	}
	// helpers that (transitively) open or close the gate are followed; the rest -
	// expand, calculate, store … - yield opaque results
	reach := map[*core.Func]bool{}
	for changed := true; changed; {
		changed = false
		for _, f := range g.region {
			if reach[f] || f == g.enter || f == g.leave || f == g.dead {
				continue
			}
			fi := f.Info()
			f.OwnNodes(func(n ast.Node) bool {
				if call, ok := n.(*ast.CallExpr); ok && !reach[f] {
					if fo := core.StaticCallee(fi, call); fo != nil {
						h := c.P.FuncOf(fo)
						if e := c.effective(h); e != nil && (e == g.enter || e == g.leave || reach[h] || reach[e]) {
							reach[f] = true
							changed = true
						}
					}
				}
				return true
			})
		}
	}
	w := c.walkAction("interp", p, func(h *core.Func) string {
		switch h {
		case g.enter:
			return "enter"
		case g.leave:
			return "leave"
		case c.effective(c.fn("interp.expand")):
			return "+expand"
		}
		return ""
	}, func(h *core.Func) bool {
		e := c.effective(h)
		if e == g.enter || e == g.leave {
			return false
		}
		if reach[h] {
			return true
		}
		if also != nil && h.Obj != nil {
			if sig, ok := h.Obj.Type().(*types.Signature); ok {
				for i := 0; i < sig.Results().Len(); i++ {
					if types.Identical(sig.Results().At(i).Type(), also) {
						return true
					}
				}
			}
		}
		return false
	})
	c.cache[key] = w
	return w
}

// gateEvents returns the openings and closings recorded on a path.
func gateEvents(p *spath) []sevent {
	var out []sevent
	for _, ev := range p.events {
		if ev.kind == "enter" || ev.kind == "leave" {
			out = append(out, ev)
		}
	}
	return out
}

// gateCalls lists the openings (+1) and closings (-1) of the gate the action
// of p performs; ok is false when the paths through the action (helpers
// followed with the arguments they are handed) disagree, or the walk failed.
func (c *Ctx) gateCalls(g *gateInfo, p *Production) (ops []int, ok bool) {
	w := c.gateWalk(g, p)
	if w.why != "" {
		return nil, w.why == "no action"
	}
	for i, path := range w.paths {
		var seq []int
		for _, ev := range path.events {
			switch ev.kind {
			case "enter":
				seq = append(seq, +1)
			case "leave":
				seq = append(seq, -1)
			}
		}
		if i == 0 {
			ops = seq
			continue
		}
		if len(seq) != len(ops) {
			return ops, false
		}
		for j := range seq {
			if seq[j] != ops[j] {
				return ops, false
			}
		}
	}
	return ops, true
}

// deadGuarded reports whether node n of function f runs only while the gate is
// open: a test of dead() with negative polarity encloses or precedes it, or -
// for a helper - every call of f in the region does.
func (c *Ctx) deadGuarded(g *gateInfo, f *core.Func, n ast.Node, depth int) bool {
	info := f.Info()
	for _, gd := range guardsOf(c.P, n, nil) {
		if gd.pos {
			continue
		}
		if call, ok := ast.Unparen(gd.cond).(*ast.CallExpr); ok {
			if fo := core.StaticCallee(info, call); fo != nil && c.effective(c.P.FuncOf(fo)) == g.dead {
				return true
			}
		}
	}
	if depth >= 2 || f.Generated || f.Obj == nil || f.Obj.Exported() {
		return false
	}
	sites := 0
	all := true
	for _, h := range g.region {
		hi := h.Info()
		h.OwnNodes(func(x ast.Node) bool {
			if call, ok := x.(*ast.CallExpr); ok {
				if fo := core.StaticCallee(hi, call); fo != nil && c.P.FuncOf(fo) == f {
					sites++
					if !c.deadGuarded(g, h, call, depth+1) {
						all = false
					}
				}
			}
			return true
		})
	}
	// a helper called from a reduce action directly is not covered by its callers
	gi := c.grammar("interp")
	for _, cc := range gi.Checked.Cases {
		ast.Inspect(cc, func(x ast.Node) bool {
			if call, ok := x.(*ast.CallExpr); ok {
				if fo := core.StaticCallee(info, call); fo != nil && c.P.FuncOf(fo) == f {
					all = false
				}
			}
			return true
		})
	}
	return sites > 0 && all
}

// effect is a place of the evaluator that changes or depends on the variable
// store, or may trap.
type effect struct {
	kind string // store | read | trap
	f    *core.Func
	n    ast.Node
}

// effects lists the effects in the hand-written functions below the actions
// and in the actions themselves (f == nil).
func (c *Ctx) effects(g *gateInfo) []effect {
	var out []effect
	set, get := c.fn("interp.(*ExecEnv).Set"), c.fn("interp.(*ExecEnv).Get")
	scan := func(f *core.Func, info *types.Info, root ast.Node, own func(func(ast.Node) bool)) {
		visit := func(n ast.Node) bool {
			switch n := n.(type) {
			case *ast.CallExpr:
				if fo := core.StaticCallee(info, n); fo != nil {
					switch h := c.P.FuncOf(fo); {
					case h != nil && h == set:
						out = append(out, effect{"store", f, n})
					case h != nil && h == get:
						out = append(out, effect{"read", f, n})
					}
				}
			case *ast.BinaryExpr:
				if trapping(info, n.Op, n.X, n.Y) {
					out = append(out, effect{"trap", f, n})
				}
			case *ast.AssignStmt:
				if op, ok := assignBase[n.Tok]; ok && len(n.Lhs) == 1 && len(n.Rhs) == 1 && trapping(info, op, n.Lhs[0], n.Rhs[0]) {
					out = append(out, effect{"trap", f, n})
				}
			}
			return true
		}
		if own != nil {
			own(visit)
		} else {
			ast.Inspect(root, visit)
		}
	}
	for _, f := range g.region {
		if f == set || f == get {
			continue
		}
		scan(f, f.Info(), nil, f.OwnNodes)
		// a constant table of operator functions the helper consults: what the functions
		// do happens where the helper reads the table
		fi := f.Info()
		f.OwnNodes(func(n ast.Node) bool {
			id, ok := n.(*ast.Ident)
			if !ok {
				return true
			}
			v, ok := fi.Uses[id].(*types.Var)
			if !ok || v.Pkg() == nil || v.Parent() != v.Pkg().Scope() || !c.constantGlobal(v) {
				return true
			}
			lit := c.globalLiteral("interp", v)
			if lit == nil {
				return true
			}
			traps := false
			ast.Inspect(lit, func(x ast.Node) bool {
				if be, ok := x.(*ast.BinaryExpr); ok && trapping(fi, be.Op, be.X, be.Y) {
					traps = true
				}
				return !traps
			})
			if traps {
				out = append(out, effect{"trap", f, id})
			}
			return true
		})
	}
	gi := c.grammar("interp")
	info := c.P.Pkgs["interp"].TypesInfo
	var ns []int
	for n := range gi.Checked.Cases {
		ns = append(ns, n)
	}
	sort.Ints(ns)
	for _, n := range ns {
		scan(nil, info, gi.Checked.Cases[n], nil)
	}
	return out
}

var assignBase = map[token.Token]token.Token{token.QUO_ASSIGN: token.QUO, token.REM_ASSIGN: token.REM, token.SHL_ASSIGN: token.SHL, token.SHR_ASSIGN: token.SHR}

// trapping: integer / and % by a divisor that is not a non-zero constant, and
// shifts by a signed count that is not a constant.
func trapping(info *types.Info, op token.Token, x, y ast.Expr) bool {
	tx := info.TypeOf(x)
	if tx == nil {
		return false
	}
	if b, ok := tx.Underlying().(*types.Basic); !ok || b.Info()&types.IsInteger == 0 {
		return false
	}
	tv := info.Types[y]
	switch op {
	case token.QUO, token.REM:
		return tv.Value == nil || tv.Value.String() == "0"
	case token.SHL, token.SHR:
		if tv.Value != nil {
			return false
		}
		b, ok := info.TypeOf(y).Underlying().(*types.Basic)
		return ok && b.Info()&types.IsUnsigned == 0
	}
	return false
}

// decidingIn classifies the opaque values of a walk of marker production m:
// the value of the deciding operand (the first result of expand applied to $1,
// or a member of $1 that the marker $1 is reduced by has left holding it), and
// the flag that says the operand was evaluated without a fault (the second
// result, or a member holding that).
type gateMembers struct {
	deciding, okFlag map[string]bool // "member.field" of $$ on every path
}

func (c *Ctx) markerMembers(g *gateInfo, m *Production, depth int) *gateMembers {
	key := fmt.Sprintf("markerMembers:%d", m.N)
	if v, ok := c.cache[key]; ok {
		return v.(*gateMembers)
	}
	out := &gateMembers{map[string]bool{}, map[string]bool{}}
	c.cache[key] = out
	if depth > 4 {
		return out
	}
	w := c.gateWalk(g, m)
	if w.why != "" || len(w.paths) == 0 || w.yyval == nil {
		return out
	}
	isD, isOK := c.decidingPreds(g, m, depth)
	first := true
	for _, p := range w.paths {
		d, k := map[string]bool{}, map[string]bool{}
		var visit func(v sval, path string)
		visit = func(v sval, path string) {
			switch v.kind {
			case svStruct:
				for name, f := range v.fields {
					np := name
					if path != "" {
						np = path + "." + name
					}
					visit(f, np)
				}
			case svOpaque:
				if isD(v) {
					d[path] = true
				}
				if isOK(v) {
					k[path] = true
				}
			}
		}
		visit(p.env[w.yyval], "")
		if first {
			out.deciding, out.okFlag = d, k
			first = false
			continue
		}
		for name := range out.deciding {
			if !d[name] {
				delete(out.deciding, name)
			}
		}
		for name := range out.okFlag {
			if !k[name] {
				delete(out.okFlag, name)
			}
		}
	}
	return out
}

// decidingPreds returns the two predicates for a walk of m.
func (c *Ctx) decidingPreds(g *gateInfo, m *Production, depth int) (isD, isOK func(sval) bool) {
	expand := c.effective(c.fn("interp.expand"))
	var inherited *gateMembers
	if len(m.RHS) > 0 {
		if mm := g.markers[m.RHS[0]]; mm != nil {
			inherited = c.markerMembers(g, mm, depth+1)
		}
	}
	fromDollar1 := func(args []sval) bool {
		found := false
		var visit func(v sval)
		visit = func(v sval) {
			switch v.kind {
			case svStruct:
				for _, f := range v.fields {
					visit(f)
				}
			case svOpaque:
				if strings.HasPrefix(v.origin, "$1.") {
					found = true
				}
			}
		}
		for _, a := range args {
			visit(a)
		}
		return found
	}
	member := func(v sval) string {
		// "$1.expr.n" -> "expr.n"
		if v.kind == svOpaque && strings.HasPrefix(v.origin, "$1.") {
			return strings.TrimPrefix(v.origin, "$1.")
		}
		return ""
	}
	isD = func(v sval) bool {
		if v.kind != svOpaque {
			return false
		}
		if v.fn != nil && expand != nil && v.fn == expand && v.idx == 0 && v.origin == "call" && inherited == nil {
			return fromDollar1(v.elems)
		}
		return inherited != nil && inherited.deciding[member(v)]
	}
	isOK = func(v sval) bool {
		if v.kind != svOpaque {
			return false
		}
		if v.fn != nil && expand != nil && v.fn == expand && v.idx == 1 && v.origin == "call" && inherited == nil {
			return fromDollar1(v.elems)
		}
		return inherited != nil && inherited.okFlag[member(v)]
	}
	return
}

// conjuncts flattens a && b && c.
func conjuncts(e ast.Expr) []ast.Expr {
	e = ast.Unparen(e)
	if be, ok := e.(*ast.BinaryExpr); ok && be.Op == token.LAND {
		return append(conjuncts(be.X), conjuncts(be.Y)...)
	}
	return []ast.Expr{e}
}

// ---------------------------------------------------------------------------
// AR1 on a gated grammar.

// gated decides one lazy operand that has a marker: the gate is opened with
// the right polarity before the operand and closed after it.  It returns a
// description or the reason it fails.
func (c *Ctx) gatedOperand(g *gateInfo, o *lazyOperand) (string, error) {
	if g.enter == nil || g.leave == nil || g.dead == nil {
		return "", fmt.Errorf("the marker production `%s` precedes the operand, but no gate was recognised (a function appending to a slice field of the lexer called from it with a bool argument, one reslicing that field, and a predicate reading it)", o.marker)
	}
	w := c.gateWalk(g, o.marker)
	if w.why != "" || len(w.paths) == 0 {
		return "", fmt.Errorf("the action of `%s` could not be followed (%s)", o.marker, w.why)
	}
	isD, isOK := c.decidingPreds(g, o.marker, 0)
	zero := constant.MakeInt64(0)
	live := 0
	for _, p := range w.paths {
		gev := gateEvents(p)
		if len(gev) == 0 || gev[len(gev)-1].kind != "enter" {
			return "", fmt.Errorf("the action of `%s`, reduced before the operand is parsed, does not end by opening the gate (%s) on every path", o.marker, g.enter.Name)
		}
		ev := gev[len(gev)-1]
		if len(ev.args) != 1 {
			return "", fmt.Errorf("the gate is opened by `%s` with %d arguments", o.marker, len(ev.args))
		}
		t, decided := boolOf(ev.args[0])
		if !decided {
			return "", fmt.Errorf("what `%s` opens the gate with is not a condition the walk can follow", o.marker)
		}
		// what this path knows about the deciding operand
		knowsNonZero, knowsZero, notOK := false, false, false
		for _, k := range p.cons {
			switch {
			case isD(k.v) && k.c.Kind() == constant.Int && constant.Compare(k.c, token.EQL, zero):
				if k.truth {
					knowsZero = true
				} else {
					knowsNonZero = true
				}
			case isOK(k.v) && k.c.Kind() == constant.Bool:
				if constant.BoolVal(k.c) != k.truth {
					notOK = true
				}
			}
		}
		want, other := knowsNonZero, knowsZero
		if !o.nonZero {
			want, other = knowsZero, knowsNonZero
		}
		wantS, gotS := "!= 0", "== 0"
		if !o.nonZero {
			wantS, gotS = gotS, wantS
		}
		switch {
		case t && other:
			return "", fmt.Errorf("`%s` opens the gate when the deciding operand is %s; C evaluates this operand of %s when it is %s", o.marker, gotS, o.op, wantS)
		case t && !want:
			return "", fmt.Errorf("`%s` opens the gate on a path that has not compared the deciding operand's value with 0", o.marker)
		case !t && !other && !notOK:
			return "", fmt.Errorf("`%s` keeps the gate shut on a path where the deciding operand is not known to be %s", o.marker, gotS)
		}
		if t {
			live++
		}
	}
	if live == 0 {
		return "", fmt.Errorf("`%s` never opens the gate", o.marker)
	}
	hw := c.gateWalk(g, o.holder.prod)
	if hw.why != "" || len(hw.paths) == 0 {
		return "", fmt.Errorf("the action of `%s` could not be followed (%s)", o.holder.prod, hw.why)
	}
	for _, p := range hw.paths {
		if gev := gateEvents(p); len(gev) == 0 || gev[0].kind != "leave" {
			return "", fmt.Errorf("the action of `%s`, the first one to run after the operand, does not begin by closing the gate on every path (%s)", o.holder.prod, g.leave.Name)
		}
	}
	return fmt.Sprintf("`%s` opens the gate iff $1 %s (%d paths), `%s` closes it", o.marker, map[bool]string{true: "!= 0", false: "== 0"}[o.nonZero], len(w.paths), o.holder.prod), nil
}

// gateShape checks enter and dead themselves.
func (c *Ctx) gateShape(g *gateInfo, rr *core.RuleResult) {
	// enter appends live && !dead(): an operand inside a skipped operand is skipped
	ei := g.enter.Info()
	var param types.Object
	if g.enter.Type.Params != nil {
		for _, fld := range g.enter.Type.Params.List {
			for _, nm := range fld.Names {
				param = ei.Defs[nm]
			}
		}
	}
	mono := false
	var appended ast.Expr
	g.enter.OwnNodes(func(n ast.Node) bool {
		if as, ok := n.(*ast.AssignStmt); ok && len(as.Lhs) == 1 && g.cell.is(ei, as.Lhs[0]) {
			if call, ok := ast.Unparen(as.Rhs[0]).(*ast.CallExpr); ok && len(call.Args) == 2 {
				appended = call.Args[1]
			}
		}
		return true
	})
	if appended != nil {
		hasParam, hasDead := false, false
		for _, cj := range conjuncts(appended) {
			if id, ok := cj.(*ast.Ident); ok && ei.Uses[id] == param {
				hasParam = true
			}
			if u, ok := cj.(*ast.UnaryExpr); ok && u.Op == token.NOT {
				if call, ok := ast.Unparen(u.X).(*ast.CallExpr); ok {
					if fo := core.StaticCallee(ei, call); fo != nil && c.effective(c.P.FuncOf(fo)) == g.dead {
						hasDead = true
					}
				}
			}
		}
		mono = hasParam && hasDead
	}
	key := "interp|gate: nested operands inherit"
	if mono {
		rr.OKp(c.P, key, g.enter.Pos(), "monotone", fmt.Sprintf("%s pushes live && !%s(): inside an operand that is not evaluated nothing is", g.enter.Name, g.dead.Short))
	} else {
		rr.Badp(c.P, key, g.enter.Pos(), fmt.Sprintf("%s does not push `live && !dead()`: an operand nested in a skipped operand (`0 && (1 || (x = 1))`) would be evaluated", g.enter.Name))
	}
	// dead: the innermost entry, negated; false when no gate is open
	di := g.dead.Info()
	okShape := false
	g.dead.OwnNodes(func(n ast.Node) bool {
		ret, ok := n.(*ast.ReturnStmt)
		if !ok || len(ret.Results) != 1 {
			return true
		}
		top, nonEmpty := false, false
		for _, cj := range conjuncts(ret.Results[0]) {
			if u, ok := cj.(*ast.UnaryExpr); ok && u.Op == token.NOT {
				if ix, ok := ast.Unparen(u.X).(*ast.IndexExpr); ok && g.cell.is(di, ix.X) && isLenMinus1(di, ix.Index, g.cell) {
					top = true
				}
			}
			if be, ok := cj.(*ast.BinaryExpr); ok && isLenOf(di, be.X, g.cell) {
				if v, isInt := evalInt(be.Y); isInt && ((be.Op == token.NEQ && v == 0) || (be.Op == token.GTR && v == 0) || (be.Op == token.GEQ && v == 1)) {
					nonEmpty = true
				}
			}
		}
		if top && nonEmpty {
			okShape = true
		}
		return true
	})
	key = "interp|gate: predicate reads the innermost entry"
	if okShape {
		rr.OKp(c.P, key, g.dead.Pos(), "top-of-stack", fmt.Sprintf("%s is `len(F) != 0 && !F[len(F)-1]`", g.dead.Name))
	} else {
		rr.Unkp(c.P, key, g.dead.Pos(), fmt.Sprintf("%s is not of the form `len(F) != 0 && !F[len(F)-1]`; whether it reports the innermost open gate is not decided", g.dead.Name))
	}
	// only enter and leave write the gate, and only reduce actions call them
	key = "interp|gate: written by the actions only"
	var bad []string
	for _, f := range c.funcsOfPkg("interp", true) {
		if f.Body == nil {
			continue
		}
		fi := f.Info()
		f.OwnNodes(func(n ast.Node) bool {
			switch n := n.(type) {
			case *ast.AssignStmt:
				for _, l := range n.Lhs {
					if g.cell.is(fi, l) && f != g.enter && f != g.leave {
						bad = append(bad, fmt.Sprintf("%s assigns the gate", f.Name))
					}
				}
			case *ast.UnaryExpr:
				if n.Op == token.AND && g.cell.field != nil && g.cell.is(fi, n.X) {
					bad = append(bad, fmt.Sprintf("%s takes the gate's address", f.Name))
				}
			case *ast.CallExpr:
				if fo := core.StaticCallee(fi, n); fo != nil {
					// wrappers may call the function they hand over to, and so may a helper of the
					// actions that nothing but actions (or such helpers) calls: the walk follows it
					if h := c.effective(c.P.FuncOf(fo)); h != nil && (h == g.enter || h == g.leave) && !f.Generated && c.effective(f) != h && !c.onlyBelowActions(g, f.Root(), 0) {
						bad = append(bad, fmt.Sprintf("%s calls %s outside a reduce action", f.Name, h.Name))
					}
				}
			}
			return true
		})
	}
	for _, f := range []*core.Func{g.enter, g.leave} {
		if c.P.CG().AddrTaken[f] {
			bad = append(bad, f.Name+" is used as a value")
		}
	}
	if len(bad) == 0 {
		rr.OKp(c.P, key, g.enter.Pos(), "closed-world", fmt.Sprintf("%s and %s are the only writers of the lexer's %s and are called from reduce actions only", g.enter.Name, g.leave.Name, g.cell.name()))
	} else {
		sort.Strings(bad)
		rr.Badp(c.P, key, g.enter.Pos(), strings.Join(bad, "; "))
	}
}

func isLenOf(info *types.Info, e ast.Expr, fld gateCell) bool {
	call, ok := ast.Unparen(e).(*ast.CallExpr)
	if !ok || len(call.Args) != 1 {
		return false
	}
	id, ok := call.Fun.(*ast.Ident)
	return ok && id.Name == "len" && fld.is(info, call.Args[0])
}

func isLenMinus1(info *types.Info, e ast.Expr, fld gateCell) bool {
	be, ok := ast.Unparen(e).(*ast.BinaryExpr)
	if !ok || be.Op != token.SUB || !isLenOf(info, be.X, fld) {
		return false
	}
	v, isInt := evalInt(be.Y)
	return isInt && v == 1
}

// gateEffects checks that every store, variable read and trapping operator
// below the actions runs only while the gate is open.
func (c *Ctx) gateEffects(g *gateInfo, rr *core.RuleResult) {
	counts := map[string]int{}
	var bad []string
	var badPos token.Pos
	for _, e := range c.effects(g) {
		counts[e.kind]++
		if e.f == nil {
			bad = append(bad, fmt.Sprintf("%s in a reduce action at %s", e.kind, c.P.PosString(e.n.Pos())))
			badPos = e.n.Pos()
			continue
		}
		if !c.deadGuarded(g, e.f, e.n, 0) {
			bad = append(bad, fmt.Sprintf("%s in %s (%s)", e.kind, e.f.Name, exprOrStmt(e.n)))
			badPos = e.n.Pos()
		}
	}
	key := "interp|gate: effects are conditional on it"
	switch {
	case counts["store"] == 0 || counts["trap"] == 0 || counts["read"] == 0:
		rr.Unkp(c.P, key, g.dead.Pos(), fmt.Sprintf("found %d stores, %d variable reads, %d trapping operators below the reduce actions: the evaluator's effects were not located", counts["store"], counts["read"], counts["trap"]))
	case len(bad) == 0:
		rr.OKp(c.P, key, g.dead.Pos(), "guarded", fmt.Sprintf("%d store(s), %d variable read(s), %d trapping operator(s) below the reduce actions, each after a test of %s", counts["store"], counts["read"], counts["trap"], g.dead.Name))
	default:
		sort.Strings(bad)
		rr.Badp(c.P, key, badPos, "executed in an operand C would skip: "+strings.Join(bad, "; "))
	}
}

func exprOrStmt(n ast.Node) string {
	if e, ok := n.(ast.Expr); ok {
		return types.ExprString(e)
	}
	if as, ok := n.(*ast.AssignStmt); ok && len(as.Lhs) == 1 && len(as.Rhs) == 1 {
		return types.ExprString(as.Lhs[0]) + " " + as.Tok.String() + " " + types.ExprString(as.Rhs[0])
	}
	return fmt.Sprintf("%T", n)
}

// ---------------------------------------------------------------------------
// AR6: the gate is balanced.

func ruleAR6() Rule {
	return Rule{ID: "AR6", Kind: "pairing", Floor: 1,
		Doc: "every derivation opens and closes the gate of the lazily evaluated operands in pairs: each nonterminal has one net effect on the gate's depth whichever production derives it, the start symbol's is 0, and wherever an action closes the gate the symbols and calls before it in the same production have opened one (so the reslice in leave is in range and the predicate reads the entry of the operand being parsed)",
		Run: func(c *Ctx, rr *core.RuleResult) {
			g := c.gate()
			gi := c.grammar("interp")
			if g.err != "" {
				rr.Unkp(c.P, "interp|grammar", 0, g.err)
				return
			}
			key := "interp|gate balance"
			if g.enter == nil || g.leave == nil {
				rr.OKp(c.P, key, gi.AstFile.Pos(), "no-gate", "the grammar has no marker production that opens a gate; nothing to balance")
				return
			}
			G := gi.G
			net := map[string]int{}
			known := map[string]bool{}
			var bad []string
			for changed := true; changed; {
				changed = false
				for _, p := range G.Prods {
					depth, ok := 0, true
					for _, s := range p.RHS {
						if G.IsTerminal(s) {
							continue
						}
						if s == p.LHS && !known[s] {
							// left/right recursion: assume the net effect the other productions give
							ok = false
							break
						}
						if !known[s] {
							ok = false
							break
						}
						depth += net[s]
					}
					if !ok {
						continue
					}
					if cc := gi.Checked.Cases[p.N]; cc != nil {
						ops, uncond := c.gateCalls(g, p)
						if !uncond {
							bad = append(bad, fmt.Sprintf("`%s` opens or closes the gate conditionally", p))
						}
						for _, op := range ops {
							if op < 0 && depth < 1 {
								bad = append(bad, fmt.Sprintf("`%s` closes a gate that this production did not open", p))
							}
							depth += op
						}
					}
					if !known[p.LHS] {
						known[p.LHS], net[p.LHS] = true, depth
						changed = true
					} else if net[p.LHS] != depth {
						bad = append(bad, fmt.Sprintf("`%s` leaves the gate at depth %+d, another production of %s at %+d", p, depth, p.LHS, net[p.LHS]))
					}
				}
			}
			var undecided []string
			for _, p := range G.Prods {
				if !known[p.LHS] {
					undecided = append(undecided, p.LHS)
				}
			}
			bad = uniqStrings(bad)
			switch {
			case len(bad) != 0:
				rr.Badp(c.P, key, g.leave.Pos(), strings.Join(bad, "; "))
			case len(undecided) != 0:
				rr.Unkp(c.P, key, g.leave.Pos(), "net effect not determined for "+strings.Join(uniqStrings(undecided), ", "))
			case net[G.Start] != 0:
				rr.Badp(c.P, key, g.leave.Pos(), fmt.Sprintf("a complete expression leaves the gate at depth %+d", net[G.Start]))
			default:
				var ms []string
				for nt, n := range net {
					if n != 0 {
						ms = append(ms, fmt.Sprintf("%s %+d", nt, n))
					}
				}
				sort.Strings(ms)
				rr.OKp(c.P, key, g.leave.Pos(), "balanced", fmt.Sprintf("%d productions; nonterminals with a net effect: %s; all others and the start symbol 0; every close follows an open of the same production", len(G.Prods), strings.Join(ms, ", ")))
			}
		}}
}

func uniqStrings(in []string) []string {
	sort.Strings(in)
	var out []string
	for i, s := range in {
		if i == 0 || s != in[i-1] {
			out = append(out, s)
		}
	}
	return out
}

// ---------------------------------------------------------------------------
// RV1: operators yield values, not names.

func ruleRV1() Rule {
	return Rule{ID: "RV1", Kind: "must", Floor: 20,
		Doc: "the result of every operator production of the arithmetic grammar is a value: its action clears the name member of $$ unconditionally (`$$.s = \"\"`, or $$ assigned from a helper whose result never carries a name) and does not copy an operand or a name into $$ afterwards - goyacc presets $$ to $1, so an action that does not do so leaves `x++` or `a ? b : c` assignable and `x++ = 1` is accepted instead of being reported as an assignment to a non-lvalue; only the parenthesised expression hands its operand on",
		Run: func(c *Ctx, rr *core.RuleResult) {
			gi := c.grammar("interp")
			if gi.Err != nil {
				rr.Unkp(c.P, "interp|grammar", 0, gi.Err.Error())
				return
			}
			G := gi.G
			info := c.P.Pkgs["interp"].TypesInfo
			g := c.gate()
			// the union member holding expressions: a struct with a string field (the name)
			nameField := func(member string) string {
				var out string
				for _, cc := range gi.Checked.Cases {
					ast.Inspect(cc, func(n ast.Node) bool {
						se, ok := n.(*ast.SelectorExpr)
						if !ok || out != "" {
							return true
						}
						if _, m, _, isD := dollar(se); isD && m == member {
							if st, ok := info.TypeOf(se).Underlying().(*types.Struct); ok {
								for i := 0; i < st.NumFields(); i++ {
									if b, ok := st.Field(i).Type().Underlying().(*types.Basic); ok && b.Kind() == types.String {
										out = st.Field(i).Name()
									}
								}
							}
						}
						return true
					})
				}
				return out
			}
			names := map[string]string{}
			// helpers whose result never carries a name: no assignment to the name field of
			// a value of the expression type anywhere in them
			clean := func(f *core.Func, fld string) bool {
				if f == nil || f.Body == nil || f.Generated {
					return false
				}
				ok := true
				f.OwnNodes(func(n ast.Node) bool {
					switch n := n.(type) {
					case *ast.AssignStmt:
						for _, l := range n.Lhs {
							if se, isSel := ast.Unparen(l).(*ast.SelectorExpr); isSel && se.Sel.Name == fld {
								ok = false
							}
						}
					case *ast.ReturnStmt:
						for _, r := range n.Results {
							if _, isLit := ast.Unparen(r).(*ast.CompositeLit); isLit {
								ok = false
							}
							if _, isCall := ast.Unparen(r).(*ast.CallExpr); isCall {
								ok = false
							}
							if id, isId := ast.Unparen(r).(*ast.Ident); isId {
								if v, isVar := f.Info().Uses[id].(*types.Var); isVar && isParamOf(f, v) {
									ok = false
								}
							}
						}
					}
					return true
				})
				return ok
			}
			for _, p := range G.Prods {
				member := G.Types[p.LHS]
				if member == "" || len(p.RHS) < 2 {
					continue
				}
				if _, ok := names[member]; !ok {
					names[member] = nameField(member)
				}
				fld := names[member]
				if fld == "" {
					continue
				}
				if len(p.RHS) == 3 && p.RHS[0] == "'('" && p.RHS[2] == "')'" {
					continue
				}
				cc := gi.Checked.Cases[p.N]
				key := fmt.Sprintf("interp|result of `%s` is a value", p)
				if cc == nil {
					rr.Badp(c.P, key, gi.AstFile.Pos(), "the production has no action: $$ is $1, name included")
					continue
				}
				// follow the action (helpers that open or close the gate inlined): on every path the
				// name member of the final $$ is the empty string, or comes out of a helper whose
				// results never carry a name
				var memberType types.Type
				if v := c.fieldVar("interp", "yySymType", member); v != nil {
					memberType = v.Type()
				}
				if w := c.gateWalkWith(g, p, memberType); w.why == "" && len(w.paths) > 0 && w.yyval != nil {
					verdict := ""
					for _, path := range w.paths {
						v := path.env[w.yyval]
						if v.kind != svStruct {
							verdict = "?"
							break
						}
						mv, ok := v.fields[member]
						if !ok || mv.kind != svStruct {
							verdict = "?"
							break
						}
						nv := mv.fields[fld]
						switch {
						case nv.kind == svConst && nv.c.Kind() == constant.String && constant.StringVal(nv.c) == "":
						case nv.kind == svOpaque && nv.fn != nil && strings.HasPrefix(nv.origin, "call") && clean(nv.fn, fld):
						case nv.kind == svOpaque && strings.HasPrefix(nv.origin, "$"):
							verdict = fmt.Sprintf("on some path $$.%s is still %s: the result keeps the name of an operand and can be assigned to", fld, nv.origin)
						default:
							if verdict == "" {
								verdict = "?"
							}
						}
					}
					if verdict == "" {
						rr.OKp(c.P, key, cc.Pos(), "cleared", fmt.Sprintf("on each of the %d paths through the action the name member of $$ ends up empty", len(w.paths)))
						continue
					}
					if verdict != "?" {
						rr.Badp(c.P, key, cc.Pos(), verdict)
						continue
					}
					// not decided by the walk: the syntactic rule below
				}
				var clear token.Pos
				var taints []token.Pos
				ast.Inspect(cc, func(n ast.Node) bool {
					as, ok := n.(*ast.AssignStmt)
					if !ok {
						return true
					}
					for i, l := range as.Lhs {
						ls := exprStr(l)
						whole, name := ls == "yyVAL."+member, ls == "yyVAL."+member+"."+fld
						if !whole && !name {
							continue
						}
						cleared := false
						if name && len(as.Rhs) == len(as.Lhs) {
							if s, isC := constStr(info, as.Rhs[i]); isC && s == "" {
								cleared = true
							}
						}
						if whole && i == 0 && len(as.Rhs) == 1 {
							if call, isCall := ast.Unparen(as.Rhs[0]).(*ast.CallExpr); isCall {
								if fo := core.StaticCallee(info, call); fo != nil && g.regionSet[c.P.FuncOf(fo)] && clean(c.P.FuncOf(fo), fld) {
									cleared = true
								}
							}
						}
						uncond := len(guardsOf(c.P, as, cc)) == 0
						for x := c.P.Parent(as); x != nil && x != ast.Node(cc); x = c.P.Parent(x) {
							if _, isBlock := x.(*ast.BlockStmt); !isBlock {
								uncond = false
							}
						}
						switch {
						case cleared && uncond:
							if !clear.IsValid() {
								clear = as.Pos()
							}
						case !cleared:
							taints = append(taints, as.Pos())
						}
					}
					return true
				})
				late := false
				for _, t := range taints {
					if !clear.IsValid() || t > clear {
						late = true
					}
				}
				switch {
				case !clear.IsValid():
					rr.Badp(c.P, key, cc.Pos(), fmt.Sprintf("the action never clears $$.%s unconditionally: the result keeps the name goyacc preset from $1 and can be assigned to", fld))
				case late:
					rr.Badp(c.P, key, cc.Pos(), fmt.Sprintf("after clearing $$.%s the action copies an operand or a name into $$: the result of the operator is an lvalue", fld))
				default:
					rr.OKp(c.P, key, clear, "cleared", "name member cleared unconditionally, nothing copied in afterwards")
				}
			}
		}}
}

// gateReslice reports whether n, a slice expression in f, is the pop of the
// gate in the function AR6 balances: PF1 takes its bound from that rule.
func (c *Ctx) gateReslice(f *core.Func, n ast.Node) bool {
	se, ok := n.(*ast.SliceExpr)
	if !ok || f == nil || f.Pkg.Name != "interp" {
		return false
	}
	g := c.gate()
	if g.err != "" || g.leave == nil || g.enter == nil || g.leave != f.Root() {
		return false
	}
	return g.cell.is(f.Info(), se.X) && se.Low == nil && se.High != nil
}

// onlyBelowActions reports whether every call of f is made from a reduce
// action or from a function of which the same holds.
func (c *Ctx) onlyBelowActions(g *gateInfo, f *core.Func, depth int) bool {
	if f == nil || depth > 3 || !g.regionSet[f] || c.P.CG().AddrTaken[f] {
		return false
	}
	sites := 0
	for _, h := range c.funcsOfPkg("interp", true) {
		n := len(c.callsTo(h, f))
		if n == 0 {
			continue
		}
		sites += n
		if h.Generated {
			continue
		}
		if !c.onlyBelowActions(g, h.Root(), depth+1) {
			return false
		}
	}
	return sites > 0
}
