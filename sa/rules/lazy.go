package rules

import (
	"fmt"
	"go/ast"
	"go/token"
	"go/types"
	"sort"
	"strings"

	"verif/sa/core"
)

// ---------------------------------------------------------------------------
// Marker nonterminals and the gate protocol of the arithmetic evaluator.
//
// A yacc evaluator computes in reduce actions, so the right operand of && has
// been reduced - its assignments made, its divisions carried out - before the
// action of && runs.  The grammar therefore splits each lazily evaluated
// operator: a marker nonterminal (`land_lhs: land_expr LAND`) is reduced after
// the deciding operand and before the first token of the lazy one, its action
// opens a gate (enter(live)), the action that follows the lazy operand closes
// it (leave()), and every effect is conditional on the gate (dead()).  The
// functions below recover that structure from the grammar and the code - by
// shape, not by name - so that AR, AR3, AR6 and GR5 can reason about it.

// symOrigin locates a symbol of an inlined right-hand side in the grammar as
// written: production and 1-based index ($idx).
type symOrigin struct {
	prod *Production
	idx  int
}

// inlProd is a production with its marker nonterminals replaced by their
// right-hand sides: the language is the same, the shape is the textbook one.
type inlProd struct {
	top *Production
	rhs []string
	org []symOrigin
}

func (p *inlProd) String() string { return p.top.LHS + ": " + strings.Join(p.rhs, " ") }

// markerNTs returns the nonterminals that exist only to run an action in the
// middle of another production: exactly one production of at least two
// symbols, not recursive, used only as the first symbol of other right-hand
// sides, not the start symbol.
func markerNTs(G *Grammar) map[string]*Production {
	count := map[string]int{}
	only := map[string]*Production{}
	for _, p := range G.Prods {
		count[p.LHS]++
		only[p.LHS] = p
	}
	out := map[string]*Production{}
	for nt, n := range count {
		p := only[nt]
		if n != 1 || nt == G.Start || len(p.RHS) < 2 {
			continue
		}
		ok, used := true, false
		for _, s := range p.RHS {
			if s == nt {
				ok = false
			}
		}
		for _, q := range G.Prods {
			for i, s := range q.RHS {
				if s != nt {
					continue
				}
				used = true
				if i != 0 {
					ok = false
				}
			}
		}
		if ok && used {
			out[nt] = p
		}
	}
	// a marker may begin with a marker (cond_then: cond_if expr ':'), but a cycle
	// of them derives nothing
	for nt := range out {
		seen := map[string]bool{}
		for cur := nt; out[cur] != nil; cur = out[cur].RHS[0] {
			if seen[cur] {
				delete(out, nt)
				break
			}
			seen[cur] = true
		}
	}
	return out
}

// inlineMarkers expands the markers in every production that is not itself a
// marker's.
func inlineMarkers(G *Grammar) ([]*inlProd, map[string]*Production) {
	markers := markerNTs(G)
	var expand func(p *Production, depth int) ([]string, []symOrigin)
	expand = func(p *Production, depth int) (rhs []string, org []symOrigin) {
		for i, s := range p.RHS {
			if m := markers[s]; m != nil && i == 0 && depth < 8 {
				r, o := expand(m, depth+1)
				rhs = append(rhs, r...)
				org = append(org, o...)
				continue
			}
			rhs = append(rhs, s)
			org = append(org, symOrigin{p, i + 1})
		}
		return
	}
	var out []*inlProd
	for _, p := range G.Prods {
		if markers[p.LHS] != nil {
			continue
		}
		r, o := expand(p, 0)
		out = append(out, &inlProd{top: p, rhs: r, org: o})
	}
	return out, markers
}

// lazyOperand is one operand C evaluates conditionally.
type lazyOperand struct {
	op      string // "&&", "||", "?: then", "?: else"
	sym     string // its nonterminal
	prod    *inlProd
	pos     int         // index in prod.rhs
	holder  symOrigin   // where the grammar as written has it ($holder.idx of holder.prod)
	marker  *Production // the production reduced right before its first token; nil: none
	nonZero bool        // evaluated iff the deciding operand is non-zero
}

// gateInfo is what the lazy-evaluation rules share.
type gateInfo struct {
	err      string
	operands []*lazyOperand
	markers  map[string]*Production
	inl      []*inlProd

	field        *types.Var // the gate: a slice field of the lexer
	enter, leave *core.Func
	dead         *core.Func
	region       []*core.Func // hand-written functions reachable from the reduce actions
	regionSet    map[*core.Func]bool
}

func (c *Ctx) spellOf(pkg string) func(string) string {
	spell, _ := c.opsTable(pkg)
	return func(tok string) string {
		if s, ok := spell[tok]; ok {
			return s
		}
		switch tok {
		case "LAND":
			return "&&"
		case "LOR":
			return "||"
		}
		return strings.Trim(tok, "'")
	}
}

// gate analyses (once) the lazily evaluated operators of the interp grammar.
func (c *Ctx) gate() *gateInfo {
	if v, ok := c.cache["gate"]; ok {
		return v.(*gateInfo)
	}
	g := &gateInfo{regionSet: map[*core.Func]bool{}}
	c.cache["gate"] = g
	gi := c.grammar("interp")
	if gi.Err != nil {
		g.err = gi.Err.Error()
		return g
	}
	G := gi.G
	g.inl, g.markers = inlineMarkers(G)
	sp := c.spellOf("interp")
	add := func(p *inlProd, op string, pos int, nonZero bool) {
		o := &lazyOperand{op: op, sym: p.rhs[pos], prod: p, pos: pos, holder: p.org[pos], nonZero: nonZero}
		// the symbol before the operand ends a production other than the one holding the
		// operand: that production has been reduced when the operand's first token is read
		if prev := p.org[pos-1]; prev.prod != o.holder.prod && prev.idx == len(prev.prod.RHS) {
			o.marker = prev.prod
		}
		g.operands = append(g.operands, o)
	}
	for _, p := range g.inl {
		switch {
		case len(p.rhs) == 3 && G.IsTerminal(p.rhs[1]) && sp(p.rhs[1]) == "&&":
			add(p, "&&", 2, true)
		case len(p.rhs) == 3 && G.IsTerminal(p.rhs[1]) && sp(p.rhs[1]) == "||":
			add(p, "||", 2, false)
		case len(p.rhs) == 5 && sp(p.rhs[1]) == "?" && sp(p.rhs[3]) == ":":
			add(p, "?: then", 2, true)
			add(p, "?: else", 4, false)
		}
	}
	// region: hand-written functions of the package statically called from the actions
	pk := c.P.Pkgs["interp"]
	info := pk.TypesInfo
	var work []*core.Func
	push := func(f *core.Func) {
		if f == nil || g.regionSet[f] || f.Generated || f.Body == nil || f.Pkg != pk {
			return
		}
		g.regionSet[f] = true
		g.region = append(g.region, f)
		work = append(work, f)
	}
	for _, p := range G.Prods {
		if cc := gi.Checked.Cases[p.N]; cc != nil {
			ast.Inspect(cc, func(n ast.Node) bool {
				if call, ok := n.(*ast.CallExpr); ok {
					if fo := core.StaticCallee(info, call); fo != nil {
						push(c.P.FuncOf(fo))
					}
				}
				return true
			})
		}
	}
	for len(work) > 0 {
		f := work[0]
		work = work[1:]
		f.OwnNodes(func(n ast.Node) bool {
			if call, ok := n.(*ast.CallExpr); ok {
				if fo := core.StaticCallee(info, call); fo != nil {
					if h := c.P.FuncOf(fo); h != nil && (h.Obj == nil || !h.Obj.Exported()) {
						push(h)
					}
				}
			}
			return true
		})
	}
	sort.Slice(g.region, func(i, j int) bool { return g.region[i].Name < g.region[j].Name })
	// the gate: a function called from a marker's action with one bool argument that
	// appends to a slice field of the lexer
	for _, o := range g.operands {
		if o.marker == nil || g.enter != nil {
			continue
		}
		cc := gi.Checked.Cases[o.marker.N]
		if cc == nil {
			continue
		}
		ast.Inspect(cc, func(n ast.Node) bool {
			call, ok := n.(*ast.CallExpr)
			if !ok || len(call.Args) != 1 || g.enter != nil {
				return true
			}
			if b, ok := info.TypeOf(call.Args[0]).Underlying().(*types.Basic); !ok || b.Info()&types.IsBoolean == 0 {
				return true
			}
			fo := core.StaticCallee(info, call)
			if fo == nil {
				return true
			}
			f := c.P.FuncOf(fo)
			if f == nil || !g.regionSet[f] {
				return true
			}
			if v := appendedField(f); v != nil {
				g.enter, g.field = f, v
			}
			return true
		})
	}
	if g.field == nil {
		return g
	}
	for _, f := range c.funcsOfPkg("interp", false) {
		if f == g.enter || f.Body == nil || f.Decl == nil {
			continue
		}
		fi := f.Info()
		writes, reads, reslices := false, false, false
		f.OwnNodes(func(n ast.Node) bool {
			switch n := n.(type) {
			case *ast.AssignStmt:
				for i, l := range n.Lhs {
					if core.FieldOf(fi, l) == g.field {
						writes = true
						if i < len(n.Rhs) {
							if se, ok := ast.Unparen(n.Rhs[i]).(*ast.SliceExpr); ok && core.FieldOf(fi, se.X) == g.field {
								reslices = true
							}
						}
					}
				}
			case *ast.SelectorExpr:
				if core.FieldOf(fi, n) == g.field {
					reads = true
				}
			}
			return true
		})
		sig := f.Obj.Type().(*types.Signature)
		switch {
		case writes && reslices && g.leave == nil:
			g.leave = f
		case !writes && reads && sig.Params().Len() == 0 && sig.Results().Len() == 1 && isBool(sig.Results().At(0).Type()) && g.dead == nil:
			g.dead = f
		}
	}
	return g
}

func isBool(t types.Type) bool {
	b, ok := t.Underlying().(*types.Basic)
	return ok && b.Info()&types.IsBoolean != 0
}

// appendedField returns the struct field f grows by `x.F = append(x.F, …)`.
func appendedField(f *core.Func) *types.Var {
	var out *types.Var
	fi := f.Info()
	f.OwnNodes(func(n ast.Node) bool {
		as, ok := n.(*ast.AssignStmt)
		if !ok || len(as.Lhs) != 1 || len(as.Rhs) != 1 {
			return true
		}
		v := core.FieldOf(fi, as.Lhs[0])
		call, isCall := ast.Unparen(as.Rhs[0]).(*ast.CallExpr)
		if v == nil || !isCall || len(call.Args) < 2 {
			return true
		}
		if id, ok := call.Fun.(*ast.Ident); ok && id.Name == "append" && core.FieldOf(fi, call.Args[0]) == v {
			if _, isSlice := v.Type().Underlying().(*types.Slice); isSlice {
				out = v
			}
		}
		return true
	})
	return out
}

// gateCalls lists, in source order, the calls of enter (+1) and leave (-1) in
// a reduce action; ok is false when one of them is conditional.
func (c *Ctx) gateCalls(g *gateInfo, cc *ast.CaseClause) (ops []int, calls []*ast.CallExpr, ok bool) {
	ok = true
	info := c.P.Pkgs["interp"].TypesInfo
	ast.Inspect(cc, func(n ast.Node) bool {
		call, isCall := n.(*ast.CallExpr)
		if !isCall {
			return true
		}
		fo := core.StaticCallee(info, call)
		if fo == nil {
			return true
		}
		f := c.P.FuncOf(fo)
		if f == nil || (f != g.enter && f != g.leave) {
			return true
		}
		if f == g.enter {
			ops = append(ops, +1)
		} else {
			ops = append(ops, -1)
		}
		calls = append(calls, call)
		// unconditional: an expression statement of a block of the case, no test around it
		for x := c.P.Parent(call); x != nil && x != ast.Node(cc); x = c.P.Parent(x) {
			switch x.(type) {
			case *ast.ExprStmt, *ast.BlockStmt:
			default:
				ok = false
			}
		}
		if len(guardsOf(c.P, call, cc)) != 0 {
			ok = false
		}
		return true
	})
	return
}

// deadGuarded reports whether node n of function f runs only while the gate is
// open: a test of dead() with negative polarity encloses or precedes it, or -
// for a helper - every call of f in the region does.
func (c *Ctx) deadGuarded(g *gateInfo, f *core.Func, n ast.Node, depth int) bool {
	info := f.Info()
	for _, gd := range guardsOf(c.P, n, nil) {
		if gd.pos {
			continue
		}
		if call, ok := ast.Unparen(gd.cond).(*ast.CallExpr); ok {
			if fo := core.StaticCallee(info, call); fo != nil && c.P.FuncOf(fo) == g.dead {
				return true
			}
		}
	}
	if depth >= 2 || f.Generated || f.Obj == nil || f.Obj.Exported() {
		return false
	}
	sites := 0
	all := true
	for _, h := range g.region {
		hi := h.Info()
		h.OwnNodes(func(x ast.Node) bool {
			if call, ok := x.(*ast.CallExpr); ok {
				if fo := core.StaticCallee(hi, call); fo != nil && c.P.FuncOf(fo) == f {
					sites++
					if !c.deadGuarded(g, h, call, depth+1) {
						all = false
					}
				}
			}
			return true
		})
	}
	// a helper called from a reduce action directly is not covered by its callers
	gi := c.grammar("interp")
	for _, cc := range gi.Checked.Cases {
		ast.Inspect(cc, func(x ast.Node) bool {
			if call, ok := x.(*ast.CallExpr); ok {
				if fo := core.StaticCallee(info, call); fo != nil && c.P.FuncOf(fo) == f {
					all = false
				}
			}
			return true
		})
	}
	return sites > 0 && all
}

// effect is a place of the evaluator that changes or depends on the variable
// store, or may trap.
type effect struct {
	kind string // store | read | trap
	f    *core.Func
	n    ast.Node
}

// effects lists the effects in the hand-written functions below the actions
// and in the actions themselves (f == nil).
func (c *Ctx) effects(g *gateInfo) []effect {
	var out []effect
	set, get := c.fn("interp.(*ExecEnv).Set"), c.fn("interp.(*ExecEnv).Get")
	scan := func(f *core.Func, info *types.Info, root ast.Node, own func(func(ast.Node) bool)) {
		visit := func(n ast.Node) bool {
			switch n := n.(type) {
			case *ast.CallExpr:
				if fo := core.StaticCallee(info, n); fo != nil {
					switch h := c.P.FuncOf(fo); {
					case h != nil && h == set:
						out = append(out, effect{"store", f, n})
					case h != nil && h == get:
						out = append(out, effect{"read", f, n})
					}
				}
			case *ast.BinaryExpr:
				if trapping(info, n.Op, n.X, n.Y) {
					out = append(out, effect{"trap", f, n})
				}
			case *ast.AssignStmt:
				if op, ok := assignBase[n.Tok]; ok && len(n.Lhs) == 1 && len(n.Rhs) == 1 && trapping(info, op, n.Lhs[0], n.Rhs[0]) {
					out = append(out, effect{"trap", f, n})
				}
			}
			return true
		}
		if own != nil {
			own(visit)
		} else {
			ast.Inspect(root, visit)
		}
	}
	for _, f := range g.region {
		if f == set || f == get {
			continue
		}
		scan(f, f.Info(), nil, f.OwnNodes)
	}
	gi := c.grammar("interp")
	info := c.P.Pkgs["interp"].TypesInfo
	var ns []int
	for n := range gi.Checked.Cases {
		ns = append(ns, n)
	}
	sort.Ints(ns)
	for _, n := range ns {
		scan(nil, info, gi.Checked.Cases[n], nil)
	}
	return out
}

var assignBase = map[token.Token]token.Token{token.QUO_ASSIGN: token.QUO, token.REM_ASSIGN: token.REM, token.SHL_ASSIGN: token.SHL, token.SHR_ASSIGN: token.SHR}

// trapping: integer / and % by a divisor that is not a non-zero constant, and
// shifts by a signed count that is not a constant.
func trapping(info *types.Info, op token.Token, x, y ast.Expr) bool {
	tx := info.TypeOf(x)
	if tx == nil {
		return false
	}
	if b, ok := tx.Underlying().(*types.Basic); !ok || b.Info()&types.IsInteger == 0 {
		return false
	}
	tv := info.Types[y]
	switch op {
	case token.QUO, token.REM:
		return tv.Value == nil || tv.Value.String() == "0"
	case token.SHL, token.SHR:
		if tv.Value != nil {
			return false
		}
		b, ok := info.TypeOf(y).Underlying().(*types.Basic)
		return ok && b.Info()&types.IsUnsigned == 0
	}
	return false
}

// decidingTest reports whether e, one conjunct of enter's argument, compares
// the deciding operand's value with 0, and with which operator.  The value is
// a member of yyVAL that this action assigns from expand(…, $1) where $1 is
// the deciding operand, or that it copies from $1 when $1 is itself a marker
// whose action did so.
func (c *Ctx) decidingTest(g *gateInfo, marker *Production, e ast.Expr) (nonZero, ok bool) {
	be, isBin := ast.Unparen(e).(*ast.BinaryExpr)
	if !isBin || (be.Op != token.NEQ && be.Op != token.EQL) {
		return false, false
	}
	if lit, isLit := ast.Unparen(be.Y).(*ast.BasicLit); !isLit || lit.Value != "0" {
		return false, false
	}
	if !c.decidingValue(g, marker, exprStr(be.X), 0) {
		return false, false
	}
	return be.Op == token.NEQ, true
}

func (c *Ctx) decidingValue(g *gateInfo, p *Production, x string, depth int) bool {
	gi := c.grammar("interp")
	cc := gi.Checked.Cases[p.N]
	if cc == nil || depth > 4 || !strings.HasPrefix(x, "yyVAL.") {
		return false
	}
	info := c.P.Pkgs["interp"].TypesInfo
	expand := c.fn("interp.expand")
	found := false
	ast.Inspect(cc, func(n ast.Node) bool {
		as, ok := n.(*ast.AssignStmt)
		if !ok || found {
			return true
		}
		for i, l := range as.Lhs {
			ls := exprStr(l)
			switch {
			case ls == x && len(as.Rhs) == 1:
				// yyVAL.m.f, … = expand(yylex, yyDollar[1].m')
				if call, isCall := ast.Unparen(as.Rhs[0]).(*ast.CallExpr); isCall && i == 0 && len(call.Args) == 2 {
					if fo := core.StaticCallee(info, call); fo != nil && c.P.FuncOf(fo) == expand {
						if k, _, isVal, isD := dollar(call.Args[1]); isD && !isVal && k == 1 && g.markers[p.RHS[0]] == nil {
							found = true
						}
					}
				}
			case strings.HasPrefix(x, ls+".") && len(as.Lhs) == len(as.Rhs):
				// yyVAL.m = yyDollar[1].m with $1 a marker that computed it
				if k, _, isVal, isD := dollar(as.Rhs[i]); isD && !isVal && k == 1 {
					if m := g.markers[p.RHS[0]]; m != nil && c.decidingValue(g, m, x, depth+1) {
						found = true
					}
				}
			}
		}
		return true
	})
	return found
}

// conjuncts flattens a && b && c.
func conjuncts(e ast.Expr) []ast.Expr {
	e = ast.Unparen(e)
	if be, ok := e.(*ast.BinaryExpr); ok && be.Op == token.LAND {
		return append(conjuncts(be.X), conjuncts(be.Y)...)
	}
	return []ast.Expr{e}
}

// ---------------------------------------------------------------------------
// AR1 on a gated grammar.

// gated decides one lazy operand that has a marker: the gate is opened with
// the right polarity before the operand and closed after it.  It returns a
// description or the reason it fails.
func (c *Ctx) gatedOperand(g *gateInfo, o *lazyOperand) (string, error) {
	gi := c.grammar("interp")
	info := c.P.Pkgs["interp"].TypesInfo
	if g.enter == nil || g.leave == nil || g.dead == nil {
		return "", fmt.Errorf("the marker production `%s` precedes the operand, but no gate was recognised (a function appending to a slice field of the lexer called from it with a bool argument, one reslicing that field, and a predicate reading it)", o.marker)
	}
	mc := gi.Checked.Cases[o.marker.N]
	ops, calls, uncond := c.gateCalls(g, mc)
	if len(ops) == 0 || ops[len(ops)-1] != +1 {
		return "", fmt.Errorf("the action of `%s`, reduced before the operand is parsed, does not end by opening the gate (%s)", o.marker, g.enter.Name)
	}
	if !uncond {
		return "", fmt.Errorf("the action of `%s` opens the gate only conditionally", o.marker)
	}
	arg := calls[len(calls)-1].Args[0]
	var pol *bool
	for _, cj := range conjuncts(arg) {
		if nz, ok := c.decidingTest(g, o.marker, cj); ok {
			v := nz
			pol = &v
		}
	}
	switch {
	case pol == nil:
		return "", fmt.Errorf("the gate opened by `%s` is not a comparison of the deciding operand's value with 0: %s", o.marker, types.ExprString(arg))
	case *pol != o.nonZero:
		want, got := "!= 0", "== 0"
		if !o.nonZero {
			want, got = got, want
		}
		return "", fmt.Errorf("`%s` opens the gate when the deciding operand is %s; C evaluates this operand of %s when it is %s", o.marker, got, o.op, want)
	}
	hc := gi.Checked.Cases[o.holder.prod.N]
	hops, _, huncond := c.gateCalls(g, hc)
	if len(hops) == 0 || hops[0] != -1 || !huncond {
		return "", fmt.Errorf("the action of `%s`, the first one to run after the operand, does not begin by closing the gate unconditionally (%s)", o.holder.prod, g.leave.Name)
	}
	_ = info
	return fmt.Sprintf("`%s` opens the gate iff $1 %s, `%s` closes it", o.marker, map[bool]string{true: "!= 0", false: "== 0"}[o.nonZero], o.holder.prod), nil
}

// gateShape checks enter and dead themselves.
func (c *Ctx) gateShape(g *gateInfo, rr *core.RuleResult) {
	// enter appends live && !dead(): an operand inside a skipped operand is skipped
	ei := g.enter.Info()
	var param types.Object
	if g.enter.Type.Params != nil {
		for _, fld := range g.enter.Type.Params.List {
			for _, nm := range fld.Names {
				param = ei.Defs[nm]
			}
		}
	}
	mono := false
	var appended ast.Expr
	g.enter.OwnNodes(func(n ast.Node) bool {
		if as, ok := n.(*ast.AssignStmt); ok && len(as.Lhs) == 1 && core.FieldOf(ei, as.Lhs[0]) == g.field {
			if call, ok := ast.Unparen(as.Rhs[0]).(*ast.CallExpr); ok && len(call.Args) == 2 {
				appended = call.Args[1]
			}
		}
		return true
	})
	if appended != nil {
		hasParam, hasDead := false, false
		for _, cj := range conjuncts(appended) {
			if id, ok := cj.(*ast.Ident); ok && ei.Uses[id] == param {
				hasParam = true
			}
			if u, ok := cj.(*ast.UnaryExpr); ok && u.Op == token.NOT {
				if call, ok := ast.Unparen(u.X).(*ast.CallExpr); ok {
					if fo := core.StaticCallee(ei, call); fo != nil && c.P.FuncOf(fo) == g.dead {
						hasDead = true
					}
				}
			}
		}
		mono = hasParam && hasDead
	}
	key := "interp|gate: nested operands inherit"
	if mono {
		rr.OKp(c.P, key, g.enter.Pos(), "monotone", fmt.Sprintf("%s pushes live && !%s(): inside an operand that is not evaluated nothing is", g.enter.Name, g.dead.Short))
	} else {
		rr.Badp(c.P, key, g.enter.Pos(), fmt.Sprintf("%s does not push `live && !dead()`: an operand nested in a skipped operand (`0 && (1 || (x = 1))`) would be evaluated", g.enter.Name))
	}
	// dead: the innermost entry, negated; false when no gate is open
	di := g.dead.Info()
	okShape := false
	g.dead.OwnNodes(func(n ast.Node) bool {
		ret, ok := n.(*ast.ReturnStmt)
		if !ok || len(ret.Results) != 1 {
			return true
		}
		top, nonEmpty := false, false
		for _, cj := range conjuncts(ret.Results[0]) {
			if u, ok := cj.(*ast.UnaryExpr); ok && u.Op == token.NOT {
				if ix, ok := ast.Unparen(u.X).(*ast.IndexExpr); ok && core.FieldOf(di, ix.X) == g.field && isLenMinus1(di, ix.Index, g.field) {
					top = true
				}
			}
			if be, ok := cj.(*ast.BinaryExpr); ok && isLenOf(di, be.X, g.field) {
				if v, isInt := evalInt(be.Y); isInt && ((be.Op == token.NEQ && v == 0) || (be.Op == token.GTR && v == 0) || (be.Op == token.GEQ && v == 1)) {
					nonEmpty = true
				}
			}
		}
		if top && nonEmpty {
			okShape = true
		}
		return true
	})
	key = "interp|gate: predicate reads the innermost entry"
	if okShape {
		rr.OKp(c.P, key, g.dead.Pos(), "top-of-stack", fmt.Sprintf("%s is `len(F) != 0 && !F[len(F)-1]`", g.dead.Name))
	} else {
		rr.Unkp(c.P, key, g.dead.Pos(), fmt.Sprintf("%s is not of the form `len(F) != 0 && !F[len(F)-1]`; whether it reports the innermost open gate is not decided", g.dead.Name))
	}
	// only enter and leave write the gate, and only reduce actions call them
	key = "interp|gate: written by the actions only"
	var bad []string
	for _, f := range c.funcsOfPkg("interp", true) {
		if f.Body == nil {
			continue
		}
		fi := f.Info()
		f.OwnNodes(func(n ast.Node) bool {
			switch n := n.(type) {
			case *ast.AssignStmt:
				for _, l := range n.Lhs {
					if core.FieldOf(fi, l) == g.field && f != g.enter && f != g.leave {
						bad = append(bad, fmt.Sprintf("%s assigns the gate", f.Name))
					}
				}
			case *ast.UnaryExpr:
				if n.Op == token.AND && core.FieldOf(fi, n.X) == g.field {
					bad = append(bad, fmt.Sprintf("%s takes the gate's address", f.Name))
				}
			case *ast.CallExpr:
				if fo := core.StaticCallee(fi, n); fo != nil {
					if h := c.P.FuncOf(fo); h != nil && (h == g.enter || h == g.leave) && !f.Generated {
						bad = append(bad, fmt.Sprintf("%s calls %s outside a reduce action", f.Name, h.Name))
					}
				}
			}
			return true
		})
	}
	for _, f := range []*core.Func{g.enter, g.leave} {
		if c.P.CG().AddrTaken[f] {
			bad = append(bad, f.Name+" is used as a value")
		}
	}
	if len(bad) == 0 {
		rr.OKp(c.P, key, g.enter.Pos(), "closed-world", fmt.Sprintf("%s and %s are the only writers of the lexer's %s and are called from reduce actions only", g.enter.Name, g.leave.Name, g.field.Name()))
	} else {
		sort.Strings(bad)
		rr.Badp(c.P, key, g.enter.Pos(), strings.Join(bad, "; "))
	}
}

func isLenOf(info *types.Info, e ast.Expr, fld *types.Var) bool {
	call, ok := ast.Unparen(e).(*ast.CallExpr)
	if !ok || len(call.Args) != 1 {
		return false
	}
	id, ok := call.Fun.(*ast.Ident)
	return ok && id.Name == "len" && core.FieldOf(info, call.Args[0]) == fld
}

func isLenMinus1(info *types.Info, e ast.Expr, fld *types.Var) bool {
	be, ok := ast.Unparen(e).(*ast.BinaryExpr)
	if !ok || be.Op != token.SUB || !isLenOf(info, be.X, fld) {
		return false
	}
	v, isInt := evalInt(be.Y)
	return isInt && v == 1
}

// gateEffects checks that every store, variable read and trapping operator
// below the actions runs only while the gate is open.
func (c *Ctx) gateEffects(g *gateInfo, rr *core.RuleResult) {
	counts := map[string]int{}
	var bad []string
	var badPos token.Pos
	for _, e := range c.effects(g) {
		counts[e.kind]++
		if e.f == nil {
			bad = append(bad, fmt.Sprintf("%s in a reduce action at %s", e.kind, c.P.PosString(e.n.Pos())))
			badPos = e.n.Pos()
			continue
		}
		if !c.deadGuarded(g, e.f, e.n, 0) {
			bad = append(bad, fmt.Sprintf("%s in %s (%s)", e.kind, e.f.Name, exprOrStmt(e.n)))
			badPos = e.n.Pos()
		}
	}
	key := "interp|gate: effects are conditional on it"
	switch {
	case counts["store"] == 0 || counts["trap"] == 0 || counts["read"] == 0:
		rr.Unkp(c.P, key, g.dead.Pos(), fmt.Sprintf("found %d stores, %d variable reads, %d trapping operators below the reduce actions: the evaluator's effects were not located", counts["store"], counts["read"], counts["trap"]))
	case len(bad) == 0:
		rr.OKp(c.P, key, g.dead.Pos(), "guarded", fmt.Sprintf("%d store(s), %d variable read(s), %d trapping operator(s) below the reduce actions, each after a test of %s", counts["store"], counts["read"], counts["trap"], g.dead.Name))
	default:
		sort.Strings(bad)
		rr.Badp(c.P, key, badPos, "executed in an operand C would skip: "+strings.Join(bad, "; "))
	}
}

func exprOrStmt(n ast.Node) string {
	if e, ok := n.(ast.Expr); ok {
		return types.ExprString(e)
	}
	if as, ok := n.(*ast.AssignStmt); ok && len(as.Lhs) == 1 && len(as.Rhs) == 1 {
		return types.ExprString(as.Lhs[0]) + " " + as.Tok.String() + " " + types.ExprString(as.Rhs[0])
	}
	return fmt.Sprintf("%T", n)
}

// ---------------------------------------------------------------------------
// AR6: the gate is balanced.

func ruleAR6() Rule {
	return Rule{ID: "AR6", Kind: "pairing", Floor: 1,
		Doc: "every derivation opens and closes the gate of the lazily evaluated operands in pairs: each nonterminal has one net effect on the gate's depth whichever production derives it, the start symbol's is 0, and wherever an action closes the gate the symbols and calls before it in the same production have opened one (so the reslice in leave is in range and the predicate reads the entry of the operand being parsed)",
		Run: func(c *Ctx, rr *core.RuleResult) {
			g := c.gate()
			gi := c.grammar("interp")
			if g.err != "" {
				rr.Unkp(c.P, "interp|grammar", 0, g.err)
				return
			}
			key := "interp|gate balance"
			if g.enter == nil || g.leave == nil {
				rr.OKp(c.P, key, gi.AstFile.Pos(), "no-gate", "the grammar has no marker production that opens a gate; nothing to balance")
				return
			}
			G := gi.G
			net := map[string]int{}
			known := map[string]bool{}
			var bad []string
			for changed := true; changed; {
				changed = false
				for _, p := range G.Prods {
					depth, ok := 0, true
					for _, s := range p.RHS {
						if G.IsTerminal(s) {
							continue
						}
						if s == p.LHS && !known[s] {
							// left/right recursion: assume the net effect the other productions give
							ok = false
							break
						}
						if !known[s] {
							ok = false
							break
						}
						depth += net[s]
					}
					if !ok {
						continue
					}
					if cc := gi.Checked.Cases[p.N]; cc != nil {
						ops, _, uncond := c.gateCalls(g, cc)
						if !uncond {
							bad = append(bad, fmt.Sprintf("`%s` opens or closes the gate conditionally", p))
						}
						for _, op := range ops {
							if op < 0 && depth < 1 {
								bad = append(bad, fmt.Sprintf("`%s` closes a gate that this production did not open", p))
							}
							depth += op
						}
					}
					if !known[p.LHS] {
						known[p.LHS], net[p.LHS] = true, depth
						changed = true
					} else if net[p.LHS] != depth {
						bad = append(bad, fmt.Sprintf("`%s` leaves the gate at depth %+d, another production of %s at %+d", p, depth, p.LHS, net[p.LHS]))
					}
				}
			}
			var undecided []string
			for _, p := range G.Prods {
				if !known[p.LHS] {
					undecided = append(undecided, p.LHS)
				}
			}
			bad = uniqStrings(bad)
			switch {
			case len(bad) != 0:
				rr.Badp(c.P, key, g.leave.Pos(), strings.Join(bad, "; "))
			case len(undecided) != 0:
				rr.Unkp(c.P, key, g.leave.Pos(), "net effect not determined for "+strings.Join(uniqStrings(undecided), ", "))
			case net[G.Start] != 0:
				rr.Badp(c.P, key, g.leave.Pos(), fmt.Sprintf("a complete expression leaves the gate at depth %+d", net[G.Start]))
			default:
				var ms []string
				for nt, n := range net {
					if n != 0 {
						ms = append(ms, fmt.Sprintf("%s %+d", nt, n))
					}
				}
				sort.Strings(ms)
				rr.OKp(c.P, key, g.leave.Pos(), "balanced", fmt.Sprintf("%d productions; nonterminals with a net effect: %s; all others and the start symbol 0; every close follows an open of the same production", len(G.Prods), strings.Join(ms, ", ")))
			}
		}}
}

func uniqStrings(in []string) []string {
	sort.Strings(in)
	var out []string
	for i, s := range in {
		if i == 0 || s != in[i-1] {
			out = append(out, s)
		}
	}
	return out
}

// ---------------------------------------------------------------------------
// RV1: operators yield values, not names.

func ruleRV1() Rule {
	return Rule{ID: "RV1", Kind: "must", Floor: 20,
		Doc: "the result of every operator production of the arithmetic grammar is a value: its action clears the name member of $$ unconditionally (`$$.s = \"\"`, or $$ assigned from a helper whose result never carries a name) and does not copy an operand or a name into $$ afterwards - goyacc presets $$ to $1, so an action that does not do so leaves `x++` or `a ? b : c` assignable and `x++ = 1` is accepted instead of being reported as an assignment to a non-lvalue; only the parenthesised expression hands its operand on",
		Run: func(c *Ctx, rr *core.RuleResult) {
			gi := c.grammar("interp")
			if gi.Err != nil {
				rr.Unkp(c.P, "interp|grammar", 0, gi.Err.Error())
				return
			}
			G := gi.G
			info := c.P.Pkgs["interp"].TypesInfo
			g := c.gate()
			// the union member holding expressions: a struct with a string field (the name)
			nameField := func(member string) string {
				var out string
				for _, cc := range gi.Checked.Cases {
					ast.Inspect(cc, func(n ast.Node) bool {
						se, ok := n.(*ast.SelectorExpr)
						if !ok || out != "" {
							return true
						}
						if _, m, _, isD := dollar(se); isD && m == member {
							if st, ok := info.TypeOf(se).Underlying().(*types.Struct); ok {
								for i := 0; i < st.NumFields(); i++ {
									if b, ok := st.Field(i).Type().Underlying().(*types.Basic); ok && b.Kind() == types.String {
										out = st.Field(i).Name()
									}
								}
							}
						}
						return true
					})
				}
				return out
			}
			names := map[string]string{}
			// helpers whose result never carries a name: no assignment to the name field of
			// a value of the expression type anywhere in them
			clean := func(f *core.Func, fld string) bool {
				if f == nil || f.Body == nil || f.Generated {
					return false
				}
				ok := true
				f.OwnNodes(func(n ast.Node) bool {
					switch n := n.(type) {
					case *ast.AssignStmt:
						for _, l := range n.Lhs {
							if se, isSel := ast.Unparen(l).(*ast.SelectorExpr); isSel && se.Sel.Name == fld {
								ok = false
							}
						}
					case *ast.ReturnStmt:
						for _, r := range n.Results {
							if _, isLit := ast.Unparen(r).(*ast.CompositeLit); isLit {
								ok = false
							}
							if call, isCall := ast.Unparen(r).(*ast.CallExpr); isCall {
								_ = call
								ok = false
							}
						}
					}
					return true
				})
				return ok
			}
			for _, p := range G.Prods {
				member := G.Types[p.LHS]
				if member == "" || len(p.RHS) < 2 {
					continue
				}
				if _, ok := names[member]; !ok {
					names[member] = nameField(member)
				}
				fld := names[member]
				if fld == "" {
					continue
				}
				if len(p.RHS) == 3 && p.RHS[0] == "'('" && p.RHS[2] == "')'" {
					continue
				}
				cc := gi.Checked.Cases[p.N]
				key := fmt.Sprintf("interp|result of `%s` is a value", p)
				if cc == nil {
					rr.Badp(c.P, key, gi.AstFile.Pos(), "the production has no action: $$ is $1, name included")
					continue
				}
				var clear token.Pos
				var taints []token.Pos
				ast.Inspect(cc, func(n ast.Node) bool {
					as, ok := n.(*ast.AssignStmt)
					if !ok {
						return true
					}
					for i, l := range as.Lhs {
						ls := exprStr(l)
						whole, name := ls == "yyVAL."+member, ls == "yyVAL."+member+"."+fld
						if !whole && !name {
							continue
						}
						cleared := false
						if name && len(as.Rhs) == len(as.Lhs) {
							if s, isC := constStr(info, as.Rhs[i]); isC && s == "" {
								cleared = true
							}
						}
						if whole && i == 0 && len(as.Rhs) == 1 {
							if call, isCall := ast.Unparen(as.Rhs[0]).(*ast.CallExpr); isCall {
								if fo := core.StaticCallee(info, call); fo != nil && g.regionSet[c.P.FuncOf(fo)] && clean(c.P.FuncOf(fo), fld) {
									cleared = true
								}
							}
						}
						uncond := len(guardsOf(c.P, as, cc)) == 0
						for x := c.P.Parent(as); x != nil && x != ast.Node(cc); x = c.P.Parent(x) {
							if _, isBlock := x.(*ast.BlockStmt); !isBlock {
								uncond = false
							}
						}
						switch {
						case cleared && uncond:
							if !clear.IsValid() {
								clear = as.Pos()
							}
						case !cleared:
							taints = append(taints, as.Pos())
						}
					}
					return true
				})
				late := false
				for _, t := range taints {
					if !clear.IsValid() || t > clear {
						late = true
					}
				}
				switch {
				case !clear.IsValid():
					rr.Badp(c.P, key, cc.Pos(), fmt.Sprintf("the action never clears $$.%s unconditionally: the result keeps the name goyacc preset from $1 and can be assigned to", fld))
				case late:
					rr.Badp(c.P, key, cc.Pos(), fmt.Sprintf("after clearing $$.%s the action copies an operand or a name into $$: the result of the operator is an lvalue", fld))
				default:
					rr.OKp(c.P, key, clear, "cleared", "name member cleared unconditionally, nothing copied in afterwards")
				}
			}
		}}
}
