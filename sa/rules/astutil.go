package rules

import (
	"go/ast"
	"go/constant"
	"go/token"
	"go/types"
	"sort"
	"strings"

	"verif/sa/core"
)

// isBuiltinCall reports whether c calls the named builtin.
func isBuiltinCall(info *types.Info, c *ast.CallExpr, name string) bool {
	id, ok := ast.Unparen(c.Fun).(*ast.Ident)
	if !ok {
		return false
	}
	b, ok := info.Uses[id].(*types.Builtin)
	return ok && b.Name() == name
}

// calleeName returns pkgpath.Name or pkg.(recv).Name for a static callee.
func calleeName(info *types.Info, c *ast.CallExpr) string {
	fo := core.StaticCallee(info, c)
	if fo == nil {
		return ""
	}
	return funcObjName(fo)
}

func funcObjName(fo *types.Func) string {
	// repository functions are reported under their reference-tree names
	if p := core.CurrentProgram; p != nil {
		if n := p.CanonFuncName(fo); n != "" {
			if f := p.FuncOf(fo); f != nil {
				return repoPath + f.Pkg.Name + "." + f.Short
			}
		}
	}
	sig, _ := fo.Type().(*types.Signature)
	pkg := ""
	if fo.Pkg() != nil {
		pkg = fo.Pkg().Path()
	}
	if sig != nil && sig.Recv() != nil {
		t := sig.Recv().Type()
		ptr := ""
		if p, ok := t.(*types.Pointer); ok {
			t = p.Elem()
			ptr = "*"
		}
		if n, ok := t.(*types.Named); ok {
			if ptr != "" {
				return pkg + ".(*" + n.Obj().Name() + ")." + fo.Name()
			}
			return pkg + "." + n.Obj().Name() + "." + fo.Name()
		}
		return pkg + ".?." + fo.Name()
	}
	return pkg + "." + fo.Name()
}

const repoPath = "github.com/hattya/go.sh/"

// constRunes returns the rune/int constants of a case list.
func constVals(info *types.Info, list []ast.Expr) []constant.Value {
	var out []constant.Value
	for _, e := range list {
		if tv, ok := info.Types[e]; ok && tv.Value != nil {
			out = append(out, tv.Value)
		}
	}
	return out
}

func constStr(info *types.Info, e ast.Expr) (string, bool) {
	if tv, ok := info.Types[e]; ok && tv.Value != nil && tv.Value.Kind() == constant.String {
		return constant.StringVal(tv.Value), true
	}
	return "", false
}

func constInt(info *types.Info, e ast.Expr) (int64, bool) {
	if tv, ok := info.Types[e]; ok && tv.Value != nil && tv.Value.Kind() == constant.Int {
		return constant.Int64Val(tv.Value)
	}
	return 0, false
}

// runeSet renders a set of runes for messages.
func runeSetString(m map[rune]bool) string {
	var rs []int
	for r := range m {
		rs = append(rs, int(r))
	}
	sort.Ints(rs)
	var b strings.Builder
	for i, r := range rs {
		if i > 0 {
			b.WriteByte(' ')
		}
		b.WriteString(strings.Trim(strconvQuoteRune(rune(r)), "'"))
	}
	return b.String()
}

func strconvQuoteRune(r rune) string {
	switch r {
	case '\n':
		return `'\n'`
	case '\t':
		return `'\t'`
	}
	return "'" + string(r) + "'"
}

// enclosing returns the nearest ancestor of n satisfying pred (excluding n).
func enclosing(p *core.Program, n ast.Node, pred func(ast.Node) bool) ast.Node {
	for x := p.Parent(n); x != nil; x = p.Parent(x) {
		if pred(x) {
			return x
		}
	}
	return nil
}

// enclosingCase returns the case clause containing n, if any, up to the
// function boundary.
func enclosingCase(p *core.Program, n ast.Node) *ast.CaseClause {
	for x := p.Parent(n); x != nil; x = p.Parent(x) {
		switch x := x.(type) {
		case *ast.CaseClause:
			return x
		case *ast.FuncDecl, *ast.FuncLit:
			return nil
		}
	}
	return nil
}

// stmtIndex returns the index of the top-level statement of list containing n.
func stmtIndex(p *core.Program, list []ast.Stmt, n ast.Node) int {
	for i, s := range list {
		if s.Pos() <= n.Pos() && n.End() <= s.End() {
			return i
		}
	}
	return -1
}

// isNilIdent reports whether e is the predeclared nil.
func isNilIdent(info *types.Info, e ast.Expr) bool {
	id, ok := ast.Unparen(e).(*ast.Ident)
	if !ok {
		return false
	}
	if _, isNil := info.Uses[id].(*types.Nil); isNil {
		return true
	}
	// the nil of a guard synthesised from a type switch (`case nil:`)
	return synthNil[id]
}

// synthNil marks identifiers created by guardsOf for `case nil` clauses.
var synthNil = map[*ast.Ident]bool{}

// typeSwitchOperand returns X of `switch [v :=] X.(type)`.
func typeSwitchOperand(ts *ast.TypeSwitchStmt) ast.Expr {
	var e ast.Expr
	switch a := ts.Assign.(type) {
	case *ast.ExprStmt:
		e = a.X
	case *ast.AssignStmt:
		if len(a.Rhs) == 1 {
			e = a.Rhs[0]
		}
	}
	if ta, ok := ast.Unparen(e).(*ast.TypeAssertExpr); ok {
		return ta.X
	}
	return nil
}

// fieldSel reports whether e is a selector of the named field of a struct
// type named typ declared in package pkg (by package name).
func fieldSel(info *types.Info, e ast.Expr, pkg, typ, field string) bool {
	v := core.FieldOf(info, e)
	if v == nil || v.Name() != field || v.Pkg() == nil || v.Pkg().Name() != pkg {
		return false
	}
	se := ast.Unparen(e).(*ast.SelectorExpr)
	t := info.Types[se.X].Type
	if t == nil {
		return false
	}
	if p, ok := t.Underlying().(*types.Pointer); ok {
		t = p.Elem()
	}
	if n, ok := t.(*types.Named); ok {
		return n.Obj().Name() == typ
	}
	return false
}

// fieldVar finds the types.Var of a struct field.
func (c *Ctx) fieldVar(pkg, typ, field string) *types.Var {
	pk := c.P.Pkgs[pkg]
	if pk == nil {
		return nil
	}
	obj := pk.Types.Scope().Lookup(typ)
	if obj == nil {
		return nil
	}
	st, ok := obj.Type().Underlying().(*types.Struct)
	if !ok {
		return nil
	}
	for i := 0; i < st.NumFields(); i++ {
		if st.Field(i).Name() == field {
			return st.Field(i)
		}
	}
	return nil
}

// goRoots returns the functions started by go statements, with the
// statement and the enclosing function.
type goRoot struct {
	Stmt   *ast.GoStmt
	In     *core.Func
	Target *core.Func
}

func (c *Ctx) goRoots() []goRoot {
	var out []goRoot
	cg := c.P.CG()
	for _, f := range c.P.Funcs {
		if f.Generated {
			continue
		}
		f.OwnNodes(func(n ast.Node) bool {
			if gs, ok := n.(*ast.GoStmt); ok {
				for _, t := range cg.Callees(f, gs.Call) {
					out = append(out, goRoot{Stmt: gs, In: f, Target: t})
				}
			}
			return true
		})
	}
	sort.Slice(out, func(i, j int) bool { return out[i].Stmt.Pos() < out[j].Stmt.Pos() })
	return out
}

// deferredLit returns the literal of `defer func(){...}()` if s is one.
func deferredLit(s ast.Stmt) *ast.FuncLit {
	ds, ok := s.(*ast.DeferStmt)
	if !ok {
		return nil
	}
	fl, _ := ast.Unparen(ds.Call.Fun).(*ast.FuncLit)
	return fl
}

func isTok(op token.Token, ops ...token.Token) bool {
	for _, o := range ops {
		if op == o {
			return true
		}
	}
	return false
}

// namedTypeName returns pkgname.Type for named (or pointer to named) types.
func namedTypeName(t types.Type) string {
	ptr := ""
	if p, ok := t.(*types.Pointer); ok {
		t = p.Elem()
		ptr = "*"
	}
	if n, ok := t.(*types.Named); ok {
		if n.Obj().Pkg() != nil {
			return ptr + n.Obj().Pkg().Name() + "." + n.Obj().Name()
		}
		return ptr + n.Obj().Name()
	}
	return t.String()
}

// normExpr prints an expression with every local variable (parameters,
// receivers and results included) replaced by its type in ‹›, so that keys
// built from it do not depend on how locals are named.
func normExpr(info *types.Info, e ast.Expr) string {
	var b strings.Builder
	writeNorm(&b, info, e)
	return b.String()
}

func shortType(t types.Type) string {
	return types.TypeString(t, func(p *types.Package) string { return p.Name() })
}

func writeNorm(b *strings.Builder, info *types.Info, e ast.Expr) {
	switch e := e.(type) {
	case nil:
	case *ast.Ident:
		obj := info.Uses[e]
		if obj == nil {
			obj = info.Defs[e]
		}
		if v, ok := obj.(*types.Var); ok && !v.IsField() && v.Pkg() != nil && v.Parent() != v.Pkg().Scope() {
			b.WriteString("‹" + shortType(v.Type()) + "›")
			return
		}
		b.WriteString(e.Name)
	case *ast.ParenExpr:
		b.WriteByte('(')
		writeNorm(b, info, e.X)
		b.WriteByte(')')
	case *ast.SelectorExpr:
		writeNorm(b, info, e.X)
		b.WriteByte('.')
		b.WriteString(e.Sel.Name)
	case *ast.IndexExpr:
		writeNorm(b, info, e.X)
		b.WriteByte('[')
		writeNorm(b, info, e.Index)
		b.WriteByte(']')
	case *ast.SliceExpr:
		writeNorm(b, info, e.X)
		b.WriteByte('[')
		writeNorm(b, info, e.Low)
		b.WriteByte(':')
		writeNorm(b, info, e.High)
		if e.Max != nil {
			b.WriteByte(':')
			writeNorm(b, info, e.Max)
		}
		b.WriteByte(']')
	case *ast.StarExpr:
		b.WriteByte('*')
		writeNorm(b, info, e.X)
	case *ast.UnaryExpr:
		b.WriteString(e.Op.String())
		writeNorm(b, info, e.X)
	case *ast.BinaryExpr:
		writeNorm(b, info, e.X)
		b.WriteString(" " + e.Op.String() + " ")
		writeNorm(b, info, e.Y)
	case *ast.CallExpr:
		writeNorm(b, info, e.Fun)
		b.WriteByte('(')
		for i, a := range e.Args {
			if i > 0 {
				b.WriteString(", ")
			}
			writeNorm(b, info, a)
		}
		b.WriteByte(')')
	case *ast.TypeAssertExpr:
		writeNorm(b, info, e.X)
		b.WriteString(".(")
		if e.Type == nil {
			b.WriteString("type")
		} else {
			b.WriteString(types.ExprString(e.Type))
		}
		b.WriteByte(')')
	default:
		b.WriteString(types.ExprString(e))
	}
}

// isLenFieldEq reports whether cond is `len(X.field) == k` for the named
// struct field (whatever X is called).
func isLenFieldEq(info *types.Info, cond ast.Expr, pkg, typ, field string, k int64) bool {
	be, ok := ast.Unparen(cond).(*ast.BinaryExpr)
	if !ok || be.Op != token.EQL {
		return false
	}
	if v, ok := constInt(info, be.Y); !ok || v != k {
		return false
	}
	call, ok := ast.Unparen(be.X).(*ast.CallExpr)
	if !ok || !isBuiltinCall(info, call, "len") || len(call.Args) != 1 {
		return false
	}
	return fieldSel(info, call.Args[0], pkg, typ, field)
}

// okVarOfAssert reports whether cond is the boolean variable bound by a
// comma-ok type assertion to the named type (v, ok := x.(T); ok).
func okVarOfAssert(p *core.Program, f *core.Func, cond ast.Expr, typeName string) bool {
	id, ok := ast.Unparen(cond).(*ast.Ident)
	if !ok {
		return false
	}
	info := f.Info()
	obj := info.Uses[id]
	if obj == nil {
		return false
	}
	found := false
	ast.Inspect(f.Root().Body, func(n ast.Node) bool {
		as, isAs := n.(*ast.AssignStmt)
		if !isAs || len(as.Lhs) != 2 || len(as.Rhs) != 1 {
			return true
		}
		lid, isID := as.Lhs[1].(*ast.Ident)
		if !isID || (info.Defs[lid] != obj && info.Uses[lid] != obj) {
			return true
		}
		if ta, isTA := ast.Unparen(as.Rhs[0]).(*ast.TypeAssertExpr); isTA && ta.Type != nil && namedTypeName(info.Types[ta.Type].Type) == typeName {
			found = true
		}
		return true
	})
	return found
}

// callsFunc reports whether e contains a static call of g.
func (c *Ctx) callsFunc(info *types.Info, e ast.Node, g *core.Func) bool {
	if g == nil || e == nil {
		return false
	}
	found := false
	ast.Inspect(e, func(n ast.Node) bool {
		if call, ok := n.(*ast.CallExpr); ok {
			if fo := core.StaticCallee(info, call); fo != nil && c.P.FuncOf(fo) == g {
				found = true
			}
		}
		return true
	})
	return found
}

func isErrorType(t types.Type) bool {
	return t != nil && types.Identical(t, types.Universe.Lookup("error").Type())
}

// rootHandler returns what runs when the goroutine root t exits: the bodies
// of the deferred calls at the head of t (closures, or functions/methods of
// the repository deferred directly), concatenated in execution order (last
// deferred first), wrapped in a synthetic function literal.  nil when the
// root's first statement is not a defer.
func (c *Ctx) rootHandler(t *core.Func) *ast.FuncLit {
	var bodies [][]ast.Stmt
	info := t.Info()
	for _, st := range t.Body.List {
		ds, ok := st.(*ast.DeferStmt)
		if !ok {
			break
		}
		if fl, ok := ast.Unparen(ds.Call.Fun).(*ast.FuncLit); ok {
			bodies = append(bodies, fl.Body.List)
			continue
		}
		if fo := core.StaticCallee(info, ds.Call); fo != nil {
			if g := c.P.FuncOf(fo); g != nil && g.Body != nil {
				bodies = append(bodies, g.Body.List)
				continue
			}
		}
		break
	}
	if len(bodies) == 0 {
		return nil
	}
	var all []ast.Stmt
	for i := len(bodies) - 1; i >= 0; i-- {
		all = append(all, bodies[i]...)
	}
	return &ast.FuncLit{Type: &ast.FuncType{}, Body: &ast.BlockStmt{List: all}}
}

// cancelPredicate reports whether g is a function whose whole body is the
// non-blocking question "is this channel closed?":
//
//	select { case <-x.ch: return true; default: return false }
//
// for the given channel field.
func cancelPredicate(g *core.Func, ch *types.Var) bool {
	if g == nil || g.Decl == nil || g.Body == nil || len(g.Body.List) != 1 || ch == nil {
		return false
	}
	sel, ok := g.Body.List[0].(*ast.SelectStmt)
	if !ok || len(sel.Body.List) != 2 {
		return false
	}
	info := g.Info()
	okRecv, okDflt := false, false
	for _, st := range sel.Body.List {
		cc := st.(*ast.CommClause)
		if len(cc.Body) != 1 {
			return false
		}
		ret, isRet := cc.Body[0].(*ast.ReturnStmt)
		if !isRet || len(ret.Results) != 1 {
			return false
		}
		tv, has := info.Types[ret.Results[0]]
		if !has || tv.Value == nil {
			return false
		}
		if cc.Comm == nil {
			okDflt = tv.Value.String() == "false"
		} else if recvFrom(info, cc.Comm, ch) {
			okRecv = tv.Value.String() == "true"
		}
	}
	return okRecv && okDflt
}

// callsCancelPredicate reports whether e is (possibly negated) a call of a
// cancelPredicate for ch; neg tells whether it is negated.
func (c *Ctx) callsCancelPredicate(info *types.Info, e ast.Expr, ch *types.Var) (is, neg bool) {
	e = ast.Unparen(e)
	if u, ok := e.(*ast.UnaryExpr); ok && u.Op == token.NOT {
		is, neg = c.callsCancelPredicate(info, u.X, ch)
		return is, !neg
	}
	call, ok := e.(*ast.CallExpr)
	if !ok {
		return false, false
	}
	fo := core.StaticCallee(info, call)
	if fo == nil {
		return false, false
	}
	return cancelPredicate(c.P.FuncOf(fo), ch), false
}
