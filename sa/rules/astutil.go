package rules

import (
	"go/ast"
	"go/constant"
	"go/token"
	"go/types"
	"sort"
	"strings"

	"verif/sa/core"
)

// isBuiltinCall reports whether c calls the named builtin.
func isBuiltinCall(info *types.Info, c *ast.CallExpr, name string) bool {
	id, ok := ast.Unparen(c.Fun).(*ast.Ident)
	if !ok {
		return false
	}
	b, ok := info.Uses[id].(*types.Builtin)
	return ok && b.Name() == name
}

// calleeName returns pkgpath.Name or pkg.(recv).Name for a static callee.
func calleeName(info *types.Info, c *ast.CallExpr) string {
	fo := core.StaticCallee(info, c)
	if fo == nil {
		return ""
	}
	return funcObjName(fo)
}

func funcObjName(fo *types.Func) string {
	sig, _ := fo.Type().(*types.Signature)
	pkg := ""
	if fo.Pkg() != nil {
		pkg = fo.Pkg().Path()
	}
	if sig != nil && sig.Recv() != nil {
		t := sig.Recv().Type()
		ptr := ""
		if p, ok := t.(*types.Pointer); ok {
			t = p.Elem()
			ptr = "*"
		}
		if n, ok := t.(*types.Named); ok {
			if ptr != "" {
				return pkg + ".(*" + n.Obj().Name() + ")." + fo.Name()
			}
			return pkg + "." + n.Obj().Name() + "." + fo.Name()
		}
		return pkg + ".?." + fo.Name()
	}
	return pkg + "." + fo.Name()
}

const repoPath = "github.com/hattya/go.sh/"

// constRunes returns the rune/int constants of a case list.
func constVals(info *types.Info, list []ast.Expr) []constant.Value {
	var out []constant.Value
	for _, e := range list {
		if tv, ok := info.Types[e]; ok && tv.Value != nil {
			out = append(out, tv.Value)
		}
	}
	return out
}

func constStr(info *types.Info, e ast.Expr) (string, bool) {
	if tv, ok := info.Types[e]; ok && tv.Value != nil && tv.Value.Kind() == constant.String {
		return constant.StringVal(tv.Value), true
	}
	return "", false
}

func constInt(info *types.Info, e ast.Expr) (int64, bool) {
	if tv, ok := info.Types[e]; ok && tv.Value != nil && tv.Value.Kind() == constant.Int {
		return constant.Int64Val(tv.Value)
	}
	return 0, false
}

// runeSet renders a set of runes for messages.
func runeSetString(m map[rune]bool) string {
	var rs []int
	for r := range m {
		rs = append(rs, int(r))
	}
	sort.Ints(rs)
	var b strings.Builder
	for i, r := range rs {
		if i > 0 {
			b.WriteByte(' ')
		}
		b.WriteString(strings.Trim(strconvQuoteRune(rune(r)), "'"))
	}
	return b.String()
}

func strconvQuoteRune(r rune) string {
	switch r {
	case '\n':
		return `'\n'`
	case '\t':
		return `'\t'`
	}
	return "'" + string(r) + "'"
}

// enclosing returns the nearest ancestor of n satisfying pred (excluding n).
func enclosing(p *core.Program, n ast.Node, pred func(ast.Node) bool) ast.Node {
	for x := p.Parent(n); x != nil; x = p.Parent(x) {
		if pred(x) {
			return x
		}
	}
	return nil
}

// enclosingCase returns the case clause containing n, if any, up to the
// function boundary.
func enclosingCase(p *core.Program, n ast.Node) *ast.CaseClause {
	for x := p.Parent(n); x != nil; x = p.Parent(x) {
		switch x := x.(type) {
		case *ast.CaseClause:
			return x
		case *ast.FuncDecl, *ast.FuncLit:
			return nil
		}
	}
	return nil
}

// stmtIndex returns the index of the top-level statement of list containing n.
func stmtIndex(p *core.Program, list []ast.Stmt, n ast.Node) int {
	for i, s := range list {
		if s.Pos() <= n.Pos() && n.End() <= s.End() {
			return i
		}
	}
	return -1
}

// isNilIdent reports whether e is the predeclared nil.
func isNilIdent(info *types.Info, e ast.Expr) bool {
	id, ok := ast.Unparen(e).(*ast.Ident)
	if !ok {
		return false
	}
	_, isNil := info.Uses[id].(*types.Nil)
	return isNil
}

// fieldSel reports whether e is a selector of the named field of a struct
// type named typ declared in package pkg (by package name).
func fieldSel(info *types.Info, e ast.Expr, pkg, typ, field string) bool {
	v := core.FieldOf(info, e)
	if v == nil || v.Name() != field || v.Pkg() == nil || v.Pkg().Name() != pkg {
		return false
	}
	se := ast.Unparen(e).(*ast.SelectorExpr)
	t := info.Types[se.X].Type
	if t == nil {
		return false
	}
	if p, ok := t.Underlying().(*types.Pointer); ok {
		t = p.Elem()
	}
	if n, ok := t.(*types.Named); ok {
		return n.Obj().Name() == typ
	}
	return false
}

// fieldVar finds the types.Var of a struct field.
func (c *Ctx) fieldVar(pkg, typ, field string) *types.Var {
	pk := c.P.Pkgs[pkg]
	if pk == nil {
		return nil
	}
	obj := pk.Types.Scope().Lookup(typ)
	if obj == nil {
		return nil
	}
	st, ok := obj.Type().Underlying().(*types.Struct)
	if !ok {
		return nil
	}
	for i := 0; i < st.NumFields(); i++ {
		if st.Field(i).Name() == field {
			return st.Field(i)
		}
	}
	return nil
}

// goRoots returns the functions started by go statements, with the
// statement and the enclosing function.
type goRoot struct {
	Stmt   *ast.GoStmt
	In     *core.Func
	Target *core.Func
}

func (c *Ctx) goRoots() []goRoot {
	var out []goRoot
	cg := c.P.CG()
	for _, f := range c.P.Funcs {
		if f.Generated {
			continue
		}
		f.OwnNodes(func(n ast.Node) bool {
			if gs, ok := n.(*ast.GoStmt); ok {
				for _, t := range cg.Callees(f, gs.Call) {
					out = append(out, goRoot{Stmt: gs, In: f, Target: t})
				}
			}
			return true
		})
	}
	sort.Slice(out, func(i, j int) bool { return out[i].Stmt.Pos() < out[j].Stmt.Pos() })
	return out
}

// deferredLit returns the literal of `defer func(){...}()` if s is one.
func deferredLit(s ast.Stmt) *ast.FuncLit {
	ds, ok := s.(*ast.DeferStmt)
	if !ok {
		return nil
	}
	fl, _ := ast.Unparen(ds.Call.Fun).(*ast.FuncLit)
	return fl
}

func isTok(op token.Token, ops ...token.Token) bool {
	for _, o := range ops {
		if op == o {
			return true
		}
	}
	return false
}

// namedTypeName returns pkgname.Type for named (or pointer to named) types.
func namedTypeName(t types.Type) string {
	ptr := ""
	if p, ok := t.(*types.Pointer); ok {
		t = p.Elem()
		ptr = "*"
	}
	if n, ok := t.(*types.Named); ok {
		if n.Obj().Pkg() != nil {
			return ptr + n.Obj().Pkg().Name() + "." + n.Obj().Name()
		}
		return ptr + n.Obj().Name()
	}
	return t.String()
}
