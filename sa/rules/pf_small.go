package rules

import (
	"fmt"
	"go/ast"
	"go/token"
	"go/types"
	"sort"
	"strings"

	"verif/sa/core"
)

// ---------------------------------------------------------------------------
// PF4: bail-out protocol of the lexer goroutines.

func rulePF4(pkgs ...string) Rule {
	return Rule{ID: "PF4", Kind: "must-not", Floor: 2,
		Doc: "no panic whose operand is the nil constant (fatal *runtime.PanicNilError under panicnil=0, i.e. any main module declaring go >= 1.21); every goroutine root recovers and does not re-panic the bail-out value",
		Run: func(c *Ctx, rr *core.RuleResult) {
			inPkg := map[string]bool{}
			for _, p := range pkgs {
				inPkg[p] = true
			}
			cg := c.P.CG()
			// (i) explicit panics
			for _, f := range c.P.Funcs {
				if f.Generated || !inPkg[f.Pkg.Name] {
					continue
				}
				info := f.Info()
				f.OwnNodes(func(n ast.Node) bool {
					call, ok := n.(*ast.CallExpr)
					if !ok || !isBuiltinCall(info, call, "panic") || len(call.Args) != 1 {
						return true
					}
					key := f.Name + "|panic(" + exprStr(call.Args[0]) + ")"
					if isNilIdent(info, call.Args[0]) {
						rr.Bad(f, key, call.Pos(), "panic(nil): with GODEBUG panicnil=0 (the default for a main module declaring go >= 1.21) recover() returns *runtime.PanicNilError, which the goroutine root re-panics, so the process dies")
					} else {
						rr.OK(f, key, call.Pos(), "typed", "panic operand is not the nil constant: "+namedTypeName(info.Types[call.Args[0]].Type))
					}
					return true
				})
			}
			// (ii) roots
			for _, g := range c.goRoots() {
				if !inPkg[g.Target.Pkg.Name] {
					continue
				}
				t := g.Target
				key := t.Name + "|root-recover"
				if len(t.Body.List) == 0 {
					rr.Bad(t, key, t.Pos(), "goroutine root has an empty body")
					continue
				}
				fl := c.rootHandler(t)
				if fl == nil {
					rr.Bad(t, key, t.Pos(), "the first statement of the goroutine root is not a deferred closure")
					continue
				}
				info := t.Info()
				// the recovered variable
				var recVar types.Object
				ast.Inspect(fl.Body, func(n ast.Node) bool {
					as, ok := n.(*ast.AssignStmt)
					if ok && len(as.Rhs) == 1 && len(as.Lhs) == 1 {
						if call, ok := as.Rhs[0].(*ast.CallExpr); ok && isBuiltinCall(info, call, "recover") {
							if id, ok := as.Lhs[0].(*ast.Ident); ok {
								recVar = info.Defs[id]
								if recVar == nil {
									recVar = info.Uses[id]
								}
							}
						}
					}
					return true
				})
				if recVar == nil {
					rr.Bad(t, key, fl.Pos(), "the deferred closure of the goroutine root does not bind recover()'s result")
					continue
				}
				// types of explicit panics reachable from the root (bail-outs)
				reach := cg.Reachable(t)
				bail := map[string]types.Type{}
				for _, f := range sortedFuncs(reach) {
					if f.Generated || f.Lit == fl {
						continue
					}
					fi := f.Info()
					f.OwnNodes(func(n ast.Node) bool {
						call, ok := n.(*ast.CallExpr)
						if ok && isBuiltinCall(fi, call, "panic") && len(call.Args) == 1 && !isNilIdent(fi, call.Args[0]) {
							// only panics in the cancel arm of a select count as bail-outs
							if inCancelArm(c.P, fi, call) {
								tt := fi.Types[call.Args[0]].Type
								bail[tt.String()] = tt
							}
						}
						return true
					})
				}
				// re-panic sites of the recovered value
				ok := true
				why := ""
				ast.Inspect(fl.Body, func(n ast.Node) bool {
					call, isCall := n.(*ast.CallExpr)
					if !isCall || !isBuiltinCall(info, call, "panic") || len(call.Args) != 1 {
						return true
					}
					id, isID := ast.Unparen(call.Args[0]).(*ast.Ident)
					if !isID || info.Uses[id] != recVar {
						return true
					}
					for name, bt := range bail {
						if !repanicExcludes(c.P, info, fl, call, recVar, bt) {
							ok = false
							why = "the root re-panics the recovered bail-out value of type " + name
						}
					}
					return true
				})
				if ok {
					var names []string
					for n := range bail {
						names = append(names, n)
					}
					sort.Strings(names)
					rr.OK(t, key, fl.Pos(), "protocol", fmt.Sprintf("root recovers; bail-out types %v are not re-panicked", names))
				} else {
					rr.Bad(t, key, fl.Pos(), why)
				}
			}
		}}
}

// inCancelArm reports whether n lies in a select arm whose communication is
// a receive.
func inCancelArm(p *core.Program, info *types.Info, n ast.Node) bool {
	for x := p.Parent(n); x != nil; x = p.Parent(x) {
		switch x := x.(type) {
		case *ast.CommClause:
			if es, ok := x.Comm.(*ast.ExprStmt); ok {
				if u, ok := ast.Unparen(es.X).(*ast.UnaryExpr); ok && u.Op == token.ARROW {
					return true
				}
			}
			return false
		case *ast.FuncDecl, *ast.FuncLit:
			return false
		}
	}
	return false
}

// repanicExcludes reports whether the re-panic call is guarded so that a
// recovered value of type bt is not re-panicked: it lies in the body of
// `if _, ok := e.(bt); !ok`, the else of `; ok`, or a type-switch clause
// other than bt's.
func repanicExcludes(p *core.Program, info *types.Info, fl *ast.FuncLit, call *ast.CallExpr, rec types.Object, bt types.Type) bool {
	var child ast.Node = call
	for x := p.Parent(call); x != nil && x != fl; child, x = x, p.Parent(x) {
		switch x := x.(type) {
		case *ast.IfStmt:
			okVar, asserted := commaOkAssert(info, x.Init, rec)
			if okVar == nil || asserted == nil || !types.Identical(asserted, bt) {
				continue
			}
			inBody := child == ast.Node(x.Body)
			inElse := x.Else != nil && child == ast.Node(x.Else)
			neg := false
			cond := ast.Unparen(x.Cond)
			if u, ok := cond.(*ast.UnaryExpr); ok && u.Op == token.NOT {
				neg = true
				cond = ast.Unparen(u.X)
			}
			if id, ok := cond.(*ast.Ident); ok && info.Uses[id] == okVar {
				if (neg && inBody) || (!neg && inElse) {
					return true
				}
			}
		case *ast.CaseClause:
			if ts, ok := p.Parent(p.Parent(x)).(*ast.TypeSwitchStmt); ok && typeSwitchOn(info, ts, rec) {
				// the clause holding the re-panic must not list bt, and some
				// other clause must
				lists := false
				for _, e := range x.List {
					if tv, ok := info.Types[e]; ok && types.Identical(tv.Type, bt) {
						lists = true
					}
				}
				other := false
				for _, cl := range ts.Body.List {
					cc := cl.(*ast.CaseClause)
					if cc == x {
						continue
					}
					for _, e := range cc.List {
						if tv, ok := info.Types[e]; ok && types.Identical(tv.Type, bt) {
							other = true
						}
					}
				}
				if !lists && other {
					return true
				}
			}
		}
	}
	return false
}

func commaOkAssert(info *types.Info, init ast.Stmt, rec types.Object) (types.Object, types.Type) {
	as, ok := init.(*ast.AssignStmt)
	if !ok || len(as.Lhs) != 2 || len(as.Rhs) != 1 {
		return nil, nil
	}
	ta, ok := ast.Unparen(as.Rhs[0]).(*ast.TypeAssertExpr)
	if !ok || ta.Type == nil {
		return nil, nil
	}
	id, ok := ast.Unparen(ta.X).(*ast.Ident)
	if !ok || info.Uses[id] != rec {
		return nil, nil
	}
	okID, ok := as.Lhs[1].(*ast.Ident)
	if !ok {
		return nil, nil
	}
	o := info.Defs[okID]
	if o == nil {
		o = info.Uses[okID]
	}
	return o, info.Types[ta.Type].Type
}

func typeSwitchOn(info *types.Info, ts *ast.TypeSwitchStmt, rec types.Object) bool {
	var ta *ast.TypeAssertExpr
	switch a := ts.Assign.(type) {
	case *ast.ExprStmt:
		ta, _ = ast.Unparen(a.X).(*ast.TypeAssertExpr)
	case *ast.AssignStmt:
		if len(a.Rhs) == 1 {
			ta, _ = ast.Unparen(a.Rhs[0]).(*ast.TypeAssertExpr)
		}
	}
	if ta == nil {
		return false
	}
	id, ok := ast.Unparen(ta.X).(*ast.Ident)
	return ok && info.Uses[id] == rec
}

// ---------------------------------------------------------------------------
// PF3: sealed-interface exhaustiveness.

func sealedInterfaces(c *Ctx) map[string][]types.Type {
	out := map[string][]types.Type{}
	pk := c.P.Pkgs["ast"]
	if pk == nil {
		return out
	}
	scope := pk.Types.Scope()
	var ifaces []*types.Named
	for _, name := range scope.Names() {
		tn, ok := scope.Lookup(name).(*types.TypeName)
		if !ok {
			continue
		}
		n, ok := tn.Type().(*types.Named)
		if !ok {
			continue
		}
		it, ok := n.Underlying().(*types.Interface)
		if !ok {
			continue
		}
		sealed := false
		for i := 0; i < it.NumMethods(); i++ {
			if !it.Method(i).Exported() {
				sealed = true
			}
		}
		if sealed {
			ifaces = append(ifaces, n)
		}
	}
	for _, in := range ifaces {
		it := in.Underlying().(*types.Interface)
		for _, name := range scope.Names() {
			tn, ok := scope.Lookup(name).(*types.TypeName)
			if !ok {
				continue
			}
			n, ok := tn.Type().(*types.Named)
			if !ok {
				continue
			}
			if _, isIface := n.Underlying().(*types.Interface); isIface {
				continue
			}
			if types.Implements(n, it) {
				out[in.Obj().Name()] = append(out[in.Obj().Name()], n)
			} else if types.Implements(types.NewPointer(n), it) {
				out[in.Obj().Name()] = append(out[in.Obj().Name()], types.NewPointer(n))
			}
		}
	}
	return out
}

func rulePF3(pkgs ...string) Rule {
	return Rule{ID: "PF3", Kind: "must", Floor: 3,
		Doc: "every type switch over a sealed ast interface (Command, CmdExpr, WordPart, ElsePart) whose default panics, or which dispatches to printing methods, lists every implementer",
		Run: func(c *Ctx, rr *core.RuleResult) {
			sealed := sealedInterfaces(c)
			if len(sealed) < 4 {
				rr.Unkp(c.P, "sealed-interfaces", 0, fmt.Sprintf("expected 4 sealed interfaces in package ast, found %d", len(sealed)))
			}
			inPkg := map[string]bool{}
			for _, p := range pkgs {
				inPkg[p] = true
			}
			for _, f := range c.P.Funcs {
				if f.Generated || !inPkg[f.Pkg.Name] {
					continue
				}
				info := f.Info()
				f.OwnNodes(func(n ast.Node) bool {
					ts, ok := n.(*ast.TypeSwitchStmt)
					if !ok {
						return true
					}
					var ta *ast.TypeAssertExpr
					switch a := ts.Assign.(type) {
					case *ast.ExprStmt:
						ta, _ = ast.Unparen(a.X).(*ast.TypeAssertExpr)
					case *ast.AssignStmt:
						ta, _ = ast.Unparen(a.Rhs[0]).(*ast.TypeAssertExpr)
					}
					if ta == nil {
						return true
					}
					st := info.Types[ta.X].Type
					named, ok := st.(*types.Named)
					if !ok || named.Obj().Pkg() == nil || named.Obj().Pkg().Name() != "ast" {
						return true
					}
					impls, isSealed := sealed[named.Obj().Name()]
					if !isSealed {
						return true
					}
					covered := map[string]bool{}
					var dflt *ast.CaseClause
					dispatch := true
					for _, cl := range ts.Body.List {
						cc := cl.(*ast.CaseClause)
						if cc.List == nil {
							dflt = cc
							continue
						}
						for _, e := range cc.List {
							if tv, ok := info.Types[e]; ok {
								covered[tv.Type.String()] = true
							}
						}
						if !(len(cc.Body) == 1 && isMethodCallStmt(cc.Body[0])) {
							dispatch = false
						}
					}
					// types handled by comma-ok assertions on the same operand earlier in the function
					opnd := exprStr(ta.X)
					f.OwnNodes(func(m ast.Node) bool {
						if a, ok := m.(*ast.TypeAssertExpr); ok && a.Type != nil && a != ta && exprStr(a.X) == opnd && isCommaOk(c.P, a) && a.Pos() < ts.Pos() {
							if tv, ok := info.Types[a.Type]; ok {
								covered[tv.Type.String()] = true
							}
						}
						return true
					})
					var missing []string
					for _, t := range impls {
						if !covered[t.String()] {
							missing = append(missing, namedTypeName(t))
						}
					}
					sort.Strings(missing)
					dpanics := dflt != nil && containsPanic(info, dflt)
					key := fmt.Sprintf("%s|typeswitch(%s %s)", f.Name, opnd, named.Obj().Name())
					switch {
					case len(missing) == 0:
						rr.OK(f, key, ts.Pos(), "exhaustive", fmt.Sprintf("all %d implementers of ast.%s are listed", len(impls), named.Obj().Name()))
					case dpanics:
						rr.Bad(f, key, ts.Pos(), fmt.Sprintf("implementers %v of ast.%s fall into the panicking default", missing, named.Obj().Name()))
					case dispatch && dflt == nil && f.Pkg.Name == "printer":
						rr.Bad(f, key, ts.Pos(), fmt.Sprintf("implementers %v of ast.%s are silently not printed", missing, named.Obj().Name()))
					default:
						o := rr.OK(f, key, ts.Pos(), "partial-by-design", fmt.Sprintf("not listed: %v; no panicking default and not a print dispatch", missing))
						o.Trivial = true
					}
					return true
				})
			}
		}}
}

func isMethodCallStmt(s ast.Stmt) bool {
	es, ok := s.(*ast.ExprStmt)
	if !ok {
		return false
	}
	call, ok := es.X.(*ast.CallExpr)
	if !ok {
		return false
	}
	_, ok = call.Fun.(*ast.SelectorExpr)
	return ok
}

func containsPanic(info *types.Info, n ast.Node) bool {
	found := false
	ast.Inspect(n, func(x ast.Node) bool {
		if call, ok := x.(*ast.CallExpr); ok && isBuiltinCall(info, call, "panic") {
			found = true
		}
		return true
	})
	return found
}

// ---------------------------------------------------------------------------
// PF5: the evaluator recovers run-time faults.

func rulePF5() Rule {
	return Rule{ID: "PF5", Kind: "must", Floor: 2,
		Doc: "in Eval, yyParse runs after a deferred closure that recovers, records an ArithExprError and returns it; no explicit panic with a non-error operand is reachable from yyParse in the caller's goroutine",
		Run: func(c *Ctx, rr *core.RuleResult) {
			// the entry point: the function of package interp that runs yyParse
			// (Eval itself, or the function Eval hands the work to)
			var f *core.Func
			for _, g := range c.funcsOfPkg("interp", false) {
				if g.Decl == nil || f != nil {
					continue
				}
				for _, st := range g.Body.List {
					ast.Inspect(st, func(n ast.Node) bool {
						if _, isLit := n.(*ast.FuncLit); isLit {
							return false
						}
						if call, ok := n.(*ast.CallExpr); ok {
							if id, ok := call.Fun.(*ast.Ident); ok && id.Name == "yyParse" {
								f = g
							}
						}
						return true
					})
				}
			}
			if f == nil {
				f = c.mustFn(rr, "interp.(*ExecEnv).Eval")
				if f == nil {
					return
				}
			}
			info := f.Info()
			var parseIdx, deferIdx = -1, -1
			var fl *ast.FuncLit
			var handlerFn *core.Func
			var handlerCall *ast.CallExpr
			for i, s := range f.Body.List {
				if l := deferredLit(s); l != nil && deferIdx < 0 {
					has := false
					ast.Inspect(l.Body, func(n ast.Node) bool {
						if call, ok := n.(*ast.CallExpr); ok && isBuiltinCall(info, call, "recover") {
							has = true
						}
						return true
					})
					if has {
						deferIdx, fl = i, l
					}
				}
				// `defer l.rescue(&err)`: a declared function that recovers
				if ds, ok := s.(*ast.DeferStmt); ok && deferIdx < 0 {
					if fo := core.StaticCallee(info, ds.Call); fo != nil {
						if h := c.P.FuncOf(fo); h != nil && h.Body != nil && h.Decl != nil {
							has := false
							hi := h.Info()
							ast.Inspect(h.Body, func(n ast.Node) bool {
								if call, ok := n.(*ast.CallExpr); ok && isBuiltinCall(hi, call, "recover") {
									has = true
								}
								return true
							})
							if has {
								deferIdx, handlerFn, handlerCall = i, h, ds.Call
							}
						}
					}
				}
				ast.Inspect(s, func(n ast.Node) bool {
					if _, isLit := n.(*ast.FuncLit); isLit {
						return false
					}
					if call, ok := n.(*ast.CallExpr); ok {
						if id, ok := call.Fun.(*ast.Ident); ok && id.Name == "yyParse" && parseIdx < 0 {
							parseIdx = i
						}
					}
					return true
				})
			}
			key := "interp.(*ExecEnv).Eval|recover-before-yyParse"
			switch {
			case parseIdx < 0:
				rr.Unk(f, key, f.Pos(), "no top-level yyParse call found in Eval")
			case deferIdx < 0 || deferIdx > parseIdx:
				rr.Bad(f, key, f.Body.List[parseIdx].Pos(), "yyParse is not preceded by a deferred closure calling recover(): a division by zero or negative shift would panic in the caller")
			case handlerFn != nil:
				// the handler is handed the address of the error result and stores through it
				sets := false
				res := f.Type.Results
				hi := handlerFn.Info()
				k := 0
				for _, fld := range handlerFn.Type.Params.List {
					for _, nm := range fld.Names {
						if k < len(handlerCall.Args) {
							if u, ok := ast.Unparen(handlerCall.Args[k]).(*ast.UnaryExpr); ok && u.Op == token.AND && res != nil {
								if id, ok := ast.Unparen(u.X).(*ast.Ident); ok {
									isErrRes := false
									for _, rf := range res.List {
										for _, rn := range rf.Names {
											if info.Uses[id] != nil && info.Uses[id] == info.Defs[rn] && types.Identical(info.Defs[rn].Type(), types.Universe.Lookup("error").Type()) {
												isErrRes = true
											}
										}
									}
									if isErrRes {
										pobj := hi.Defs[nm]
										ast.Inspect(handlerFn.Body, func(n ast.Node) bool {
											if as, ok := n.(*ast.AssignStmt); ok {
												for _, l := range as.Lhs {
													if st, ok := ast.Unparen(l).(*ast.StarExpr); ok {
														if pid, ok := ast.Unparen(st.X).(*ast.Ident); ok && hi.Uses[pid] == pobj && pobj != nil {
															sets = true
														}
													}
												}
											}
											return true
										})
									}
								}
							}
						}
						k++
					}
				}
				if sets {
					rr.OK(f, key, handlerCall.Pos(), "dominates", "the deferred "+handlerFn.Short+" recovers and stores into the error result it is handed")
				} else {
					rr.Bad(f, key, handlerCall.Pos(), "the deferred recover handler is not handed the error result (or does not store through it): a run-time fault would be swallowed")
				}
				fl = &ast.FuncLit{Type: &ast.FuncType{}, Body: handlerFn.Body}
			default:
				// the handler must set the error result
				sets := false
				res := f.Type.Results
				ast.Inspect(fl.Body, func(n ast.Node) bool {
					if as, ok := n.(*ast.AssignStmt); ok {
						for _, l := range as.Lhs {
							if id, ok := l.(*ast.Ident); ok && res != nil {
								for _, fld := range res.List {
									for _, nm := range fld.Names {
										if info.Uses[id] != nil && info.Uses[id] == info.Defs[nm] && types.Identical(info.Defs[nm].Type(), types.Universe.Lookup("error").Type()) {
											sets = true
										}
									}
								}
							}
						}
					}
					return true
				})
				if sets {
					rr.OK(f, key, fl.Pos(), "dominates", "defer/recover precedes yyParse and assigns the error result")
				} else {
					rr.Bad(f, key, fl.Pos(), "the recover handler does not assign Eval's error result: a run-time fault would be swallowed")
				}
			}
			// explicit panics reachable from yyParse in this goroutine
			cg := c.P.CG()
			yy := c.fn("interp.yyParse")
			if yy == nil {
				rr.Unk(f, "anchor:interp.yyParse", f.Pos(), "interp.yyParse not found")
				return
			}
			roots := map[*core.Func]bool{}
			for _, g := range c.goRoots() {
				roots[g.Target] = true
			}
			reach := cg.ReachableStop(func(g *core.Func) bool { return roots[g] }, yy)
			errT := types.Universe.Lookup("error").Type().Underlying().(*types.Interface)
			n := 0
			for _, g := range sortedFuncs(reach) {
				if roots[g] {
					continue
				}
				gi := g.Info()
				g.OwnNodes(func(x ast.Node) bool {
					call, ok := x.(*ast.CallExpr)
					if !ok || !isBuiltinCall(gi, call, "panic") || len(call.Args) != 1 {
						return true
					}
					// goyacc's driver has no panics; count any that appear
					t := gi.Types[call.Args[0]].Type
					k := g.Name + "|panic(" + exprStr(call.Args[0]) + ")"
					n++
					if t != nil && types.Implements(t, errT) {
						rr.OK(g, k, call.Pos(), "error-typed", "operand implements error")
					} else {
						rr.Bad(g, k, call.Pos(), "a panic with a non-error operand reaches Eval's handler, whose e.(error) assertion would itself panic")
					}
					return true
				})
			}
			rr.OK(f, f.Name+"|panics-under-yyParse", f.Pos(), "enumerated", fmt.Sprintf("%d functions reachable from interp.yyParse without crossing a goroutine root; %d explicit panics among them", len(reach), n))
		}}
}

// ---------------------------------------------------------------------------
// YY1: yyParse is only called with the package's lexer.

func ruleYY1(pkgs ...string) Rule {
	return Rule{ID: "YY1", Kind: "must", Floor: len(pkgs),
		Doc: "every call of yyParse passes a *lexer, so the yylex.(*lexer) assertions in actions and helpers cannot fail",
		Run: func(c *Ctx, rr *core.RuleResult) {
			for _, pkg := range pkgs {
				for _, f := range c.funcsOfPkg(pkg, true) {
					info := f.Info()
					f.OwnNodes(func(n ast.Node) bool {
						call, ok := n.(*ast.CallExpr)
						if !ok || len(call.Args) != 1 {
							return true
						}
						id, ok := call.Fun.(*ast.Ident)
						if !ok || id.Name != "yyParse" {
							return true
						}
						t := info.Types[call.Args[0]].Type
						key := f.Name + "|yyParse(" + exprStr(call.Args[0]) + ")"
						if namedTypeName(t) == "*"+pkg+".lexer" {
							rr.OK(f, key, call.Pos(), "typed", "argument has static type *lexer")
						} else {
							rr.Bad(f, key, call.Pos(), "yyParse is called with "+namedTypeName(t)+", not *lexer")
						}
						return true
					})
				}
			}
		}}
}

// ---------------------------------------------------------------------------
// LAST1: atomic.Value fields hold one type.

func ruleLAST1() Rule {
	return Rule{ID: "LAST1", Kind: "agreement", Floor: 1,
		Doc: "every Store into the lexer's atomic.Value passes an ast.Pos, the type its Load is asserted to",
		Run: func(c *Ctx, rr *core.RuleResult) {
			for _, f := range c.funcsOfPkg("parser", false) {
				info := f.Info()
				f.OwnNodes(func(n ast.Node) bool {
					call, ok := n.(*ast.CallExpr)
					if !ok {
						return true
					}
					name := calleeName(info, call)
					if name != "sync/atomic.(*Value).Store" {
						return true
					}
					t := info.Types[call.Args[0]].Type
					key := f.Name + "|" + exprStr(call)
					if namedTypeName(t) == "ast.Pos" {
						rr.OK(f, key, call.Pos(), "typed", "stores ast.Pos")
					} else {
						rr.Bad(f, key, call.Pos(), "stores "+namedTypeName(t)+" into the atomic.Value that Error() asserts to ast.Pos")
					}
					return true
				})
			}
		}}
}

// ---------------------------------------------------------------------------
// EF7: the arithmetic lexer's error slot only holds ArithExprError.

func ruleEF7() Rule {
	return Rule{ID: "EF7", Kind: "must", Floor: 1,
		Doc: "every store to the arithmetic lexer's error slot is an ArithExprError value, and Eval returns only that slot",
		Run: func(c *Ctx, rr *core.RuleResult) {
			for _, f := range c.funcsOfPkg("interp", true) {
				info := f.Info()
				f.OwnNodes(func(n ast.Node) bool {
					as, ok := n.(*ast.AssignStmt)
					if !ok {
						return true
					}
					for i, l := range as.Lhs {
						if !fieldSel(info, l, "interp", "lexer", "err") {
							continue
						}
						key := f.Name + "|" + exprStr(l) + "="
						if len(as.Rhs) != len(as.Lhs) {
							rr.Bad(f, key, as.Pos(), "error slot assigned from a multi-value expression")
							continue
						}
						t := info.Types[as.Rhs[i]].Type
						if namedTypeName(t) == "interp.ArithExprError" {
							rr.OK(f, key, as.Pos(), "typed", "stores an ArithExprError")
						} else {
							rr.Bad(f, key, as.Pos(), "stores "+namedTypeName(t)+" into the slot that expand() asserts to ArithExprError")
						}
					}
					return true
				})
			}
			f := c.mustFn(rr, "interp.(*ExecEnv).Eval")
			if f == nil {
				return
			}
			// the function that does the work: Eval itself, or the function of the
			// package whose results Eval hands on unchanged
			seen := map[*core.Func]bool{}
			var checkReturns func(f *core.Func, depth int)
			checkReturns = func(f *core.Func, depth int) {
				if seen[f] {
					return
				}
				seen[f] = true
				info := f.Info()
				inLit := map[ast.Node]bool{}
				ast.Inspect(f.Body, func(n ast.Node) bool {
					if fl, ok := n.(*ast.FuncLit); ok {
						ast.Inspect(fl.Body, func(x ast.Node) bool {
							if r, ok := x.(*ast.ReturnStmt); ok {
								inLit[r] = true
							}
							return true
						})
					}
					return true
				})
				ast.Inspect(f.Body, func(n ast.Node) bool {
					switch n := n.(type) {
					case *ast.ReturnStmt:
						if inLit[n] {
							return true // a closure's own return
						}
						if len(n.Results) == 1 {
							if call, ok := ast.Unparen(n.Results[0]).(*ast.CallExpr); ok && depth < 3 {
								if fo := core.StaticCallee(info, call); fo != nil {
									if h := c.P.FuncOf(fo); h != nil && h.Pkg == f.Pkg && h.Body != nil && !h.Generated {
										rr.OK(f, f.Name+"|return "+h.Short+"(…)", n.Pos(), "delegates", "hands on the results of "+h.Short+", whose returns are checked the same way")
										checkReturns(h, depth+1)
										return true
									}
								}
							}
							rr.Bad(f, f.Name+"|return "+exprStr(n.Results[0]), n.Pos(), "Eval hands on the results of another call: its error is not the lexer's slot, so it need not be an ArithExprError (expand asserts that type without a check)")
						}
						if len(n.Results) == 2 {
							key := f.Name + "|return " + exprStr(n.Results[1])
							if fieldSel(info, n.Results[1], "interp", "lexer", "err") || isNilIdent(info, n.Results[1]) {
								rr.OK(f, key, n.Pos(), "slot", "returns the lexer's error slot")
							} else {
								rr.Bad(f, key, n.Pos(), "Eval returns an error that is not the lexer's slot")
							}
						}
					case *ast.AssignStmt:
						for i, l := range n.Lhs {
							if id, ok := l.(*ast.Ident); ok && info.Uses[id] != nil && isErrorType(info.Uses[id].Type()) && i < len(n.Rhs) {
								key := f.Name + "|err=" + exprStr(n.Rhs[i])
								if fieldSel(info, n.Rhs[i], "interp", "lexer", "err") {
									rr.OK(f, key, n.Pos(), "slot", "assigns the lexer's error slot")
								} else {
									rr.Bad(f, key, n.Pos(), "Eval's error result is assigned from something other than the lexer's slot")
								}
							}
						}
					}
					return true
				})
			}
			checkReturns(f, 0)
		}}
}

// ---------------------------------------------------------------------------
// FLD1 / FLD2: expansion field invariants.

func ruleFLD1() Rule {
	return Rule{ID: "FLD1", Kind: "must", Floor: 8,
		Doc: "the []*field value threaded through expand/expandParam is non-empty whenever the error is nil: it starts as a one-element literal, is only appended to, and every call's error is checked before the result is used",
		Run: func(c *Ctx, rr *core.RuleResult) {
			for _, name := range []string{"interp.(*ExecEnv).expand", "interp.(*ExecEnv).expandParam"} {
				f := c.mustFn(rr, name)
				if f == nil {
					continue
				}
				info := f.Info()
				// the tracked variable: result or parameter of type []*field
				var tracked types.Object
				pick := func(fl *ast.FieldList) {
					if fl == nil {
						return
					}
					for _, fld := range fl.List {
						for _, nm := range fld.Names {
							if o := info.Defs[nm]; o != nil && o.Type().String() == "[]*github.com/hattya/go.sh/interp.field" {
								tracked = o
							}
						}
					}
				}
				pick(f.Type.Params)
				if tracked == nil {
					pick(f.Type.Results)
				}
				if tracked == nil {
					rr.Unk(f, f.Name+"|tracked", f.Pos(), "no parameter or named result of type []*field")
					continue
				}
				c.fldCheck(rr, f, tracked, true, 0)
			}
			// every use of expand's result follows an error check
			for _, f := range c.funcsOfPkg("interp", false) {
				info := f.Info()
				f.OwnNodes(func(n ast.Node) bool {
					as, ok := n.(*ast.AssignStmt)
					if !ok || len(as.Rhs) != 1 || len(as.Lhs) != 2 {
						return true
					}
					call, ok := as.Rhs[0].(*ast.CallExpr)
					if !ok || !strings.HasSuffix(calleeName(info, call), "(*ExecEnv).expand") {
						return true
					}
					key := f.Name + "|" + exprStr(as.Lhs[0]) + ",err:=expand(" + exprStr(call.Args[0]) + ")"
					if errCheckedAfter(c.P, info, as) {
						rr.OK(f, key, as.Pos(), "checked", "error is tested and the function returns before the result is used")
					} else {
						rr.Bad(f, key, as.Pos(), "expand's result is used without first returning on error; on error the list is nil")
					}
					return true
				})
			}
		}}
}

// fldCheck is FLD1's analysis of one function for one tracked []*field
// variable.  With report it records every obligation; without, it answers
// whether the function - a helper that is handed the list and gives it back -
// keeps a non-empty list non-empty on every nil-error return.
func (c *Ctx) fldCheck(rr *core.RuleResult, f *core.Func, tracked types.Object, report bool, depth int) bool {
	info := f.Info()
	good := true
	okf := func(key string, pos token.Pos, how, why string) {
		if report {
			rr.OK(f, key, pos, how, why)
		}
	}
	badf := func(key string, pos token.Pos, why string) {
		good = false
		if report {
			rr.Bad(f, key, pos, why)
		}
	}
	// preserving: a call h(…, tracked, …) of a function of the package that keeps the list non-empty
	preserving := func(call *ast.CallExpr) bool {
		if depth >= 2 {
			return false
		}
		fo := core.StaticCallee(info, call)
		if fo == nil {
			return false
		}
		h := c.P.FuncOf(fo)
		if h == nil || h.Pkg != f.Pkg || h.Body == nil || h.Decl == nil || h.Type.Params == nil {
			return false
		}
		k := 0
		for _, fld := range h.Type.Params.List {
			for _, nm := range fld.Names {
				if k < len(call.Args) && isIdentOf(info, call.Args[k], tracked) {
					if o := h.Info().Defs[nm]; o != nil && o.Type().String() == tracked.Type().String() {
						key := fmt.Sprintf("fldCheck:%s:%d", h.Name, k)
						if v, ok := c.cache[key]; ok {
							return v.(bool)
						}
						c.cache[key] = false
						r := c.fldCheck(rr, h, o, false, depth+1)
						c.cache[key] = r
						return r
					}
				}
				k++
			}
		}
		return false
	}
	f.OwnNodes(func(n ast.Node) bool {
		switch n := n.(type) {
		case *ast.AssignStmt:
			for i, l := range n.Lhs {
				id, ok := l.(*ast.Ident)
				if !ok || (info.Uses[id] != tracked && info.Defs[id] != tracked) {
					continue
				}
				key := f.Name + "|" + id.Name + "="
				if len(n.Rhs) == len(n.Lhs) {
					r := ast.Unparen(n.Rhs[i])
					if cl, ok := r.(*ast.CompositeLit); ok && len(cl.Elts) >= 1 {
						okf(key+exprStr(r), n.Pos(), "literal", "non-empty literal")
					} else if call, ok := r.(*ast.CallExpr); ok && isBuiltinCall(info, call, "append") && len(call.Args) >= 1 && isIdentOf(info, call.Args[0], tracked) {
						okf(key+"append(...)", n.Pos(), "append", "append to itself")
					} else if call, ok := r.(*ast.CallExpr); ok && preserving(call) {
						okf(key+exprStr(call.Fun)+"(...)", n.Pos(), "helper", "a helper that only appends to the list it is handed")
					} else {
						badf(key+exprStr(r), n.Pos(), "the field list may become empty here; every fields[len(fields)-1] relies on it being non-empty")
					}
				} else if len(n.Rhs) == 1 {
					call, ok := n.Rhs[0].(*ast.CallExpr)
					if ok && (strings.HasSuffix(calleeName(info, call), ".expandParam") || preserving(call)) && errCheckedAfter(c.P, info, n) {
						okf(key+exprStr(call.Fun)+"(...)", n.Pos(), "call", "result of a function that keeps the list non-empty, error checked before use")
					} else {
						badf(key+exprStr(n.Rhs[0]), n.Pos(), "assigned from a call whose error is not checked immediately")
					}
				}
			}
		case *ast.ReturnStmt:
			switch len(n.Results) {
			case 2:
				key := f.Name + "|return " + exprStr(n.Results[0]) + "," + exprStr(n.Results[1])
				if isNilIdent(info, n.Results[1]) {
					if isIdentOf(info, n.Results[0], tracked) {
						okf(key, n.Pos(), "tracked", "returns the tracked non-empty list with a nil error")
					} else if call, ok := ast.Unparen(n.Results[0]).(*ast.CallExpr); ok && preserving(call) {
						okf(key, n.Pos(), "helper", "returns what a helper that only appends to the tracked list hands back")
					} else if call, ok := ast.Unparen(n.Results[0]).(*ast.CallExpr); ok && isBuiltinCall(info, call, "append") && len(call.Args) >= 1 && isIdentOf(info, call.Args[0], tracked) {
						okf(key, n.Pos(), "append", "returns the tracked list with elements appended")
					} else {
						badf(key, n.Pos(), "returns a nil error with a list other than the tracked one")
					}
				} else if report {
					rr.OK(f, key, n.Pos(), "error", "error return").Trivial = true
				}
			case 1:
				if !report { // a helper returning only the list
					if call, ok := ast.Unparen(n.Results[0]).(*ast.CallExpr); ok && isBuiltinCall(info, call, "append") && len(call.Args) >= 1 && isIdentOf(info, call.Args[0], tracked) {
						return true
					}
					if !isIdentOf(info, n.Results[0], tracked) {
						good = false
					}
				}
			}
		}
		return true
	})
	return good
}

func isIdentOf(info *types.Info, e ast.Expr, o types.Object) bool {
	id, ok := ast.Unparen(e).(*ast.Ident)
	return ok && (info.Uses[id] == o || info.Defs[id] == o)
}

// errCheckedAfter reports whether the assignment `x, err := call` is
// immediately followed by (or is the init of) `if err != nil { ... return }`.
func errCheckedAfter(p *core.Program, info *types.Info, as *ast.AssignStmt) bool {
	errID, ok := as.Lhs[len(as.Lhs)-1].(*ast.Ident)
	if !ok {
		return false
	}
	errObj := info.Defs[errID]
	if errObj == nil {
		errObj = info.Uses[errID]
	}
	isCheck := func(ifs *ast.IfStmt) bool {
		be, ok := ast.Unparen(ifs.Cond).(*ast.BinaryExpr)
		if !ok || be.Op != token.NEQ || !isNilIdent(info, be.Y) {
			return false
		}
		id, ok := ast.Unparen(be.X).(*ast.Ident)
		if !ok || info.Uses[id] != errObj {
			return false
		}
		if len(ifs.Body.List) == 0 {
			return false
		}
		_, isRet := ifs.Body.List[len(ifs.Body.List)-1].(*ast.ReturnStmt)
		return isRet
	}
	switch par := p.Parent(as).(type) {
	case *ast.IfStmt:
		return par.Init == ast.Stmt(as) && isCheck(par)
	case *ast.BlockStmt:
		i := stmtIndex(p, par.List, as)
		if i >= 0 && i+1 < len(par.List) {
			if ifs, ok := par.List[i+1].(*ast.IfStmt); ok && ifs.Init == nil {
				return isCheck(ifs)
			}
		}
	case *ast.CaseClause:
		i := stmtIndex(p, par.Body, as)
		if i >= 0 && i+1 < len(par.Body) {
			if ifs, ok := par.Body[i+1].(*ast.IfStmt); ok && ifs.Init == nil {
				return isCheck(ifs)
			}
		}
	}
	return false
}

func ruleFLD2() Rule {
	return Rule{ID: "FLD2", Kind: "agreement", Floor: 2,
		Doc: "field.b and field.quote are only written pairwise (same append shape in the same function), so they always have equal length",
		Run: func(c *Ctx, rr *core.RuleResult) {
			type w struct {
				spread bool
				self   bool
				src    string
				pos    token.Pos
				parent ast.Node
			}
			for _, f := range c.funcsOfPkg("interp", false) {
				info := f.Info()
				writes := map[string][]w{}
				f.OwnNodes(func(n ast.Node) bool {
					switch n := n.(type) {
					case *ast.AssignStmt:
						for i, l := range n.Lhs {
							for _, fld := range []string{"b", "quote"} {
								if !fieldSel(info, l, "interp", "field", fld) {
									continue
								}
								ww := w{pos: n.Pos(), parent: c.P.Parent(n)}
								if i < len(n.Rhs) {
									if call, ok := n.Rhs[i].(*ast.CallExpr); ok && isBuiltinCall(info, call, "append") && len(call.Args) == 2 {
										ww.self = exprStr(call.Args[0]) == exprStr(l)
										ww.spread = call.Ellipsis.IsValid()
										if se, ok := call.Args[1].(*ast.SelectorExpr); ok && ww.spread {
											ww.src = exprStr(se.X)
										}
									}
								}
								writes[fld] = append(writes[fld], ww)
							}
						}
					case *ast.CompositeLit:
						if t := info.Types[n].Type; t != nil && namedTypeName(t) == "interp.field" {
							for _, el := range n.Elts {
								if kv, ok := el.(*ast.KeyValueExpr); ok {
									rr.Bad(f, f.Name+"|field{"+exprStr(kv.Key)+":}", n.Pos(), "a field literal sets b/quote directly; the pairwise-append discipline cannot be checked")
								}
							}
						}
					}
					return true
				})
				if len(writes["b"]) == 0 && len(writes["quote"]) == 0 {
					continue
				}
				key := f.Name + "|b/quote"
				b, q := writes["b"], writes["quote"]
				if len(b) == 1 && len(q) == 1 && b[0].self && q[0].self && b[0].spread == q[0].spread && b[0].src == q[0].src && b[0].parent == q[0].parent {
					rr.OK(f, key, b[0].pos, "pairwise", "one append to each of b and quote with the same shape")
				} else {
					pos := f.Pos()
					rr.Bad(f, key, pos, fmt.Sprintf("b is written %d time(s) and quote %d time(s) here, or with different shapes: their lengths can diverge and f.quote[i] can go out of range", len(b), len(q)))
				}
			}
		}}
}

// ---------------------------------------------------------------------------
// PF2: Quote shape produced by the lexer.

func rulePF2() Rule {
	return Rule{ID: "PF2", Kind: "must", Floor: 2,
		Doc: "every Value the lexer gives a backslash or single-quote ast.Quote is a one-element Word holding a *ast.Lit (consumers assert that type); double-quote values are whole words",
		Run: func(c *Ctx, rr *core.RuleResult) {
			isOneLit := func(info *types.Info, e ast.Expr) bool {
				cl, ok := ast.Unparen(e).(*ast.CompositeLit)
				if !ok || len(cl.Elts) != 1 || namedTypeName(info.Types[cl].Type) != "ast.Word" {
					return false
				}
				u, ok := ast.Unparen(cl.Elts[0]).(*ast.UnaryExpr)
				if !ok || u.Op != token.AND {
					return false
				}
				il, ok := u.X.(*ast.CompositeLit)
				return ok && namedTypeName(info.Types[il].Type) == "ast.Lit"
			}
			for _, f := range c.funcsOfPkg("parser", false) {
				info := f.Info()
				f.OwnNodes(func(n ast.Node) bool {
					switch n := n.(type) {
					case *ast.CompositeLit:
						if namedTypeName(info.Types[n].Type) != "ast.Quote" {
							return true
						}
						tok := ""
						var val ast.Expr
						for _, el := range n.Elts {
							if kv, ok := el.(*ast.KeyValueExpr); ok {
								switch exprStr(kv.Key) {
								case "Tok":
									tok, _ = constStr(info, kv.Value)
								case "Value":
									val = kv.Value
								}
							}
						}
						if val == nil {
							return true
						}
						key := f.Name + "|ast.Quote{Tok:" + tok + ",Value:}"
						if tok == `"` {
							rr.OK(f, key, n.Pos(), "dq", "double-quote value").Trivial = true
						} else if isOneLit(info, val) {
							rr.OK(f, key, n.Pos(), "one-lit", "Value is Word{&Lit{…}}")
						} else {
							rr.Bad(f, key, n.Pos(), "a backslash/single-quote Quote is built with a Value that is not Word{&Lit{…}}; printer and expander assert Value[0].(*ast.Lit)")
						}
					case *ast.AssignStmt:
						for i, l := range n.Lhs {
							if !fieldSel(info, l, "ast", "Quote", "Value") || i >= len(n.Rhs) {
								continue
							}
							cc := enclosingCase(c.P, n)
							label := "?"
							dq := false
							if cc != nil {
								var ls []string
								for _, e := range cc.List {
									ls = append(ls, exprStr(e))
									if v, ok := constInt(info, e); ok && v == '"' {
										dq = true
									}
								}
								label = strings.Join(ls, ",")
							}
							key := f.Name + "|case " + label + ": " + exprStr(l) + "="
							switch {
							case isOneLit(info, n.Rhs[i]):
								rr.OK(f, key, n.Pos(), "one-lit", "Value is Word{&Lit{…}}")
							case dq:
								rr.OK(f, key, n.Pos(), "dq", "double-quote value").Trivial = true
							default:
								rr.Bad(f, key, n.Pos(), "Quote.Value is assigned something other than Word{&Lit{…}} outside the double-quote arm")
							}
						}
					}
					return true
				})
			}
		}}
}
