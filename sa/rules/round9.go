package rules

import (
	"fmt"
	"go/ast"
	"go/token"
	"go/types"
	"sort"
	"strings"

	"verif/sa/core"
)

// Rules added after round 9 (well-meant improvements that are slightly wrong).

// ---------------------------------------------------------------------------
// CC16: what the parser writes into a redirection after handing it over, the
// lexer goroutine does not read.

func ruleCC16() Rule {
	return Rule{ID: "CC16", Kind: "must-not", Floor: 1,
		Doc: "the reduce action of the here-document redirection hands the *ast.Redir to the lexer goroutine (heredoc.push) as soon as operator and delimiter are known; a later action (`io_redir: IO_NUMBER io_here`) still writes into the node. The fields written after the hand-over are never read by code the lexer goroutine runs - directly or through the node's methods (Redir.Pos reads N) - otherwise the position of an error message depends on the schedule (a data race on Redir.N)",
		Run: func(c *Ctx, rr *core.RuleResult) {
			gi := c.grammar("parser")
			if gi.Err != nil {
				rr.Unkp(c.P, "parser|grammar", 0, gi.Err.Error())
				return
			}
			info := c.P.Pkgs["parser"].TypesInfo
			push := c.fn("parser.(*heredoc).push")
			if push == nil {
				rr.Unkp(c.P, "parser|heredoc.push", 0, "the hand-over function was not found")
				return
			}
			// nonterminals whose reduction pushes
			pushing := map[string]bool{}
			for _, p := range gi.G.Prods {
				if cc := gi.Checked.Cases[p.N]; cc != nil {
					ast.Inspect(cc, func(n ast.Node) bool {
						if call, ok := n.(*ast.CallExpr); ok {
							if fo := core.StaticCallee(info, call); fo != nil && c.P.FuncOf(fo) == push {
								pushing[p.LHS] = true
							}
						}
						return true
					})
				}
			}
			// fields of ast.Redir assigned in actions of productions that have such a
			// nonterminal on their right-hand side (i.e. after the hand-over)
			late := map[string]token.Pos{}
			for _, p := range gi.G.Prods {
				uses := false
				for _, s := range p.RHS {
					if pushing[s] {
						uses = true
					}
				}
				cc := gi.Checked.Cases[p.N]
				if !uses || cc == nil {
					continue
				}
				ast.Inspect(cc, func(n ast.Node) bool {
					as, ok := n.(*ast.AssignStmt)
					if !ok {
						return true
					}
					for _, l := range as.Lhs {
						if se, ok := ast.Unparen(l).(*ast.SelectorExpr); ok {
							if v := core.FieldOf(info, se); v != nil && strings.HasSuffix(namedTypeName(info.TypeOf(se.X)), "ast.Redir") {
								late[v.Name()] = as.Pos()
							}
						}
					}
					return true
				})
			}
			if len(pushing) == 0 {
				rr.Unkp(c.P, "parser|hand-over", gi.AstFile.Pos(), "no reduce action hands a redirection to the lexer")
				return
			}
			// what the lexer goroutine reads of a Redir: functions reachable from the goroutine roots
			var roots []*core.Func
			for _, g := range c.goRoots() {
				if g.Target.Pkg.Name == "parser" {
					roots = append(roots, g.Target)
				}
			}
			reach := c.P.CG().Reachable(roots...)
			type read struct {
				fn  string
				pos token.Pos
			}
			reads := map[string]read{}
			for f := range reach {
				if f.Generated || f.Body == nil {
					continue
				}
				// the printer and ast code the lexer reaches count too (Redir.Pos is in package ast)
				fi := f.Info()
				f.OwnNodes(func(n ast.Node) bool {
					se, ok := n.(*ast.SelectorExpr)
					if !ok {
						return true
					}
					v := core.FieldOf(fi, se)
					if v == nil || !strings.HasSuffix(namedTypeName(fi.TypeOf(se.X)), "ast.Redir") {
						return true
					}
					// a write is not a read
					if as, isAs := c.P.Parent(se).(*ast.AssignStmt); isAs {
						for _, l := range as.Lhs {
							if l == ast.Expr(se) {
								return true
							}
						}
					}
					if _, seen := reads[v.Name()]; !seen {
						reads[v.Name()] = read{f.Name, se.Pos()}
					}
					return true
				})
			}
			var names []string
			for n := range late {
				names = append(names, n)
			}
			sort.Strings(names)
			if len(names) == 0 {
				rr.OKp(c.P, "parser|fields written after the hand-over", gi.AstFile.Pos(), "none", "no reduce action writes into the redirection after it has been handed over")
				return
			}
			for _, n := range names {
				key := "parser|Redir." + n + " written after the hand-over"
				if r, bad := reads[n]; bad && !c.onlyPrinterReads(n, reach) {
					rr.Badp(c.P, key, r.pos, fmt.Sprintf("Redir.%s is assigned by a reduce action after the node has been handed to the lexer goroutine, and %s - which that goroutine runs - reads it: a data race, and whatever is derived from it (the position of `here-document delimited by EOF`) depends on the schedule", n, r.fn))
				} else {
					rr.OKp(c.P, key, late[n], "not-read", "nothing the lexer goroutine runs reads this field")
				}
			}
		}}
}

// onlyPrinterReads: the field is read, among the functions the lexer goroutine
// reaches, only by the printer and ast code it uses to render *words* (the
// delimiter, a body literal) - never a whole redirection.  Those functions are
// reachable in the call graph because the printer is one recursive machine,
// but the lexer hands them ast.Word values, which contain no Redir it has not
// finished itself.
func (c *Ctx) onlyPrinterReads(field string, reach map[*core.Func]bool) bool {
	for f := range reach {
		if f.Generated || f.Body == nil || f.Pkg.Name != "parser" {
			continue
		}
		fi := f.Info()
		found := false
		f.OwnNodes(func(n ast.Node) bool {
			if se, ok := n.(*ast.SelectorExpr); ok {
				if v := core.FieldOf(fi, se); v != nil && v.Name() == field && strings.HasSuffix(namedTypeName(fi.TypeOf(se.X)), "ast.Redir") {
					found = true
				}
			}
			// a call of a method of ast.Redir that reads the field
			if call, ok := n.(*ast.CallExpr); ok {
				if fo := core.StaticCallee(fi, call); fo != nil {
					if h := c.P.FuncOf(fo); h != nil && h.Pkg.Name == "ast" && h.Decl != nil && h.Decl.Recv != nil && strings.Contains(h.Name, "Redir") {
						hi := h.Info()
						h.OwnNodes(func(m ast.Node) bool {
							if se, ok := m.(*ast.SelectorExpr); ok {
								if v := core.FieldOf(hi, se); v != nil && v.Name() == field {
									found = true
								}
							}
							return true
						})
					}
				}
			}
			return true
		})
		if found {
			return false
		}
	}
	return true
}

// ---------------------------------------------------------------------------
// UR1: one character of push-back.

func ruleUR1() Rule {
	return Rule{ID: "UR1", Kind: "must-not", Floor: 1,
		Doc: "an io.RuneScanner takes back one rune: a second UnreadRune without a read in between fails silently. On no path through the lexer's scanners are two unread() calls made without a read() between them - counting a helper that may end on an unread as an unread, and one that begins by reading as a read. (A two-character look-ahead that pushes both back loses the first: `ls |\\grep x` becomes `ls | grep x`.)",
		Run: func(c *Ctx, rr *core.RuleResult) {
			read := c.mustFn(rr, "parser.(*lexer).read")
			unread := c.mustFn(rr, "parser.(*lexer).unread")
			if read == nil || unread == nil {
				return
			}
			funcs := c.funcsOfPkg("parser", false)
			// summaries
			type sum struct{ tailUnread, mustReadFirst, anyIO bool }
			sums := map[*core.Func]*sum{}
			classify := func(f *core.Func, n ast.Node) (isU, isR bool, h *core.Func) {
				call, ok := n.(*ast.CallExpr)
				if !ok {
					return
				}
				fo := core.StaticCallee(f.Info(), call)
				if fo == nil {
					return
				}
				g := c.P.FuncOf(fo)
				switch {
				case g == nil:
				case g == unread:
					isU = true
				case g == read:
					isR = true
				case g.Pkg == f.Pkg && !g.Generated && g.Body != nil:
					h = g
				}
				return
			}
			for round := 0; round < 4; round++ {
				for _, f := range funcs {
					if f.Decl == nil || f == read || f == unread {
						continue
					}
					s := &sum{}
					fl := core.NewFlow(f)
					// a node "after an unread with no read since" (may)
					pending := fl.Reaches(func(n ast.Node) bool {
						u, _, h := classify(f, n)
						return u || (h != nil && sums[h] != nil && sums[h].tailUnread)
					}, func(n ast.Node) bool {
						_, r, h := classify(f, n)
						return r || (h != nil && sums[h] != nil && sums[h].mustReadFirst)
					})
					f.OwnNodes(func(n ast.Node) bool {
						u, r, h := classify(f, n)
						if u || r || (h != nil && sums[h] != nil && sums[h].anyIO) {
							s.anyIO = true
						}
						if ret, ok := n.(*ast.ReturnStmt); ok && pending[ret] {
							s.tailUnread = true
						}
						return true
					})
					// falling off the end
					if len(f.Body.List) > 0 {
						last := f.Body.List[len(f.Body.List)-1]
						if u, _, h := classify(f, stmtCall(last)); u || (h != nil && sums[h] != nil && sums[h].tailUnread) {
							s.tailUnread = true
						}
					}
					// must read first: the first I/O statement at the top level of the body is a read
					for _, st := range f.Body.List {
						io := false
						first := ""
						ast.Inspect(st, func(n ast.Node) bool {
							u, r, h := classify(f, n)
							if first == "" {
								switch {
								case r:
									first = "r"
								case u:
									first = "u"
								case h != nil && sums[h] != nil && sums[h].anyIO:
									if sums[h].mustReadFirst {
										first = "r"
									} else {
										first = "u"
									}
								}
							}
							if u || r {
								io = true
							}
							return true
						})
						if first != "" {
							s.mustReadFirst = first == "r"
							break
						}
						_ = io
					}
					sums[f] = s
				}
			}
			n := 0
			for _, f := range funcs {
				if f.Decl == nil || f == read || f == unread {
					continue
				}
				fl := core.NewFlow(f)
				// the analysis knows no values: a jump to a label re-enters a switch over the
				// character with a value the jumping code has chosen (`r = v; goto Op`), and the
				// clause that pushes back is not the one that value selects.  Facts are not
				// carried across labels; what is decided is straight-line and helper-to-caller
				// double push-back.
				type span struct{ from, to token.Pos }
				var heads []span
				f.OwnNodes(func(x ast.Node) bool {
					ls, ok := x.(*ast.LabeledStmt)
					if !ok {
						return true
					}
					end := ls.Stmt.End()
					switch st := ls.Stmt.(type) {
					case *ast.SwitchStmt:
						end = st.Body.Lbrace
					case *ast.ForStmt:
						end = st.Body.Lbrace
					case *ast.RangeStmt:
						end = st.Body.Lbrace
					}
					heads = append(heads, span{ls.Stmt.Pos(), end})
					return true
				})
				atLabel := func(x ast.Node) bool {
					for _, h := range heads {
						if h.from <= x.Pos() && x.Pos() <= h.to {
							return true
						}
					}
					return false
				}
				pending := fl.Reaches(func(x ast.Node) bool {
					u, _, h := classify(f, x)
					return u || (h != nil && sums[h] != nil && sums[h].tailUnread)
				}, func(x ast.Node) bool {
					_, r, h := classify(f, x)
					return r || (h != nil && sums[h] != nil && sums[h].mustReadFirst) || atLabel(x)
				})
				f.OwnNodes(func(x ast.Node) bool {
					u, _, _ := classify(f, x)
					if !u {
						return true
					}
					n++
					key := fmt.Sprintf("%s|unread #%d", f.Name, n)
					if pending[x] {
						rr.Bad(f, key, x.Pos(), "this unread() can follow another one (here or at the end of a helper just called) with no read() in between: the reader takes back only one rune, so the earlier character is lost")
					} else {
						rr.OK(f, key, x.Pos(), "single", "a read lies between this unread and any earlier one")
					}
					return true
				})
			}
		}}
}

func stmtCall(s ast.Stmt) ast.Node {
	if es, ok := s.(*ast.ExprStmt); ok {
		return es.X
	}
	return s
}

// ---------------------------------------------------------------------------
// NUM1, BR5, QU1c, GL4, PU5b: small closed-world conditions.

func ruleNUM1() Rule {
	return Rule{ID: "NUM1", Kind: "must-not", Floor: 1,
		Doc: "a NUMBER token of the arithmetic lexer consists of ASCII digits, or of 0x/0X and hexadecimal letters: the scanner's code mentions neither the underscore nor a Unicode class. The token is converted with strconv.ParseInt(s, 0, …), which also accepts Go's own syntax (1_000, 0b11, 0o17); only the lexer keeps such text from reaching it, so a malformed constant is an error and not a number",
		Run: func(c *Ctx, rr *core.RuleResult) {
			f := c.mustFn(rr, "interp.(*lexer).lexNumber")
			if f == nil {
				return
			}
			bad := token.NoPos
			what := ""
			c.regionNodes(f, func(g *core.Func, n ast.Node) bool {
				gi := g.Info()
				switch x := n.(type) {
				case *ast.BasicLit:
					if v, ok := constInt(gi, x); ok && x.Kind == token.CHAR && (v == '_' || v == 'b' || v == 'B' || v == 'o' || v == 'O') {
						bad, what = x.Pos(), "the character "+x.Value
					}
				case *ast.CallExpr:
					if name := calleeName(gi, x); strings.HasPrefix(name, "unicode.") {
						bad, what = x.Pos(), name
					}
				}
				return true
			})
			key := f.Name + "|characters of a constant"
			if bad == token.NoPos {
				rr.OK(f, key, f.Pos(), "ascii-classes", "digits, x/X and letters under the hex flag only")
			} else {
				rr.Bad(f, key, bad, "the number scanner admits "+what+": text such as 1_000 or 0b11 becomes a NUMBER token, and ParseInt with base 0 turns it into a value instead of an `invalid number` error")
			}
		}}
}

func ruleBR5() Rule {
	return Rule{ID: "BR5", Kind: "must-not", Floor: 1,
		Doc: "the expansion code of package interp handles values as byte strings cut at offsets: it never turns a rune it has decoded from a value back into text (string(r), WriteRune, utf8.EncodeRune/AppendRune). A decoded invalid byte is U+FFFD; re-encoding it replaces one byte of the user's data by three others (the first character of IFS used as the separator of \"$*\")",
		Run: func(c *Ctx, rr *core.RuleResult) {
			n := 0
			for _, f := range c.funcsOfPkg("interp", false) {
				file := c.P.RelFile(f.Pos())
				if !strings.HasSuffix(file, "expand.go") && !strings.HasSuffix(file, "interp.go") && !strings.HasSuffix(file, "field.go") {
					continue
				}
				info := f.Info()
				f.OwnNodes(func(x ast.Node) bool {
					call, ok := x.(*ast.CallExpr)
					if !ok {
						return true
					}
					isRune := func(e ast.Expr) bool {
						t := info.TypeOf(e)
						if t == nil {
							return false
						}
						b, ok := t.Underlying().(*types.Basic)
						if !ok || b.Kind() != types.Int32 {
							return false
						}
						tv := info.Types[e]
						return tv.Value == nil // a constant rune is the program's, not the user's
					}
					re := false
					if tv, ok := info.Types[call.Fun]; ok && tv.IsType() && len(call.Args) == 1 {
						if b, ok := tv.Type.Underlying().(*types.Basic); ok && b.Info()&types.IsString != 0 && isRune(call.Args[0]) {
							re = true
						}
					}
					switch name := calleeName(info, call); {
					case strings.HasSuffix(name, ".WriteRune") && len(call.Args) == 1 && isRune(call.Args[0]):
						re = true
					case name == "unicode/utf8.EncodeRune" || name == "unicode/utf8.AppendRune":
						re = true
					}
					if re {
						n++
						rr.Bad(f, fmt.Sprintf("%s|rune re-encoded #%d", f.Name, n), call.Pos(), "a rune decoded from a value is turned back into text: for an invalid byte that is U+FFFD, three bytes that were not in the user's data")
					}
					return true
				})
			}
			if n == 0 {
				rr.OKp(c.P, "interp|no rune re-encoding in the expansion code", 0, "closed-world", "expand.go and interp.go contain no string(rune), WriteRune(rune) or EncodeRune of a non-constant rune")
			}
		}}
}

func ruleQU1c() Rule {
	return Rule{ID: "QU1c", Kind: "must", Floor: 1,
		Doc: "what tilde expansion substitutes (the home directory) is joined to the field as quoted text - a constant true, or the unconditional quoted flavour of whatever helper is used - so that it is neither split at IFS characters nor matched against file names, whatever the mode",
		Run: func(c *Ctx, rr *core.RuleResult) {
			f := c.mustFn(rr, "interp.(*ExecEnv).expandTilde")
			join := c.fn("interp.(*field).join")
			if f == nil || join == nil {
				return
			}
			info := f.Info()
			n := 0
			f.OwnNodes(func(x ast.Node) bool {
				call, ok := x.(*ast.CallExpr)
				if !ok {
					return true
				}
				fo := core.StaticCallee(info, call)
				if fo == nil {
					return true
				}
				h := c.P.FuncOf(fo)
				if h == nil || h.Pkg != f.Pkg || h.Decl == nil || h.Decl.Recv == nil || !strings.Contains(h.Name, "(*field)") {
					return true
				}
				// the unexpanded `~name` put back as it was is text of the word, not a substitution
				if len(call.Args) >= 1 {
					literal := false
					ast.Inspect(call.Args[0], func(y ast.Node) bool {
						if e, ok := y.(ast.Expr); ok {
							if sv, isC := constStr(info, e); isC && strings.HasPrefix(sv, "~") {
								literal = true
							}
						}
						return true
					})
					if literal {
						return true
					}
				}
				// a method of field that adds text
				n++
				key := fmt.Sprintf("%s|substituted text joined #%d", f.Name, n)
				if h == join && len(call.Args) == 2 && exprStr(call.Args[1]) == "true" {
					rr.OK(f, key, call.Pos(), "quoted", "joined with quote = true")
				} else if h == join {
					rr.Bad(f, key, call.Pos(), "the directory substituted for the tilde-prefix is joined with quote = "+exprStr(call.Args[len(call.Args)-1])+": a home directory that contains an IFS character is cut into several fields")
				} else {
					rr.Bad(f, key, call.Pos(), "the directory substituted for the tilde-prefix is added through "+h.Short+", which decides from the mode whether the text is quoted: tilde expansion never runs in Quote mode, so the directory is left open to field splitting and pathname expansion")
				}
				return true
			})
			if n == 0 {
				rr.Unk(f, f.Name+"|substituted text joined", f.Pos(), "expandTilde adds nothing to the field through a method of field")
			}
		}}
}

func ruleGL4() Rule {
	return Rule{ID: "GL4", Kind: "must-not", Floor: 1,
		Doc: "package pattern hands the operating system exactly the paths it has built from the pattern's components and returns those paths: it never calls filepath.Join, Clean, Abs, Rel or EvalSymlinks. Those functions simplify `x/..` lexically, which names a different directory when x is a symbolic link: the entries checked or listed are not the ones the returned spelling denotes",
		Run: func(c *Ctx, rr *core.RuleResult) {
			n := 0
			for _, f := range c.funcsOfPkg("pattern", false) {
				info := f.Info()
				f.OwnNodes(func(x ast.Node) bool {
					call, ok := x.(*ast.CallExpr)
					if !ok {
						return true
					}
					switch name := calleeName(info, call); name {
					case "path/filepath.Join", "path/filepath.Clean", "path/filepath.Abs", "path/filepath.Rel", "path/filepath.EvalSymlinks", "path.Join", "path.Clean":
						n++
						rr.Bad(f, fmt.Sprintf("%s|%s #%d", f.Name, name, n), call.Pos(), name+" rewrites the path lexically (`link/../x` becomes `x`): what is looked up is not what the returned spelling denotes when a component is a symbolic link")
					}
					return true
				})
			}
			if n == 0 {
				rr.OKp(c.P, "pattern|paths are used as built", 0, "closed-world", "no lexical path simplification in package pattern")
			}
		}}
}

func rulePU5b() Rule {
	return Rule{ID: "PU5b", Kind: "must", Floor: 1,
		Doc: "ExecEnv.Set refuses nothing but special and positional parameters: every return that precedes the store is reached only under tests made by the two predicates for those names. Any other refusal (names that are not portable, empty names) silently drops assignments the parser and the arithmetic evaluator accept - `${é:=1}` expands to 1 and assigns nothing",
		Run: func(c *Ctx, rr *core.RuleResult) {
			f := c.mustFn(rr, "interp.(*ExecEnv).Set")
			sp := c.fn("interp.(*ExecEnv).isSpParam")
			pos := c.fn("interp.(*ExecEnv).isPosParam")
			if f == nil {
				return
			}
			info := f.Info()
			n, bad := 0, token.NoPos
			f.OwnNodes(func(x ast.Node) bool {
				ret, ok := x.(*ast.ReturnStmt)
				if !ok {
					return true
				}
				n++
				for _, gd := range guardsOf(c.P, ret, nil) {
					okGuard := true
					ast.Inspect(gd.cond, func(y ast.Node) bool {
						if call, isCall := y.(*ast.CallExpr); isCall {
							fo := core.StaticCallee(info, call)
							if fo == nil {
								okGuard = false
								return true
							}
							if h := c.P.FuncOf(fo); h == nil || (h != sp && h != pos) {
								okGuard = false
							}
						}
						if _, isCmp := y.(*ast.BinaryExpr); isCmp {
							be := y.(*ast.BinaryExpr)
							if be.Op != token.LOR && be.Op != token.LAND {
								okGuard = false
							}
						}
						return true
					})
					if !okGuard {
						bad = ret.Pos()
					}
				}
				return true
			})
			key := f.Name + "|what is refused"
			switch {
			case bad != token.NoPos:
				rr.Bad(f, key, bad, "Set returns without storing under a test other than the special/positional-parameter predicates: an assignment the rest of the library accepts is dropped without an error")
			default:
				rr.OK(f, key, f.Pos(), "specials-only", fmt.Sprintf("%d early return(s), each under the special/positional predicates only", n))
			}
		}}
}

// ---------------------------------------------------------------------------
// QB1: the quoting characters are handed to the quote scanner unconditionally.

func ruleQB1() Rule {
	return Rule{ID: "QB1", Kind: "must", Floor: 3,
		Doc: "wherever a word scanner of the lexer has a case for the single-quote that hands the character to the quote scanner (a bare word, an arithmetic expression, the word of ${parameter<op>word}), that hand-over is the clause's business on every path: no condition - a depth counter, a flag, the operator of the expansion - lets a quoting character through as text. Whether a quote quotes is decided by the scanner that is running (inside double-quotes scanQuote has no such case), not by state consulted in the clause: a test there is right for some operators and wrong for others (XCU 2.6.2: quoting inside the braces of a pattern-removal expansion counts even within double-quotes)",
		Run: func(c *Ctx, rr *core.RuleResult) {
			quote := c.mustFn(rr, "parser.(*lexer).scanQuote")
			if quote == nil {
				return
			}
			for _, f := range c.funcsOfPkg("parser", false) {
				if f.Decl == nil {
					continue
				}
				info := f.Info()
				n := 0
				for _, sw := range switches(c.P, f) {
					cl := sw.clauseFor('\'')
					if cl == nil {
						continue
					}
					// the hand-over: a call of the quote scanner, or of a helper that is given the character
					var hand *ast.CallExpr
					for _, st := range cl.cc.Body {
						ast.Inspect(st, func(x ast.Node) bool {
							call, ok := x.(*ast.CallExpr)
							if !ok || hand != nil {
								return hand == nil
							}
							fo := core.StaticCallee(info, call)
							if fo == nil {
								return true
							}
							k := c.P.FuncOf(fo)
							if c.effective(k) == c.effective(quote) {
								hand = call
							} else if k != nil && k.Pkg == f.Pkg && k.Body != nil && sw.tagObj != nil && len(c.callsTo(k, quote)) > 0 {
								for _, a := range call.Args {
									if id, isID := ast.Unparen(a).(*ast.Ident); isID && info.Uses[id] == sw.tagObj {
										hand = call
									}
								}
							}
							return hand == nil
						})
					}
					if hand == nil {
						continue
					}
					n++
					key := fmt.Sprintf("%s|quote clause #%d", f.Name, n)
					bypass := token.NoPos
					// nothing conditional between the beginning of the clause and the hand-over
					if gds := guardsOf(c.P, hand, cl.cc); len(gds) > 0 {
						bypass = gds[0].cond.Pos()
					}
					for _, st := range cl.cc.Body {
						if st.End() > hand.Pos() {
							break // the statement of the hand-over itself, and what follows it
						}
						ast.Inspect(st, func(x ast.Node) bool {
							switch x.(type) {
							case *ast.BranchStmt, *ast.ReturnStmt:
								if bypass == token.NoPos {
									bypass = x.Pos()
								}
							}
							return true
						})
					}
					if bypass == token.NoPos {
						rr.OK(f, key, hand.Pos(), "unconditional", "every quoting character of this context reaches the quote scanner")
					} else {
						rr.Bad(f, key, bypass, "a quoting character can leave this clause without having been handed to the quote scanner: whether a quote quotes depends on state tested here, which is right for some forms of the construct and wrong for others (`\"${x#'*'}\"` must keep the quoted star)")
					}
				}
			}
		}}
}
