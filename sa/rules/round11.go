package rules

import (
	"fmt"
	"go/ast"
	"go/token"
	"go/types"

	"verif/sa/core"
)

// Rules for the defects repaired after round 10 (BC-BH).

// NL3: a nested lexer substitutes aliases like its creator.
func ruleNL3() Rule {
	return Rule{ID: "NL3", Kind: "must", Floor: 1,
		Doc: "wherever the lexer builds another lexer for the text of a command substitution, the literal takes the execution environment from its creator (`env: l.env`): the commands inside `$( )` and back-quotes are parsed by the same call, and a word in command position there is examined for alias substitution like any other (subst() asks the environment for the table and does nothing without one)",
		Run: func(c *Ctx, rr *core.RuleResult) {
			envF := c.fieldVar("parser", "lexer", "env")
			if envF == nil {
				rr.Unkp(c.P, "parser.lexer.env", 0, "the lexer has no env field")
				return
			}
			n := 0
			for _, f := range c.funcsOfPkg("parser", false) {
				if f.Decl == nil || f.Decl.Recv == nil {
					continue
				}
				info := f.Info()
				f.OwnNodes(func(x ast.Node) bool {
					cl, ok := x.(*ast.CompositeLit)
					if !ok || namedTypeName(info.Types[cl].Type) != "parser.lexer" {
						return true
					}
					n++
					key := fmt.Sprintf("%s|nested lexer #%d", f.Name, n)
					good := false
					for _, el := range cl.Elts {
						kv, isKV := el.(*ast.KeyValueExpr)
						if !isKV {
							continue
						}
						if id, isID := kv.Key.(*ast.Ident); isID && info.Uses[id] == types.Object(envF) {
							if core.FieldOf(info, kv.Value) == envF {
								if se, isSel := ast.Unparen(kv.Value).(*ast.SelectorExpr); isSel {
									if rid, isR := ast.Unparen(se.X).(*ast.Ident); isR && isRecv(f, info.Uses[rid]) {
										good = true
									}
								}
							}
						}
					}
					if good {
						rr.OK(f, key, cl.Pos(), "inherited", "the nested lexer has its creator's environment")
					} else {
						rr.Bad(f, key, cl.Pos(), "the nested lexer is built without its creator's execution environment: inside a command substitution no word is examined for alias substitution (`echo $(ll)` with ll='ls -l')")
					}
					return true
				})
			}
			if n == 0 {
				rr.Unkp(c.P, "parser|nested lexer", 0, "no method of the lexer builds another lexer")
			}
		}}
}

// CM7: whether a comment is a trailing comment does not depend on the alias stack.
func ruleCM7() Rule {
	return Rule{ID: "CM7", Kind: "must-not", Floor: 1,
		Doc: "in the raw token scanner the choice between a trailing comment (ends before the newline, which stays a token) and a comment on a line of its own is made from the line of the last token alone; it is not switched off while alias text is being read. A comment at the end of an alias value is followed by the newline of the line the alias stands on, and that newline ends the command (cm='echo a # c': `cm` newline `b` are two commands)",
		Run: func(c *Ctx, rr *core.RuleResult) {
			f := c.mustFn(rr, "parser.(*lexer).scanRawToken")
			tc := c.fn("parser.(*lexer).trailingComment")
			aliases := c.fieldVar("parser", "lexer", "aliases")
			if f == nil || tc == nil || aliases == nil {
				if tc == nil {
					rr.Unkp(c.P, "parser.(*lexer).trailingComment", 0, "the trailing-comment scanner was not found")
				}
				return
			}
			info := f.Info()
			sites := c.callsTo(f, tc)
			if len(sites) == 0 {
				rr.Unk(f, f.Name+"|trailing comment", f.Pos(), "the raw token scanner never calls the trailing-comment scanner")
				return
			}
			for i, call := range sites {
				key := fmt.Sprintf("%s|trailing comment #%d", f.Name, i+1)
				bad := token.NoPos
				for _, gd := range guardsOf(c.P, call, nil) {
					ast.Inspect(gd.cond, func(x ast.Node) bool {
						if se, ok := x.(*ast.SelectorExpr); ok && core.FieldOf(info, se) == aliases {
							bad = se.Pos()
						}
						return true
					})
				}
				if bad != token.NoPos {
					rr.Bad(f, key, bad, "the trailing-comment treatment depends on the alias stack: a comment at the end of an alias value swallows the newline of the line the alias stands on, and the next line is glued to the command")
				} else {
					rr.OK(f, key, call.Pos(), "line-only", "decided from the line of the last token alone")
				}
			}
		}}
}

// HD11: a continued line is not a delimiter line.
func ruleHD11() Rule {
	return Rule{ID: "HD11", Kind: "must", Floor: 1,
		Doc: "in the here-document body reader, a candidate for the delimiter line is compared with the delimiter only when what precedes it in the body ends a line: the comparison is reached only past a test of the preceding part's last character (a newline), which sends a line that merely continues the preceding one (`foo\\` newline `E`) on to the search for the real beginning of the line",
		Run: func(c *Ctx, rr *core.RuleResult) {
			f := c.heredocReader(rr)
			if f == nil {
				return
			}
			printFn := c.fn("parser.(*lexer).print")
			n := 0
			for _, g := range c.region(f) {
				var all []*core.Func
				all = append(all, g)
				all = append(all, g.Lits...)
				for _, h := range all {
					info := h.Info()
					h.OwnNodes(func(x ast.Node) bool {
						be, ok := x.(*ast.BinaryExpr)
						if !ok || be.Op != token.EQL {
							return true
						}
						// s == delim with s bound to print(...)
						printed := false
						for _, side := range []ast.Expr{be.X, be.Y} {
							if id, isID := ast.Unparen(side).(*ast.Ident); isID && boundToCallOf(c, h, info.Uses[id], printFn) {
								printed = true
							}
						}
						if !printed {
							return true
						}
						if tv, has := info.Types[be.X]; !has || tv.Type == nil || tv.Type.String() != "string" {
							return true
						}
						n++
						key := fmt.Sprintf("%s|delimiter candidate begins a line #%d", f.Name, n)
						// a preceding statement of an enclosing block that tests a trailing newline and leaves
						ok2 := false
						for p := c.P.Parent(be); p != nil && !ok2; p = c.P.Parent(p) {
							blk, isBlk := p.(*ast.BlockStmt)
							if !isBlk {
								continue
							}
							for _, st := range blk.List {
								if st.Pos() >= be.Pos() {
									break
								}
								ifs, isIf := st.(*ast.IfStmt)
								if !isIf {
									continue
								}
								tests := false
								ast.Inspect(ifs, func(y ast.Node) bool {
									if call, isCall := y.(*ast.CallExpr); isCall && calleeName(info, call) == "strings.HasSuffix" && len(call.Args) == 2 {
										if s, isC := constStr(info, call.Args[1]); isC && s == "\n" {
											tests = true
										}
									}
									if b2, isB := y.(*ast.BinaryExpr); isB && (b2.Op == token.EQL || b2.Op == token.NEQ) {
										if v, isC := constInt(info, b2.Y); isC && v == '\n' {
											tests = true
										}
									}
									return true
								})
								leaves := false
								ast.Inspect(ifs.Body, func(y ast.Node) bool {
									switch y.(type) {
									case *ast.BranchStmt, *ast.ReturnStmt:
										leaves = true
									}
									return true
								})
								if tests && leaves {
									ok2 = true
								}
							}
						}
						if ok2 {
							rr.OK(h, key, be.Pos(), "after-a-line-end", "a candidate that continues the preceding line is passed over")
						} else {
							rr.Bad(h, key, be.Pos(), "a word part that starts in column 1 is compared with the delimiter whatever precedes it: the second half of a continued line (`foo\\` newline `E`) ends the here-document")
						}
						return true
					})
				}
			}
			if n == 0 {
				rr.Unk(f, f.Name+"|delimiter candidate begins a line", f.Pos(), "no comparison of a printed candidate with the delimiter found")
			}
		}}
}

// PS3: positions of nodes with an absent part.
func rulePS3() Rule {
	return Rule{ID: "PS3", Kind: "must", Floor: 2,
		Doc: "two places in package ast compute a position from a part that can be absent, and must not hand out the zero position for a node that has text: (a) Cmd.Pos chooses the smaller of the expression's and the first redirection's position with Before only after the expression's position was tested with IsZero (a command of redirections only has an empty simple command); (b) Quote.End, when nothing is quoted (`\"\"`, `''`, a backslash at the end of input), derives the end from the position of the quote character - the branch in which the value's end is zero returns that zero only under a test that the quote's own position is zero too",
		Run: func(c *Ctx, rr *core.RuleResult) {
			// (a)
			if f := c.mustFn(rr, "ast.(*Cmd).Pos"); f != nil {
				info := f.Info()
				n := 0
				f.OwnNodes(func(x ast.Node) bool {
					call, ok := x.(*ast.CallExpr)
					if !ok || len(call.Args) != 1 {
						return true
					}
					se, isSel := call.Fun.(*ast.SelectorExpr)
					if !isSel || se.Sel.Name != "Before" {
						return true
					}
					n++
					key := fmt.Sprintf("%s|smaller of two positions #%d", f.Name, n)
					recv := exprStr(se.X)
					tested := false
					check := func(e ast.Expr) {
						ast.Inspect(e, func(y ast.Node) bool {
							if c2, isC := y.(*ast.CallExpr); isC {
								if s2, isS := c2.Fun.(*ast.SelectorExpr); isS && s2.Sel.Name == "IsZero" && exprStr(s2.X) == recv {
									tested = true
								}
							}
							return true
						})
					}
					for _, gd := range guardsOf(c.P, call, nil) {
						check(gd.cond)
					}
					// or in the same condition, to the left of the comparison
					var top ast.Expr = call
					for {
						p, isE := c.P.Parent(top).(ast.Expr)
						if !isE {
							break
						}
						top = p
					}
					check(top)
					_ = info
					if tested {
						rr.OK(f, key, call.Pos(), "zero-tested", "the position that can be absent is tested before it is compared")
					} else {
						rr.Bad(f, key, call.Pos(), "the zero position of an absent part is `before` every real position: a command that consists of redirections only (`>out`) reports the position 0:0")
					}
					return true
				})
				if n == 0 {
					rr.OK(f, f.Name+"|smaller of two positions", f.Pos(), "no-comparison", "no position comparison in Cmd.Pos")
				}
			}
			// (b)
			if f := c.mustFn(rr, "ast.(*Quote).End"); f != nil {
				info := f.Info()
				tokPos := c.fieldVar("ast", "Quote", "TokPos")
				uses := false
				f.OwnNodes(func(x ast.Node) bool {
					if se, ok := x.(*ast.SelectorExpr); ok && core.FieldOf(info, se) == tokPos && tokPos != nil {
						uses = true
					}
					return true
				})
				key := f.Name + "|end of a quote that quotes nothing"
				if uses {
					rr.OK(f, key, f.Pos(), "from-the-quote", "the end is derived from the quote character's position when the value has none")
				} else {
					rr.Bad(f, key, f.Pos(), "the end of a quote is computed from the quoted text alone: for `\"\"` and `''` it is the zero position, and so is the end of every word and command that ends in one")
				}
				c.quoteEndWidths(f, rr)
			}
		}}
}

// quoteEndWidths is PS3 (c): the columns Quote.End adds are the quote characters
// it stands for.  The function is followed path by path (assignments of a
// position to a local, if, tagless switch, return); a position is the value's
// end or the quote's own position plus a constant number of columns.  Behind
// the value there is the closing quote - one column, none for a backslash,
// which has no closing character; from the quote's own position of a quote
// that quotes nothing it is two columns, one for a backslash.  A function
// written in another shape is not judged by this clause.
func (c *Ctx) quoteEndWidths(f *core.Func, rr *core.RuleResult) {
	info := f.Info()
	tokPos := c.fieldVar("ast", "Quote", "TokPos")
	tok := c.fieldVar("ast", "Quote", "Tok")
	value := c.fieldVar("ast", "Quote", "Value")
	shift := c.fn("ast.Pos.shift")
	key := f.Name + "|columns of the quote characters"
	if tokPos == nil || tok == nil || value == nil || shift == nil {
		rr.OK(f, key, f.Pos(), "not-applied", "the quote's fields or the column helper were not found: clause not applied")
		return
	}
	type pv struct {
		base  int // 1 the value's end, 2 the quote's position
		shift int64
	}
	type know struct{ bs, tokZero int } // 0 unknown, 1 true, 2 false
	type env map[types.Object]pv
	gaveUp := false
	var eval func(e ast.Expr, en env) (pv, bool)
	eval = func(e ast.Expr, en env) (pv, bool) {
		e = ast.Unparen(e)
		switch x := e.(type) {
		case *ast.Ident:
			v, ok := en[info.Uses[x]]
			return v, ok
		case *ast.SelectorExpr:
			if core.FieldOf(info, x) == tokPos {
				return pv{2, 0}, true
			}
		case *ast.CallExpr:
			se, ok := x.Fun.(*ast.SelectorExpr)
			if !ok {
				return pv{}, false
			}
			if fo := core.StaticCallee(info, x); fo != nil && c.P.FuncOf(fo) == shift && len(x.Args) == 1 {
				k, isC := constInt(info, x.Args[0])
				in, ok := eval(se.X, en)
				if !isC || !ok {
					return pv{}, false
				}
				return pv{in.base, in.shift + k}, true
			}
			if len(x.Args) == 0 && se.Sel.Name == "End" && core.FieldOf(info, se.X) == value {
				return pv{1, 0}, true
			}
		}
		return pv{}, false
	}
	// what a condition tells when it holds (pos) or does not
	var learn func(e ast.Expr, pos bool, en env, k know) know
	learn = func(e ast.Expr, pos bool, en env, k know) know {
		e = ast.Unparen(e)
		set := func(cur *int, v bool) {
			if v {
				*cur = 1
			} else {
				*cur = 2
			}
		}
		switch x := e.(type) {
		case *ast.UnaryExpr:
			if x.Op == token.NOT {
				return learn(x.X, !pos, en, k)
			}
		case *ast.BinaryExpr:
			switch x.Op {
			case token.LAND:
				if pos {
					return learn(x.Y, true, en, learn(x.X, true, en, k))
				}
			case token.LOR:
				if !pos {
					return learn(x.Y, false, en, learn(x.X, false, en, k))
				}
			case token.EQL, token.NEQ:
				a, b := x.X, x.Y
				if _, isC := constStr(info, a); isC {
					a, b = b, a
				}
				if s, isC := constStr(info, b); isC && core.FieldOf(info, a) == tok {
					eq := pos == (x.Op == token.EQL)
					if s == "\\" {
						set(&k.bs, eq)
					} else if eq {
						// equal to another quote character: not the backslash
						k.bs = 2
					}
				}
			}
		case *ast.CallExpr:
			if se, ok := x.Fun.(*ast.SelectorExpr); ok && se.Sel.Name == "IsZero" && len(x.Args) == 0 {
				if v, ok := eval(se.X, en); ok && v.base == 2 && v.shift == 0 {
					set(&k.tokZero, pos)
				}
			}
		}
		return k
	}
	type result struct {
		v   pv
		ok  bool
		k   know
		pos token.Pos
	}
	var results []result
	copyEnv := func(en env) env {
		out := env{}
		for a, b := range en {
			out[a] = b
		}
		return out
	}
	// walk returns the states that fall out of the statements
	type state struct {
		en env
		k  know
	}
	var walk func(list []ast.Stmt, in []state) []state
	walk = func(list []ast.Stmt, in []state) []state {
		cur := in
		for _, st := range list {
			if gaveUp {
				return nil
			}
			var next []state
			for _, s := range cur {
				switch x := st.(type) {
				case *ast.AssignStmt:
					if len(x.Lhs) != 1 || len(x.Rhs) != 1 {
						gaveUp = true
						continue
					}
					id, ok := x.Lhs[0].(*ast.Ident)
					if !ok {
						gaveUp = true
						continue
					}
					obj := info.Defs[id]
					if obj == nil {
						obj = info.Uses[id]
					}
					en := copyEnv(s.en)
					if v, ok := eval(x.Rhs[0], s.en); ok {
						en[obj] = v
					} else if _, isPos := en[obj]; isPos || namedTypeName(info.TypeOf(id)) == "ast.Pos" || namedTypeName(info.TypeOf(id)) == "Pos" {
						gaveUp = true
						continue
					}
					next = append(next, state{en, s.k})
				case *ast.ReturnStmt:
					if len(x.Results) != 1 {
						gaveUp = true
						continue
					}
					v, ok := eval(x.Results[0], s.en)
					results = append(results, result{v, ok, s.k, x.Pos()})
				case *ast.BlockStmt:
					next = append(next, walk(x.List, []state{s})...)
				case *ast.IfStmt:
					if x.Init != nil {
						gaveUp = true
						continue
					}
					next = append(next, walk(x.Body.List, []state{{s.en, learn(x.Cond, true, s.en, s.k)}})...)
					neg := state{s.en, learn(x.Cond, false, s.en, s.k)}
					switch e := x.Else.(type) {
					case nil:
						next = append(next, neg)
					case *ast.BlockStmt:
						next = append(next, walk(e.List, []state{neg})...)
					case *ast.IfStmt:
						next = append(next, walk([]ast.Stmt{e}, []state{neg})...)
					}
				case *ast.SwitchStmt:
					if x.Init != nil || x.Tag != nil {
						gaveUp = true
						continue
					}
					k := s.k
					var dflt *ast.CaseClause
					for _, cs := range x.Body.List {
						cc := cs.(*ast.CaseClause)
						if cc.List == nil {
							dflt = cc
							continue
						}
						if len(cc.List) != 1 {
							gaveUp = true
							break
						}
						for _, b := range cc.Body {
							if br, isBr := b.(*ast.BranchStmt); isBr && br.Tok != token.BREAK {
								gaveUp = true
							}
						}
						next = append(next, walk(cc.Body, []state{{s.en, learn(cc.List[0], true, s.en, k)}})...)
						k = learn(cc.List[0], false, s.en, k)
					}
					if dflt != nil {
						next = append(next, walk(dflt.Body, []state{{s.en, k}})...)
					} else {
						next = append(next, state{s.en, k})
					}
				default:
					gaveUp = true
				}
			}
			cur = next
		}
		return cur
	}
	if f.Body == nil {
		return
	}
	rest := walk(f.Body.List, []state{{env{}, know{}}})
	if gaveUp || len(rest) != 0 || len(results) == 0 {
		rr.OK(f, key, f.Pos(), "not-applied", "the function is not written as assignments, tests and returns of positions: clause not applied")
		return
	}
	for _, r := range results {
		if !r.ok {
			rr.OK(f, key, f.Pos(), "not-applied", "a returned position is not the value's end or the quote's position plus a constant: clause not applied")
			return
		}
	}
	n := 0
	for _, r := range results {
		if r.k.tokZero == 1 {
			continue // a quote without a position: clause (b)
		}
		n++
		what, want := "behind the quoted text", int64(1)
		if r.v.base == 2 {
			what, want = "from the position of the opening quote of a quote that quotes nothing", 2
		}
		if r.k.bs == 1 {
			want--
		}
		switch {
		case r.k.bs == 0:
			rr.Bad(f, key, r.pos, fmt.Sprintf("the end returned here (%s, +%d) is the same for a backslash, which has no closing character, and for the paired quotes, which have one", what, r.v.shift))
			return
		case r.v.shift != want:
			rr.Bad(f, key, r.pos, fmt.Sprintf("the end returned here is %s plus %d column(s); the quote characters there take %d: End lies beside the last character of the quote, and so does the end of every word and command that ends in it", what, r.v.shift, want))
			return
		}
	}
	rr.OK(f, key, f.Pos(), "widths", fmt.Sprintf("%d returns: behind the quoted text one column for the closing quote and none for a backslash, from the quote's own position two and one", n))
}

// BR7: the first character of a value, not its first byte.
func ruleBR7() Rule {
	return Rule{ID: "BR7", Kind: "must-not", Floor: 1,
		Doc: "package interp never takes `s[:1]` (or `s[0:1]`) of a string that holds text of the user: the first byte of a value is not its first character. The separator that joins `$*` is the first character of IFS",
		Run: func(c *Ctx, rr *core.RuleResult) {
			n, bad := 0, 0
			for _, f := range c.funcsOfPkg("interp", false) {
				if f.Generated {
					continue
				}
				info := f.Info()
				f.OwnNodes(func(x ast.Node) bool {
					se, ok := x.(*ast.SliceExpr)
					if !ok || se.High == nil || se.Max != nil {
						return true
					}
					tv, has := info.Types[se.X]
					if !has || tv.Type == nil {
						return true
					}
					if b, isB := tv.Type.Underlying().(*types.Basic); !isB || b.Info()&types.IsString == 0 {
						return true
					}
					n++
					hi, isC := constInt(info, se.High)
					lo := int64(0)
					if se.Low != nil {
						l, isL := constInt(info, se.Low)
						if !isL {
							return true
						}
						lo = l
					}
					if isC && hi-lo == 1 && tv.Value == nil {
						bad++
						rr.Bad(f, fmt.Sprintf("%s|one byte of a value #%d", f.Name, bad), se.Pos(), "one byte is cut off a string as if it were a character: for a value that begins with a multi-byte character the result is an invalid sequence (`\"$*\"` with IFS='é,' joins with \\xc3)")
					}
					return true
				})
			}
			if bad == 0 {
				rr.OKp(c.P, "interp|first characters", 0, "closed-world", fmt.Sprintf("%d string slices in package interp, none cuts off a single byte", n))
			}
		}}
}

// RD2: the character source reports no syntax errors.
func ruleRD2() Rule {
	return Rule{ID: "RD2", Kind: "must-not", Floor: 1,
		Doc: "read() - the one place that takes characters from the source - records reader errors and nothing else: neither it nor anything only it calls reports a syntax error. A syntax error made up in read() (for an invalid byte, say) is recorded before the reader's own error for the same place has been seen - bufio hands out U+FFFD for the bytes of a character cut off by a failing Read and keeps the error for the next call - and the failure of the source comes back as a syntax error",
		Run: func(c *Ctx, rr *core.RuleResult) {
			f := c.mustFn(rr, "parser.(*lexer).read")
			if f == nil {
				return
			}
			reps := c.errorReporters()
			n, bad := 0, 0
			for _, g := range c.region(f) {
				info := g.Info()
				var all []*core.Func
				all = append(all, g)
				all = append(all, g.Lits...)
				for _, h := range all {
					h.OwnNodes(func(x ast.Node) bool {
						call, ok := x.(*ast.CallExpr)
						if !ok {
							return true
						}
						n++
						if fo := core.StaticCallee(info, call); fo != nil && reps[c.P.FuncOf(fo)] {
							bad++
							rr.Bad(h, fmt.Sprintf("%s|syntax error reported by the character source #%d", f.Name, bad), call.Pos(), "read() reports a syntax error: it is recorded before the error of the source for the same place can be seen, and ParseCommands returns a made-up syntax error for a failing reader")
						}
						return true
					})
				}
			}
			if bad == 0 {
				rr.OK(f, f.Name+"|no syntax error from the character source", f.Pos(), "closed-world", fmt.Sprintf("%d calls in read() and its helpers, none reports a syntax error", n))
			}
		}}
}

// SP5: unquoted $* is not joined.
func ruleSP5() Rule {
	return Rule{ID: "SP5", Kind: "must", Floor: 1,
		Doc: "in the look-up of the parameter `*`, the string joined by the first character of IFS is built only for the quoted (or operator) form: the call of ifs() in that clause is preceded by a test of the quote flag that leaves the clause with one value per positional parameter. Joining first and splitting afterwards loses the boundaries between the parameters whenever the separator is not an IFS character any more - with a null IFS the parameters a and b become the field ab",
		Run: func(c *Ctx, rr *core.RuleResult) {
			ep := c.mustFn(rr, "interp.(*ExecEnv).expandParam")
			ifsFn := c.mustFn(rr, "interp.(*ExecEnv).ifs")
			if ep == nil || ifsFn == nil {
				return
			}
			n := 0
			for _, f := range c.region(ep) {
				info := f.Info()
				// the quote flag: a local bound to `mode&Quote != 0`, or a bool parameter handed that value
				isQuoteTest := func(e ast.Expr) bool {
					found := false
					ast.Inspect(e, func(x ast.Node) bool {
						switch y := x.(type) {
						case *ast.Ident:
							if y.Name == "Quote" {
								if _, isConst := info.Uses[y].(*types.Const); isConst {
									found = true
								}
							}
							if v, isVar := info.Uses[y].(*types.Var); isVar && v.Type().String() == "bool" {
								if d := localDef(f, info, v); d != nil {
									ast.Inspect(d, func(z ast.Node) bool {
										if id, isID := z.(*ast.Ident); isID && id.Name == "Quote" {
											found = true
										}
										return true
									})
								}
								if isParamOf(f, v) && (v.Name() == "quote" || v.Name() == "quoted") {
									found = true
								}
							}
						}
						return true
					})
					return found
				}
				for _, sw := range switches(c.P, f) {
					cl := sw.clauseFor0("*")
					if cl == nil || len(cl.strs) != 1 {
						continue
					}
					var call *ast.CallExpr
					for _, st := range cl.cc.Body {
						ast.Inspect(st, func(x ast.Node) bool {
							if cx, ok := x.(*ast.CallExpr); ok && call == nil {
								if fo := core.StaticCallee(info, cx); fo != nil && c.P.FuncOf(fo) == ifsFn {
									call = cx
								}
							}
							return call == nil
						})
					}
					if call == nil {
						continue
					}
					n++
					key := fmt.Sprintf("%s|$* joined only when quoted #%d", f.Name, n)
					ok := false
					for p := c.P.Parent(call); p != nil && !ok; p = c.P.Parent(p) {
						var list []ast.Stmt
						switch b := p.(type) {
						case *ast.BlockStmt:
							list = b.List
						case *ast.CaseClause:
							list = b.Body
						}
						for _, st := range list {
							if st.Pos() >= call.Pos() {
								break
							}
							ifs, isIf := st.(*ast.IfStmt)
							if !isIf || !isQuoteTest(ifs.Cond) || len(ifs.Body.List) == 0 {
								continue
							}
							switch ifs.Body.List[len(ifs.Body.List)-1].(type) {
							case *ast.BranchStmt, *ast.ReturnStmt:
								ok = true
							}
						}
						if p == ast.Node(cl.cc) {
							break
						}
					}
					// or the join itself stands under a positive test of the flag
					for _, gd := range guardsOf(c.P, call, cl.cc) {
						if isQuoteTest(gd.cond) {
							ok = true
						}
					}
					if ok {
						rr.OK(f, key, call.Pos(), "quoted-only", "outside double-quotes the clause yields one value per positional parameter")
					} else {
						rr.Bad(f, key, call.Pos(), "`$*` is joined by the separator whether or not it is quoted: unquoted, the parameters are glued together wherever the separator is not split off again (IFS='': a and b become ab)")
					}
				}
			}
			if n == 0 {
				rr.Unk(ep, ep.Name+"|$* joined only when quoted", ep.Pos(), "no clause for `*` that calls ifs() found")
			}
		}}
}
