package rules

import (
	"fmt"
	"go/ast"
	"go/token"
	"go/types"
	"strings"

	"verif/sa/core"
)

// guard is one condition known to hold at a node because of the enclosing
// if statements.
type guard struct {
	cond ast.Expr
	pos  bool // true: cond holds; false: !cond holds
}

// guardsOf returns the conditions that syntactically enclose n (if / else
// branches, flattening && on the true side and || on the false side), up to
// the boundary node (exclusive).  Early-exit guards of the form
// `if c { return/continue/break/goto }` preceding n in the same block are
// included with negative polarity.
func guardsOf(p *core.Program, n ast.Node, boundary ast.Node) []guard {
	var out []guard
	add := func(e ast.Expr, pos bool) {
		var rec func(e ast.Expr, pos bool)
		rec = func(e ast.Expr, pos bool) {
			e = ast.Unparen(e)
			if u, ok := e.(*ast.UnaryExpr); ok && u.Op == token.NOT {
				rec(u.X, !pos)
				return
			}
			if be, ok := e.(*ast.BinaryExpr); ok {
				if (be.Op == token.LAND && pos) || (be.Op == token.LOR && !pos) {
					rec(be.X, pos)
					rec(be.Y, pos)
					return
				}
			}
			// a comparison known to be false is the opposite comparison known
			// to be true: `if len(w) != 1 { return }` guards what follows by
			// `len(w) == 1`, like an enclosing `if len(w) == 1 { … }` does
			if be, ok := e.(*ast.BinaryExpr); ok && !pos {
				if op, ok := negatedCmp[be.Op]; ok {
					out = append(out, guard{&ast.BinaryExpr{X: be.X, OpPos: be.OpPos, Op: op, Y: be.Y}, true})
					return
				}
			}
			out = append(out, guard{e, pos})
		}
		rec(e, pos)
	}
	var child ast.Node = n
	for x := p.Parent(n); x != nil && x != boundary; child, x = x, p.Parent(x) {
		switch x := x.(type) {
		case *ast.BinaryExpr:
			// short-circuit evaluation: the right operand of && runs only when the left
			// one is true, the right operand of || only when the left one is false
			if child == ast.Node(x.Y) {
				switch x.Op {
				case token.LAND:
					add(x.X, true)
				case token.LOR:
					add(x.X, false)
				}
			}
		case *ast.IfStmt:
			if child == ast.Node(x.Body) {
				add(x.Cond, true)
			} else if x.Else != nil && child == ast.Node(x.Else) {
				add(x.Cond, false)
			}
		case *ast.BlockStmt:
			for _, s := range x.List {
				if s == child {
					break
				}
				// `if a { return } else if b { return }`: what follows runs with !a and !b;
				// a branch that falls through ends what is known
				for ifs, ok := s.(*ast.IfStmt); ok && endsInJump(ifs.Body); {
					add(ifs.Cond, false)
					if ifs.Else == nil {
						break
					}
					ifs, ok = ifs.Else.(*ast.IfStmt)
				}
			}
		case *ast.CaseClause:
			for _, s := range x.Body {
				if s == child {
					break
				}
				// `if a { return } else if b { return }`: what follows runs with !a and !b;
				// a branch that falls through ends what is known
				for ifs, ok := s.(*ast.IfStmt); ok && endsInJump(ifs.Body); {
					add(ifs.Cond, false)
					if ifs.Else == nil {
						break
					}
					ifs, ok = ifs.Else.(*ast.IfStmt)
				}
			}
			// type switch on X: `case nil` means X == nil, `case T` means X holds a T
			// (rendered as the assertion X.(T)), `default` means none of the listed
			if ts, ok := p.Parent(p.Parent(x)).(*ast.TypeSwitchStmt); ok {
				if X := typeSwitchOperand(ts); X != nil {
					mk := func(e ast.Expr) ast.Expr {
						if id, isID := ast.Unparen(e).(*ast.Ident); isID && id.Name == "nil" {
							n := &ast.Ident{Name: "nil", NamePos: id.Pos()}
							synthNil[n] = true
							return &ast.BinaryExpr{X: X, Op: token.EQL, Y: n, OpPos: id.Pos()}
						}
						return &ast.TypeAssertExpr{X: X, Type: e, Lparen: e.Pos()}
					}
					if len(x.List) == 1 {
						add(mk(x.List[0]), true)
					} else if x.List == nil {
						for _, cl := range ts.Body.List {
							for _, e := range cl.(*ast.CaseClause).List {
								add(mk(e), false)
							}
						}
					}
				}
			}
			// tagless switch: the clause's own condition holds, and the
			// conditions of the clauses before it do not
			if sw, ok := p.Parent(p.Parent(x)).(*ast.SwitchStmt); ok && sw.Tag == nil {
				if len(x.List) == 1 {
					add(x.List[0], true)
				}
				for _, cl := range sw.Body.List {
					o := cl.(*ast.CaseClause)
					if o == x {
						break
					}
					for _, e := range o.List {
						add(e, false)
					}
				}
			}
		case *ast.FuncLit, *ast.FuncDecl:
			return out
		}
	}
	return out
}

func endsInJump(b *ast.BlockStmt) bool {
	if len(b.List) == 0 {
		return false
	}
	switch s := b.List[len(b.List)-1].(type) {
	case *ast.ReturnStmt, *ast.BranchStmt:
		return s != nil
	case *ast.ExprStmt:
		if c, ok := s.X.(*ast.CallExpr); ok {
			if id, ok := c.Fun.(*ast.Ident); ok && id.Name == "panic" {
				return true
			}
		}
	}
	return false
}

// disjuncts flattens a || chain.
func disjuncts(e ast.Expr) []ast.Expr {
	e = ast.Unparen(e)
	if be, ok := e.(*ast.BinaryExpr); ok && be.Op == token.LOR {
		return append(disjuncts(be.X), disjuncts(be.Y)...)
	}
	return []ast.Expr{e}
}

// callsIsDir reports whether e contains a call that is, or transitively
// reaches inside the repository, a call of an IsDir method.
func (c *Ctx) callsIsDir(f *core.Func, e ast.Expr) bool {
	found := false
	cg := c.P.CG()
	var hasIsDir func(g *core.Func, depth int) bool
	hasIsDir = func(g *core.Func, depth int) bool {
		ok := false
		g.OwnNodes(func(n ast.Node) bool {
			if call, isCall := n.(*ast.CallExpr); isCall {
				if fo := core.StaticCallee(g.Info(), call); fo != nil && fo.Name() == "IsDir" {
					ok = true
				} else if depth < 3 {
					for _, h := range cg.Callees(g, call) {
						if hasIsDir(h, depth+1) {
							ok = true
						}
					}
				}
			}
			return true
		})
		return ok
	}
	ast.Inspect(e, func(n ast.Node) bool {
		if call, ok := n.(*ast.CallExpr); ok {
			if fo := core.StaticCallee(f.Info(), call); fo != nil && fo.Name() == "IsDir" {
				found = true
			}
			for _, g := range cg.Callees(f, call) {
				if hasIsDir(g, 0) {
					found = true
				}
			}
		}
		return true
	})
	return found
}

func ruleGL() Rule {
	return Rule{ID: "GL", Kind: "must", Floor: 4,
		Doc: "in Glob: a path+separator element is appended only under a test that the separator is empty or the path is a directory (GL2); the literal arm appends only after a successful Lstat (GL3); every multi-element result passes sort.Strings before it can be returned (GL1)",
		Run: func(c *Ctx, rr *core.RuleResult) {
			f := c.effective(c.mustFn(rr, "pattern.Glob"))
			if f == nil {
				return
			}
			// appends of `x + sep` anywhere in Glob or its literals
			var funcs []*core.Func
			for _, g := range c.region(f) {
				funcs = append(funcs, g)
				funcs = append(funcs, g.Lits...)
			}
			nApp := 0
			for _, g := range funcs {
				info := g.Info()
				g.OwnNodes(func(n ast.Node) bool {
					call, ok := n.(*ast.CallExpr)
					if !ok || !isBuiltinCall(info, call, "append") || len(call.Args) != 2 {
						return true
					}
					be, ok := ast.Unparen(call.Args[1]).(*ast.BinaryExpr)
					if !ok || be.Op != token.ADD {
						return true
					}
					sepID, ok := ast.Unparen(be.Y).(*ast.Ident)
					if !ok {
						return true
					}
					if t := info.Types[be.Y].Type; t == nil || t.String() != "string" {
						return true
					}
					nApp++
					key := fmt.Sprintf("%s|append(%s, %s)", g.Name, exprStr(call.Args[0]), exprStr(call.Args[1]))
					sepObj := info.Uses[sepID]
					okDir := false
					gs := guardsOf(c.P, call, nil)
					// guards of the enclosing literal's call site do not apply; only local ones
					for _, gd := range gs {
						if !gd.pos {
							continue
						}
						all := true
						for _, d := range disjuncts(gd.cond) {
							if isEmptyTest(info, d, sepObj) || c.callsIsDir(g, d) {
								continue
							}
							all = false
						}
						if all {
							okDir = true
						}
					}
					if okDir && lstatIsDir(g, gs) {
						rr.Bad(g, key, call.Pos(), "the directory test uses the FileInfo returned by os.Lstat, which does not follow symbolic links: `link/` and `link/*` no longer select a directory reached through a symlink (and the two arms of Glob disagree about what a directory is)")
					} else if okDir {
						rr.OK(g, key, call.Pos(), "dir-test", "appended only when the separator is empty or the path is a directory")
					} else {
						rr.Bad(g, key, call.Pos(), "a name followed by the path separator is appended without testing that it is a directory: `*/` returns regular files")
					}
					return true
				})
			}
			if nApp == 0 {
				rr.Unk(f, f.Name+"|append(x+sep)", f.Pos(), "no append of a `name + sep` element found in Glob")
			}
			// GL3: literal arm
			n3 := 0
			c.regionNodes(f, func(f *core.Func, n ast.Node) bool {
				info := f.Info()
				ifs, ok := n.(*ast.IfStmt)
				if !ok || ifs.Init == nil {
					return true
				}
				as, ok := ifs.Init.(*ast.AssignStmt)
				if !ok || len(as.Rhs) != 1 {
					return true
				}
				call, ok := as.Rhs[0].(*ast.CallExpr)
				if !ok {
					return true
				}
				name := calleeName(info, call)
				if name != "os.Lstat" && name != "os.Stat" {
					return true
				}
				n3++
				key := f.Name + "|literal-arm " + name
				errID, _ := as.Lhs[len(as.Lhs)-1].(*ast.Ident)
				okErr := false
				for _, gd := range conj(ifs.Cond) {
					if be, ok := ast.Unparen(gd).(*ast.BinaryExpr); ok && be.Op == token.EQL && isNilIdent(info, be.Y) {
						if id, ok := ast.Unparen(be.X).(*ast.Ident); ok && errID != nil && info.Uses[id] == info.Defs[errID] {
							okErr = true
						}
					}
				}
				hasAppend := false
				ast.Inspect(ifs.Body, func(x ast.Node) bool {
					if cl, ok := x.(*ast.CallExpr); ok && isBuiltinCall(info, cl, "append") {
						hasAppend = true
					}
					return true
				})
				switch {
				case okErr && hasAppend && name == "os.Stat":
					rr.Bad(f, key, ifs.Pos(), "the existence test of the literal arm follows symbolic links (os.Stat): a dangling link named literally is dropped, while the pattern arm, which lists the directory, returns the same entry - the two arms disagree about what exists")
				case okErr && hasAppend:
					rr.OK(f, key, ifs.Pos(), "exists", "the literal path is appended only when "+name+" succeeded")
				case !hasAppend:
					rr.Unk(f, key, ifs.Pos(), "the "+name+" test does not guard an append")
				default:
					rr.Bad(f, key, ifs.Pos(), "the literal component is appended without requiring "+name+"'s error to be nil: non-existent paths are returned")
				}
				return true
			})
			if n3 == 0 {
				rr.Bad(f, f.Name+"|literal-arm", f.Pos(), "no os.Lstat/os.Stat existence test in Glob: literal components are returned whether or not they exist")
			}
			// GL1: sort before return
			c.sortedReturns(rr, f, true, 0)
		}}
}

// sortedReturns decides GL1 for g: every return of its first (slice) result is
// preceded, on all paths since the list was last assigned, by a sort.  For
// Glob itself (report) each return is an obligation; for a private helper the
// answer is all-or-nothing and is used where the helper's result is assigned.
func (c *Ctx) sortedReturns(rr *core.RuleResult, f *core.Func, report bool, depth int) bool {
	key0 := fmt.Sprintf("sortedReturns:%s:%v", f.Name, report)
	if v, ok := c.cache[key0]; ok {
		return v.(bool)
	}
	c.cache[key0] = false
	result := true
	{
		{
			info := f.Info()
			fl := core.NewFlow(f)
			var pathsObj types.Object
			isSort := func(n ast.Node) bool {
				call, ok := n.(*ast.CallExpr)
				if !ok || len(call.Args) < 1 {
					return false
				}
				name := calleeName(info, call)
				if name != "sort.Strings" && name != "slices.Sort" && name != "sort.Sort" && name != "sort.Stable" {
					return false
				}
				id, ok := ast.Unparen(call.Args[0]).(*ast.Ident)
				return ok && (pathsObj == nil || info.Uses[id] == pathsObj)
			}
			// the returned variable
			var rets []*ast.ReturnStmt
			f.OwnNodes(func(n ast.Node) bool {
				if r, ok := n.(*ast.ReturnStmt); ok && len(r.Results) >= 1 {
					if id, ok := ast.Unparen(r.Results[0]).(*ast.Ident); ok {
						if v, ok := info.Uses[id].(*types.Var); ok {
							pathsObj = v
							rets = append(rets, r)
						}
					}
				}
				return true
			})
			if pathsObj == nil {
				if report {
					rr.Unk(f, f.Name+"|returned-slice", f.Pos(), "Glob does not return a named slice variable")
				}
				return false
			}
			reset := func(n ast.Node) bool {
				as, ok := n.(*ast.AssignStmt)
				if !ok || as.Tok != token.ASSIGN && as.Tok != token.DEFINE {
					return false
				}
				for i, l := range as.Lhs {
					if id, ok := l.(*ast.Ident); ok && info.ObjectOf(id) == pathsObj && i < len(as.Rhs) {
						switch as.Rhs[i].(type) {
						case *ast.CompositeLit:
						default:
							if as.Tok == token.DEFINE {
								// a fresh list: only the result of a call can be unsorted
								if _, isCall := ast.Unparen(as.Rhs[i]).(*ast.CallExpr); !isCall {
									continue
								}
							}
							return true
						}
					}
				}
				return false
			}
			// a list that was sorted under another name and then assigned is sorted
			sortedSrc := map[types.Object]map[ast.Node]bool{}
			srcSorted := func(as *ast.AssignStmt, i int) bool {
				if i >= len(as.Rhs) || len(as.Rhs) == 1 && len(as.Lhs) > 1 || i == 0 {
					// the result of a private helper whose own returns are sorted
					if call, ok := ast.Unparen(as.Rhs[0]).(*ast.CallExpr); ok && i == 0 && depth < 3 {
						if fo := core.StaticCallee(info, call); fo != nil {
							if h := c.P.FuncOf(fo); h != nil && h != f && h.Body != nil && h.Pkg == f.Pkg && !fo.Exported() {
								return c.sortedReturns(rr, h, false, depth+1)
							}
						}
					}
				}
				if i >= len(as.Rhs) {
					return false
				}
				id, ok := ast.Unparen(as.Rhs[i]).(*ast.Ident)
				if !ok {
					return false
				}
				src := info.Uses[id]
				if src == nil {
					return false
				}
				m, done := sortedSrc[src]
				if !done {
					m = fl.MustSeen(false, func(n ast.Node) bool {
						call, ok := n.(*ast.CallExpr)
						if !ok || len(call.Args) < 1 {
							return false
						}
						switch calleeName(info, call) {
						case "sort.Strings", "slices.Sort":
						default:
							return false
						}
						aid, ok := ast.Unparen(call.Args[0]).(*ast.Ident)
						return ok && info.Uses[aid] == src
					}, func(n ast.Node) bool {
						// any later append to / assignment of the source un-sorts it
						a2, ok := n.(*ast.AssignStmt)
						if !ok {
							return false
						}
						for _, l := range a2.Lhs {
							if lid, ok := l.(*ast.Ident); ok && (info.Uses[lid] == src || info.Defs[lid] == src) {
								return true
							}
						}
						return false
					})
					sortedSrc[src] = m
				}
				return m[as]
			}
			reset0 := reset
			reset = func(n ast.Node) bool {
				if !reset0(n) {
					return false
				}
				as := n.(*ast.AssignStmt)
				for i, l := range as.Lhs {
					if id, ok := l.(*ast.Ident); ok && info.ObjectOf(id) == pathsObj && i < len(as.Rhs) && srcSorted(as, i) {
						return false
					}
				}
				return true
			}
			seen := fl.MustSeen(true, isSort, reset)
			for _, r := range rets {
				key := f.Name + "|return " + exprStr(r.Results[0])
				if seen[r] {
					if report {
						rr.OK(f, key, r.Pos(), "sorted", "every path from an assignment of the match list to this return passes sort.Strings")
					}
				} else {
					result = false
					if report {
						rr.Bad(f, key, r.Pos(), "the match list can be returned without having been sorted (directory order leaks into the result)")
					}
				}
			}
		}
	}
	c.cache[key0] = result
	return result
}

func conj(e ast.Expr) []ast.Expr {
	e = ast.Unparen(e)
	if be, ok := e.(*ast.BinaryExpr); ok && be.Op == token.LAND {
		return append(conj(be.X), conj(be.Y)...)
	}
	return []ast.Expr{e}
}

func isEmptyTest(info *types.Info, e ast.Expr, obj types.Object) bool {
	be, ok := ast.Unparen(e).(*ast.BinaryExpr)
	if !ok || be.Op != token.EQL {
		return false
	}
	id, ok := ast.Unparen(be.X).(*ast.Ident)
	if !ok || info.Uses[id] != obj {
		return false
	}
	s, ok := constStr(info, be.Y)
	return ok && s == ""
}

var _ = strings.Contains

// lstatIsDir reports whether a guard calls IsDir on a variable bound to the
// result of os.Lstat.
func lstatIsDir(g *core.Func, gs []guard) bool {
	info := g.Info()
	lstatVars := map[types.Object]bool{}
	g.OwnNodes(func(n ast.Node) bool {
		as, ok := n.(*ast.AssignStmt)
		if !ok || len(as.Rhs) != 1 {
			return true
		}
		if call, ok := as.Rhs[0].(*ast.CallExpr); ok && calleeName(info, call) == "os.Lstat" {
			if id, ok := as.Lhs[0].(*ast.Ident); ok && id.Name != "_" {
				if o := info.Defs[id]; o != nil {
					lstatVars[o] = true
				} else if o := info.Uses[id]; o != nil {
					lstatVars[o] = true
				}
			}
		}
		return true
	})
	found := false
	for _, gd := range gs {
		ast.Inspect(gd.cond, func(n ast.Node) bool {
			if call, ok := n.(*ast.CallExpr); ok {
				if se, ok := call.Fun.(*ast.SelectorExpr); ok && se.Sel.Name == "IsDir" {
					if id, ok := ast.Unparen(se.X).(*ast.Ident); ok && lstatVars[info.Uses[id]] {
						found = true
					}
				}
			}
			return true
		})
	}
	return found
}

var negatedCmp = map[token.Token]token.Token{
	token.EQL: token.NEQ, token.NEQ: token.EQL,
	token.LSS: token.GEQ, token.GEQ: token.LSS,
	token.GTR: token.LEQ, token.LEQ: token.GTR,
}
