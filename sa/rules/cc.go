package rules

import (
	"fmt"
	"go/ast"
	"go/token"
	"go/types"

	"verif/sa/core"
)

// chanFieldsReceivedIn returns the channel fields a function receives from.
func chanFieldsReceivedIn(f *core.Func) map[*types.Var]bool {
	out := map[*types.Var]bool{}
	info := f.Info()
	f.OwnNodes(func(n ast.Node) bool {
		if u, ok := n.(*ast.UnaryExpr); ok && u.Op == token.ARROW {
			if v := core.FieldOf(info, u.X); v != nil {
				out[v] = true
			}
		}
		return true
	})
	return out
}

// ruleCC1: goroutine roots close their channels first thing.
func ruleCC1(pkgs ...string) Rule {
	return Rule{ID: "CC1", Kind: "must", Floor: len(pkgs),
		Doc: "every goroutine root defers, as its first statement, a closure that closes the token channel (and the done channel when the struct has one) before anything in it can panic",
		Run: func(c *Ctx, rr *core.RuleResult) {
			inPkg := map[string]bool{}
			for _, p := range pkgs {
				inPkg[p] = true
			}
			seen := map[*core.Func]bool{}
			for _, g := range c.goRoots() {
				t := g.Target
				if !inPkg[t.Pkg.Name] || seen[t] {
					continue
				}
				seen[t] = true
				// the token channel: the field Lex receives from
				lex := c.fn(t.Pkg.Name + ".(*lexer).Lex")
				if lex == nil {
					rr.Unk(t, t.Name+"|Lex", t.Pos(), "no Lex method found for the lexer of this root")
					continue
				}
				need := chanFieldsReceivedIn(lex)
				if done := c.fieldVar(t.Pkg.Name, "lexer", "done"); done != nil {
					need[done] = true
				}
				if len(need) == 0 {
					rr.Unk(t, t.Name+"|token-channel", t.Pos(), "Lex does not receive from a channel field")
					continue
				}
				fl := c.rootHandler(t)
				if len(t.Body.List) == 0 || fl == nil {
					rr.Bad(t, t.Name+"|defer-first", t.Pos(), "the root's first statement is not a deferred closure: a panic or bail-out would leave the parser blocked in Lex forever")
					continue
				}
				info := t.Info()
				for v := range need {
					key := fmt.Sprintf("%s|close(%s)", t.Name, v.Name())
					closedAt := -1
					firstPanic := len(fl.Body.List)
					for i, s := range fl.Body.List {
						if containsPanic(info, s) && i < firstPanic {
							firstPanic = i
						}
						// close(x.f) as a statement, or inside `if x.f != nil { close(x.f) }`
						ast.Inspect(s, func(n ast.Node) bool {
							call, ok := n.(*ast.CallExpr)
							if ok && isBuiltinCall(info, call, "close") && len(call.Args) == 1 && core.FieldOf(info, call.Args[0]) == v {
								if _, direct := s.(*ast.ExprStmt); direct || nilGuardOnly(info, s, v) {
									if closedAt < 0 {
										closedAt = i
									}
								}
							}
							return true
						})
					}
					switch {
					case closedAt < 0:
						rr.Bad(t, key, fl.Pos(), fmt.Sprintf("the deferred closure does not unconditionally close %s: whoever receives from it blocks forever when the lexer stops", v.Name()))
					case closedAt > firstPanic:
						rr.Bad(t, key, fl.Pos(), fmt.Sprintf("%s is closed only after a statement that may re-panic", v.Name()))
					default:
						rr.OK(t, key, fl.Body.List[closedAt].Pos(), "deferred", "closed in the root's first deferred closure before any re-panic")
					}
				}
			}
		}}
}

// nilGuardOnly reports whether s is `if x.f != nil { close(x.f) }`.
func nilGuardOnly(info *types.Info, s ast.Stmt, v *types.Var) bool {
	ifs, ok := s.(*ast.IfStmt)
	if !ok || ifs.Init != nil || ifs.Else != nil {
		return false
	}
	be, ok := ast.Unparen(ifs.Cond).(*ast.BinaryExpr)
	if !ok || be.Op != token.NEQ || !isNilIdent(info, be.Y) || core.FieldOf(info, be.X) != v {
		return false
	}
	return len(ifs.Body.List) == 1
}
