package rules

import (
	"fmt"
	"go/ast"
	"go/constant"
	"go/token"
	"go/types"
	"strings"

	"verif/sa/core"
)

// ---------------------------------------------------------------------------
// Walking a reduce action.
//
// The same walker that enumerates the paths of an operator scanner
// (scanpaths.go) walks the body of a reduce action: helpers of the package are
// inlined with the arguments they are handed (so `lazyLHS(yylex, $1, LAND)`
// becomes the && branch of that helper), $k and $$ are structures whose leaves
// are opaque values named after where they come from, calls that are not
// followed yield fresh opaque values that remember the callee and its
// arguments, comparisons of an opaque value with a constant split the path and
// are remembered, and calls the caller is interested in (opening and closing
// the gate) are recorded as events with their evaluated arguments.  Nothing is
// executed; the result is, per path, the sequence of events, the comparisons
// decided on the way and the final $$.

type actionWalk struct {
	paths []*spath
	yyval types.Object
	why   string
}

// opaqueOf builds a value of type t whose leaves are opaque.
func (w *scanWalker) opaqueOf(t types.Type, origin string, depth int) sval {
	if st, ok := t.Underlying().(*types.Struct); ok && depth < 4 {
		out := sval{kind: svStruct, fields: map[string]sval{}}
		for i := 0; i < st.NumFields(); i++ {
			out.fields[st.Field(i).Name()] = w.opaqueOf(st.Field(i).Type(), origin+"."+st.Field(i).Name(), depth+1)
		}
		return out
	}
	w.nextID++
	return sval{kind: svOpaque, sym: w.nextID, origin: origin}
}

// dollarOf evaluates yyDollar[k]: the k-th symbol's value, opaque.  The
// identities are stable within one walk: "$k.member.field" always names the
// same opaque value.
func (w *scanWalker) dollarOf(g *core.Func, e *ast.IndexExpr) (sval, bool) {
	id, ok := ast.Unparen(e.X).(*ast.Ident)
	if !ok || id.Name != "yyDollar" {
		return sval{}, false
	}
	k, ok := evalInt(e.Index)
	if !ok {
		return sval{}, false
	}
	t := g.Info().TypeOf(e)
	if t == nil {
		return sval{}, false
	}
	return w.stableOpaque(t, fmt.Sprintf("$%d", k)), true
}

var stableIDs = map[*scanWalker]map[string]int{}

func (w *scanWalker) stableOpaque(t types.Type, origin string) sval {
	if st, ok := t.Underlying().(*types.Struct); ok {
		out := sval{kind: svStruct, fields: map[string]sval{}}
		for i := 0; i < st.NumFields(); i++ {
			out.fields[st.Field(i).Name()] = w.stableOpaque(st.Field(i).Type(), origin+"."+st.Field(i).Name())
		}
		return out
	}
	m := stableIDs[w]
	if m == nil {
		m = map[string]int{}
		stableIDs[w] = m
	}
	if id, ok := m[origin]; ok {
		return sval{kind: svOpaque, sym: id, origin: origin}
	}
	w.nextID++
	m[origin] = w.nextID
	return sval{kind: svOpaque, sym: w.nextID, origin: origin}
}

// store assigns v to a field selected from a tracked structure: the structure
// is copied with the field replaced and stored back where it came from.
func (w *scanWalker) store(g *core.Func, p *spath, lhs ast.Expr, v sval) {
	info := g.Info()
	lhs = ast.Unparen(lhs)
	switch x := lhs.(type) {
	case *ast.Ident:
		obj := info.Uses[x]
		if obj == nil {
			obj = info.Defs[x]
		}
		if obj != nil {
			if _, tracked := p.env[obj]; tracked {
				p.env[obj] = v
			}
		}
	case *ast.StarExpr:
		w.store(g, p, x.X, v)
	case *ast.SelectorExpr:
		if _, isField := info.Selections[x]; !isField {
			return
		}
		rs := w.eval(g, x.X, p, 0)
		if len(rs) != 1 || rs[0].v.kind != svStruct {
			return
		}
		nf := make(map[string]sval, len(rs[0].v.fields))
		for k, f := range rs[0].v.fields {
			nf[k] = f
		}
		nf[x.Sel.Name] = v
		w.store(g, p, x.X, sval{kind: svStruct, fields: nf})
	}
}

// actionCall is callExpr in action mode.
func (w *scanWalker) actionCall(g *core.Func, e *ast.CallExpr, h *core.Func, args []sval, p *spath, depth int) []sres {
	info := g.Info()
	eff := h
	if h != nil {
		eff = w.c.effective(h)
	}
	if eff != nil && w.classify != nil {
		// "+kind": record the call and go on as for any other call (its results are wanted)
		if k := w.classify(eff); k != "" {
			p.events = append(p.events, sevent{kind: strings.TrimPrefix(k, "+"), args: args, pos: e.Pos(), ncons: len(p.cons)})
			if !strings.HasPrefix(k, "+") {
				return []sres{{p, sval{}}}
			}
		}
	}
	// results of a call that is not followed
	opaqueResult := func() sval {
		var sig *types.Signature
		if t := info.TypeOf(e.Fun); t != nil {
			sig, _ = t.Underlying().(*types.Signature)
		}
		n := 1
		if sig != nil {
			n = sig.Results().Len()
		}
		mk := func(i int) sval {
			w.nextID++
			var t types.Type
			if sig != nil && i < sig.Results().Len() {
				t = sig.Results().At(i).Type()
			}
			v := sval{kind: svOpaque, sym: w.nextID, origin: "call", fn: eff, idx: i, elems: args}
			if t != nil {
				if st, ok := t.Underlying().(*types.Struct); ok {
					// a structure returned by an unknown call: opaque leaves that remember the call
					out := sval{kind: svStruct, fields: map[string]sval{}}
					for j := 0; j < st.NumFields(); j++ {
						w.nextID++
						out.fields[st.Field(j).Name()] = sval{kind: svOpaque, sym: w.nextID, origin: "call." + st.Field(j).Name(), fn: eff, idx: i, elems: args}
					}
					return out
				}
			}
			return v
		}
		switch n {
		case 0:
			return sval{}
		case 1:
			return mk(0)
		}
		t := sval{kind: svTuple}
		for i := 0; i < n; i++ {
			t.elems = append(t.elems, mk(i))
		}
		return t
	}
	if h == nil || h.Pkg != g.Pkg || h.Body == nil || h.Decl == nil || h.Generated || depth >= 4 || w.inlineOK == nil || !w.inlineOK(h) {
		// a call that is not followed may write through the pointers it is handed: what
		// `&x` arguments and a pointer receiver point to is unknown afterwards
		havoc := func(x ast.Expr) {
			if t := info.TypeOf(x); t != nil {
				if _, isStruct := t.Underlying().(*types.Struct); isStruct {
					w.store(g, p, x, w.opaqueOf(t, "havoc", 0))
				}
			}
		}
		for _, a := range e.Args {
			if u, ok := ast.Unparen(a).(*ast.UnaryExpr); ok && u.Op == token.AND {
				havoc(u.X)
			}
		}
		if se, ok := ast.Unparen(e.Fun).(*ast.SelectorExpr); ok {
			if sel := info.Selections[se]; sel != nil && sel.Kind() == types.MethodVal {
				if sig, ok := sel.Type().(*types.Signature); ok && sig.Recv() != nil {
					if _, ptr := sig.Recv().Type().(*types.Pointer); ptr {
						havoc(se.X)
					}
				}
			}
		}
		return []sres{{p, opaqueResult()}}
	}
	// inline h: parameters, and the receiver by copy-in/copy-out
	q := p
	saved := q.env
	q.env = map[types.Object]sval{}
	hi := h.Info()
	var recvObj types.Object
	var recvExpr ast.Expr
	if h.Decl.Recv != nil && len(h.Decl.Recv.List) == 1 && len(h.Decl.Recv.List[0].Names) == 1 {
		recvObj = hi.Defs[h.Decl.Recv.List[0].Names[0]]
		if se, ok := ast.Unparen(e.Fun).(*ast.SelectorExpr); ok {
			recvExpr = se.X
			savedEnv := q.env
			q.env = saved
			rs := w.eval(g, se.X, q, depth)
			q.env = savedEnv
			if len(rs) == 1 {
				q.env[recvObj] = rs[0].v
			} else {
				q.env[recvObj] = sval{}
			}
		}
	}
	k := 0
	sig := h.Obj.Type().(*types.Signature)
	if h.Type.Params != nil {
		for _, fld := range h.Type.Params.List {
			for _, nm := range fld.Names {
				obj := hi.Defs[nm]
				switch {
				case sig.Variadic() && k == sig.Params().Len()-1 && !e.Ellipsis.IsValid():
					var rest []sval
					if k < len(args) {
						rest = args[k:]
					}
					q.env[obj] = sval{kind: svSlice, elems: rest}
				case k < len(args):
					q.env[obj] = args[k]
				default:
					q.env[obj] = sval{}
				}
				k++
			}
		}
	}
	// pointer arguments `&x`: the parameter holds x's value, and what it holds at the end
	// is stored back
	type outArg struct {
		obj  types.Object
		expr ast.Expr
	}
	var outs []outArg
	{
		k := 0
		if h.Type.Params != nil {
			for _, fld := range h.Type.Params.List {
				for _, nm := range fld.Names {
					if k < len(e.Args) {
						if u, ok := ast.Unparen(e.Args[k]).(*ast.UnaryExpr); ok && u.Op == token.AND {
							outs = append(outs, outArg{hi.Defs[nm], u.X})
						}
					}
					k++
				}
			}
		}
	}
	var out []sres
	_, ptrRecv := sig.Recv(), false
	if r := sig.Recv(); r != nil {
		_, ptrRecv = r.Type().(*types.Pointer)
	}
	for _, r := range w.call(h, q, depth+1) {
		final := r.env[recvObj]
		finals := make([]sval, len(outs))
		for i, oa := range outs {
			finals[i] = r.env[oa.obj]
		}
		r.env = make(map[types.Object]sval, len(saved))
		for k, v := range saved {
			r.env[k] = v
		}
		for i, oa := range outs {
			if finals[i].kind == svStruct {
				w.store(g, r, oa.expr, finals[i])
			}
		}
		if ptrRecv && recvExpr != nil && recvObj != nil && final.kind == svStruct {
			w.store(g, r, recvExpr, final)
		}
		var v sval
		switch len(r.ret) {
		case 0:
		case 1:
			v = r.ret[0]
		default:
			v = sval{kind: svTuple, elems: r.ret}
		}
		r.ret = nil
		out = append(out, sres{r, v})
	}
	return out
}

// walkAction walks the reduce action of a production of the grammar of pkg.
func (c *Ctx) walkAction(pkg string, p *Production, classify func(*core.Func) string, inlineOK func(*core.Func) bool) *actionWalk {
	gi := c.grammar(pkg)
	res := &actionWalk{}
	if gi.Err != nil {
		res.why = gi.Err.Error()
		return res
	}
	cc := gi.Checked.Cases[p.N]
	if cc == nil {
		res.why = "no action"
		return res
	}
	var parse *core.Func
	for _, f := range c.funcsOfPkg(pkg, true) {
		if f.Generated && f.Body != nil && f.Body.Pos() <= cc.Pos() && cc.End() <= f.Body.End() {
			parse = f
		}
	}
	if parse == nil {
		res.why = "the function holding the reduce actions was not found"
		return res
	}
	w := &scanWalker{c: c, pkg: pkg, action: true, classify: classify, inlineOK: inlineOK}
	defer delete(stableIDs, w)
	defer func() {
		if e := recover(); e != nil {
			if a, ok := e.(scanAbort); ok {
				res.paths, res.why = nil, a.why
				return
			}
			panic(e)
		}
	}()
	info := parse.Info()
	st := &spath{env: map[types.Object]sval{}}
	// $$ starts as $1 (goyacc presets it); without a right-hand side it is unknown
	ast.Inspect(cc, func(n ast.Node) bool {
		if id, ok := n.(*ast.Ident); ok && id.Name == "yyVAL" && res.yyval == nil {
			res.yyval = info.Uses[id]
		}
		return true
	})
	if res.yyval != nil {
		if len(p.RHS) > 0 {
			st.env[res.yyval] = w.stableOpaque(res.yyval.Type(), "$1")
		} else {
			st.env[res.yyval] = w.opaqueOf(res.yyval.Type(), "$$", 0)
		}
	}
	var body []ast.Stmt
	for _, s := range cc.Body {
		// `yyDollar = yyS[…]` is the driver's bookkeeping
		if as, ok := s.(*ast.AssignStmt); ok && len(as.Lhs) == 1 {
			if id, ok := as.Lhs[0].(*ast.Ident); ok && id.Name == "yyDollar" {
				continue
			}
		}
		body = append(body, s)
	}
	res.paths = w.block(parse, body, st, 0)
	return res
}

// boolOf returns the truth of a value the walk has decided.
func boolOf(v sval) (bool, bool) {
	if v.kind == svConst && v.c.Kind() == constant.Bool {
		return constant.BoolVal(v.c), true
	}
	return false, false
}

var _ = token.NoPos
