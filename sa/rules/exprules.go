package rules

import (
	"fmt"
	"go/ast"
	"go/token"
	"go/types"
	"strings"

	"verif/sa/core"
)

// typeSwitchClause returns the clause of a type switch in f listing type name.
func typeSwitchClauses(f *core.Func, typ string) []*ast.CaseClause {
	info := f.Info()
	var out []*ast.CaseClause
	f.OwnNodes(func(n ast.Node) bool {
		ts, ok := n.(*ast.TypeSwitchStmt)
		if !ok {
			return true
		}
		for _, cl := range ts.Body.List {
			cc := cl.(*ast.CaseClause)
			for _, e := range cc.List {
				if tv, ok := info.Types[e]; ok && namedTypeName(tv.Type) == typ {
					out = append(out, cc)
				}
			}
		}
		return true
	})
	return out
}

// ruleQU: quoting is literal.
func ruleQU() Rule {
	return Rule{ID: "QU", Kind: "must", Floor: 3,
		Doc: "in expand, everything produced under `case *ast.Quote` is joined as quoted (constant true) or expanded recursively with the Quote mode bit; tilde expansion is attempted only on unquoted literals and gives up at once in Arith/Quote mode (QU1); the single-quote scanner compares the rune with nothing but the closing quote and copies every other rune (QU2)",
		Run: func(c *Ctx, rr *core.RuleResult) {
			f := c.mustFn(rr, "interp.(*ExecEnv).expand")
			if f != nil {
				info := f.Info()
				clauses := typeSwitchClauses(f, "*ast.Quote")
				if len(clauses) == 0 {
					rr.Unk(f, f.Name+"|case *ast.Quote", f.Pos(), "no type-switch clause for *ast.Quote")
				}
				for _, cc := range clauses {
					ast.Inspect(cc, func(n ast.Node) bool {
						call, ok := n.(*ast.CallExpr)
						if !ok {
							return true
						}
						name := calleeName(info, call)
						switch {
						case strings.HasSuffix(name, "(*field).join") && len(call.Args) == 2:
							key := f.Name + "|quote arm join(" + exprStr(call.Args[0]) + ", " + exprStr(call.Args[1]) + ")"
							if exprStr(call.Args[1]) == "true" {
								rr.OK(f, key, call.Pos(), "quoted", "text from a quoted part is marked quoted")
							} else {
								rr.Bad(f, key, call.Pos(), "text taken from a quoted part is joined with quote="+exprStr(call.Args[1])+": it would be field-split, globbed or tilde-expanded")
							}
						case strings.HasSuffix(name, "(*ExecEnv).expand") && len(call.Args) == 2:
							key := f.Name + "|quote arm expand(…, " + exprStr(call.Args[1]) + ")"
							hasQuote := false
							ast.Inspect(call.Args[1], func(x ast.Node) bool {
								if id, ok := x.(*ast.Ident); ok && id.Name == "Quote" {
									if _, isConst := info.Uses[id].(*types.Const); isConst {
										hasQuote = true
									}
								}
								return true
							})
							// the Quote bit must be OR-ed in, not merely masked
							if be, ok := ast.Unparen(call.Args[1]).(*ast.BinaryExpr); !ok || be.Op != token.OR {
								hasQuote = false
							}
							if hasQuote {
								rr.OK(f, key, call.Pos(), "quote-mode", "the content of double quotes is expanded in Quote mode")
							} else {
								rr.Bad(f, key, call.Pos(), "the content of double quotes is expanded without the Quote mode bit")
							}
						}
						return true
					})
				}
				// expandTilde only under case *ast.Lit
				et := c.fn("interp.(*ExecEnv).expandTilde")
				lit := typeSwitchClauses(f, "*ast.Lit")
				for _, call := range c.callsTo(f, et) {
					key := f.Name + "|expandTilde under *ast.Lit"
					in := false
					for _, cc := range lit {
						if cc.Pos() <= call.Pos() && call.End() <= cc.End() {
							in = true
						}
					}
					if in {
						rr.OK(f, key, call.Pos(), "literal-only", "tilde expansion is attempted on unquoted literals only")
					} else {
						rr.Bad(f, key, call.Pos(), "tilde expansion is attempted outside the *ast.Lit arm")
					}
				}
				if et != nil && len(et.Body.List) > 0 {
					key := et.Name + "|gives up in Arith/Quote mode"
					ok := false
					if ifs, isIf := et.Body.List[0].(*ast.IfStmt); isIf && endsInJump(ifs.Body) {
						for _, d := range disjuncts(ifs.Cond) {
							s := exprStr(d)
							if strings.Contains(s, "Quote") && strings.Contains(s, "!= 0") {
								ok = true
							}
						}
					}
					if ok {
						rr.OK(et, key, et.Pos(), "early-return", "no tilde expansion in Quote (or Arith) mode")
					} else {
						rr.Bad(et, key, et.Pos(), "expandTilde does not start by returning when the Quote mode bit is set: a tilde inside double quotes would be expanded")
					}
				}
			}
			// QU2
			g := c.mustFn(rr, "parser.(*lexer).scanQuote")
			if g == nil {
				return
			}
			info := g.Info()
			var sq *swClause
			for _, sw := range switches(c.P, g) {
				if cl := sw.clauseFor('\''); cl != nil && sw.parent == nil {
					sq = cl
				}
			}
			if sq == nil {
				rr.Unk(g, g.Name+"|single-quote arm", g.Pos(), "no case for the single quote")
				return
			}
			var loop *ast.ForStmt
			ast.Inspect(sq.cc, func(n ast.Node) bool {
				if fs, ok := n.(*ast.ForStmt); ok && loop == nil {
					loop = fs
				}
				return true
			})
			if loop == nil {
				rr.Unk(g, g.Name+"|single-quote loop", sq.cc.Pos(), "no loop in the single-quote arm")
				return
			}
			var cmps []string
			var calls []string
			writes := false
			ast.Inspect(loop.Body, func(n ast.Node) bool {
				switch n := n.(type) {
				case *ast.BinaryExpr:
					if v, ok := constInt(info, n.Y); ok && (n.Op == token.EQL || n.Op == token.NEQ) {
						if t := info.Types[n.X].Type; t != nil && t.String() == "rune" {
							cmps = append(cmps, string(rune(v)))
						}
					}
				case *ast.CaseClause:
					for _, e := range n.List {
						if v, ok := constInt(info, e); ok {
							cmps = append(cmps, string(rune(v)))
						}
					}
				case *ast.CallExpr:
					if fo := core.StaticCallee(info, n); fo != nil {
						switch g := c.P.FuncOf(fo); {
						case g != nil && g == c.fn("parser.(*lexer).read"):
							calls = append(calls, "read")
						case g != nil && c.errorReporters()[g]:
							calls = append(calls, "error")
						default:
							calls = append(calls, fo.Name())
						}
						if fo.Name() == "WriteRune" {
							writes = true
						}
					}
				}
				return true
			})
			key := g.Name + "|single quotes interpret nothing"
			okCmp := len(cmps) == 1 && cmps[0] == "'"
			okCalls := true
			for _, n := range calls {
				switch n {
				case "read", "WriteRune", "error":
				default:
					okCalls = false
				}
			}
			if okCmp && okCalls && writes {
				rr.OK(g, key, loop.Pos(), "literal", "inside single quotes the rune is compared only with the closing quote and otherwise copied")
			} else {
				rr.Bad(g, key, loop.Pos(), fmt.Sprintf("inside single quotes the scanner compares the rune with %q and calls %v: some character is treated specially, so single-quoted text does not survive unchanged", cmps, calls))
			}
		}}
}

// ruleSP: field splitting side conditions.
func ruleSP() Rule {
	return Rule{ID: "SP", Kind: "must", Floor: 3,
		Doc: "in split: a quoted segment is joined as quoted, never cut, and clears the white-space state (SP1); field.empty consults the quoted flag; an unset IFS means the constant \" \\t\\n\" (SP2); cut offsets inside `for j, r := range s` advance by the rune's encoded width (BR3)",
		Run: func(c *Ctx, rr *core.RuleResult) {
			f := c.mustFn(rr, "interp.(*ExecEnv).split")
			if f == nil {
				return
			}
			info := f.Info()
			// SP1: the if statement testing f.quote[i]
			found := false
			f.OwnNodes(func(n ast.Node) bool {
				ifs, ok := n.(*ast.IfStmt)
				if !ok {
					return true
				}
				ix, ok := ast.Unparen(ifs.Cond).(*ast.IndexExpr)
				if !ok || !fieldSel(info, ix.X, "interp", "field", "quote") {
					return true
				}
				found = true
				key := f.Name + "|quoted segment arm"
				joinsQuoted, cuts, clearsWS := false, false, false
				ast.Inspect(ifs.Body, func(x ast.Node) bool {
					switch x := x.(type) {
					case *ast.CallExpr:
						if strings.HasSuffix(calleeName(info, x), "(*field).join") && len(x.Args) == 2 && exprStr(x.Args[1]) == "true" {
							joinsQuoted = true
						}
						if isBuiltinCall(info, x, "append") || isBuiltinCall(info, x, "new") {
							cuts = true
						}
					case *ast.SliceExpr:
						cuts = true
					case *ast.AssignStmt:
						// the white-space state: a boolean local set to false here
						if len(x.Lhs) == 1 && len(x.Rhs) == 1 && exprStr(x.Rhs[0]) == "false" {
							if id, ok := x.Lhs[0].(*ast.Ident); ok {
								if v, ok := info.Uses[id].(*types.Var); ok && !v.IsField() && v.Type().String() == "bool" {
									clearsWS = true
								}
							}
						}
					}
					return true
				})
				if joinsQuoted && !cuts && clearsWS {
					rr.OK(f, key, ifs.Pos(), "uncut", "a quoted segment is appended whole, marked quoted, and ends any white-space run")
				} else {
					rr.Bad(f, key, ifs.Pos(), fmt.Sprintf("the quoted-segment arm joins-as-quoted=%v cuts=%v clears-ws=%v: quoted text may be split, or a following delimiter mis-handled", joinsQuoted, cuts, clearsWS))
				}
				return true
			})
			if !found {
				rr.Bad(f, f.Name+"|quoted segment arm", f.Pos(), "split does not test the segment's quoted flag: quoted text is cut at IFS characters")
			}
			// field.empty consults quote
			if e := c.mustFn(rr, "interp.(*field).empty"); e != nil {
				ei := e.Info()
				uses := false
				e.OwnNodes(func(n ast.Node) bool {
					if se, ok := n.(*ast.SelectorExpr); ok && fieldSel(ei, se, "interp", "field", "quote") {
						uses = true
					}
					return true
				})
				if uses {
					rr.OK(e, e.Name+"|consults quote", e.Pos(), "quoted-counts", "a quoted (even empty) part keeps the field alive")
				} else {
					rr.Bad(e, e.Name+"|consults quote", e.Pos(), "field.empty ignores the quoted flag: `\"\"` no longer yields a field")
				}
			}
			// SP2
			pk := c.P.Pkgs["interp"]
			if cobj, ok := pk.Types.Scope().Lookup("IFS").(*types.Const); ok {
				key := "interp.IFS|value"
				if cobj.Val().ExactString() == `" \t\n"` {
					rr.OKp(c.P, key, cobj.Pos(), "posix", "space, tab, newline")
				} else {
					rr.Badp(c.P, key, cobj.Pos(), "the default IFS is "+cobj.Val().ExactString()+`, POSIX says " \t\n"`)
				}
			} else {
				rr.Unkp(c.P, "interp.IFS|value", 0, "no IFS constant")
			}
			okDefault := false
			f.OwnNodes(func(n ast.Node) bool {
				ifs, ok := n.(*ast.IfStmt)
				if !ok || ifs.Init == nil || ifs.Else == nil {
					return true
				}
				as, ok := ifs.Init.(*ast.AssignStmt)
				if !ok || len(as.Rhs) != 1 {
					return true
				}
				call, ok := as.Rhs[0].(*ast.CallExpr)
				if !ok || !strings.HasSuffix(calleeName(info, call), "(*ExecEnv).Get") || len(call.Args) != 1 {
					return true
				}
				if s, ok := constStr(info, call.Args[0]); !ok || s != "IFS" {
					return true
				}
				ast.Inspect(ifs.Else, func(x ast.Node) bool {
					if a2, ok := x.(*ast.AssignStmt); ok && len(a2.Rhs) == 1 {
						if id, ok := a2.Rhs[0].(*ast.Ident); ok && id.Name == "IFS" {
							okDefault = true
						}
					}
					return true
				})
				return true
			})
			if okDefault {
				rr.OK(f, f.Name+"|unset IFS default", f.Pos(), "default", "an unset IFS behaves as the constant IFS")
			} else {
				rr.Bad(f, f.Name+"|unset IFS default", f.Pos(), "when IFS is unset split does not fall back to the constant IFS (space-tab-newline)")
			}
			// BR3
			f.OwnNodes(func(n ast.Node) bool {
				rs, ok := n.(*ast.RangeStmt)
				if !ok || rs.Key == nil || rs.Value == nil {
					return true
				}
				if t := info.Types[rs.X].Type; t == nil || t.String() != "string" {
					return true
				}
				j := exprStr(rs.Key)
				ast.Inspect(rs.Body, func(x ast.Node) bool {
					as, ok := x.(*ast.AssignStmt)
					if !ok || len(as.Lhs) != 1 || len(as.Rhs) != 1 {
						return true
					}
					be, ok := ast.Unparen(as.Rhs[0]).(*ast.BinaryExpr)
					if !ok || be.Op != token.ADD || exprStr(be.X) != j {
						return true
					}
					key := f.Name + "|cut offset after a delimiter"
					y := exprStr(be.Y)
					if decodedWidthAt(f, info, be.Y, rs) {
						rr.OK(f, key, as.Pos(), "decoded-width", "the cut offset advances by the width DecodeRuneInString reports at the range position, which is what the range statement consumed")
					} else {
						rr.Bad(f, key, as.Pos(), "the cut offset advances by `"+y+"`, not by the number of bytes the range statement consumed at this position: for an invalid byte (ranged as U+FFFD, one byte) utf8.RuneLen gives 3, the offset overtakes the next delimiter and s[i:j] panics (IFS containing U+FFFD or an invalid byte, value \"\\xff\\xff\"); a constant leaves stray bytes of a multi-byte delimiter")
					}
					return true
				})
				return true
			})
		}}
}

// ---------------------------------------------------------------------------
// BR1: no byte quantity reaches a column.

func ruleBR1() Rule {
	return Rule{ID: "BR1", Kind: "must-not", Floor: 10,
		Doc: "taint: no byte length or byte offset (len of a string, strings.Index*, the index variable of a range over a string, utf8.RuneLen, ReadRune's size) flows into a column: the column argument of ast.NewPos, the argument of Pos.shift, or the lexer's col field; utf8.RuneCountInString sanitises; spellings that are ASCII by construction (operator strings) are clean",
		Run: func(c *Ctx, rr *core.RuleResult) {
			cleanField := map[string]string{
				"ParamExp.Op": "operator spelling built from ASCII case labels (TB10)", "Assign.Op": "the constant \"=\"",
				"token.val": "reserved-word or operator spelling from the words/ops tables (ASCII)",
			}
			for _, pkg := range []string{"parser", "ast"} {
				for _, f := range c.funcsOfPkg(pkg, false) {
					info := f.Info()
					// tainted locals (fixpoint)
					tainted := map[types.Object]string{}
					var taintOf func(e ast.Expr) string
					taintOf = func(e ast.Expr) string {
						why := ""
						ast.Inspect(e, func(n ast.Node) bool {
							if why != "" {
								return false
							}
							switch n := n.(type) {
							case *ast.CallExpr:
								name := calleeName(info, n)
								switch {
								case name == "unicode/utf8.RuneCountInString" || name == "unicode/utf8.RuneCount":
									return false // sanitiser
								case isBuiltinCall(info, n, "len") && len(n.Args) == 1:
									t := info.Types[n.Args[0]].Type
									if t != nil && t.String() == "string" {
										if v := core.FieldOf(info, n.Args[0]); v != nil {
											owner := ownerOfField(info, n.Args[0])
											if i := strings.LastIndex(owner, "."); i >= 0 {
												owner = owner[i+1:]
											}
											if _, clean := cleanField[owner+"."+v.Name()]; clean {
												return false
											}
										}
										why = "len(" + exprStr(n.Args[0]) + ") is a byte length"
									}
									return false
								case strings.HasPrefix(name, "strings.Index") || strings.HasPrefix(name, "strings.LastIndex") || strings.HasPrefix(name, "bytes.Index"):
									why = name + " returns a byte offset"
									return false
								case name == "unicode/utf8.RuneLen":
									why = "utf8.RuneLen is a byte width"
									return false
								}
								// a helper of the package: what its returns are made of
								if fo := core.StaticCallee(info, n); fo != nil {
									if h := c.P.FuncOf(fo); h != nil && h.Body != nil && h.Decl != nil && h != f && depthBR1 < 2 {
										depthBR1++
										hw := c.returnsByteQuantity(h)
										depthBR1--
										if hw != "" {
											why = h.Short + " returns a byte quantity (" + hw + ")"
											return false
										}
										if c.returnsRuneCount(h) {
											return false // a counting helper: its argument is text
										}
									}
								}
							case *ast.Ident:
								if o := info.Uses[n]; o != nil {
									if w, ok := tainted[o]; ok {
										why = w
									}
								}
							}
							return true
						})
						return why
					}
					for changed := true; changed; {
						changed = false
						f.OwnNodes(func(n ast.Node) bool {
							switch n := n.(type) {
							case *ast.AssignStmt:
								for i, l := range n.Lhs {
									id, ok := l.(*ast.Ident)
									if !ok {
										continue
									}
									o := info.Defs[id]
									if o == nil {
										o = info.Uses[id]
									}
									if o == nil || tainted[o] != "" {
										continue
									}
									var w string
									// a string is text, not a quantity: slicing it at a byte offset is what byte offsets are for
									if b, isB := o.Type().Underlying().(*types.Basic); isB && b.Info()&types.IsString != 0 {
										continue
									}
									if len(n.Rhs) == len(n.Lhs) {
										w = taintOf(n.Rhs[i])
									} else if len(n.Rhs) == 1 {
										// r, size, err := ReadRune(): the second result is a byte size
										if call, ok := n.Rhs[0].(*ast.CallExpr); ok && strings.HasSuffix(calleeName(info, call), ".ReadRune") && i == 1 {
											w = "ReadRune's size result is a byte width"
										}
										if call, ok := n.Rhs[0].(*ast.CallExpr); ok && strings.HasPrefix(calleeName(info, call), "unicode/utf8.Decode") && i == 1 {
											w = "the decoded width is a byte width"
										}
									}
									if w != "" {
										tainted[o] = w
										changed = true
									}
								}
							case *ast.RangeStmt:
								if t := info.Types[n.X].Type; t != nil && t.String() == "string" && n.Key != nil {
									if id, ok := n.Key.(*ast.Ident); ok && id.Name != "_" {
										if o := info.Defs[id]; o != nil && tainted[o] == "" {
											tainted[o] = "the index variable of a range over a string is a byte offset"
											changed = true
										}
									}
								}
							}
							return true
						})
					}
					// sinks
					sink := func(e ast.Expr, what string, pos token.Pos) {
						key := f.Name + "|" + what
						if w := taintOf(e); w != "" {
							rr.Bad(f, key, pos, "a byte quantity reaches a column: "+w+"; columns count characters, so positions drift on lines with multi-byte characters")
						} else {
							rr.OK(f, key, pos, "rune-clean", "no byte length or offset flows into this column")
						}
					}
					f.OwnNodes(func(n ast.Node) bool {
						switch n := n.(type) {
						case *ast.CallExpr:
							name := calleeName(info, n)
							switch {
							case strings.HasSuffix(name, "ast.NewPos") && len(n.Args) == 2:
								sink(n.Args[1], "NewPos(…, "+exprStr(n.Args[1])+")", n.Pos())
							case strings.HasSuffix(name, "ast.Pos.shift") && len(n.Args) == 1:
								sink(n.Args[0], exprStr(n.Fun)+"("+exprStr(n.Args[0])+")", n.Pos())
							}
						case *ast.AssignStmt:
							for i, l := range n.Lhs {
								if v := core.FieldOf(info, l); v != nil && (v.Name() == "col" || v.Name() == "prevCol") && v.Pkg() != nil && (v.Pkg().Name() == "parser" || v.Pkg().Name() == "ast") && i < len(n.Rhs) {
									sink(n.Rhs[i], exprStr(l)+" "+n.Tok.String()+" "+exprStr(n.Rhs[i]), n.Pos())
								}
							}
						case *ast.CompositeLit:
							// Pos{line, col}
							if namedTypeName(info.Types[n].Type) == "ast.Pos" && len(n.Elts) == 2 {
								if _, isKV := n.Elts[1].(*ast.KeyValueExpr); !isKV {
									sink(n.Elts[1], "Pos{…, "+exprStr(n.Elts[1])+"}", n.Pos())
								}
							}
						}
						return true
					})
				}
			}
		}}
}

// decodedWidthAt reports whether w is a local bound to the width result of
// utf8.DecodeRuneInString(s[j:]) for the string and key of the range
// statement rs.
func decodedWidthAt(f *core.Func, info *types.Info, w ast.Expr, rs *ast.RangeStmt) bool {
	id, ok := ast.Unparen(w).(*ast.Ident)
	if !ok {
		return false
	}
	obj := info.Uses[id]
	found := false
	ast.Inspect(rs.Body, func(n ast.Node) bool {
		as, ok := n.(*ast.AssignStmt)
		if !ok || len(as.Lhs) != 2 || len(as.Rhs) != 1 {
			return true
		}
		wid, ok := as.Lhs[1].(*ast.Ident)
		if !ok || (info.Defs[wid] != obj && info.Uses[wid] != obj) {
			return true
		}
		call, ok := ast.Unparen(as.Rhs[0]).(*ast.CallExpr)
		if !ok || calleeName(info, call) != "unicode/utf8.DecodeRuneInString" || len(call.Args) != 1 {
			return true
		}
		se, ok := ast.Unparen(call.Args[0]).(*ast.SliceExpr)
		if !ok || se.High != nil || se.Low == nil {
			return true
		}
		if exprStr(se.X) == exprStr(rs.X) && exprStr(se.Low) == exprStr(rs.Key) {
			found = true
		}
		return true
	})
	return found
}

// ---------------------------------------------------------------------------
// QU3: "$@" with no positional parameters.

func ruleQU3() Rule {
	return Rule{ID: "QU3", Kind: "must", Floor: 1,
		Doc: "a double-quoted part always contributes a field - except \"$@\" when there are no positional parameters, which generates none (XCU 2.5.2). In expand's `case *ast.Quote`, the recursive expansion in Quote mode (which marks the field as quoted, hence kept) is preceded by a test that reads the positional parameters (ExecEnv.Args, directly or in a helper of the package) and leaves the clause",
		Run: func(c *Ctx, rr *core.RuleResult) {
			f := c.mustFn(rr, "interp.(*ExecEnv).expand")
			if f == nil {
				return
			}
			info := f.Info()
			args := c.fieldVar("interp", "ExecEnv", "Args")
			readsArgs := func(g *core.Func, n ast.Node) bool {
				found := false
				gi := g.Info()
				ast.Inspect(n, func(x ast.Node) bool {
					if se, ok := x.(*ast.SelectorExpr); ok && core.FieldOf(gi, se) == args {
						found = true
					}
					return !found
				})
				return found
			}
			condReadsArgs := func(cond ast.Expr) bool {
				if readsArgs(f, cond) {
					return true
				}
				ok := false
				ast.Inspect(cond, func(x ast.Node) bool {
					if call, isCall := x.(*ast.CallExpr); isCall {
						if fo := core.StaticCallee(info, call); fo != nil {
							if h := c.P.FuncOf(fo); h != nil && h.Pkg == f.Pkg && h.Body != nil && h != f && readsArgs(h, h.Body) {
								ok = true
							}
						}
					}
					return !ok
				})
				return ok
			}
			n := 0
			for _, cc := range typeSwitchClauses(f, "*ast.Quote") {
				// the recursive expansions in Quote mode
				ast.Inspect(cc, func(x ast.Node) bool {
					call, ok := x.(*ast.CallExpr)
					if !ok {
						return true
					}
					direct := strings.HasSuffix(calleeName(info, call), "(*ExecEnv).expand") && len(call.Args) == 2
					// or through a helper of the package that expands the word it is handed
					viaHelper := false
					if fo := core.StaticCallee(info, call); fo != nil && !direct {
						if h := c.P.FuncOf(fo); h != nil && h != f && h.Pkg == f.Pkg && h.Decl != nil && h.Body != nil && len(h.Body.List) <= 6 && len(c.callsTo(h, f)) > 0 {
							for _, a := range call.Args {
								if tv, has := info.Types[a]; has && tv.Type != nil && namedTypeName(tv.Type) == "ast.Word" {
									viaHelper = true
								}
							}
						}
					}
					if !direct && !viaHelper {
						return true
					}
					n++
					key := fmt.Sprintf("%s|quoted expansion #%d", f.Name, n)
					// an earlier if in the same clause body that reads Args and leaves
					guarded := false
					inner := enclosingCase(c.P, call)
					if inner != nil {
						for _, st := range inner.Body {
							if st.Pos() >= call.Pos() {
								break
							}
							ifs, ok := st.(*ast.IfStmt)
							if !ok || !condReadsArgs(ifs.Cond) {
								continue
							}
							ast.Inspect(ifs.Body, func(y ast.Node) bool {
								switch y.(type) {
								case *ast.BranchStmt, *ast.ReturnStmt:
									guarded = true
								}
								return true
							})
						}
					}
					if guarded {
						rr.OK(f, key, call.Pos(), "zero-fields", "the clause is left before the field is marked quoted when \"$@\" has nothing to expand to")
					} else {
						rr.Bad(f, key, call.Pos(), "the double-quoted part is expanded (and the field marked as quoted, hence kept) without asking whether it is \"$@\" with no positional parameters: that case must generate zero fields, not one empty field")
					}
					return true
				})
			}
			if n == 0 {
				rr.Unk(f, f.Name+"|quoted expansion", f.Pos(), "no recursive expansion found under case *ast.Quote")
			}
		}}
}

// ---------------------------------------------------------------------------
// FE1: an empty unquoted field produced by splitting never reaches the result.

func ruleFE1() Rule {
	return Rule{ID: "FE1", Kind: "must", Floor: 1,
		Doc: "split() emits an empty field for adjacent delimiters and leaves it to its caller to drop the ones that contain nothing quoted. In Expand, whatever is added to the result for a field that came out of split() is added only under `!f.empty()` - in the loop itself, or inside the helper the field is handed to, before anything is returned for it - whichever option (NoGlob) is set",
		Run: func(c *Ctx, rr *core.RuleResult) {
			f := c.mustFn(rr, "interp.(*ExecEnv).Expand")
			split := c.mustFn(rr, "interp.(*ExecEnv).split")
			if f == nil || split == nil {
				return
			}
			emptyFn := c.mustFn(rr, "interp.(*field).empty")
			n := 0
			c.regionNodes(f, func(g *core.Func, x ast.Node) bool {
				rs, ok := x.(*ast.RangeStmt)
				if !ok || rs.Value == nil {
					return true
				}
				info := g.Info()
				if !c.callsFunc(info, rs.X, split) {
					// or a variable bound to split's result
					id, isID := ast.Unparen(rs.X).(*ast.Ident)
					if !isID || !boundToCallOf(c, g, info.Uses[id], split) {
						return true
					}
				}
				vid, ok := rs.Value.(*ast.Ident)
				if !ok {
					return true
				}
				v := info.Defs[vid]
				notEmpty := func(h *core.Func, at ast.Node, obj types.Object) bool {
					hi := h.Info()
					for _, gd := range guardsOf(c.P, at, nil) {
						call, ok := ast.Unparen(gd.cond).(*ast.CallExpr)
						if !ok || gd.pos {
							continue
						}
						se, ok := call.Fun.(*ast.SelectorExpr)
						if !ok {
							continue
						}
						if fo := core.StaticCallee(hi, call); fo == nil || emptyFn == nil || c.P.FuncOf(fo) != emptyFn {
							continue
						}
						if id, ok := ast.Unparen(se.X).(*ast.Ident); ok && hi.Uses[id] == obj {
							return true
						}
					}
					return false
				}
				ast.Inspect(rs.Body, func(y ast.Node) bool {
					call, ok := y.(*ast.CallExpr)
					if !ok || !isBuiltinCall(info, call, "append") || len(call.Args) < 2 {
						return true
					}
					mentions := false
					var helperCall *ast.CallExpr
					for _, a := range call.Args[1:] {
						ast.Inspect(a, func(z ast.Node) bool {
							if id, ok := z.(*ast.Ident); ok && info.Uses[id] == v {
								mentions = true
							}
							return true
						})
						if hc, ok := ast.Unparen(a).(*ast.CallExpr); ok {
							helperCall = hc
						}
					}
					if !mentions {
						return true
					}
					n++
					key := fmt.Sprintf("%s|field of split added #%d", f.Name, n)
					if notEmpty(g, call, v) {
						rr.OK(g, key, call.Pos(), "non-empty", "added only under !f.empty()")
						return true
					}
					// inside the helper the field is handed to
					if helperCall != nil {
						if fo := core.StaticCallee(info, helperCall); fo != nil {
							if h := c.P.FuncOf(fo); h != nil && h.Pkg == g.Pkg && h.Body != nil && h.Type.Params != nil {
								hi := h.Info()
								var hp types.Object
								k := 0
								for _, fld := range h.Type.Params.List {
									for _, nm := range fld.Names {
										if k < len(helperCall.Args) {
											if id, ok := ast.Unparen(helperCall.Args[k]).(*ast.Ident); ok && info.Uses[id] == v {
												hp = hi.Defs[nm]
											}
										}
										k++
									}
								}
								if hp != nil {
									allOK := true
									h.OwnNodes(func(z ast.Node) bool {
										ret, ok := z.(*ast.ReturnStmt)
										if !ok || len(ret.Results) == 0 || isNilIdent(hi, ret.Results[0]) {
											return true
										}
										if !notEmpty(h, ret, hp) {
											allOK = false
										}
										return true
									})
									if allOK {
										rr.OK(g, key, call.Pos(), "non-empty", "the helper returns something for the field only under !f.empty()")
										return true
									}
								}
							}
						}
					}
					rr.Bad(g, key, call.Pos(), "a field that came out of split() is added to the result without `!f.empty()` on some path: with a non-white-space IFS character next to another delimiter (`a::b`, `a, b` with IFS=\\\" ,\\\") an empty field that contains nothing quoted shows up in the result")
					return true
				})
				return true
			})
			if n == 0 {
				rr.Unk(f, f.Name+"|field of split added", f.Pos(), "no loop over split()'s result that appends to the result list: idiom not recognised")
			}
		}}
}

// ---------------------------------------------------------------------------
// OP1: "#" is two operators.

func ruleOP1() Rule {
	return Rule{ID: "OP1", Kind: "must", Floor: 2,
		Doc: "the AST spells both the string-length form `${#name}` and prefix removal `${name#word}` with Op \"#\"; they differ in Word being nil. Every function of interp and printer that matches a ParamExp's Op against \"#\" also examines that ParamExp's Word for nil - itself, or every caller that hands it the ParamExp does - so that the length form is never treated like prefix removal (`\"${#@}\"` without positional parameters is `0`, not nothing)",
		Run: func(c *Ctx, rr *core.RuleResult) {
			type facts struct {
				matched    map[types.Object]token.Pos
				wordTested map[types.Object]bool
			}
			all := map[*core.Func]*facts{}
			var funcs []*core.Func
			for _, pkg := range []string{"interp", "printer"} {
				for _, f := range c.funcsOfPkg(pkg, false) {
					if f.Decl == nil {
						continue
					}
					funcs = append(funcs, f)
					info := f.Info()
					isPE := func(e ast.Expr) types.Object {
						id, ok := ast.Unparen(e).(*ast.Ident)
						if !ok {
							return nil
						}
						obj := info.Uses[id]
						if obj == nil || namedTypeName(obj.Type()) != "*ast.ParamExp" {
							return nil
						}
						return obj
					}
					opOf := func(e ast.Expr) types.Object {
						se, ok := ast.Unparen(e).(*ast.SelectorExpr)
						if !ok || se.Sel.Name != "Op" {
							return nil
						}
						return isPE(se.X)
					}
					isHash := func(e ast.Expr) bool {
						s, ok := constStr(info, e)
						return ok && s == "#"
					}
					fa := &facts{map[types.Object]token.Pos{}, map[types.Object]bool{}}
					all[f] = fa
					f.OwnNodes(func(n ast.Node) bool {
						switch x := n.(type) {
						case *ast.BinaryExpr:
							if x.Op == token.EQL || x.Op == token.NEQ {
								if o := opOf(x.X); o != nil && isHash(x.Y) {
									if _, ok := fa.matched[o]; !ok {
										fa.matched[o] = x.Pos()
									}
								}
								if se, ok := ast.Unparen(x.X).(*ast.SelectorExpr); ok && se.Sel.Name == "Word" && isNilIdent(info, x.Y) {
									if o := isPE(se.X); o != nil {
										fa.wordTested[o] = true
									}
								}
							}
						case *ast.SwitchStmt:
							if x.Tag == nil {
								return true
							}
							o := opOf(x.Tag)
							if o == nil {
								return true
							}
							for _, cl := range x.Body.List {
								for _, e := range cl.(*ast.CaseClause).List {
									if isHash(e) {
										if _, ok := fa.matched[o]; !ok {
											fa.matched[o] = e.Pos()
										}
									}
								}
							}
						case *ast.CallExpr:
							// len(pe.Word) == 0 also tells the forms apart
							if id, ok := x.Fun.(*ast.Ident); ok && id.Name == "len" && len(x.Args) == 1 {
								if se, ok := ast.Unparen(x.Args[0]).(*ast.SelectorExpr); ok && se.Sel.Name == "Word" {
									if o := isPE(se.X); o != nil {
										fa.wordTested[o] = true
									}
								}
							}
						}
						return true
					})
				}
			}
			// callersTest: o is a parameter of f and every call of f hands over a ParamExp
			// whose Word the caller examines (or that the caller received under the same terms)
			var callersTest func(f *core.Func, o types.Object, depth int) bool
			callersTest = func(f *core.Func, o types.Object, depth int) bool {
				if depth > 2 || f.Obj == nil || f.Obj.Exported() {
					return false
				}
				idx, k := -1, 0
				if f.Type.Params != nil {
					for _, fld := range f.Type.Params.List {
						for _, nm := range fld.Names {
							if f.Info().Defs[nm] == o {
								idx = k
							}
							k++
						}
					}
				}
				if idx < 0 {
					return false
				}
				sites := 0
				for _, g := range funcs {
					gi := g.Info()
					for _, call := range c.callsTo(g, f) {
						sites++
						if idx >= len(call.Args) {
							return false
						}
						id, ok := ast.Unparen(call.Args[idx]).(*ast.Ident)
						if !ok {
							return false
						}
						a := gi.Uses[id]
						if a == nil || !(all[g].wordTested[a] || callersTest(g, a, depth+1)) {
							return false
						}
					}
				}
				return sites > 0
			}
			for _, f := range funcs {
				fa := all[f]
				for o, pos := range fa.matched {
					key := fmt.Sprintf("%s|Op of %s matched against \"#\"", f.Name, o.Name())
					switch {
					case fa.wordTested[o]:
						rr.OK(f, key, pos, "forms-told-apart", "the function also examines Word for nil")
					case callersTest(f, o, 0):
						rr.OK(f, key, pos, "forms-told-apart", "every caller examines Word for nil before handing the expansion over")
					default:
						rr.Bad(f, key, pos, "the operator is matched against \"#\" but Word is never examined, neither here nor by every caller: the string-length form ${#name} (Word == nil) is handled like prefix removal ${name#word}")
					}
				}
			}
		}}
}

// ---------------------------------------------------------------------------
// QU3b / SP3: which expansions are "$@", and which parameters are always set.

func ruleQU3b() Rule {
	return Rule{ID: "QU3b", Kind: "must", Floor: 2,
		Doc: "(QU3b) only the plain form `$@` / `${@}` generates zero fields inside double-quotes: the helper that decides it (the function consulted in the Quote arm that reads the positional parameters) compares each part's operator with the empty string - a test on anything else (Word being nil) also accepts the length form `${#@}`, which is `0`; (SP3) the special parameters `@` and `*` are set whatever they hold: in expandParam their clauses assign the `set` flag true, they do not derive it from the value (an empty `$*` is not an unset parameter under nounset or for `-`/`+`/`?`/`=`)",
		Run: func(c *Ctx, rr *core.RuleResult) {
			args := c.fieldVar("interp", "ExecEnv", "Args")
			// QU3b: functions of interp that read Args and range over the parts of a word looking at *ast.ParamExp
			for _, f := range c.funcsOfPkg("interp", false) {
				if f.Decl == nil || f.Type.Results == nil || len(f.Type.Results.List) != 1 || exprStr(f.Type.Results.List[0].Type) != "bool" {
					continue
				}
				info := f.Info()
				readsArgs, peObj := false, types.Object(nil)
				f.OwnNodes(func(n ast.Node) bool {
					switch x := n.(type) {
					case *ast.SelectorExpr:
						if core.FieldOf(info, x) == args {
							readsArgs = true
						}
					case *ast.TypeAssertExpr:
						if x.Type != nil && exprStr(x.Type) == "*ast.ParamExp" {
							if as, ok := c.P.Parent(x).(*ast.AssignStmt); ok && len(as.Lhs) >= 1 {
								if id, ok := as.Lhs[0].(*ast.Ident); ok {
									peObj = info.Defs[id]
								}
							}
						}
					}
					return true
				})
				if !readsArgs || peObj == nil {
					continue
				}
				key := f.Name + "|only the plain form"
				opTested := false
				f.OwnNodes(func(n ast.Node) bool {
					switch x := n.(type) {
					case *ast.BinaryExpr:
						if x.Op != token.EQL && x.Op != token.NEQ {
							return true
						}
						se, ok := ast.Unparen(x.X).(*ast.SelectorExpr)
						if !ok || se.Sel.Name != "Op" {
							return true
						}
						if id, ok := ast.Unparen(se.X).(*ast.Ident); ok && info.Uses[id] == peObj {
							if s, isC := constStr(info, x.Y); isC && s == "" {
								opTested = true
							}
						}
					case *ast.SwitchStmt:
						if x.Tag == nil {
							return true
						}
						se, ok := ast.Unparen(x.Tag).(*ast.SelectorExpr)
						if !ok || se.Sel.Name != "Op" {
							return true
						}
						if id, ok := ast.Unparen(se.X).(*ast.Ident); ok && info.Uses[id] == peObj {
							// a switch over the operator: the accepting clause may list "" only together with
							// operators that carry a word (OP1 watches "#")
							opTested = true
						}
					}
					return true
				})
				if opTested {
					rr.OK(f, key, f.Pos(), "operator-tested", "the part's operator is compared with the empty string")
				} else {
					rr.Bad(f, key, f.Pos(), "the helper that decides whether a quoted part is \"$@\" with nothing to expand to never compares the part's operator with \"\": a test on something else (Word == nil) also accepts the length form, so \"${#@}\" without positional parameters yields no field instead of 0")
				}
			}
			// SP3
			ep := c.mustFn(rr, "interp.(*ExecEnv).expandParam")
			get := c.fn("interp.(*ExecEnv).Get")
			if ep == nil || get == nil {
				return
			}
			// the look-up may live in expandParam or in a helper it calls (two levels): the function
			// that receives Get's second result is the one whose `@` and `*` clauses are examined
			cellOf := func(info *types.Info, e ast.Expr) types.Object {
				switch x := ast.Unparen(e).(type) {
				case *ast.Ident:
					if o := info.Uses[x]; o != nil {
						return o
					}
					return info.Defs[x]
				case *ast.SelectorExpr:
					if v := core.FieldOf(info, x); v != nil {
						return v
					}
				}
				return nil
			}
			var setObj types.Object
			var lookup *core.Func
			var search func(g *core.Func, depth int)
			search = func(g *core.Func, depth int) {
				if g == nil || g.Body == nil || depth > 2 || setObj != nil {
					return
				}
				gi := g.Info()
				g.OwnNodes(func(n ast.Node) bool {
					as, ok := n.(*ast.AssignStmt)
					if !ok || len(as.Lhs) != 2 || len(as.Rhs) != 1 {
						return true
					}
					call, ok := ast.Unparen(as.Rhs[0]).(*ast.CallExpr)
					if !ok {
						return true
					}
					if fo := core.StaticCallee(gi, call); fo != nil && c.P.FuncOf(fo) == get && setObj == nil {
						setObj, lookup = cellOf(gi, as.Lhs[1]), g
					}
					return true
				})
				if setObj != nil {
					return
				}
				g.OwnNodes(func(n ast.Node) bool {
					if call, ok := n.(*ast.CallExpr); ok {
						if fo := core.StaticCallee(gi, call); fo != nil {
							if h := c.P.FuncOf(fo); h != nil && h != g && h != get && h.Pkg == g.Pkg && h.Decl != nil && h.Short != "(*ExecEnv).expand" {
								search(h, depth+1)
							}
						}
					}
					return true
				})
			}
			search(ep, 0)
			if setObj == nil {
				rr.Unk(ep, ep.Name+"|set flag", ep.Pos(), "the flag that receives Get's second result was not found")
				return
			}
			info := lookup.Info()
			for _, name := range []string{"@", "*"} {
				key := fmt.Sprintf("%s|$%s is always set", ep.Name, name)
				var clause *swClause
				for _, sw := range switches(c.P, lookup) {
					for _, cl := range sw.clauses {
						if cl.strs[name] && len(cl.strs) == 1 {
							clause = cl
						}
					}
				}
				if clause == nil {
					rr.Bad(lookup, key, lookup.Pos(), fmt.Sprintf("expandParam has no clause of its own for $%s: it is handled like a named variable, whose `set` comes from Get - for a special parameter Get derives it from the value being non-empty, so an empty $%s counts as unset", name, name))
					continue
				}
				ok := false
				for _, st := range clause.cc.Body {
					if as, isAs := st.(*ast.AssignStmt); isAs && len(as.Lhs) == 1 && len(as.Rhs) == 1 {
						if cellOf(info, as.Lhs[0]) == setObj && exprStr(as.Rhs[0]) == "true" {
							ok = true
						}
					}
				}
				if ok {
					rr.OK(lookup, key, clause.cc.Pos(), "set-true", "the clause sets the flag unconditionally")
				} else {
					rr.Bad(lookup, key, clause.cc.Pos(), fmt.Sprintf("the clause for $%s does not set the `set` flag to true unconditionally", name))
				}
			}
		}}
}

// ---------------------------------------------------------------------------
// QU4: escaping of quoted text in patterns is one backslash per special character.

func ruleQU4() Rule {
	return Rule{ID: "QU4", Kind: "must", Floor: 1,
		Doc: "field.pattern() turns the quoted segments of a field into pattern text in which every character matches itself: in the branch for a quoted segment a backslash is written only immediately before a character copied from the segment (the special character it escapes). A backslash written for any other reason - to 'protect' what the output ends with - re-pairs the backslashes already written and leaves the next special character unescaped (`\\\\\\*` becomes `\\\\\\\\*`, a wildcard)",
		Run: func(c *Ctx, rr *core.RuleResult) {
			f := c.mustFn(rr, "interp.(*field).pattern")
			quoteF := c.fieldVar("interp", "field", "quote")
			if f == nil {
				return
			}
			info := f.Info()
			isBackslash := func(e ast.Expr) bool {
				if v, ok := constInt(info, e); ok && v == '\\' {
					return true
				}
				s, ok := constStr(info, e)
				return ok && s == `\`
			}
			write := func(st ast.Stmt) (*ast.CallExpr, bool) {
				es, ok := st.(*ast.ExprStmt)
				if !ok {
					return nil, false
				}
				call, ok := es.X.(*ast.CallExpr)
				if !ok || len(call.Args) != 1 {
					return nil, false
				}
				se, ok := call.Fun.(*ast.SelectorExpr)
				if !ok || !strings.HasPrefix(se.Sel.Name, "Write") {
					return nil, false
				}
				return call, true
			}
			n, bad := 0, token.NoPos
			f.OwnNodes(func(x ast.Node) bool {
				ifs, ok := x.(*ast.IfStmt)
				if !ok {
					return true
				}
				quotedBranch := false
				ast.Inspect(ifs.Cond, func(y ast.Node) bool {
					if se, ok := y.(*ast.SelectorExpr); ok && core.FieldOf(info, se) == quoteF {
						quotedBranch = true
					}
					// whatever the flag slice is called: an element of a []bool field of the field value
					if ix, ok := y.(*ast.IndexExpr); ok {
						if v := core.FieldOf(info, ix.X); v != nil {
							if sl, isSl := v.Type().Underlying().(*types.Slice); isSl {
								if b, isB := sl.Elem().Underlying().(*types.Basic); isB && b.Kind() == types.Bool {
									quotedBranch = true
								}
							}
						}
					}
					return true
				})
				if !quotedBranch {
					return true
				}
				// the branch itself and the helpers of the package it hands the segment to
				roots := []ast.Node{ifs.Body}
				ast.Inspect(ifs.Body, func(y ast.Node) bool {
					if call, ok := y.(*ast.CallExpr); ok {
						if fo := core.StaticCallee(info, call); fo != nil {
							if h := c.P.FuncOf(fo); h != nil && h.Pkg == f.Pkg && h.Body != nil && h.Obj != nil && !h.Obj.Exported() && h != f {
								roots = append(roots, h.Body)
							}
						}
					}
					return true
				})
				for _, root := range roots {
					ast.Inspect(root, func(y ast.Node) bool {
						var list []ast.Stmt
						switch b := y.(type) {
						case *ast.BlockStmt:
							list = b.List
						case *ast.CaseClause:
							list = b.Body
						default:
							return true
						}
						for i, st := range list {
							call, ok := write(st)
							if !ok || !isBackslash(call.Args[0]) {
								continue
							}
							n++
							okNext := false
							if i+1 < len(list) {
								if nx, ok := write(list[i+1]); ok {
									if _, isConst := info.Types[nx.Args[0]]; isConst && info.Types[nx.Args[0]].Value == nil {
										okNext = true
									}
								}
							}
							if !okNext {
								bad = call.Pos()
							}
						}
						return true
					})
				}
				return true
			})
			key := f.Name + "|one backslash per escaped character"
			switch {
			case n == 0:
				rr.Unk(f, key, f.Pos(), "no backslash is written in the branch for quoted segments: idiom not recognised")
			case bad == token.NoPos:
				rr.OK(f, key, f.Pos(), "paired", fmt.Sprintf("%d backslash write(s), each directly followed by the character it escapes", n))
			default:
				rr.Bad(f, key, bad, "a backslash is written in the branch for quoted text that is not directly followed by the character it escapes: it re-pairs the backslashes written before it, and the next special character of the quoted text is left unescaped")
			}
		}}
}

var depthBR1 int

// returnsByteQuantity: some return of h is len(string), a strings.Index* result
// or utf8.RuneLen (directly in the returned expression).
func (c *Ctx) returnsByteQuantity(h *core.Func) string {
	info := h.Info()
	why := ""
	h.OwnNodes(func(n ast.Node) bool {
		ret, ok := n.(*ast.ReturnStmt)
		if !ok {
			return true
		}
		for _, e := range ret.Results {
			ast.Inspect(e, func(x ast.Node) bool {
				call, isCall := x.(*ast.CallExpr)
				if !isCall || why != "" {
					return why == ""
				}
				name := calleeName(info, call)
				switch {
				case name == "unicode/utf8.RuneCountInString" || name == "unicode/utf8.RuneCount":
					return false
				case isBuiltinCall(info, call, "len") && len(call.Args) == 1:
					if t := info.Types[call.Args[0]].Type; t != nil && t.String() == "string" {
						why = "len(" + exprStr(call.Args[0]) + ")"
					}
				case strings.HasPrefix(name, "strings.Index") || strings.HasPrefix(name, "strings.LastIndex") || name == "unicode/utf8.RuneLen":
					why = name
				}
				return true
			})
		}
		return true
	})
	return why
}

// returnsRuneCount: every return of h is a rune count (possibly plus constants).
func (c *Ctx) returnsRuneCount(h *core.Func) bool {
	info := h.Info()
	n, ok := 0, true
	h.OwnNodes(func(x ast.Node) bool {
		ret, isRet := x.(*ast.ReturnStmt)
		if !isRet {
			return true
		}
		n++
		if len(ret.Results) != 1 {
			ok = false
			return true
		}
		found := false
		ast.Inspect(ret.Results[0], func(y ast.Node) bool {
			if call, isCall := y.(*ast.CallExpr); isCall {
				if name := calleeName(info, call); name == "unicode/utf8.RuneCountInString" || name == "unicode/utf8.RuneCount" {
					found = true
					return false
				}
			}
			return true
		})
		if !found {
			ok = false
		}
		return true
	})
	return ok && n > 0
}
