package rules

import (
	"fmt"
	"go/ast"
	"go/token"
	"go/types"
	"strings"

	"golang.org/x/tools/go/cfg"

	"verif/sa/core"
)

// astStore describes a write into AST storage.
type astStore struct {
	f    *core.Func
	node ast.Node
	what string
}

func isASTType(t types.Type) bool {
	for {
		switch u := t.(type) {
		case *types.Pointer:
			t = u.Elem()
			continue
		case *types.Slice:
			t = u.Elem()
			continue
		}
		break
	}
	n, ok := t.(*types.Named)
	return ok && n.Obj().Pkg() != nil && n.Obj().Pkg().Name() == "ast"
}

// astStores lists assignments whose target is a field of an ast struct or
// an element of a slice of ast values, plus mutating std calls on such slices.
func astStores(c *Ctx, f *core.Func) []astStore {
	info := f.Info()
	var out []astStore
	target := func(l ast.Expr) (bool, string) {
		switch l := ast.Unparen(l).(type) {
		case *ast.SelectorExpr:
			if v := core.FieldOf(info, l); v != nil && v.Pkg() != nil && v.Pkg().Name() == "ast" {
				return true, exprStr(l)
			}
		case *ast.IndexExpr:
			if t := info.Types[l.X].Type; t != nil {
				// a slot of a slice owned by a non-AST struct (the printer's own stack) is not AST storage
				if v := core.FieldOf(info, l.X); v != nil && (v.Pkg() == nil || v.Pkg().Name() != "ast") {
					return false, ""
				}
				if _, isMap := t.Underlying().(*types.Map); !isMap && isASTType(t) {
					return true, exprStr(l)
				}
				// element of a slice stored in an ast field (e.g. []Word, []*Redir)
				if v := core.FieldOf(info, l.X); v != nil && v.Pkg() != nil && v.Pkg().Name() == "ast" {
					return true, exprStr(l)
				}
			}
		case *ast.StarExpr:
			if t := info.Types[l.X].Type; t != nil && isASTType(t) {
				return true, exprStr(l)
			}
		}
		return false, ""
	}
	f.OwnNodes(func(n ast.Node) bool {
		switch n := n.(type) {
		case *ast.AssignStmt:
			for _, l := range n.Lhs {
				if ok, w := target(l); ok {
					out = append(out, astStore{f, n, w + " " + n.Tok.String()})
				}
			}
		case *ast.IncDecStmt:
			if ok, w := target(n.X); ok {
				out = append(out, astStore{f, n, w + n.Tok.String()})
			}
		case *ast.CallExpr:
			name := calleeName(info, n)
			if strings.HasPrefix(name, "sort.") || strings.HasPrefix(name, "slices.Sort") || strings.HasPrefix(name, "slices.Reverse") {
				if len(n.Args) > 0 {
					if t := info.Types[n.Args[0]].Type; t != nil && isASTType(t) {
						out = append(out, astStore{f, n, name + "(" + exprStr(n.Args[0]) + ")"})
					}
				}
			}
			if isBuiltinCall(info, n, "copy") && len(n.Args) == 2 {
				if t := info.Types[n.Args[0]].Type; t != nil && isASTType(t) {
					out = append(out, astStore{f, n, "copy(" + exprStr(n.Args[0]) + ", …)"})
				}
			}
			if isBuiltinCall(info, n, "append") && len(n.Args) >= 1 {
				// append to a slice that lives in the AST may write into its backing array
				if v := core.FieldOf(info, n.Args[0]); v != nil && v.Pkg() != nil && v.Pkg().Name() == "ast" {
					out = append(out, astStore{f, n, "append(" + exprStr(n.Args[0]) + ", …)"})
				}
			}
		}
		return true
	})
	return out
}

// rulePU1: the printer's only AST writes are the trim idiom, always undone.
func rulePU1() Rule {
	return Rule{ID: "PU1", Kind: "must-not", Floor: 3,
		Doc: "package printer writes to the AST only in the trim idiom (store of \"\" guarded by field == K inside a function that returns a closure storing K back), and every call of that function defers the returned closure on the non-nil branch",
		Run: func(c *Ctx, rr *core.RuleResult) {
			var trimFns = map[*core.Func]bool{}
			for _, f := range c.funcsOfPkg("printer", false) {
				info := f.Info()
				for _, st := range astStores(c, f) {
					key := f.Name + "|" + st.what
					as, isAssign := st.node.(*ast.AssignStmt)
					root := f.Root()
					if !isAssign || len(as.Lhs) != 1 || len(as.Rhs) != 1 {
						rr.Bad(f, key, st.node.Pos(), "the printer modifies the tree it prints: "+st.what)
						continue
					}
					val, isConst := constStr(info, as.Rhs[0])
					if !isConst {
						rr.Bad(f, key, st.node.Pos(), "the printer stores a non-constant into the AST: "+st.what)
						continue
					}
					if f.Lit != nil {
						// the restoring closure: must be the operand of a return statement
						// that directly follows the hiding store, and restore the compared constant
						ret, _ := c.P.Parent(f.Lit).(*ast.ReturnStmt)
						ifs, _ := enclosing(c.P, f.Lit, func(n ast.Node) bool { _, ok := n.(*ast.IfStmt); return ok }).(*ast.IfStmt)
						if ret == nil || ifs == nil {
							rr.Bad(f, key, st.node.Pos(), "an AST store inside a closure that is not the value returned by the trim idiom")
							continue
						}
						cmp, ok := ast.Unparen(ifs.Cond).(*ast.BinaryExpr)
						k, isK := "", false
						if ok && cmp.Op == token.EQL {
							k, isK = constStr(root.Info(), cmp.Y)
						}
						if ok && isK && exprStr(cmp.X) == exprStr(as.Lhs[0]) && k == val {
							rr.OK(f, key, st.node.Pos(), "restore", fmt.Sprintf("restores the compared value %q", val))
							trimFns[root] = true
						} else {
							rr.Bad(f, key, st.node.Pos(), fmt.Sprintf("the undo closure stores %q but the hidden value was compared with %q: the tree is left changed after printing", val, k))
						}
						continue
					}
					// the hiding store: inside `if X.f == K {`, followed by a return of a closure
					ifs, _ := c.P.Parent(c.P.Parent(as)).(*ast.IfStmt)
					ok := false
					if ifs != nil {
						if cmp, isCmp := ast.Unparen(ifs.Cond).(*ast.BinaryExpr); isCmp && cmp.Op == token.EQL && exprStr(cmp.X) == exprStr(as.Lhs[0]) {
							i := stmtIndex(c.P, ifs.Body.List, as)
							if i >= 0 && i+1 < len(ifs.Body.List) {
								if ret, isRet := ifs.Body.List[i+1].(*ast.ReturnStmt); isRet && len(ret.Results) == 1 {
									if _, isLit := ret.Results[0].(*ast.FuncLit); isLit {
										ok = true
									}
								}
							}
						}
					}
					if ok {
						rr.OK(f, key, st.node.Pos(), "hide", "temporary store, immediately followed by returning its undo closure")
						trimFns[f] = true
					} else {
						rr.Bad(f, key, st.node.Pos(), "the printer modifies the tree it prints outside the hide/undo idiom: "+st.what)
					}
				}
			}
			// every call of a trim function defers its result - or hands it to its own caller, which
			// then has the obligation (the function joins the set and the calls are examined again)
			judged := map[*ast.CallExpr]bool{}
			for round := 0; round < 6; round++ {
				grew := false
				for _, f := range c.funcsOfPkg("printer", false) {
					info := f.Info()
					f.OwnNodes(func(n ast.Node) bool {
						call, ok := n.(*ast.CallExpr)
						if !ok || judged[call] {
							return true
						}
						fo := core.StaticCallee(info, call)
						if fo == nil || !trimFns[c.P.FuncOf(fo)] {
							return true
						}
						judged[call] = true
						key := f.Name + "|" + exprStr(call)
						as, _ := c.P.Parent(call).(*ast.AssignStmt)
						var ifs *ast.IfStmt
						if as != nil {
							ifs, _ = c.P.Parent(as).(*ast.IfStmt)
						}
						defersWhenSet := func(ifs *ast.IfStmt, name string) bool {
							if be, ok := ast.Unparen(ifs.Cond).(*ast.BinaryExpr); ok && be.Op == token.NEQ && isNilIdent(info, be.Y) && exprStr(be.X) == name {
								for _, s := range ifs.Body.List {
									if ds, ok := s.(*ast.DeferStmt); ok && exprStr(ds.Call.Fun) == name {
										return true
									}
								}
							}
							return false
						}
						good, passedOn := false, false
						if as != nil && len(as.Lhs) == 1 && len(as.Rhs) == 1 {
							if id, _ := as.Lhs[0].(*ast.Ident); id != nil {
								switch {
								case ifs != nil && ifs.Init == ast.Stmt(as):
									good = defersWhenSet(ifs, id.Name)
								default:
									// the test follows the assignment
									if blk, ok := c.P.Parent(as).(*ast.BlockStmt); ok {
										if i := stmtIndex(c.P, blk.List, as); i >= 0 && i+1 < len(blk.List) {
											if nx, ok := blk.List[i+1].(*ast.IfStmt); ok && nx.Init == nil {
												good = defersWhenSet(nx, id.Name)
											}
										}
									}
									// or the closure is this function's own result
									if !good {
										if v, ok := objOf(info, id).(*types.Var); ok && isNamedResult(f, v) && onlyHideResults(c, f, v, trimFns) {
											passedOn = true
										}
									}
								}
							}
						}
						if ret, ok := c.P.Parent(call).(*ast.ReturnStmt); ok && len(ret.Results) == 1 && f.Lit == nil {
							passedOn = true
						}
						if passedOn {
							if _, complete := c.callSitesOf(f); complete {
								rr.OK(f, key, call.Pos(), "handed-on", "the undo closure is this function's result; every caller is held to deferring it")
								if !trimFns[f] {
									trimFns[f] = true
									grew = true
								}
								return true
							}
						}
						if good {
							rr.OK(f, key, call.Pos(), "deferred", "the undo closure is deferred whenever it is non-nil")
						} else {
							rr.Bad(f, key, call.Pos(), "the result of the hide function is not deferred on the non-nil branch: the hidden separator is never restored and the tree stays modified after Fprint")
						}
						return true
					})
				}
				if !grew {
					break
				}
			}
		}}
}

// objOf is the object an identifier defines or uses.
func objOf(info *types.Info, id *ast.Ident) types.Object {
	if o := info.Defs[id]; o != nil {
		return o
	}
	return info.Uses[id]
}

// isNamedResult reports whether v is a named result of f.
func isNamedResult(f *core.Func, v *types.Var) bool {
	if f.Type.Results == nil {
		return false
	}
	for _, fld := range f.Type.Results.List {
		for _, nm := range fld.Names {
			if f.Info().Defs[nm] == types.Object(v) {
				return len(f.Type.Results.List) == 1 && len(fld.Names) == 1
			}
		}
	}
	return false
}

// onlyHideResults: the named result v of f is assigned nothing but nil and
// results of hide functions, and every return statement is bare or returns v.
func onlyHideResults(c *Ctx, f *core.Func, v *types.Var, hide map[*core.Func]bool) bool {
	info := f.Info()
	ok := true
	f.OwnNodes(func(n ast.Node) bool {
		switch x := n.(type) {
		case *ast.AssignStmt:
			for i, l := range x.Lhs {
				id, isID := ast.Unparen(l).(*ast.Ident)
				if !isID || objOf(info, id) != types.Object(v) {
					continue
				}
				if len(x.Lhs) != len(x.Rhs) {
					ok = false
					continue
				}
				r := ast.Unparen(x.Rhs[i])
				if isNilIdent(info, r) {
					continue
				}
				call, isCall := r.(*ast.CallExpr)
				if !isCall {
					ok = false
					continue
				}
				fo := core.StaticCallee(info, call)
				if fo == nil || !hide[c.P.FuncOf(fo)] {
					ok = false
				}
			}
		case *ast.ReturnStmt:
			if len(x.Results) == 1 {
				if id, isID := ast.Unparen(x.Results[0]).(*ast.Ident); !isID || info.Uses[id] != types.Object(v) {
					ok = false
				}
			}
		case *ast.UnaryExpr:
			if id, isID := ast.Unparen(x.X).(*ast.Ident); isID && x.Op == token.AND && info.Uses[id] == types.Object(v) {
				ok = false
			}
		}
		return true
	})
	return ok
}

// rulePU2: no source of nondeterminism in the printer.
func rulePU2() Rule {
	return Rule{ID: "PU2", Kind: "must-not", Floor: 1,
		Doc: "nothing reachable from Fprint ranges over a map, reads mutable package-level state, or calls time, math/rand or os (printing the same tree twice gives the same bytes)",
		Run: func(c *Ctx, rr *core.RuleResult) {
			scope := c.scopeOf("printer.Fprint", "printer.(*Config).Fprint")
			n := 0
			for _, f := range sortedFuncs(scope) {
				if f.Pkg.Name != "printer" && f.Pkg.Name != "ast" {
					continue
				}
				info := f.Info()
				f.OwnNodes(func(x ast.Node) bool {
					switch x := x.(type) {
					case *ast.RangeStmt:
						if t := info.Types[x.X].Type; t != nil {
							if _, isMap := t.Underlying().(*types.Map); isMap {
								n++
								rr.Bad(f, f.Name+"|range "+exprStr(x.X), x.Pos(), "iteration over a map: the output order is not deterministic")
							}
						}
					case *ast.CallExpr:
						if fo := core.StaticCallee(info, x); fo != nil && fo.Pkg() != nil {
							switch fo.Pkg().Path() {
							case "time", "math/rand", "math/rand/v2", "os", "crypto/rand":
								n++
								rr.Bad(f, f.Name+"|"+exprStr(x.Fun), x.Pos(), "call into "+fo.Pkg().Path()+": the output depends on something other than the tree and the Config")
							}
						}
					case *ast.Ident:
						if v, ok := info.Uses[x].(*types.Var); ok && v.Pkg() != nil && v.Parent() == v.Pkg().Scope() && strings.HasPrefix(v.Pkg().Path(), "github.com/hattya/go.sh") {
							if c.constantGlobal(v) {
								return true // a lookup table: initialised at its declaration, never written, never aliased
							}
							n++
							rr.Bad(f, f.Name+"|global "+x.Name, x.Pos(), "reads the package-level variable "+x.Name+": printing is not a function of its arguments alone")
						}
					}
					return true
				})
			}
			rr.OKp(c.P, "printer|nondeterminism-sources", 0, "enumerated", fmt.Sprintf("%d functions reachable from Fprint in printer/ast, %d sources found", len(scope), n))
		}}
}

// ruleEF5: writer errors reach the caller.
func ruleEF5() Rule {
	return Rule{ID: "EF5", Kind: "must", Floor: 4,
		Doc: "the io.Writer flows only into bufio.NewWriter; all output goes through that one buffered writer; every exported function of the package that reports an error returns, on every exit that can mean success, the error of Flush - directly, as the result of a function of the package for which the same holds, or as nil only behind a tested call of such a function (an error that is returned under a test that it is not nil, or made by fmt.Errorf / errors.New, is an error already)",
		Run: func(c *Ctx, rr *core.RuleResult) {
			cf := c.mustFn(rr, "printer.(*Config).Fprint")
			pf := c.mustFn(rr, "printer.(*printer).print")
			ff := c.mustFn(rr, "printer.Fprint")
			if cf == nil || pf == nil || ff == nil {
				return
			}
			// the writer parameter
			info := cf.Info()
			var wObj types.Object
			for _, fld := range cf.Type.Params.List {
				for _, nm := range fld.Names {
					if o := info.Defs[nm]; o != nil && o.Type().String() == "io.Writer" {
						wObj = o
					}
				}
			}
			// every use of the writer is the argument of bufio.NewWriter, directly or
			// through a function of the package that itself uses its parameter so
			var wrappedOnly func(f *core.Func, obj types.Object, depth int) (uses, okUse int)
			wrappedOnly = func(f *core.Func, obj types.Object, depth int) (uses, okUse int) {
				fi := f.Info()
				f.OwnNodes(func(n ast.Node) bool {
					id, ok := n.(*ast.Ident)
					if !ok || fi.Uses[id] != obj {
						return true
					}
					uses++
					call, ok := c.P.Parent(id).(*ast.CallExpr)
					if !ok {
						return true
					}
					if calleeName(fi, call) == "bufio.NewWriter" {
						okUse++
						return true
					}
					if depth >= 3 {
						return true
					}
					fo := core.StaticCallee(fi, call)
					if fo == nil {
						return true
					}
					g := c.P.FuncOf(fo)
					if g == nil || g.Pkg != f.Pkg || g.Type.Params == nil {
						return true
					}
					k := 0
					for _, fld := range g.Type.Params.List {
						for _, nm := range fld.Names {
							if k < len(call.Args) && ast.Unparen(call.Args[k]) == ast.Expr(id) {
								if u, o := wrappedOnly(g, g.Info().Defs[nm], depth+1); u >= 1 && u == o {
									okUse++
								}
							}
							k++
						}
					}
					return true
				})
				return
			}
			uses, okUse := wrappedOnly(cf, wObj, 0)
			if wObj != nil && uses == okUse && uses >= 1 {
				rr.OK(cf, cf.Name+"|writer-use", cf.Pos(), "wrapped", "the io.Writer is used only as bufio.NewWriter's argument")
			} else {
				rr.Bad(cf, cf.Name+"|writer-use", cf.Pos(), "the caller's io.Writer is used directly: its write errors bypass the buffered writer's sticky error")
			}
			// returns: every exported function of the package that reports an error hands its
			// caller the error of Flush on every exit that can mean success
			_, _ = pf, ff
			done := map[*core.Func]bool{}
			recorded := map[*core.Func]bool{}
			var entries []*core.Func
			for _, e := range c.funcsOfPkg("printer", false) {
				if e.Decl == nil || e.Obj == nil || !e.Obj.Exported() || !lastResultIsError(e) {
					continue
				}
				if recv := e.Decl.Recv; recv != nil && len(recv.List) == 1 {
					if n := namedTypeName(e.Info().TypeOf(recv.List[0].Type)); n != "" && !ast.IsExported(strings.TrimPrefix(strings.TrimPrefix(n, "*"), "printer.")) {
						continue
					}
				}
				entries = append(entries, e)
			}
			for _, e := range entries {
				v := c.ef5Flushing(e, done, 0)
				key := e.Name + "|hands on the error of Flush"
				recorded[e] = true
				if !v.ok {
					rr.Bad(e, key, v.pos, v.why)
					continue
				}
				rr.OK(e, key, e.Pos(), "returned", v.why)
			}
			// the functions whose result the entry points return
			for _, e := range entries {
				for _, g := range c.ef5Flushing(e, done, 0).chain {
					if gv := c.ef5Flushing(g, done, 0); gv.ok && !recorded[g] {
						recorded[g] = true
						rr.OK(g, g.Name+"|hands on the error of Flush", g.Pos(), "returned", gv.why)
					}
				}
			}
			// no write bypasses the buffered writer, and no write can panic on error
			for _, f := range c.funcsOfPkg("printer", false) {
				fi := f.Info()
				f.OwnNodes(func(n ast.Node) bool {
					call, ok := n.(*ast.CallExpr)
					if !ok {
						return true
					}
					name := calleeName(fi, call)
					if strings.HasPrefix(name, "fmt.Fprint") || strings.HasPrefix(name, "io.WriteString") {
						rr.Bad(f, f.Name+"|"+name, call.Pos(), "output written outside the single buffered writer")
					}
					return true
				})
			}
		}}
}

// rulePU8: here-document stack balance in the printer.
func rulePU8() Rule {
	return Rule{ID: "PU8", Kind: "must", Floor: 3,
		Doc: "typestate over every printer function: relative to function entry the pending-here-document stack depth never drops below 0 before a pop, is 0 at every exit and stable around every loop, under every valuation of the style conditions that guard push and pop (so each here-document body is flushed exactly once and the stack is never empty when indexed)",
		Run: func(c *Ctx, rr *core.RuleResult) {
			push := c.fn("printer.(*printer).push")
			pop := c.fn("printer.(*printer).heredoc")
			if push == nil || pop == nil {
				rr.Unkp(c.P, "printer.push/heredoc", 0, "push or heredoc method not found")
				return
			}
			eng := c.pu8()
			for _, f := range c.funcsOfPkg("printer", false) {
				if f == push || f == pop {
					continue
				}
				info := f.Info()
				uses := false
				f.OwnNodes(func(n ast.Node) bool {
					if len(eng.effectsAt(f, n, nil)) > 0 {
						uses = true
					}
					return true
				})
				if !uses {
					continue
				}
				// correlation atoms: conditions over immutable operands that occur in if statements,
				// and the conditions of the helpers called, in this function's terms
				atoms := atomsWith(c.P, f, eng.callAtoms(f))
				g := cfg.New(f.Body, core.MayReturn(info))
				worst := ""
				nval := 1 << len(atoms)
				for v := 0; v < nval && worst == ""; v++ {
					val := map[string]bool{}
					for i, a := range atoms {
						val[a] = v&(1<<i) != 0
					}
					worst, _, _ = balanceX(c.P, f, g, func(n ast.Node) []depthEffect { return eng.effectsAt(f, n, val) }, val, false)
				}
				key := f.Name + "|stack-balance"
				if worst == "" {
					rr.OK(f, key, f.Pos(), "balanced", fmt.Sprintf("balanced under all %d valuation(s) of %v", nval, atoms))
					continue
				}
				// a helper that opens or closes a frame for its caller
				if s := eng.summary(f); s != nil && !s.trivial {
					rr.OK(f, key, f.Pos(), "conditional-helper", "its effect is a function of the conditions it tests ("+s.describe()+") and is accounted for at each of its calls")
					continue
				}
				if why := eng.failed[f]; why != "" && !strings.Contains(worst, why) {
					worst += "; it cannot be accounted for at its callers either: " + why
				}
				rr.Bad(f, key, f.Pos(), worst)
			}
			for _, h := range eng.recheck() {
				rr.Bad(h, h.Name+"|stack-effect", h.Pos(), "the effect of this function on the here-document stack could not be determined consistently (it takes part in a recursion whose members open or close frames for each other)")
			}
			// print itself must push before dispatching and pop before Flush: covered by balance (net 0);
			// redir indexes the top: depth >= 1 holds because every caller chain starts in print after its push.
			if pf := c.fn("printer.(*printer).print"); pf != nil && len(pf.Body.List) > 0 {
				// every call of a printing function in print is preceded, on every path, by the push
				// (a return taken before anything is printed needs no frame)
				pinfo := pf.Info()
				isCallOf := func(n ast.Node, g *core.Func) bool {
					call, ok := n.(*ast.CallExpr)
					if !ok {
						return false
					}
					fo := core.StaticCallee(pinfo, call)
					return fo != nil && c.P.FuncOf(fo) == g
				}
				pushed := core.NewFlow(pf).MustSeen(false, func(n ast.Node) bool { return isCallOf(n, push) }, nil)
				bad := token.NoPos
				npr := 0
				pf.OwnNodes(func(n ast.Node) bool {
					call, ok := n.(*ast.CallExpr)
					if !ok {
						return true
					}
					fo := core.StaticCallee(pinfo, call)
					if fo == nil {
						return true
					}
					g := c.P.FuncOf(fo)
					if g == nil || g == push || g.Pkg != pf.Pkg || g.Decl == nil || g.Decl.Recv == nil {
						return true
					}
					npr++
					if !pushed[call] && bad == token.NoPos {
						bad = call.Pos()
					}
					return true
				})
				if bad == token.NoPos && npr > 0 {
					rr.OK(pf, pf.Name+"|push-first", pf.Pos(), "first", "print pushes a frame before any node is printed, so the stack is non-empty wherever a redirection is printed")
				} else {
					at := bad
					if at == token.NoPos {
						at = pf.Pos()
					}
					rr.Bad(pf, pf.Name+"|push-first", at, "print does not start by pushing a frame: printing a redirection indexes an empty stack")
				}
			}
		}}
}

// ruleLV1: the printer's indentation level is raised and lowered pairwise.
func ruleLV1() Rule {
	return Rule{ID: "LV1", Kind: "must", Floor: 2,
		Doc: "typestate over every printer function, like PU8 but for the indentation level: relative to function entry the level (p.lv) never drops below 0 before a decrement and is 0 again at every exit, under every valuation of the style conditions - so the count handed to bytes.Repeat in indent() is never negative",
		Run: func(c *Ctx, rr *core.RuleResult) {
			lv := c.fieldVar("printer", "printer", "lv")
			if lv == nil {
				rr.Unkp(c.P, "anchor:printer.lv", 0, "field printer.lv not found")
				return
			}
			for _, f := range c.funcsOfPkg("printer", false) {
				info := f.Info()
				bad := token.NoPos
				delta := func(n ast.Node) int {
					switch x := n.(type) {
					case *ast.IncDecStmt:
						if core.FieldOf(info, x.X) == lv {
							if x.Tok == token.INC {
								return 1
							}
							return -1
						}
					case *ast.AssignStmt:
						for _, l := range x.Lhs {
							if core.FieldOf(info, l) == lv {
								bad = x.Pos()
							}
						}
					}
					return 0
				}
				uses := false
				f.OwnNodes(func(n ast.Node) bool {
					if delta(n) != 0 {
						uses = true
					}
					return true
				})
				key := f.Name + "|level-balance"
				if bad != token.NoPos {
					rr.Bad(f, key, bad, "the indentation level is assigned, not raised or lowered by one: the pairing that keeps it non-negative cannot be followed")
					continue
				}
				if !uses {
					continue
				}
				atoms := collectAtoms(c.P, f)
				g := cfg.New(f.Body, core.MayReturn(info))
				worst := ""
				nval := 1 << len(atoms)
				for v := 0; v < nval && worst == ""; v++ {
					val := map[string]bool{}
					for i, a := range atoms {
						val[a] = v&(1<<i) != 0
					}
					worst = balance(c.P, f, g, delta, val)
				}
				if worst == "" {
					rr.OK(f, key, f.Pos(), "balanced", fmt.Sprintf("balanced under all %d valuation(s) of %v", nval, atoms))
				} else {
					worst = strings.NewReplacer("a here-document frame is popped", "the indentation level is lowered", "has not pushed one", "has not raised it", "another construct's pending bodies are flushed at the wrong place", "the level can become negative, and bytes.Repeat panics on a negative count", "pushed and popped a different number of here-document frames", "raised and lowered the indentation level a different number of times", "pending bodies are lost or flushed twice", "what is printed afterwards is indented wrongly, or the level becomes negative", "the pending-here-document depth", "the indentation level").Replace(worst)
					rr.Bad(f, key, f.Pos(), worst)
				}
			}
		}}
}

// normCond strips negation and returns a canonical atom and its polarity.
func normCond(e ast.Expr) (string, bool) {
	e = ast.Unparen(e)
	pos := true
	for {
		if u, ok := e.(*ast.UnaryExpr); ok && u.Op == token.NOT {
			pos = !pos
			e = ast.Unparen(u.X)
			continue
		}
		break
	}
	if be, ok := e.(*ast.BinaryExpr); ok && (be.Op == token.EQL || be.Op == token.NEQ) {
		if lit, ok := be.Y.(*ast.BasicLit); ok && lit.Value == "0" {
			if be.Op == token.EQL {
				pos = !pos
			}
			return exprStr(be.X) + " != 0", pos
		}
	}
	return exprStr(e), pos
}

// collectAtoms returns the if-conditions (normalised) that occur at least
// twice in f and only mention immutable operands.
func collectAtoms(p *core.Program, f *core.Func) []string { return atomsWith(p, f, nil) }

// balance runs the depth typestate under one valuation for a counter that is
// changed by single nodes; returns "" or a description of the imbalance.
func balance(p *core.Program, f *core.Func, g *cfg.CFG, delta func(ast.Node) int, val map[string]bool) string {
	msg, _, _ := balanceX(p, f, g, func(n ast.Node) []depthEffect {
		switch d := delta(n); {
		case d > 0:
			return []depthEffect{{d, 0}}
		case d < 0:
			return []depthEffect{{d, d}}
		}
		return nil
	}, val, false)
	return msg
}

func endsInPanic(b *cfg.Block) bool {
	if len(b.Nodes) == 0 {
		return false
	}
	if es, ok := b.Nodes[len(b.Nodes)-1].(*ast.ExprStmt); ok {
		if call, ok := es.X.(*ast.CallExpr); ok {
			if id, ok := call.Fun.(*ast.Ident); ok && id.Name == "panic" {
				return true
			}
		}
	}
	return false
}

// returnsError reports whether the block ends in `return …, <call>` or
// `return <call>` building an error (an abandoned printer is discarded).
func returnsError(info *types.Info, b *cfg.Block) bool {
	if len(b.Nodes) == 0 {
		return false
	}
	r, ok := b.Nodes[len(b.Nodes)-1].(*ast.ReturnStmt)
	if !ok || len(r.Results) == 0 {
		return false
	}
	call, ok := r.Results[len(r.Results)-1].(*ast.CallExpr)
	if !ok {
		return false
	}
	if se, ok := call.Fun.(*ast.SelectorExpr); ok && (se.Sel.Name == "Errorf" || se.Sel.Name == "New") {
		return true
	}
	// a constructor of the package whose only result is an error
	if info != nil {
		if fo := core.StaticCallee(info, call); fo != nil {
			if sig, ok := fo.Type().(*types.Signature); ok && sig.Results().Len() == 1 && isErrorType(sig.Results().At(0).Type()) && sig.Recv() == nil {
				return true
			}
		}
	}
	return false
}

// ---------------------------------------------------------------------------
// PU8b: the stack is non-empty wherever its top is indexed - interprocedurally.
//
// PU8 shows that every function leaves the depth as it found it.  That is not
// enough for `p.stack[len(p.stack)-1]` in redir: what matters is the depth at
// which redir can be *reached*.  req(f) is the smallest entry depth f needs;
// a call of g at relative depth d inside f gives req(f) >= req(g) - d, the
// functions that index the top need 1 at that point, and print - which is
// entered with an empty stack - must come out with req <= 0.

func rulePU8b() Rule {
	return Rule{ID: "PU8b", Kind: "must", Floor: 1,
		Doc: "minimum-depth analysis over the printer's call graph: with req(f) the smallest stack depth function f must be entered with (1 where the top frame is indexed; req(f) >= req(g) - d for every call of g at relative depth d, the minimum over all paths), the entry point print needs no more than the empty stack it starts with.  In particular nothing that can reach a redirection is called after a frame has been popped",
		Run: func(c *Ctx, rr *core.RuleResult) {
			stackF := c.fieldVar("printer", "printer", "stack")
			pf := c.mustFn(rr, "printer.(*printer).print")
			if stackF == nil || pf == nil {
				if stackF == nil {
					rr.Unkp(c.P, "printer.printer.stack", 0, "the printer's here-document stack field was not found")
				}
				return
			}
			funcs := c.funcsOfPkg("printer", false)
			isFn := map[*core.Func]bool{}
			for _, f := range funcs {
				isFn[f] = true
			}
			provedLocally := map[ast.Node]bool{}
			for _, f := range funcs {
				for _, st := range c.pf1Sites(f) {
					if st.kind == "IDX" && st.res.OK && st.res.Inv == "" {
						provedLocally[st.node] = true
					}
				}
			}
			// direct effect of a statement-level node on the depth, and whether it indexes the top
			direct := func(info *types.Info, n ast.Node) (delta int, indexesTop bool) {
				switch x := n.(type) {
				case *ast.AssignStmt:
					// also as one side of a tuple assignment: `list, p.stack = p.stack[top], p.stack[:top]`
					for i := range x.Lhs {
						if len(x.Lhs) != len(x.Rhs) || core.FieldOf(info, x.Lhs[i]) != stackF {
							continue
						}
						switch r := ast.Unparen(x.Rhs[i]).(type) {
						case *ast.CallExpr:
							if isBuiltinCall(info, r, "append") && len(r.Args) >= 2 && core.FieldOf(info, r.Args[0]) == stackF {
								return len(r.Args) - 1, false
							}
						case *ast.SliceExpr:
							if core.FieldOf(info, r.X) == stackF && r.Low == nil && r.High != nil {
								return -1, false
							}
						}
					}
				case *ast.IndexExpr:
					if core.FieldOf(info, x.X) == stackF {
						// an index the guard engine proves in range from the code around it (a loop
						// that counts up to len(p.stack)) holds at any depth
						if provedLocally[x] {
							return 0, false
						}
						return 0, true
					}
				}
				return 0, false
			}
			// net effect of calling g (PU8 shows it is path-independent): +1 for a pusher, -1 for a popper, else 0
			net := map[*core.Func]int{}
			for _, f := range funcs {
				if f.Decl == nil {
					continue
				}
				info := f.Info()
				d := 0
				f.OwnNodes(func(n ast.Node) bool {
					dd, _ := direct(info, n)
					d += dd
					return true
				})
				net[f] = d + c.pu8().minNet(f)
			}
			// closed world: the depth changes only in the forms the analysis understands
			for _, f := range funcs {
				info := f.Info()
				f.OwnNodes(func(n ast.Node) bool {
					as, ok := n.(*ast.AssignStmt)
					if !ok {
						return true
					}
					for i, l := range as.Lhs {
						if _, isField := ast.Unparen(l).(*ast.SelectorExpr); !isField || core.FieldOf(info, l) != stackF {
							continue
						}
						understood := false
						if len(as.Lhs) == len(as.Rhs) {
							switch r := ast.Unparen(as.Rhs[i]).(type) {
							case *ast.CallExpr:
								understood = isBuiltinCall(info, r, "append") && len(r.Args) >= 2 && core.FieldOf(info, r.Args[0]) == stackF
							case *ast.SliceExpr:
								understood = core.FieldOf(info, r.X) == stackF && r.Low == nil && r.High != nil
							case *ast.Ident:
								understood = r.Name == "nil"
							}
						}
						if !understood {
							rr.Unk(f, f.Name+"|stack assigned", as.Pos(), "the here-document stack is assigned in a form the depth analysis does not understand (neither append, nor p.stack[:k], nor nil)")
						}
					}
					return true
				})
			}
			type site struct {
				g   *core.Func
				rel int
				pos token.Pos
			}
			calls := map[*core.Func][]site{}
			base := map[*core.Func]int{}
			eng := c.pu8()
			for _, f := range funcs {
				if f.Body == nil {
					continue
				}
				if f.Decl != nil && net[f] != c.pu8().minNet(f) {
					continue // changes the stack itself: followed statement by statement below
				}
				// everything else changes the depth through calls only: the lowest depth before
				// each call and each index of the top frame is taken from PU8's typestate, which
				// correlates the conditions under which frames are opened and closed
				type at struct {
					g *core.Func
					x ast.Node
				}
				lowAt := map[at]int{}
				overall := eng.sitesOf(f, 0, nil, 0, func(g *core.Func, x ast.Node, low int) {
					k := at{g, x}
					if old, seen := lowAt[k]; !seen || low < old {
						lowAt[k] = low
					}
				})
				for k, low := range lowAt {
					ginfo := k.g.Info()
					switch x := k.x.(type) {
					case *ast.CallExpr:
						if fo := core.StaticCallee(ginfo, x); fo != nil {
							if h := c.P.FuncOf(fo); h != nil && isFn[h] && h.Decl != nil {
								calls[f] = append(calls[f], site{h, low, x.Pos()})
							}
						}
					case *ast.IndexExpr:
						if _, idx := direct(ginfo, x); idx {
							if need := 1 - low; need > base[f] {
								base[f] = need
							}
						}
					}
				}
				// a function literal runs no deeper than the lowest depth its maker passes through
				for _, l := range funcs {
					if l.Lit != nil && l.Parent == f {
						calls[f] = append(calls[f], site{l, overall, l.Lit.Pos()})
					}
				}
			}
			for _, f := range funcs {
				if f.Decl == nil || net[f] == c.pu8().minNet(f) {
					continue
				}
				info := f.Info()
				g := cfg.New(f.Body, core.MayReturn(info))
				if len(g.Blocks) == 0 {
					continue
				}
				// minimum relative depth before each block (join = min), a few rounds suffice as loops are balanced
				in := map[*cfg.Block]int{g.Blocks[0]: 0}
				seen := map[*cfg.Block]bool{g.Blocks[0]: true}
				var visitNode func(n ast.Node, cur *int, record bool)
				visitNode = func(n ast.Node, cur *int, record bool) {
					ast.Inspect(n, func(x ast.Node) bool {
						if _, isLit := x.(*ast.FuncLit); isLit {
							return false
						}
						if call, ok := x.(*ast.CallExpr); ok {
							if _, deferred := c.P.Parent(call).(*ast.DeferStmt); deferred {
								return true
							}
							for _, a := range call.Args {
								visitNode(a, cur, record)
							}
							if fo := core.StaticCallee(info, call); fo != nil {
								if h := c.P.FuncOf(fo); h != nil && isFn[h] && h.Decl != nil {
									if record {
										calls[f] = append(calls[f], site{h, *cur, call.Pos()})
									}
									*cur += net[h]
								}
							}
							return false
						}
						d, idx := direct(info, x)
						if idx && record {
							if need := 1 - *cur; need > base[f] {
								base[f] = need
							}
						}
						if d != 0 {
							// the right-hand side is evaluated first
							*cur += d
						}
						return true
					})
				}
				for round := 0; round < 8; round++ {
					changed := false
					for _, b := range g.Blocks {
						if !seen[b] {
							continue
						}
						cur := in[b]
						for _, n := range b.Nodes {
							visitNode(n, &cur, false)
						}
						for _, s := range b.Succs {
							if !seen[s] || cur < in[s] {
								seen[s], in[s] = true, cur
								changed = true
							}
						}
					}
					if !changed {
						break
					}
				}
				for _, b := range g.Blocks {
					if !seen[b] {
						continue
					}
					cur := in[b]
					for _, n := range b.Nodes {
						visitNode(n, &cur, true)
					}
				}
			}
			req := map[*core.Func]int{}
			for f, b := range base {
				req[f] = b
			}
			why := map[*core.Func]site{}
			for round := 0; round < 20; round++ {
				changed := false
				for f, ss := range calls {
					for _, s := range ss {
						if need := req[s.g] - s.rel; need > req[f] && need <= 6 {
							req[f] = need
							why[f] = s
							changed = true
						}
					}
				}
				if !changed {
					break
				}
			}
			key := pf.Name + "|depth needed at the entry point"
			if req[pf] <= 0 {
				rr.OK(pf, key, pf.Pos(), "non-empty", fmt.Sprintf("no path from print reaches an index of the top frame at depth 0 (%d functions, %d indexing sites)", len(funcs), len(base)))
				return
			}
			// explain the chain
			var chain []string
			f := pf
			for i := 0; i < 12; i++ {
				s, ok := why[f]
				if !ok {
					break
				}
				chain = append(chain, fmt.Sprintf("%s calls %s at relative depth %d (%s)", f.Short, s.g.Short, s.rel, c.P.PosString(s.pos)))
				f = s.g
			}
			rr.Bad(pf, key, pf.Pos(), fmt.Sprintf("print would have to be entered with %d frame(s) already on the stack: %s; the function at the end of the chain indexes the top frame.  A here-document body that contains a command substitution printed on one line with a here-document of its own (possible when alias text froze all positions onto one line) makes Fprint panic with index out of range [-1]", req[pf], strings.Join(chain, "; ")))
		}}
}

// constantGlobal reports whether a package-level variable is a constant in
// all but name: no function of its package assigns it or an element of it,
// increments it, takes its address, appends to it or hands it to delete/copy
// as the destination.
func (c *Ctx) constantGlobal(v *types.Var) bool {
	key := "constantGlobal:" + v.Pkg().Path() + "." + v.Name()
	if r, ok := c.cache[key]; ok {
		return r.(bool)
	}
	ok := true
	for _, f := range c.P.Funcs {
		if f.Pkg.Types != v.Pkg() || !ok {
			continue
		}
		info := f.Info()
		rootIs := func(e ast.Expr) bool {
			for {
				switch x := ast.Unparen(e).(type) {
				case *ast.IndexExpr:
					e = x.X
					continue
				case *ast.SliceExpr:
					e = x.X
					continue
				case *ast.StarExpr:
					e = x.X
					continue
				case *ast.SelectorExpr:
					if _, isField := info.Selections[x]; isField {
						e = x.X
						continue
					}
					return info.Uses[x.Sel] == types.Object(v)
				case *ast.Ident:
					return info.Uses[x] == types.Object(v)
				}
				return false
			}
		}
		f.OwnNodes(func(n ast.Node) bool {
			switch x := n.(type) {
			case *ast.AssignStmt:
				for _, l := range x.Lhs {
					if rootIs(l) {
						ok = false
					}
				}
			case *ast.IncDecStmt:
				if rootIs(x.X) {
					ok = false
				}
			case *ast.UnaryExpr:
				if x.Op == token.AND && rootIs(x.X) {
					ok = false
				}
			case *ast.RangeStmt:
				// `for _, e := range table` copies elements: fine; `for i := range table { table[i] = … }` is an assignment, caught above
			case *ast.CallExpr:
				if (isBuiltinCall(info, x, "delete") || isBuiltinCall(info, x, "copy") || isBuiltinCall(info, x, "clear")) && len(x.Args) >= 1 && rootIs(x.Args[0]) {
					ok = false
				}
			}
			return ok
		})
	}
	c.cache[key] = ok
	return ok
}

func lastResultIsError(f *core.Func) bool {
	sig, ok := f.Obj.Type().(*types.Signature)
	if !ok || sig.Results().Len() == 0 {
		return false
	}
	return sig.Results().At(sig.Results().Len()-1).Type().String() == "error"
}

type ef5Verdict struct {
	ok    bool
	why   string
	pos   token.Pos
	chain []*core.Func // functions of the package whose result is returned, transitively
}

// ef5Flushing decides whether every return of f hands on the error of bufio's
// Flush.
func (c *Ctx) ef5Flushing(f *core.Func, done map[*core.Func]bool, depth int) ef5Verdict {
	if v, seen := c.cache["ef5:"+f.Name]; seen {
		return v.(ef5Verdict)
	}
	if done[f] || depth > 4 {
		return ef5Verdict{why: "recursive: not decided", pos: f.Pos()}
	}
	done[f] = true
	fi := f.Info()
	flushingCall := func(call *ast.CallExpr) (bool, *core.Func, string) {
		if strings.HasSuffix(calleeName(fi, call), "bufio.(*Writer).Flush") {
			return true, nil, ""
		}
		if fo := core.StaticCallee(fi, call); fo != nil {
			if g := c.P.FuncOf(fo); g != nil && g.Pkg == f.Pkg && g.Body != nil && g != f && g.Obj != nil && lastResultIsError(g) {
				v := c.ef5Flushing(g, done, depth+1)
				return v.ok, g, v.why
			}
		}
		return false, nil, ""
	}
	// `if err := CALL; err != nil { … return }` and `err := CALL` followed by that test
	events := map[ast.Node]bool{} // the assignments whose error is tested
	tested := func(n ast.Node) {
		is, ok := n.(*ast.IfStmt)
		if !ok {
			return
		}
		be, ok := ast.Unparen(is.Cond).(*ast.BinaryExpr)
		if !ok || be.Op != token.NEQ || !isNilIdent(fi, be.Y) {
			return
		}
		id, ok := ast.Unparen(be.X).(*ast.Ident)
		if !ok || len(is.Body.List) == 0 {
			return
		}
		if _, isRet := is.Body.List[len(is.Body.List)-1].(*ast.ReturnStmt); !isRet {
			return
		}
		from := func(st ast.Stmt) {
			as, ok := st.(*ast.AssignStmt)
			if !ok || len(as.Rhs) != 1 {
				return
			}
			l, ok := as.Lhs[len(as.Lhs)-1].(*ast.Ident)
			if !ok || l.Name != id.Name {
				return
			}
			if call, ok := ast.Unparen(as.Rhs[0]).(*ast.CallExpr); ok {
				if fl, _, _ := flushingCall(call); fl {
					events[as] = true
				}
			}
		}
		if is.Init != nil {
			from(is.Init)
			return
		}
		// the statement before the test, in the same block
		if blk, ok := c.P.Parent(is).(*ast.BlockStmt); ok {
			for i, st := range blk.List {
				if st == ast.Stmt(is) && i > 0 {
					from(blk.List[i-1])
				}
			}
		}
	}
	f.OwnNodes(func(x ast.Node) bool {
		tested(x)
		return true
	})
	seen := core.NewFlow(f).MustSeen(false, func(n ast.Node) bool { return events[n] }, nil)
	out := ef5Verdict{}
	bad, n := "", 0
	var badPos token.Pos
	f.OwnNodes(func(x ast.Node) bool {
		r, ok := x.(*ast.ReturnStmt)
		if !ok || bad != "" {
			return true
		}
		n++
		if len(r.Results) == 0 {
			bad, badPos = "a bare return: what it returns is not decided", r.Pos()
			return true
		}
		e := ast.Unparen(r.Results[len(r.Results)-1])
		switch y := e.(type) {
		case *ast.CallExpr:
			name := calleeName(fi, y)
			fl, g, gwhy := flushingCall(y)
			switch {
			case fl:
				if g != nil {
					out.chain = append(out.chain, g)
					out.chain = append(out.chain, c.ef5Flushing(g, done, depth+1).chain...)
				}
			case name == "fmt.Errorf" || name == "errors.New":
			case g != nil:
				bad, badPos = "returns the result of "+g.Short+", which does not hand on the error of Flush: "+gwhy, r.Pos()
			default:
				bad, badPos = "returns the result of "+exprStr(y.Fun)+", which is not the error of Flush", r.Pos()
			}
		default:
			if isNilIdent(fi, e) {
				if !seen[r] {
					bad, badPos = "returns nil without the error of Flush (or of a function that returns it) having been tested on every path: a failing writer is reported as success", r.Pos()
				}
				return true
			}
			guarded := false
			// a variable that only ever holds the error of such a call
			if id, isId := e.(*ast.Ident); isId {
				if obj := fi.Uses[id]; obj != nil {
					nAs, all := 0, true
					f.OwnNodes(func(z ast.Node) bool {
						as, ok := z.(*ast.AssignStmt)
						if !ok {
							return true
						}
						for i, l := range as.Lhs {
							lid, ok := l.(*ast.Ident)
							if !ok || (fi.Defs[lid] != obj && fi.Uses[lid] != obj) {
								continue
							}
							nAs++
							call, isCall := ast.Unparen(as.Rhs[0]).(*ast.CallExpr)
							if len(as.Rhs) != 1 || !isCall || i != len(as.Lhs)-1 {
								all = false
								continue
							}
							if fl, _, _ := flushingCall(call); !fl {
								all = false
							}
						}
						return true
					})
					if nAs > 0 && all {
						guarded = true
					}
				}
			}
			for _, gd := range guardsOf(c.P, r, nil) {
				if be, ok := ast.Unparen(gd.cond).(*ast.BinaryExpr); ok && gd.pos && be.Op == token.NEQ && isNilIdent(fi, be.Y) && exprStr(be.X) == exprStr(e) {
					guarded = true
				}
			}
			if !guarded {
				bad, badPos = "returns "+exprStr(e)+" outside a test that it is not nil: when it is nil nothing says that the output was written", r.Pos()
			}
		}
		return true
	})
	switch {
	case n == 0:
		out.why, out.pos = "no return statement", f.Pos()
	case bad != "":
		out.why, out.pos = bad, badPos
	default:
		out.ok = true
		out.why = fmt.Sprintf("%d returns: the error of Flush, of a function that returns it, or an error that is not nil", n)
	}
	c.cache["ef5:"+f.Name] = out
	return out
}
