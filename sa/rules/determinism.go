package rules

import (
	"fmt"
	"go/ast"
	"go/token"
	"go/types"
	"sort"

	"verif/sa/core"
)

// Rules on schedule-independence of the *values* returned (C06), added after
// sub-agents observed three kinds of nondeterminism on the unchanged tree
// (DESIGN.md §5, defects Z1-Z3).  Each is a shape condition: two goroutines
// that may both replace a shared value; a select with two cases that can be
// ready together; a consumer that keeps consuming while its producer is being
// cancelled.

// lexRoleOf returns the functions that may run in a lexer goroutine of pkg.
func (c *Ctx) lexRoleOf(pkg string) map[*core.Func]bool {
	out := map[*core.Func]bool{}
	for _, g := range c.goRoots() {
		if g.Target.Pkg.Name != pkg {
			continue
		}
		for f := range c.lexerRole(g.Target) {
			out[f] = true
		}
	}
	return out
}

// ---------------------------------------------------------------------------
// CC11: the error slot cannot be overwritten from both goroutines.

func ruleCC11(pkgs ...string) Rule {
	return Rule{ID: "CC11", Kind: "must", Floor: 2,
		Doc: "the error slot shared by lexer and parser goroutine has a winner that does not depend on which goroutine reports first. Stores are classified by their guard on the slot: if-empty, ordered (replaces only an error found later in the source), if-lower (a reader's error replacing nothing but a syntax error) and unconditional. Accepted: (a) no unconditional store, every if-empty store paired in its function with an ordered one (together they keep the earliest error), reader errors stored if-lower; or (b) unconditional stores in one goroutine only while the other goroutine stores only if-empty. Anything else lets the last (or the first) reporter win",
		Run: func(c *Ctx, rr *core.RuleResult) {
			for _, pkg := range pkgs {
				errF := c.fieldVar(pkg, "lexer", "err")
				if errF == nil {
					rr.Unkp(c.P, pkg+"|error slot", 0, "lexer.err not found")
					continue
				}
				lexRole := c.lexRoleOf(pkg)
				parRole := c.parserRole(pkg)
				type site struct {
					f        *core.Func
					as       *ast.AssignStmt
					class    string // empty ordered lower uncond
					lex, par bool
				}
				var sites []*site
				for _, f := range c.funcsOfPkg(pkg, false) {
					info := f.Info()
					f.OwnNodes(func(n ast.Node) bool {
						as, ok := n.(*ast.AssignStmt)
						if !ok {
							return true
						}
						var rhs ast.Expr
						for i, l := range as.Lhs {
							if core.FieldOf(info, l) == errF && i < len(as.Rhs) {
								rhs = as.Rhs[i]
							}
						}
						if rhs == nil {
							return true
						}
						s := &site{f: f, as: as, class: "uncond", lex: lexRole[f] || lexRole[f.Root()], par: parRole[f] || parRole[f.Root()]}
						for _, g := range guardsOf(c.P, as, nil) {
							if be, ok := ast.Unparen(g.cond).(*ast.BinaryExpr); ok && core.FieldOf(info, be.X) == errF && isNilIdent(info, be.Y) {
								if (be.Op == token.EQL && g.pos) || (be.Op == token.NEQ && !g.pos) {
									s.class = "empty"
								}
							}
						}
						if s.class == "uncond" {
							for _, g := range guardsOf(c.P, as, nil) {
								if g.pos && comparesPositions(info, g.cond) {
									s.class = "ordered"
									// the order must be total: all text of an alias carries the position of the
									// alias word, so two different errors can have equal positions
									if !breaksTies(info, g.cond) {
										s.class = "ordered-partial"
									}
								}
							}
						}
						if s.class == "uncond" {
							for _, g := range guardsOf(c.P, as, nil) {
								if g.pos && slotEmptyOrSyntax(info, g.cond, errF) {
									if tv, ok := info.Types[rhs]; ok && namedTypeName(tv.Type) != pkg+".Error" {
										s.class = "lower"
									}
								}
							}
						}
						sites = append(sites, s)
						return true
					})
				}
				if len(sites) == 0 {
					rr.Unkp(c.P, pkg+"|error slot", 0, "no store to lexer.err found")
					continue
				}
				sort.Slice(sites, func(i, j int) bool { return sites[i].as.Pos() < sites[j].as.Pos() })
				// join units: functions that hold an if-empty and an ordered store
				hasOrdered := map[*core.Func]bool{}
				for _, s := range sites {
					if s.class == "ordered" || s.class == "ordered-partial" {
						hasOrdered[s.f] = true
					}
				}
				uncondLex, uncondPar := false, false
				lexOnlyEmpty, parOnlyEmpty := true, true
				anyLex, anyPar := false, false
				for _, s := range sites {
					if s.lex {
						anyLex = true
						if s.class == "uncond" {
							uncondLex = true
						}
						if s.class != "empty" {
							lexOnlyEmpty = false
						}
					}
					if s.par {
						anyPar = true
						if s.class == "uncond" {
							uncondPar = true
						}
						if s.class != "empty" && !(s.class == "uncond") {
							parOnlyEmpty = false
						}
					}
				}
				_ = parOnlyEmpty
				// pattern (b): one overwriting goroutine, the other only fills an empty slot
				onlyClass := func(sel func(s *site) bool, class string) bool {
					for _, s := range sites {
						if sel(s) && s.class != class {
							return false
						}
					}
					return true
				}
				// a site that runs in both goroutines rules the pattern out
				noShared := true
				for _, s := range sites {
					if s.lex && s.par {
						noShared = false
					}
				}
				overwriterPar := uncondPar && !uncondLex && onlyClass(func(s *site) bool { return s.lex }, "empty") && noShared
				overwriterLex := uncondLex && !uncondPar && onlyClass(func(s *site) bool { return s.par }, "empty") && noShared
				both := anyLex && anyPar
				n := map[string]int{}
				for _, s := range sites {
					base := s.f.Name + "|store to err"
					n[base]++
					key := base
					if n[base] > 1 {
						key = fmt.Sprintf("%s #%d", base, n[base])
					}
					who := "the lexer goroutine"
					if s.par && !s.lex {
						who = "the parser goroutine"
					} else if s.par && s.lex {
						who = "both goroutines"
					}
					switch {
					case !both:
						rr.OK(s.f, key, s.as.Pos(), "one-goroutine", "only one goroutine stores into the slot")
					case s.class == "ordered":
						rr.OK(s.f, key, s.as.Pos(), "ordered", "replaces the recorded error only when the new one is earlier in the source, ties broken by the message")
					case s.class == "ordered-partial":
						rr.Bad(s.f, key, s.as.Pos(), "the two errors are ordered by position only: at equal positions - every token that comes from an alias value has the position of the alias word - the one reported first is kept, so `<<E p` with the alias p='(' returns `here-document delimited by EOF` or `unexpected '('` depending on the schedule")
					case s.class == "lower":
						rr.OK(s.f, key, s.as.Pos(), "if-lower", "a reader's error replaces nothing but a syntax error, whichever comes first")
					case s.class == "empty" && hasOrdered[s.f] && !uncondLex && !uncondPar:
						rr.OK(s.f, key, s.as.Pos(), "join", "fills the empty slot; together with the ordered store of the same function the earliest error is kept")
					case s.class == "empty" && (overwriterPar && s.lex && !s.par || overwriterLex && s.par && !s.lex):
						rr.OK(s.f, key, s.as.Pos(), "if-empty", "fills the empty slot only; the other goroutine's error always replaces it")
					case s.class == "uncond" && (overwriterPar && s.par && !s.lex || overwriterLex && s.lex && !s.par):
						rr.OK(s.f, key, s.as.Pos(), "one-overwriter", "replacing stores run in one goroutine only, in program order; the other goroutine only fills an empty slot")
					case s.class == "empty":
						rr.Bad(s.f, key, s.as.Pos(), "this store (in "+who+") keeps whichever error is reported first while the other goroutine stores into the slot too: for an input with two faults the error returned depends on the schedule")
					default:
						rr.Bad(s.f, key, s.as.Pos(), "this store (in "+who+") replaces a recorded error unconditionally while the other goroutine stores into the slot too: for an input with two faults (one found by the parser, one by the lexer scanning ahead) the error returned is whichever was reported last")
					}
				}
				_ = lexOnlyEmpty
			}
		}}
}

// comparesPositions reports whether cond calls a Before/After method of ast.Pos.
func comparesPositions(info *types.Info, cond ast.Expr) bool {
	found := false
	ast.Inspect(cond, func(n ast.Node) bool {
		call, ok := n.(*ast.CallExpr)
		if !ok {
			return true
		}
		fo := core.StaticCallee(info, call)
		if fo == nil || (fo.Name() != "Before" && fo.Name() != "After") {
			return true
		}
		if sig, ok := fo.Type().(*types.Signature); ok && sig.Recv() != nil && namedTypeName(sig.Recv().Type()) == "ast.Pos" {
			found = true
		}
		return true
	})
	return found
}

// ---------------------------------------------------------------------------
// CC12: a failed lexer offers no token.

func ruleCC12(pkgs ...string) Rule {
	return Rule{ID: "CC12", Kind: "must", Floor: 1,
		Doc: "where the lexer goroutine can record an error itself (closing the cancel channel) and afterwards still reach the token hand-over, the select that offers the token together with the cancel receive is preceded by a non-blocking test of cancel that bails out; otherwise both cases are ready - the parser is waiting and the channel is closed - and Go picks one at random, so the commands returned differ from run to run",
		Run: func(c *Ctx, rr *core.RuleResult) {
			cg := c.P.CG()
			for _, pkg := range pkgs {
				cancel := c.fieldVar(pkg, "lexer", "cancel")
				if cancel == nil {
					rr.Unkp(c.P, pkg+"|cancel", 0, "lexer.cancel not found")
					continue
				}
				lexRole := c.lexRoleOf(pkg)
				spawned := map[*core.Func]bool{}
				for _, g := range c.goRoots() {
					spawned[g.Target] = true
				}
				stop := func(f *core.Func) bool { return spawned[f] || f.Short == "yyParse" }
				// functions with the hand-over select, and functions that close cancel
				var handover []*core.Func
				selOf := map[*core.Func]*ast.SelectStmt{}
				closers := map[*core.Func]bool{}
				for _, f := range c.funcsOfPkg(pkg, false) {
					info := f.Info()
					f.OwnNodes(func(n ast.Node) bool {
						switch x := n.(type) {
						case *ast.SelectStmt:
							send, recv := false, false
							for _, st := range x.Body.List {
								cc := st.(*ast.CommClause)
								if s, ok := cc.Comm.(*ast.SendStmt); ok && core.FieldOf(info, s.Chan) != nil {
									send = true
								}
								if cc.Comm != nil && recvFrom(info, cc.Comm, cancel) {
									recv = true
								}
							}
							if send && recv && lexRole[f.Root()] {
								handover = append(handover, f)
								selOf[f] = x
							}
						case *ast.CallExpr:
							if isBuiltinCall(info, x, "close") && len(x.Args) == 1 && core.FieldOf(info, x.Args[0]) == cancel {
								closers[f.Root()] = true
							}
						}
						return true
					})
				}
				if len(handover) == 0 {
					rr.Unkp(c.P, pkg+"|token hand-over", 0, "no select offering a token together with the cancel receive found in the lexer goroutine")
					continue
				}
				reach := map[*core.Func]map[*core.Func]bool{}
				reachOf := func(g *core.Func) map[*core.Func]bool {
					if r, ok := reach[g]; ok {
						return r
					}
					r := cg.ReachableStop(stop, g)
					reach[g] = r
					return r
				}
				mayClose := func(f *core.Func, call *ast.CallExpr) bool {
					for _, g := range cg.Callees(f, call) {
						for h := range reachOf(g) {
							if closers[h] {
								return true
							}
						}
					}
					return false
				}
				for _, hf := range handover {
					mayEmit := func(f *core.Func, call *ast.CallExpr) bool {
						for _, g := range cg.Callees(f, call) {
							if reachOf(g)[hf.Root()] {
								return true
							}
						}
						return false
					}
					// is there a lexer-role function in which a call that may close
					// cancel can be followed by a call that may reach the hand-over?
					var witness string
					var names []*core.Func
					for f := range lexRole {
						if f.Pkg.Name == pkg && !f.Generated {
							names = append(names, f)
						}
					}
					sort.Slice(names, func(i, j int) bool { return names[i].Name < names[j].Name })
					for _, f := range names {
						if witness != "" {
							break
						}
						if f == hf {
							continue
						}
						var closeCalls, emitCalls []*ast.CallExpr
						f.OwnNodes(func(n ast.Node) bool {
							if call, ok := n.(*ast.CallExpr); ok {
								if mayClose(f, call) {
									closeCalls = append(closeCalls, call)
								}
								if mayEmit(f, call) {
									emitCalls = append(emitCalls, call)
								}
							}
							return true
						})
						if len(closeCalls) == 0 || len(emitCalls) == 0 {
							continue
						}
						isClose := map[ast.Node]bool{}
						for _, cc := range closeCalls {
							isClose[cc] = true
						}
						after := core.NewFlow(f).Reaches(func(n ast.Node) bool { return isClose[n] }, nil)
						for _, ec := range emitCalls {
							if after[ec] && !isClose[ec] {
								witness = fmt.Sprintf("%s: %s can follow a call that may record an error", f.Short, exprStr(ec.Fun))
								break
							}
						}
					}
					key := hf.Name + "|token offered only while not cancelled"
					if witness == "" {
						rr.OK(hf, key, selOf[hf].Pos(), "never-after-failure", "no lexer function reaches the hand-over after a call that may close the cancel channel")
						continue
					}
					// the pre-test: a select with default whose cancel arm bails out, before the hand-over select
					info := hf.Info()
					pre := false
					isPoll := func(n ast.Node) bool {
						if ifs, ok := n.(*ast.IfStmt); ok && ifs.Else == nil {
							if is, neg := c.callsCancelPredicate(info, ifs.Cond, cancel); is && !neg && endsInPanicOrReturn(info, ifs.Body.List) {
								return true
							}
						}
						s, ok := n.(*ast.SelectStmt)
						if !ok || s == selOf[hf] {
							return false
						}
						hasDefault, bails := false, false
						for _, st := range s.Body.List {
							cc := st.(*ast.CommClause)
							if cc.Comm == nil {
								hasDefault = true
							} else if recvFrom(info, cc.Comm, cancel) && endsInPanicOrReturn(info, cc.Body) {
								bails = true
							}
						}
						return hasDefault && bails
					}
					// go/cfg has no node for a select statement itself, so precedence is
					// syntactic: the poll is an earlier statement of the block that holds
					// the hand-over, with no label or jump in between
					if blk, ok := c.P.Parent(selOf[hf]).(*ast.BlockStmt); ok {
						at := stmtIndex(c.P, blk.List, selOf[hf])
						for k := at - 1; k >= 0; k-- {
							if isPoll(blk.List[k]) {
								pre = true
								break
							}
							switch blk.List[k].(type) {
							case *ast.LabeledStmt, *ast.BranchStmt:
								k = -1
							}
						}
					}
					if pre {
						rr.OK(hf, key, selOf[hf].Pos(), "pre-test", "a non-blocking test of cancel that bails out precedes the hand-over ("+witness+")")
					} else {
						rr.Bad(hf, key, selOf[hf].Pos(), "the token is offered in a select together with the cancel receive although the lexer may already have closed cancel itself ("+witness+"): with the parser waiting both cases are ready and one is chosen at random - the commands returned for an input such as `cmd ${b%ar` differ from run to run")
					}
				}
			}
		}}
}

func recvFrom(info *types.Info, comm ast.Stmt, ch *types.Var) bool {
	found := false
	ast.Inspect(comm, func(n ast.Node) bool {
		if u, ok := n.(*ast.UnaryExpr); ok && u.Op == token.ARROW && core.FieldOf(info, u.X) == ch {
			found = true
		}
		return true
	})
	return found
}

func endsInPanicOrReturn(info *types.Info, body []ast.Stmt) bool {
	if len(body) == 0 {
		return false
	}
	switch s := body[len(body)-1].(type) {
	case *ast.ReturnStmt:
		return true
	case *ast.ExprStmt:
		if call, ok := s.X.(*ast.CallExpr); ok && isBuiltinCall(info, call, "panic") {
			return true
		}
	}
	return false
}

// ---------------------------------------------------------------------------
// CC13: a parser that can fail inside a reduction stops consuming.

func ruleCC13(pkgs ...string) Rule {
	return Rule{ID: "CC13", Kind: "must", Floor: 1,
		Doc: "when reduce actions (or the functions they call) can report an error - which cancels the lexer but, unlike a syntax error, does not end yyParse - Lex tests the error slot and returns end-of-input before it receives from the token channel; otherwise the tokens after the fault arrive or not depending on whether the lexer's pending send or the cancellation wins, and value, error text and variable updates of the evaluation differ from run to run",
		Run: func(c *Ctx, rr *core.RuleResult) {
			for _, pkg := range pkgs {
				lex := c.mustFn(rr, pkg+".(*lexer).Lex")
				errFn := c.fn(pkg + ".(*lexer).Error")
				errF := c.fieldVar(pkg, "lexer", "err")
				tokF := c.fieldVar(pkg, "lexer", "token")
				if lex == nil || errFn == nil || errF == nil || tokF == nil {
					continue
				}
				// semantic error reports: calls of the yyLexer Error method whose
				// argument is not the driver's yyErrorMessage(...)
				nsem := 0
				var first token.Pos
				parRole := c.parserRole(pkg)
				for f := range parRole {
					if f.Pkg.Name != pkg || f == errFn {
						continue
					}
					info := f.Info()
					f.OwnNodes(func(n ast.Node) bool {
						call, ok := n.(*ast.CallExpr)
						if !ok || len(call.Args) != 1 {
							return true
						}
						sel, ok := call.Fun.(*ast.SelectorExpr)
						if !ok || sel.Sel.Name != "Error" {
							return true
						}
						fo, _ := info.Uses[sel.Sel].(*types.Func)
						if fo == nil {
							return true
						}
						recv := fo.Type().(*types.Signature).Recv()
						if recv == nil {
							return true
						}
						rt := namedTypeName(recv.Type())
						if rt != pkg+".yyLexer" && rt != "*"+pkg+".lexer" {
							return true
						}
						if inner, ok := ast.Unparen(call.Args[0]).(*ast.CallExpr); ok {
							if id, ok := inner.Fun.(*ast.Ident); ok && id.Name == "yyErrorMessage" {
								return true
							}
						}
						// the recover handler of the entry point reports after yyParse has ended
						if f.Lit != nil {
							if _, isDefer := c.P.Parent(c.P.Parent(f.Lit)).(*ast.DeferStmt); isDefer {
								return true
							}
						}
						nsem++
						if first == token.NoPos || call.Pos() < first {
							first = call.Pos()
						}
						return true
					})
				}
				key := lex.Name + "|no receive after a failure"
				if nsem == 0 {
					rr.OK(lex, key, lex.Pos(), "syntax-errors-only", "only yyParse's own syntax error is reported, which ends the parse")
					continue
				}
				// the receive must be guarded by an early exit on err != nil
				info := lex.Info()
				var recv *ast.UnaryExpr
				lex.OwnNodes(func(n ast.Node) bool {
					if u, ok := n.(*ast.UnaryExpr); ok && u.Op == token.ARROW && core.FieldOf(info, u.X) == tokF && recv == nil {
						recv = u
					}
					return true
				})
				if recv == nil {
					rr.Unk(lex, key, lex.Pos(), "no receive from the token channel in Lex")
					continue
				}
				isErrTest := func(e ast.Expr, pos bool) bool {
					// err != nil  (directly on the field, or on a local copy), negative polarity = early exit taken when it holds
					test := func(x ast.Expr) bool {
						be, ok := ast.Unparen(x).(*ast.BinaryExpr)
						if !ok || !isNilIdent(info, be.Y) {
							return false
						}
						src := be.X
						if id, ok := ast.Unparen(src).(*ast.Ident); ok {
							if d := localDef(lex, info, info.Uses[id]); d != nil {
								src = d
							}
						}
						return core.FieldOf(info, src) == errF && ((be.Op == token.NEQ && !pos) || (be.Op == token.EQL && pos))
					}
					if test(e) {
						return true
					}
					if id, ok := ast.Unparen(e).(*ast.Ident); ok {
						if d := localDef(lex, info, info.Uses[id]); d != nil {
							return test(d)
						}
					}
					return false
				}
				ok := false
				for _, g := range guardsOf(c.P, recv, nil) {
					if isErrTest(g.cond, g.pos) {
						ok = true
					}
				}
				if ok {
					rr.OK(lex, key, recv.Pos(), "stops", fmt.Sprintf("Lex returns end-of-input once an error is recorded (%d error reports from reductions)", nsem))
				} else {
					rr.Bad(lex, key, recv.Pos(), fmt.Sprintf("reductions report errors at %d sites (first at %s) and the parse goes on: Lex then receives from the token channel while the lexer is being cancelled, so whether further tokens arrive is decided by a race - `1++ + 2` evaluates to 0, 1 or 3 with differing errors", nsem, c.P.PosString(first)))
				}
			}
		}}
}

// breaksTies reports whether cond, besides ordering two positions, also
// orders something else when the positions are equal: an equality test of two
// ast.Pos values conjoined with a strict comparison of two strings.
func breaksTies(info *types.Info, cond ast.Expr) bool {
	eqPos, cmpStr := false, false
	ast.Inspect(cond, func(n ast.Node) bool {
		be, ok := n.(*ast.BinaryExpr)
		if !ok {
			return true
		}
		tx, okx := info.Types[be.X]
		ty, oky := info.Types[be.Y]
		if !okx || !oky || tx.Type == nil || ty.Type == nil {
			return true
		}
		switch be.Op {
		case token.EQL:
			if namedTypeName(tx.Type) == "ast.Pos" && namedTypeName(ty.Type) == "ast.Pos" {
				eqPos = true
			}
		case token.LSS, token.GTR:
			if tx.Type.Underlying().String() == "string" && ty.Type.Underlying().String() == "string" {
				cmpStr = true
			}
		}
		return true
	})
	return eqPos && cmpStr
}

// ---------------------------------------------------------------------------
// CC14: a channel signalled without blocking has room for the signal.

func ruleCC14(pkgs ...string) Rule {
	return Rule{ID: "CC14", Kind: "must", Floor: 1,
		Doc: "a channel field that is signalled with a non-blocking send (an arm of a select that has a default arm) is created with capacity >= 1 at every construction site: with an unbuffered channel the signal is dropped whenever the waiter has tested its condition and released the lock but is not yet parked in the receive, and it then waits forever (lost wake-up); sibling construction sites (the top-level and the nested lexer) must agree",
		Run: func(c *Ctx, rr *core.RuleResult) {
			for _, pkg := range pkgs {
				pk := c.P.Pkgs[pkg]
				if pk == nil {
					continue
				}
				info := pk.TypesInfo
				signalled := map[*types.Var]token.Pos{}
				for _, f := range c.funcsOfPkg(pkg, false) {
					f.OwnNodes(func(n ast.Node) bool {
						sel, ok := n.(*ast.SelectStmt)
						if !ok {
							return true
						}
						hasDefault := false
						var sends []*ast.SendStmt
						for _, cl := range sel.Body.List {
							cc := cl.(*ast.CommClause)
							if cc.Comm == nil {
								hasDefault = true
							} else if s, ok := cc.Comm.(*ast.SendStmt); ok {
								sends = append(sends, s)
							}
						}
						if hasDefault {
							for _, s := range sends {
								if v := core.FieldOf(info, s.Chan); v != nil {
									signalled[v] = s.Pos()
								}
							}
						}
						return true
					})
				}
				capOf := func(e ast.Expr) (int64, bool, bool) { // capacity, is a make(chan), capacity known
					call, ok := ast.Unparen(e).(*ast.CallExpr)
					if !ok || !isBuiltinCall(info, call, "make") || len(call.Args) == 0 {
						return 0, false, false
					}
					if _, isChan := info.TypeOf(call.Args[0]).Underlying().(*types.Chan); !isChan {
						return 0, false, false
					}
					if len(call.Args) == 1 {
						return 0, true, true
					}
					v, known := constInt(info, call.Args[1])
					return v, true, known
				}
				n := 0
				report := func(v *types.Var, e ast.Expr, where *core.Func) {
					capacity, isMake, known := capOf(e)
					key := fmt.Sprintf("%s.%s|created in %s", pkg, v.Name(), where.Name)
					n++
					switch {
					case !isMake || !known:
						rr.Unk(where, key, e.Pos(), "the channel stored here is not a make(chan …) with a constant capacity")
					case capacity >= 1:
						rr.OK(where, key, e.Pos(), "buffered", fmt.Sprintf("capacity %d: a non-blocking signal is kept until the waiter receives it", capacity))
					default:
						rr.Bad(where, key, e.Pos(), fmt.Sprintf("%s is signalled with a non-blocking send (%s) but created unbuffered here: a signal sent between the waiter's test and its receive is dropped and the waiter blocks forever", v.Name(), c.P.PosString(signalled[v])))
					}
				}
				for _, f := range c.funcsOfPkg(pkg, false) {
					f.OwnNodes(func(x ast.Node) bool {
						switch x := x.(type) {
						case *ast.KeyValueExpr:
							if id, ok := x.Key.(*ast.Ident); ok {
								if v, ok := info.Uses[id].(*types.Var); ok && v.IsField() {
									if _, sig := signalled[v]; sig {
										report(v, x.Value, f.Root())
									}
								}
							}
						case *ast.AssignStmt:
							for i, l := range x.Lhs {
								if v := core.FieldOf(info, l); v != nil && i < len(x.Rhs) && len(x.Lhs) == len(x.Rhs) {
									if _, sig := signalled[v]; sig {
										report(v, x.Rhs[i], f.Root())
									}
								}
							}
						}
						return true
					})
				}
				if len(signalled) > 0 && n == 0 {
					rr.Unkp(c.P, pkg+"|signalled channels", 0, "channel fields are signalled without blocking but no construction site was found")
				}
			}
		}}
}

// ---------------------------------------------------------------------------
// CC15: every lexer owns its channels.

func ruleCC15(pkgs ...string) Rule {
	return Rule{ID: "CC15", Kind: "must", Floor: 2,
		Doc: "each lexer value is constructed with channels of its own: in every composite literal of the lexer type a channel field is given a fresh make(chan …), never the channel of another lexer. The error recorder closes `cancel` under the mutex of the lexer it belongs to; a nested lexer that shares its creator's channel can close it a second time under a different mutex (panic), and stops or not depending on what the outer parser happens to have reported",
		Run: func(c *Ctx, rr *core.RuleResult) {
			for _, pkg := range pkgs {
				pk := c.P.Pkgs[pkg]
				if pk == nil {
					continue
				}
				for _, f := range c.funcsOfPkg(pkg, false) {
					info := f.Info()
					f.OwnNodes(func(n ast.Node) bool {
						cl, ok := n.(*ast.CompositeLit)
						if !ok {
							return true
						}
						t := info.TypeOf(cl)
						if t == nil || namedTypeName(t) != pkg+".lexer" {
							return true
						}
						for _, el := range cl.Elts {
							kv, ok := el.(*ast.KeyValueExpr)
							if !ok {
								continue
							}
							id, ok := kv.Key.(*ast.Ident)
							if !ok {
								continue
							}
							v, ok := info.Uses[id].(*types.Var)
							if !ok {
								continue
							}
							if _, isChan := v.Type().Underlying().(*types.Chan); !isChan {
								continue
							}
							key := fmt.Sprintf("%s.lexer.%s|constructed in %s", pkg, v.Name(), f.Root().Name)
							if call, ok := ast.Unparen(kv.Value).(*ast.CallExpr); ok && isBuiltinCall(info, call, "make") {
								rr.OK(f, key, kv.Pos(), "fresh", "a channel of its own")
							} else {
								rr.Bad(f, key, kv.Pos(), fmt.Sprintf("the lexer constructed here does not get a channel of its own for %s (%s): it shares it with another lexer, whose error recorder closes it under a different mutex", v.Name(), exprStr(kv.Value)))
							}
						}
						return true
					})
				}
			}
		}}
}
