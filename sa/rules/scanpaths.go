package rules

import (
	"fmt"
	"go/ast"
	"go/constant"
	"go/token"
	"go/types"
	"sort"

	"verif/sa/core"
)

// ---------------------------------------------------------------------------
// Path enumeration of an operator scanner.
//
// An operator scanner is a finite automaton written as code: it reads a
// character, compares it with constants, reads on or pushes it back, and
// names a token.  scanPaths walks every path of such a function over abstract
// values - a constant, "the k-th character read" with the comparisons made so
// far, a composite literal, unknown - splitting at each comparison of a read
// character and at each test it cannot evaluate (lexer state).  Helpers of the
// package are inlined with their arguments, constant tables are looked up key
// by key, a range over a literal slice is unrolled.  Nothing is executed and
// no solver is involved: the domain is finite and every split is a syntactic
// comparison with a constant.  Any construct outside this fragment aborts the
// walk (ok == false) and the caller falls back to the syntactic rule.

type svKind int

const (
	svUnknown svKind = iota
	svConst          // integer, bool or string constant
	svSym            // the character delivered by read #sym
	svErr            // the error delivered by read #sym
	svLit            // composite literal (map, slice, struct), possibly with elided type
	svSlice          // evaluated elements (variadic arguments)
	svStruct         // evaluated fields
	svTuple          // results of an inlined call
	svNil            // nil map, slice, pointer, error
	svOpaque         // action mode: a value the walk does not compute (a $k member, the result of a call that is not inlined)
)

type sval struct {
	kind   svKind
	c      constant.Value
	sym    int
	lit    *ast.CompositeLit
	litTyp types.Type
	info   *types.Info
	elems  []sval
	fields map[string]sval
	// svOpaque: sym is its identity; origin says where it comes from ("$1.expr.n",
	// or "call" with fn, idx (which result) and elems (the arguments))
	origin string
	fn     *core.Func
	idx    int
}

// sevent is a call the action walk records instead of following.
type sevent struct {
	kind  string // as classified by the walker's event hook
	args  []sval
	pos   token.Pos
	ncons int // how many comparisons the path had decided when the call was made
}

// scons is a comparison of an opaque value with a constant that a path has
// decided: opaque #id == c is truth.
type scons struct {
	id    int
	c     constant.Value
	truth bool
	v     sval // the opaque value compared
}

type symState struct {
	eq      *rune
	notIn   []rune
	err     int // 0 unknown, 1 failed, 2 delivered
	unread  bool
	initial bool // handed in by the caller, already consumed
}

type spath struct {
	env      map[types.Object]sval
	syms     []symState
	emitted  []sval
	ret      []sval
	returned bool
	brk      bool
	cont     bool
	events   []sevent
	cons     []scons
}

func (p *spath) clone() *spath {
	q := &spath{env: make(map[types.Object]sval, len(p.env)), syms: make([]symState, len(p.syms)), returned: p.returned, brk: p.brk, cont: p.cont}
	for k, v := range p.env {
		q.env[k] = v
	}
	for i, s := range p.syms {
		t := s
		if s.eq != nil {
			r := *s.eq
			t.eq = &r
		}
		t.notIn = append([]rune(nil), s.notIn...)
		q.syms[i] = t
	}
	q.emitted = append([]sval(nil), p.emitted...)
	q.ret = append([]sval(nil), p.ret...)
	q.events = append([]sevent(nil), p.events...)
	q.cons = append([]scons(nil), p.cons...)
	return q
}

// text returns what the path consumed; ok is false when a consumed character
// is not pinned down by the comparisons made.
func (p *spath) text() (string, bool) {
	out, ok := "", true
	for _, s := range p.syms {
		if s.unread || s.err == 1 {
			continue
		}
		if s.eq == nil {
			ok = false
			out += "?"
			continue
		}
		out += string(*s.eq)
	}
	return out, ok
}

type scanWalker struct {
	c                 *Ctx
	pkg               string
	read, unread, emt *core.Func
	aborted           string
	steps             int
	// action mode (actionpaths.go)
	action   bool
	classify func(h *core.Func) string // "" or the kind of event a call of h is
	inlineOK func(h *core.Func) bool   // whether a call of h is followed
	nextID   int
}

type scanAbort struct{ why string }

func (w *scanWalker) abort(format string, a ...interface{}) {
	panic(scanAbort{fmt.Sprintf(format, a...)})
}

// scanPaths enumerates the paths of f.  firstParam: f's first parameter is a
// character the caller has read already.
func (c *Ctx) scanPaths(pkg string, f *core.Func) (paths []*spath, why string) {
	w := &scanWalker{c: c, pkg: pkg, read: c.fn(pkg + ".(*lexer).read"), unread: c.fn(pkg + ".(*lexer).unread"), emt: c.fn(pkg + ".(*lexer).emit")}
	if w.read == nil || w.unread == nil {
		return nil, "read/unread not found"
	}
	defer func() {
		if e := recover(); e != nil {
			if a, ok := e.(scanAbort); ok {
				paths, why = nil, a.why
				return
			}
			panic(e)
		}
	}()
	st := &spath{env: map[types.Object]sval{}}
	info := f.Info()
	if f.Type.Params != nil {
		for _, fld := range f.Type.Params.List {
			for _, nm := range fld.Names {
				obj := info.Defs[nm]
				if b, ok := obj.Type().Underlying().(*types.Basic); ok && b.Kind() == types.Int32 {
					st.syms = append(st.syms, symState{err: 2, initial: true})
					st.env[obj] = sval{kind: svSym, sym: len(st.syms) - 1}
				} else {
					st.env[obj] = sval{}
				}
			}
		}
	}
	out := w.call(f, st, 0)
	return out, ""
}

// call executes the body of g on st (parameters already bound) and returns the
// paths at its exits; named results are collected on a bare return.
func (w *scanWalker) call(g *core.Func, st *spath, depth int) []*spath {
	info := g.Info()
	var named []types.Object
	if g.Type.Results != nil {
		for _, fld := range g.Type.Results.List {
			for _, nm := range fld.Names {
				obj := info.Defs[nm]
				named = append(named, obj)
				st.env[obj] = zeroOf(obj.Type())
			}
		}
	}
	outs := w.block(g, g.Body.List, st, depth)
	for _, p := range outs {
		if (!p.returned || len(p.ret) == 0) && len(named) > 0 {
			p.ret = nil
			for _, o := range named {
				p.ret = append(p.ret, p.env[o])
			}
		}
		p.returned, p.brk, p.cont = false, false, false
	}
	return outs
}

func zeroOf(t types.Type) sval {
	if b, ok := t.Underlying().(*types.Basic); ok {
		switch {
		case b.Info()&types.IsInteger != 0:
			return sval{kind: svConst, c: constant.MakeInt64(0)}
		case b.Info()&types.IsBoolean != 0:
			return sval{kind: svConst, c: constant.MakeBool(false)}
		case b.Info()&types.IsString != 0:
			return sval{kind: svConst, c: constant.MakeString("")}
		}
	}
	switch t.Underlying().(type) {
	case *types.Map, *types.Slice, *types.Pointer, *types.Interface, *types.Signature, *types.Chan:
		return sval{kind: svNil}
	case *types.Struct:
		st := t.Underlying().(*types.Struct)
		out := sval{kind: svStruct, fields: map[string]sval{}}
		for i := 0; i < st.NumFields(); i++ {
			if _, nested := st.Field(i).Type().Underlying().(*types.Struct); nested {
				out.fields[st.Field(i).Name()] = sval{}
			} else {
				out.fields[st.Field(i).Name()] = zeroOf(st.Field(i).Type())
			}
		}
		return out
	}
	return sval{}
}

func (w *scanWalker) block(g *core.Func, list []ast.Stmt, st *spath, depth int) []*spath {
	cur := []*spath{st}
	for _, s := range list {
		var next []*spath
		for _, p := range cur {
			if p.returned || p.brk || p.cont {
				next = append(next, p)
				continue
			}
			next = append(next, w.stmt(g, s, p, depth)...)
		}
		cur = next
		if w.steps++; w.steps > 200000 || len(cur) > 4000 {
			w.abort("too many paths")
		}
	}
	return cur
}

func (w *scanWalker) stmt(g *core.Func, s ast.Stmt, st *spath, depth int) []*spath {
	info := g.Info()
	switch s := s.(type) {
	case *ast.EmptyStmt:
		return []*spath{st}
	case *ast.BlockStmt:
		return w.block(g, s.List, st, depth)
	case *ast.DeclStmt:
		gd, ok := s.Decl.(*ast.GenDecl)
		if !ok || gd.Tok != token.VAR {
			return []*spath{st}
		}
		outs := []*spath{st}
		for _, sp := range gd.Specs {
			vs := sp.(*ast.ValueSpec)
			for i, nm := range vs.Names {
				obj := info.Defs[nm]
				if obj == nil {
					continue
				}
				if i < len(vs.Values) && len(vs.Values) == len(vs.Names) {
					var next []*spath
					for _, p := range outs {
						for _, r := range w.eval(g, vs.Values[i], p, depth) {
							r.p.env[obj] = r.v
							next = append(next, r.p)
						}
					}
					outs = next
				} else {
					for _, p := range outs {
						p.env[obj] = zeroOf(obj.Type())
					}
				}
			}
		}
		return outs
	case *ast.ExprStmt:
		var outs []*spath
		for _, r := range w.eval(g, s.X, st, depth) {
			outs = append(outs, r.p)
		}
		return outs
	case *ast.IncDecStmt:
		if id, ok := ast.Unparen(s.X).(*ast.Ident); ok {
			if obj := info.Uses[id]; obj != nil {
				if _, local := st.env[obj]; local {
					st.env[obj] = sval{}
				}
			}
		}
		return []*spath{st}
	case *ast.AssignStmt:
		return w.assign(g, s, st, depth)
	case *ast.ReturnStmt:
		if len(s.Results) == 0 {
			st.returned = true
			st.ret = nil
			return []*spath{st}
		}
		outs := []*spath{st}
		vals := map[*spath][]sval{st: nil}
		for _, e := range s.Results {
			var next []*spath
			nv := map[*spath][]sval{}
			for _, p := range outs {
				for _, r := range w.eval(g, e, p, depth) {
					if r.v.kind == svTuple && len(s.Results) == 1 {
						nv[r.p] = append(append([]sval(nil), vals[p]...), r.v.elems...)
					} else {
						nv[r.p] = append(append([]sval(nil), vals[p]...), r.v)
					}
					next = append(next, r.p)
				}
			}
			outs, vals = next, nv
		}
		for _, p := range outs {
			p.returned = true
			p.ret = vals[p]
		}
		return outs
	case *ast.BranchStmt:
		switch s.Tok {
		case token.BREAK:
			if s.Label != nil {
				w.abort("labelled break")
			}
			st.brk = true
		case token.CONTINUE:
			if s.Label != nil {
				w.abort("labelled continue")
			}
			st.cont = true
		default:
			w.abort("%s statement", s.Tok)
		}
		return []*spath{st}
	case *ast.IfStmt:
		cur := []*spath{st}
		if s.Init != nil {
			cur = w.stmt(g, s.Init, st, depth)
		}
		var outs []*spath
		for _, p := range cur {
			for _, b := range w.cond(g, s.Cond, p, depth) {
				switch {
				case b.truth:
					outs = append(outs, w.block(g, s.Body.List, b.p, depth)...)
				case s.Else != nil:
					outs = append(outs, w.stmt(g, s.Else, b.p, depth)...)
				default:
					outs = append(outs, b.p)
				}
			}
		}
		return outs
	case *ast.SwitchStmt:
		return w.switchStmt(g, s, st, depth)
	case *ast.RangeStmt:
		return w.rangeStmt(g, s, st, depth)
	case *ast.LabeledStmt:
		return w.stmt(g, s.Stmt, st, depth)
	case *ast.ForStmt:
		return w.forStmt(g, s, st, depth)
	}
	w.abort("%T statement", s)
	return nil
}

func (w *scanWalker) assign(g *core.Func, s *ast.AssignStmt, st *spath, depth int) []*spath {
	info := g.Info()
	set := func(p *spath, lhs ast.Expr, v sval) {
		id, ok := ast.Unparen(lhs).(*ast.Ident)
		if !ok {
			if w.action {
				w.store(g, p, lhs, v)
			}
			return // a field or an element: lexer state, not tracked
		}
		if id.Name == "_" {
			return
		}
		obj := info.Defs[id]
		if obj == nil {
			obj = info.Uses[id]
		}
		if obj == nil {
			return
		}
		if v0, isVar := obj.(*types.Var); isVar && v0.Pkg() != nil && v0.Parent() == v0.Pkg().Scope() {
			return // package-level variable
		}
		p.env[obj] = v
	}
	if s.Tok != token.ASSIGN && s.Tok != token.DEFINE {
		// x op= e
		for _, l := range s.Lhs {
			set(st, l, sval{})
		}
		var outs []*spath
		for _, r := range w.eval(g, s.Rhs[0], st, depth) {
			outs = append(outs, r.p)
		}
		return outs
	}
	if len(s.Lhs) == len(s.Rhs) {
		outs := []*spath{st}
		vals := map[*spath][]sval{st: nil}
		for _, e := range s.Rhs {
			var next []*spath
			nv := map[*spath][]sval{}
			for _, p := range outs {
				for _, r := range w.eval(g, e, p, depth) {
					nv[r.p] = append(append([]sval(nil), vals[p]...), r.v)
					next = append(next, r.p)
				}
			}
			outs, vals = next, nv
		}
		for _, p := range outs {
			for i, l := range s.Lhs {
				set(p, l, vals[p][i])
			}
		}
		return outs
	}
	if len(s.Rhs) != 1 {
		w.abort("assignment shape")
	}
	// tuple: call, or comma-ok index
	rhs := ast.Unparen(s.Rhs[0])
	if ix, ok := rhs.(*ast.IndexExpr); ok && len(s.Lhs) == 2 {
		var outs []*spath
		for _, r := range w.index(g, ix, st, depth, true) {
			set(r.p, s.Lhs[0], r.v.elems[0])
			set(r.p, s.Lhs[1], r.v.elems[1])
			outs = append(outs, r.p)
		}
		return outs
	}
	var outs []*spath
	for _, r := range w.eval(g, rhs, st, depth) {
		for i, l := range s.Lhs {
			if r.v.kind == svTuple && i < len(r.v.elems) {
				set(r.p, l, r.v.elems[i])
			} else {
				set(r.p, l, sval{})
			}
		}
		outs = append(outs, r.p)
	}
	return outs
}

func (w *scanWalker) switchStmt(g *core.Func, s *ast.SwitchStmt, st *spath, depth int) []*spath {
	cur := []*spath{st}
	if s.Init != nil {
		cur = w.stmt(g, s.Init, st, depth)
	}
	for _, cl := range s.Body.List {
		for _, b := range cl.(*ast.CaseClause).Body {
			if br, ok := b.(*ast.BranchStmt); ok && br.Tok == token.FALLTHROUGH {
				w.abort("fallthrough")
			}
		}
	}
	var outs []*spath
	finish := func(ps []*spath) {
		for _, p := range ps {
			p.brk = false
			outs = append(outs, p)
		}
	}
	var deflt *ast.CaseClause
	for _, cl := range s.Body.List {
		if cc := cl.(*ast.CaseClause); cc.List == nil {
			deflt = cc
		}
	}
	if s.Tag == nil {
		for _, p := range cur {
			rest := []*spath{p}
			for _, cl := range s.Body.List {
				cc := cl.(*ast.CaseClause)
				for _, e := range cc.List {
					var nrest []*spath
					for _, q := range rest {
						for _, b := range w.cond(g, e, q, depth) {
							if b.truth {
								finish(w.block(g, cc.Body, b.p, depth))
							} else {
								nrest = append(nrest, b.p)
							}
						}
					}
					rest = nrest
				}
			}
			for _, q := range rest {
				if deflt != nil {
					finish(w.block(g, deflt.Body, q, depth))
				} else {
					outs = append(outs, q)
				}
			}
		}
		return outs
	}
	for _, p0 := range cur {
		for _, tv := range w.eval(g, s.Tag, p0, depth) {
			rest := []*spath{tv.p}
			for _, cl := range s.Body.List {
				cc := cl.(*ast.CaseClause)
				for _, e := range cc.List {
					var nrest []*spath
					for _, q := range rest {
						for _, cv := range w.eval(g, e, q, depth) {
							for _, b := range w.equal(tv.v, cv.v, cv.p) {
								if b.truth {
									finish(w.block(g, cc.Body, b.p, depth))
								} else {
									nrest = append(nrest, b.p)
								}
							}
						}
					}
					rest = nrest
				}
			}
			for _, q := range rest {
				if deflt != nil {
					finish(w.block(g, deflt.Body, q, depth))
				} else {
					outs = append(outs, q)
				}
			}
		}
	}
	return outs
}

// forStmt unrolls a loop whose condition the walk can evaluate (descending a
// constant tree); a loop that is still running after 8 rounds on some path
// is outside the fragment.
func (w *scanWalker) forStmt(g *core.Func, s *ast.ForStmt, st *spath, depth int) []*spath {
	cur := []*spath{st}
	if s.Init != nil {
		cur = w.stmt(g, s.Init, st, depth)
	}
	var outs []*spath
	for round := 0; len(cur) > 0; round++ {
		if round > 8 {
			w.abort("loop not bounded by the walk")
		}
		var next []*spath
		for _, p := range cur {
			if p.returned {
				outs = append(outs, p)
				continue
			}
			branches := []sbranch{{p, true}}
			if s.Cond != nil {
				branches = w.cond(g, s.Cond, p, depth)
			}
			for _, b := range branches {
				if !b.truth {
					outs = append(outs, b.p)
					continue
				}
				for _, q := range w.block(g, s.Body.List, b.p, depth) {
					switch {
					case q.returned:
						outs = append(outs, q)
					case q.brk:
						q.brk = false
						outs = append(outs, q)
					default:
						q.cont = false
						if s.Post != nil {
							next = append(next, w.stmt(g, s.Post, q, depth)...)
						} else {
							next = append(next, q)
						}
					}
				}
			}
		}
		cur = next
	}
	return outs
}

func (w *scanWalker) rangeStmt(g *core.Func, s *ast.RangeStmt, st *spath, depth int) []*spath {
	info := g.Info()
	var outs []*spath
	for _, xv := range w.eval(g, s.X, st, depth) {
		var elems []sval
		switch xv.v.kind {
		case svSlice:
			elems = xv.v.elems
		case svLit:
			if _, isMap := xv.v.litTyp.Underlying().(*types.Map); isMap {
				w.abort("range over a map")
			}
			for _, el := range xv.v.lit.Elts {
				if _, isKV := el.(*ast.KeyValueExpr); isKV {
					w.abort("keyed slice literal")
				}
				elems = append(elems, w.litElem(xv.v, el))
			}
		default:
			w.abort("range over %s", exprStr(s.X))
		}
		cur := []*spath{xv.p}
		for i, el := range elems {
			var next []*spath
			for _, p := range cur {
				if p.returned || p.brk {
					next = append(next, p)
					continue
				}
				p.cont = false
				if id, ok := s.Key.(*ast.Ident); ok && id.Name != "_" {
					if obj := info.Defs[id]; obj != nil {
						p.env[obj] = sval{kind: svConst, c: constant.MakeInt64(int64(i))}
					}
				}
				if id, ok := s.Value.(*ast.Ident); ok && id.Name != "_" {
					if obj := info.Defs[id]; obj != nil {
						p.env[obj] = el
					}
				}
				next = append(next, w.block(g, s.Body.List, p, depth)...)
			}
			cur = next
		}
		for _, p := range cur {
			p.brk, p.cont = false, false
			outs = append(outs, p)
		}
	}
	return outs
}

type sres struct {
	p *spath
	v sval
}

type sbranch struct {
	p     *spath
	truth bool
}

// litElem evaluates an element of a composite literal lazily: nested literals
// keep their (possibly elided) type.
func (w *scanWalker) litElem(parent sval, el ast.Expr) sval {
	if kv, ok := el.(*ast.KeyValueExpr); ok {
		el = kv.Value
	}
	if cl, ok := ast.Unparen(el).(*ast.CompositeLit); ok {
		var t types.Type
		if tv, ok := parent.info.Types[cl]; ok {
			t = tv.Type
		}
		if t == nil {
			switch pt := parent.litTyp.Underlying().(type) {
			case *types.Map:
				t = pt.Elem()
			case *types.Slice:
				t = pt.Elem()
			case *types.Array:
				t = pt.Elem()
			}
		}
		if t == nil {
			w.abort("untyped literal")
		}
		return w.structOrLit(sval{kind: svLit, lit: cl, litTyp: t, info: parent.info})
	}
	if tv, ok := parent.info.Types[el]; ok && tv.Value != nil {
		return sval{kind: svConst, c: tv.Value}
	}
	return sval{}
}

// structOrLit turns a struct literal into its fields.
func (w *scanWalker) structOrLit(v sval) sval {
	stt, ok := v.litTyp.Underlying().(*types.Struct)
	if !ok {
		return v
	}
	out := sval{kind: svStruct, fields: map[string]sval{}}
	for i := 0; i < stt.NumFields(); i++ {
		out.fields[stt.Field(i).Name()] = zeroOf(stt.Field(i).Type())
	}
	for i, el := range v.lit.Elts {
		if kv, isKV := el.(*ast.KeyValueExpr); isKV {
			if id, isID := kv.Key.(*ast.Ident); isID {
				out.fields[id.Name] = w.litElem(v, kv.Value)
			}
			continue
		}
		if i < stt.NumFields() {
			out.fields[stt.Field(i).Name()] = w.litElem(v, el)
		}
	}
	return out
}

func (w *scanWalker) eval(g *core.Func, e ast.Expr, st *spath, depth int) []sres {
	info := g.Info()
	e = ast.Unparen(e)
	if tv, ok := info.Types[e]; ok && tv.Value != nil {
		return []sres{{st, sval{kind: svConst, c: tv.Value}}}
	}
	switch e := e.(type) {
	case *ast.Ident:
		if e.Name == "nil" {
			return []sres{{st, sval{kind: svNil}}}
		}
		obj := info.Uses[e]
		if v, ok := st.env[obj]; ok {
			return []sres{{st, v}}
		}
		if vr, ok := obj.(*types.Var); ok && vr.Pkg() != nil && vr.Parent() == vr.Pkg().Scope() {
			if lit, li := w.pkgVarLit(vr); lit != nil {
				return []sres{{st, w.structOrLit(sval{kind: svLit, lit: lit, litTyp: vr.Type(), info: li})}}
			}
		}
		return []sres{{st, sval{}}}
	case *ast.CompositeLit:
		t := info.TypeOf(e)
		if t == nil {
			return []sres{{st, sval{}}}
		}
		return []sres{{st, w.structOrLit(sval{kind: svLit, lit: e, litTyp: t, info: info})}}
	case *ast.SelectorExpr:
		// field of an evaluated struct; anything else (lexer state) is unknown
		if _, isField := info.Selections[e]; isField {
			var out []sres
			for _, r := range w.eval(g, e.X, st, depth) {
				if r.v.kind == svStruct {
					out = append(out, sres{r.p, r.v.fields[e.Sel.Name]})
				} else {
					out = append(out, sres{r.p, sval{}})
				}
			}
			return out
		}
		return []sres{{st, sval{}}}
	case *ast.IndexExpr:
		if w.action {
			if v, ok := w.dollarOf(g, e); ok {
				return []sres{{st, v}}
			}
		}
		return w.index(g, e, st, depth, false)
	case *ast.StarExpr:
		if w.action {
			return w.eval(g, e.X, st, depth) // pointers to tracked structs are bound by copy-in/copy-out
		}
		return []sres{{st, sval{}}}
	case *ast.CallExpr:
		return w.callExpr(g, e, st, depth)
	case *ast.UnaryExpr:
		if e.Op == token.NOT {
			var out []sres
			for _, b := range w.cond(g, e.X, st, depth) {
				out = append(out, sres{b.p, sval{kind: svConst, c: constant.MakeBool(!b.truth)}})
			}
			return out
		}
		if w.action && e.Op == token.AND {
			return w.eval(g, e.X, st, depth) // &x handed to a helper: bound by copy-in/copy-out (actionCall)
		}
		var out []sres
		for _, r := range w.eval(g, e.X, st, depth) {
			out = append(out, sres{r.p, sval{}})
		}
		return out
	case *ast.BinaryExpr:
		switch e.Op {
		case token.LAND, token.LOR, token.EQL, token.NEQ:
			var out []sres
			for _, b := range w.cond(g, e, st, depth) {
				out = append(out, sres{b.p, sval{kind: svConst, c: constant.MakeBool(b.truth)}})
			}
			return out
		}
		var out []sres
		for _, l := range w.eval(g, e.X, st, depth) {
			for _, r := range w.eval(g, e.Y, l.p, depth) {
				out = append(out, sres{r.p, sval{}})
			}
		}
		return out
	case *ast.FuncLit:
		w.abort("function literal")
	}
	return []sres{{st, sval{}}}
}

// pkgVarLit finds the composite literal a package-level variable is
// initialised with, provided nothing assigns the variable.
func (w *scanWalker) pkgVarLit(v *types.Var) (*ast.CompositeLit, *types.Info) {
	pk := w.c.P.Pkgs[w.pkg]
	if pk == nil || v.Pkg() != pk.Types {
		return nil, nil
	}
	if !w.c.constantGlobal(v) {
		return nil, nil
	}
	for _, f := range pk.Syntax {
		for _, d := range f.Decls {
			gd, ok := d.(*ast.GenDecl)
			if !ok {
				continue
			}
			for _, sp := range gd.Specs {
				vs, ok := sp.(*ast.ValueSpec)
				if !ok {
					continue
				}
				for i, nm := range vs.Names {
					if pk.TypesInfo.Defs[nm] == v && i < len(vs.Values) {
						if cl, ok := ast.Unparen(vs.Values[i]).(*ast.CompositeLit); ok {
							return cl, pk.TypesInfo
						}
					}
				}
			}
		}
	}
	return nil, nil
}

// index evaluates m[k] on a constant table; with commaOk the value is a tuple
// (element, found).
func (w *scanWalker) index(g *core.Func, e *ast.IndexExpr, st *spath, depth int, commaOk bool) []sres {
	mk := func(p *spath, v sval, found bool) sres {
		if commaOk {
			return sres{p, sval{kind: svTuple, elems: []sval{v, {kind: svConst, c: constant.MakeBool(found)}}}}
		}
		return sres{p, v}
	}
	var out []sres
	for _, xv := range w.eval(g, e.X, st, depth) {
		for _, kv := range w.eval(g, e.Index, xv.p, depth) {
			if xv.v.kind != svLit {
				out = append(out, mk(kv.p, sval{}, false))
				if commaOk {
					out = append(out, mk(kv.p.clone(), sval{}, true))
				}
				continue
			}
			var elemT types.Type
			switch t := xv.v.litTyp.Underlying().(type) {
			case *types.Map:
				elemT = t.Elem()
			case *types.Slice:
				elemT = t.Elem()
			case *types.Array:
				elemT = t.Elem()
			default:
				w.abort("index of %s", exprStr(e.X))
			}
			rest := []*spath{kv.p}
			for i, el := range xv.v.lit.Elts {
				var key sval
				var val ast.Expr = el
				if pair, isKV := el.(*ast.KeyValueExpr); isKV {
					tv, ok := xv.v.info.Types[pair.Key]
					if !ok || tv.Value == nil {
						w.abort("table key is not a constant")
					}
					key, val = sval{kind: svConst, c: tv.Value}, pair.Value
				} else {
					key = sval{kind: svConst, c: constant.MakeInt64(int64(i))}
				}
				var nrest []*spath
				for _, q := range rest {
					for _, b := range w.equal(kv.v, key, q) {
						if b.truth {
							out = append(out, mk(b.p, w.litElem(xv.v, val), true))
						} else {
							nrest = append(nrest, b.p)
						}
					}
				}
				rest = nrest
			}
			for _, q := range rest {
				out = append(out, mk(q, zeroOf(elemT), false))
			}
		}
	}
	return out
}

func (w *scanWalker) callExpr(g *core.Func, e *ast.CallExpr, st *spath, depth int) []sres {
	info := g.Info()
	// conversion
	if tv, ok := info.Types[e.Fun]; ok && tv.IsType() && len(e.Args) == 1 {
		var out []sres
		for _, r := range w.eval(g, e.Args[0], st, depth) {
			v := r.v
			if v.kind == svSym {
				if s := r.p.syms[v.sym]; s.eq != nil {
					v = sval{kind: svConst, c: constant.MakeInt64(int64(*s.eq))}
				}
			}
			if v.kind == svConst && v.c.Kind() == constant.Int {
				if b, isBasic := tv.Type.Underlying().(*types.Basic); !isBasic || b.Info()&types.IsInteger == 0 {
					v = sval{}
				}
			}
			out = append(out, sres{r.p, v})
		}
		return out
	}
	fo := core.StaticCallee(info, e)
	var h *core.Func
	if fo != nil {
		h = w.c.P.FuncOf(fo)
	}
	// evaluate the arguments first (left to right)
	type argState struct {
		p    *spath
		args []sval
	}
	cur := []argState{{st, nil}}
	for _, a := range e.Args {
		var next []argState
		for _, as := range cur {
			for _, r := range w.eval(g, a, as.p, depth) {
				next = append(next, argState{r.p, append(append([]sval(nil), as.args...), r.v)})
			}
		}
		cur = next
	}
	var out []sres
	for _, as := range cur {
		p := as.p
		if w.action {
			out = append(out, w.actionCall(g, e, h, as.args, p, depth)...)
			continue
		}
		switch {
		case h != nil && h == w.read:
			p.syms = append(p.syms, symState{})
			k := len(p.syms) - 1
			out = append(out, sres{p, sval{kind: svTuple, elems: []sval{{kind: svSym, sym: k}, {kind: svErr, sym: k}}}})
		case h != nil && h == w.unread:
			done := false
			for i := len(p.syms) - 1; i >= 0 && !done; i-- {
				if s := &p.syms[i]; !s.unread && !s.initial && s.err != 1 {
					s.unread = true
					done = true
				}
			}
			out = append(out, sres{p, sval{}})
		case h != nil && w.emt != nil && h == w.emt:
			if len(as.args) == 1 {
				p.emitted = append(p.emitted, as.args[0])
			}
			out = append(out, sres{p, sval{}})
		case h != nil && h.Pkg == g.Pkg && h.Body != nil && h.Decl != nil && !h.Generated && depth < 4 && w.touchesInput(h, 0):
			// inline
			q := p
			saved := q.env
			q.env = map[types.Object]sval{}
			hi := h.Info()
			k := 0
			sig := h.Obj.Type().(*types.Signature)
			if h.Type.Params != nil {
				for _, fld := range h.Type.Params.List {
					for _, nm := range fld.Names {
						obj := hi.Defs[nm]
						switch {
						case sig.Variadic() && k == sig.Params().Len()-1 && !e.Ellipsis.IsValid():
							var rest []sval
							if k < len(as.args) {
								rest = as.args[k:]
							}
							q.env[obj] = sval{kind: svSlice, elems: rest}
						case k < len(as.args):
							q.env[obj] = as.args[k]
						default:
							q.env[obj] = sval{}
						}
						k++
					}
				}
			}
			for _, r := range w.call(h, q, depth+1) {
				r.env = make(map[types.Object]sval, len(saved))
				for k, v := range saved {
					r.env[k] = v
				}
				var v sval
				switch len(r.ret) {
				case 0:
				case 1:
					v = r.ret[0]
				default:
					v = sval{kind: svTuple, elems: r.ret}
				}
				r.ret = nil
				out = append(out, sres{r, v})
			}
		default:
			out = append(out, sres{p, sval{}})
		}
	}
	return out
}

// touchesInput reports whether h (or something it calls in the package) reads
// or pushes back a character or emits a token: only such helpers are inlined,
// everything else is an unknown value without an effect on the scan.
func (w *scanWalker) touchesInput(h *core.Func, depth int) bool {
	if h == w.read || h == w.unread || (w.emt != nil && h == w.emt) {
		return true
	}
	if depth > 3 || h.Body == nil {
		return false
	}
	found := false
	hi := h.Info()
	h.OwnNodes(func(n ast.Node) bool {
		if call, ok := n.(*ast.CallExpr); ok && !found {
			if fo := core.StaticCallee(hi, call); fo != nil {
				if k := w.c.P.FuncOf(fo); k != nil && k != h && k.Pkg == h.Pkg && w.touchesInput(k, depth+1) {
					found = true
				}
			}
		}
		return !found
	})
	if !found {
		// a pure helper over its arguments (a table lookup) is worth inlining too when
		// it returns an integer: it may name the token
		if sig, ok := h.Obj.Type().(*types.Signature); ok && sig.Results().Len() >= 1 && depth == 0 {
			if b, ok := sig.Results().At(0).Type().Underlying().(*types.Basic); ok && b.Info()&types.IsInteger != 0 && h.Obj != nil && !h.Obj.Exported() {
				pure := true
				h.OwnNodes(func(n ast.Node) bool {
					switch n.(type) {
					case *ast.ForStmt, *ast.GoStmt, *ast.SelectStmt, *ast.SendStmt, *ast.DeferStmt, *ast.FuncLit:
						pure = false
					}
					return pure
				})
				return pure
			}
		}
	}
	return found
}

// cond evaluates a condition, splitting where it compares a read character or
// its error, or cannot be evaluated.
func (w *scanWalker) cond(g *core.Func, e ast.Expr, st *spath, depth int) []sbranch {
	e = ast.Unparen(e)
	switch x := e.(type) {
	case *ast.UnaryExpr:
		if x.Op == token.NOT {
			bs := w.cond(g, x.X, st, depth)
			for i := range bs {
				bs[i].truth = !bs[i].truth
			}
			return bs
		}
	case *ast.BinaryExpr:
		switch x.Op {
		case token.LAND:
			var out []sbranch
			for _, b := range w.cond(g, x.X, st, depth) {
				if !b.truth {
					out = append(out, b)
				} else {
					out = append(out, w.cond(g, x.Y, b.p, depth)...)
				}
			}
			return out
		case token.LOR:
			var out []sbranch
			for _, b := range w.cond(g, x.X, st, depth) {
				if b.truth {
					out = append(out, b)
				} else {
					out = append(out, w.cond(g, x.Y, b.p, depth)...)
				}
			}
			return out
		case token.EQL, token.NEQ:
			var out []sbranch
			for _, l := range w.eval(g, x.X, st, depth) {
				for _, r := range w.eval(g, x.Y, l.p, depth) {
					for _, b := range w.equal(l.v, r.v, r.p) {
						if x.Op == token.NEQ {
							b.truth = !b.truth
						}
						out = append(out, b)
					}
				}
			}
			return out
		}
	}
	var out []sbranch
	for _, r := range w.eval(g, e, st, depth) {
		if r.v.kind == svConst && r.v.c.Kind() == constant.Bool {
			out = append(out, sbranch{r.p, constant.BoolVal(r.v.c)})
			continue
		}
		if r.v.kind == svOpaque {
			out = append(out, w.equal(r.v, sval{kind: svConst, c: constant.MakeBool(true)}, r.p)...)
			continue
		}
		out = append(out, sbranch{r.p, true}, sbranch{r.p.clone(), false})
	}
	return out
}

// equal compares two abstract values on p.
func (w *scanWalker) equal(a, b sval, p *spath) []sbranch {
	if a.kind == svConst && (b.kind == svSym || b.kind == svErr) {
		a, b = b, a
	}
	if a.kind == svNil && b.kind != svNil {
		a, b = b, a
	}
	if a.kind == svConst && b.kind == svOpaque {
		a, b = b, a
	}
	if a.kind == svOpaque && b.kind == svConst {
		for _, k := range p.cons {
			if k.id == a.sym && constant.Compare(k.c, token.EQL, b.c) {
				return []sbranch{{p, k.truth}}
			}
		}
		q := p.clone()
		p.cons = append(p.cons, scons{a.sym, b.c, true, a})
		q.cons = append(q.cons, scons{a.sym, b.c, false, a})
		return []sbranch{{p, true}, {q, false}}
	}
	switch {
	case a.kind == svNil && b.kind == svNil:
		return []sbranch{{p, true}}
	case (a.kind == svLit || a.kind == svSlice || a.kind == svStruct) && b.kind == svNil:
		return []sbranch{{p, false}}
	case a.kind == svConst && b.kind == svConst:
		return []sbranch{{p, constant.Compare(a.c, token.EQL, b.c)}}
	case a.kind == svSym && b.kind == svConst && b.c.Kind() == constant.Int:
		v, _ := constant.Int64Val(b.c)
		c := rune(v)
		s := p.syms[a.sym]
		if s.eq != nil {
			return []sbranch{{p, *s.eq == c}}
		}
		for _, n := range s.notIn {
			if n == c {
				return []sbranch{{p, false}}
			}
		}
		if s.err == 1 {
			return []sbranch{{p, false}, {p.clone(), true}} // value after a failed read: unknown
		}
		q := p.clone()
		p.syms[a.sym].eq = &c
		q.syms[a.sym].notIn = append(q.syms[a.sym].notIn, c)
		return []sbranch{{p, true}, {q, false}}
	case a.kind == svErr && b.kind == svNil:
		// err == nil
		switch p.syms[a.sym].err {
		case 1:
			return []sbranch{{p, false}}
		case 2:
			return []sbranch{{p, true}}
		}
		q := p.clone()
		p.syms[a.sym].err = 2
		q.syms[a.sym].err = 1
		return []sbranch{{p, true}, {q, false}}
	case a.kind == svSym && b.kind == svSym && a.sym == b.sym:
		return []sbranch{{p, true}}
	case a.kind == svSym && b.kind == svSym:
		// two characters read: when one of them is known on this path (`r2 == r` after r was
		// looked up in a table), the comparison decides the other
		if p.syms[a.sym].eq == nil && p.syms[b.sym].eq != nil {
			a, b = b, a
		}
		if k := p.syms[a.sym].eq; k != nil {
			return w.equal(b, sval{kind: svConst, c: constant.MakeInt64(int64(*k))}, p)
		}
	}
	return []sbranch{{p, true}, {p.clone(), false}}
}

// scanTokens summarises the paths: for each token value the texts consumed on
// the paths that name it.
type scanToken struct {
	value int64
	texts map[string]bool // "?" marks a consumed character that no comparison pinned down
}

func summariseScan(paths []*spath, returnsToken bool) map[int64]*scanToken {
	out := map[int64]*scanToken{}
	for _, p := range paths {
		var tv *sval
		switch {
		case returnsToken && len(p.ret) >= 1:
			tv = &p.ret[0]
		case !returnsToken && len(p.emitted) > 0:
			tv = &p.emitted[len(p.emitted)-1]
		}
		if tv == nil {
			continue
		}
		v := *tv
		if v.kind == svSym {
			if s := p.syms[v.sym]; s.eq != nil {
				v = sval{kind: svConst, c: constant.MakeInt64(int64(*s.eq))}
			}
		}
		if v.kind != svConst || v.c.Kind() != constant.Int {
			v = sval{kind: svConst, c: constant.MakeInt64(-1)} // a token the walk could not name
		}
		n, _ := constant.Int64Val(v.c)
		t := out[n]
		if t == nil {
			t = &scanToken{value: n, texts: map[string]bool{}}
			out[n] = t
		}
		txt, _ := p.text()
		t.texts[txt] = true
	}
	return out
}

func sortedTexts(m map[string]bool) []string {
	var out []string
	for k := range m {
		out = append(out, k)
	}
	sort.Strings(out)
	return out
}
