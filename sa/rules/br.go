package rules

import (
	"fmt"
	"go/ast"
	"go/token"
	"go/types"
	"strings"

	"verif/sa/core"
)

// ruleBR2: ${#p} counts characters.
func ruleBR2() Rule {
	return Rule{ID: "BR2", Kind: "must", Floor: 1,
		Doc: "the number ${#p} expands to is produced by utf8.RuneCountInString (characters), or by len of the positional-parameter list for ${#@}; never by the byte length of the value",
		Run: func(c *Ctx, rr *core.RuleResult) {
			f := c.mustFn(rr, "interp.(*ExecEnv).expandParam")
			if f == nil {
				return
			}
			info := f.Info()
			// the variable passed to strconv.Itoa in the length arm
			var nObj types.Object
			f.OwnNodes(func(n ast.Node) bool {
				call, ok := n.(*ast.CallExpr)
				if ok && calleeName(info, call) == "strconv.Itoa" && len(call.Args) == 1 {
					if id, ok := ast.Unparen(call.Args[0]).(*ast.Ident); ok {
						nObj = info.Uses[id]
					}
				}
				return true
			})
			if nObj == nil {
				rr.Unk(f, f.Name+"|length-value", f.Pos(), "no strconv.Itoa(n) in expandParam: the length form is produced some other way")
				return
			}
			cnt := 0
			f.OwnNodes(func(n ast.Node) bool {
				as, ok := n.(*ast.AssignStmt)
				if !ok {
					return true
				}
				for i, l := range as.Lhs {
					id, ok := l.(*ast.Ident)
					if !ok || (info.Uses[id] != nObj && info.Defs[id] != nObj) || i >= len(as.Rhs) {
						continue
					}
					cnt++
					r := ast.Unparen(as.Rhs[i])
					key := f.Name + "|n = " + exprStr(r)
					call, isCall := r.(*ast.CallExpr)
					switch {
					case isCall && calleeName(info, call) == "unicode/utf8.RuneCountInString":
						rr.OK(f, key, as.Pos(), "runes", "counts characters")
					case isCall && isBuiltinCall(info, call, "len") && isStringSlice(info, call.Args[0]):
						rr.OK(f, key, as.Pos(), "count", "number of positional parameters")
					default:
						rr.Bad(f, key, as.Pos(), "the length of a parameter is computed as `"+exprStr(r)+"`, not as a character count: ${#p} is wrong for multi-byte values")
					}
				}
				return true
			})
			if cnt == 0 {
				rr.Unk(f, f.Name+"|length-value", f.Pos(), "the length variable is never assigned")
			}
		}}
}

func isStringSlice(info *types.Info, e ast.Expr) bool {
	t := info.Types[e].Type
	if t == nil {
		return false
	}
	s, ok := t.Underlying().(*types.Slice)
	return ok && s.Elem().String() == "string"
}

var _ = fmt.Sprintf
var _ = token.ADD
var _ = strings.Contains
var _ core.Bits
