package rules

import (
	"fmt"
	"go/ast"
	"go/token"
	"go/types"
	"sort"
	"strings"

	"golang.org/x/tools/go/cfg"

	"verif/sa/core"
)

// Conditional helpers of the here-document stack.
//
// PU8 asks every printer function to leave the stack as deep as it found it.
// A function that opens a frame *for its caller* (printing the head of a
// construct) and another that closes it (printing the tail) are each
// unbalanced, and together balanced - provided the caller runs both under the
// same condition.  Such a helper is summarised instead of being reported: for
// every valuation of the conditions it tests, its net effect on the depth must
// be one number (independent of the path), and the lowest depth it reaches is
// recorded.  At a call, the conditions are rewritten in the caller's terms
// (parameters replaced by the arguments, the receiver by the receiver
// expression) and become correlation atoms of the caller; conditions that
// cannot be rewritten are left open, which makes the call contribute every
// effect they allow.  The caller is then checked as before.  A helper that is
// exported, used as a value, or whose effect depends on the path is not a
// helper and is reported as unbalanced.

// depthEffect is what a node does to the depth: the net change and the
// lowest depth reached on the way, both relative to the depth before.
type depthEffect struct{ d, min int }

type helperSummary struct {
	atoms   []ast.Expr // conditions of the helper, normalised to their positive form
	pos     []bool     // polarity of atoms[i] in normCond's terms
	effects []depthEffect
	trivial bool // zero under every valuation
}

type pu8Engine struct {
	c         *Ctx
	push, pop *core.Func
	summ      map[*core.Func]*helperSummary
	busy      map[*core.Func]bool
	litOf     map[types.Object]*core.Func
	failed    map[*core.Func]string
}

func (c *Ctx) pu8() *pu8Engine {
	if v, ok := c.cache["pu8engine"]; ok {
		return v.(*pu8Engine)
	}
	e := &pu8Engine{c: c, push: c.fn("printer.(*printer).push"), pop: c.fn("printer.(*printer).heredoc"),
		summ: map[*core.Func]*helperSummary{}, busy: map[*core.Func]bool{}, failed: map[*core.Func]string{}}
	c.cache["pu8engine"] = e
	return e
}

// calleeOf resolves a call to a function of the program: a declared function
// or method, or a function literal bound once to a local variable.
func (e *pu8Engine) calleeOf(f *core.Func, call *ast.CallExpr) *core.Func {
	info := f.Info()
	if fo := core.StaticCallee(info, call); fo != nil {
		return e.c.P.FuncOf(fo)
	}
	id, ok := ast.Unparen(call.Fun).(*ast.Ident)
	if !ok {
		return nil
	}
	v, ok := info.Uses[id].(*types.Var)
	if !ok {
		return nil
	}
	if e.litOf == nil {
		e.litOf = map[types.Object]*core.Func{}
		for _, l := range e.c.P.Funcs {
			if l.Lit == nil {
				continue
			}
			if as, ok := e.c.P.Parent(l.Lit).(*ast.AssignStmt); ok && as.Tok == token.DEFINE && len(as.Lhs) == 1 && len(as.Rhs) == 1 {
				if lid, ok := as.Lhs[0].(*ast.Ident); ok {
					if obj := l.Info().Defs[lid]; obj != nil {
						if lv, isVar := obj.(*types.Var); isVar && !reassigned(l.Root(), lv) {
							e.litOf[obj] = l
						}
					}
				}
			}
		}
	}
	return e.litOf[v]
}

// immutableIn reports whether the operands of e keep their value throughout f:
// no calls, and every local it mentions is assigned at most once.
func immutableIn(f *core.Func, e ast.Expr) bool {
	info := f.Info()
	ok := true
	ast.Inspect(e, func(n ast.Node) bool {
		switch n := n.(type) {
		case *ast.CallExpr:
			ok = false
		case *ast.Ident:
			if v, isVar := info.Uses[n].(*types.Var); isVar && !v.IsField() {
				cnt := 0
				ast.Inspect(f.Root().Body, func(x ast.Node) bool {
					if as, isAs := x.(*ast.AssignStmt); isAs {
						for _, l := range as.Lhs {
							if id, isID := l.(*ast.Ident); isID && (info.Uses[id] == v || info.Defs[id] == v) {
								cnt++
							}
						}
					}
					return true
				})
				if cnt > 1 {
					ok = false
				}
			}
		}
		return true
	})
	return ok
}

// rewrite expresses a condition of helper h in the terms of a call of h:
// parameters become the arguments, the receiver the receiver expression.  It
// fails when the condition mentions another local of h.
func rewriteForCall(h *core.Func, cond ast.Expr, call *ast.CallExpr) (ast.Expr, bool) {
	info := h.Info()
	m := map[types.Object]ast.Expr{}
	if h.Decl != nil && h.Decl.Recv != nil && len(h.Decl.Recv.List) == 1 && len(h.Decl.Recv.List[0].Names) == 1 {
		if se, ok := ast.Unparen(call.Fun).(*ast.SelectorExpr); ok {
			m[info.Defs[h.Decl.Recv.List[0].Names[0]]] = se.X
		}
	}
	k := 0
	if h.Type.Params != nil {
		for _, fld := range h.Type.Params.List {
			for _, nm := range fld.Names {
				if k < len(call.Args) {
					m[info.Defs[nm]] = call.Args[k]
				}
				k++
			}
			if len(fld.Names) == 0 {
				k++
			}
		}
	}
	if call.Ellipsis != token.NoPos || k != len(call.Args) {
		return nil, false
	}
	ok := true
	var clone func(e ast.Expr) ast.Expr
	clone = func(e ast.Expr) ast.Expr {
		switch x := e.(type) {
		case *ast.ParenExpr:
			return &ast.ParenExpr{X: clone(x.X)}
		case *ast.UnaryExpr:
			return &ast.UnaryExpr{Op: x.Op, X: clone(x.X)}
		case *ast.BinaryExpr:
			return &ast.BinaryExpr{X: clone(x.X), Op: x.Op, Y: clone(x.Y)}
		case *ast.SelectorExpr:
			return &ast.SelectorExpr{X: clone(x.X), Sel: x.Sel}
		case *ast.BasicLit:
			return x
		case *ast.Ident:
			obj := info.Uses[x]
			if r, isParam := m[obj]; isParam {
				switch ast.Unparen(r).(type) {
				case *ast.Ident, *ast.SelectorExpr, *ast.BasicLit:
					return ast.Unparen(r)
				}
				return &ast.ParenExpr{X: r}
			}
			if h.Lit != nil && obj != nil && (obj.Pos() < h.Lit.Pos() || obj.Pos() > h.Lit.End()) {
				return x // a variable of the enclosing function, which is where the call is
			}
			switch o := obj.(type) {
			case *types.Const, *types.Nil:
				return x
			case *types.Var:
				if o.Pkg() != nil && o.Parent() == o.Pkg().Scope() {
					return x
				}
			}
			ok = false
			return x
		}
		ok = false
		return e
	}
	out := clone(cond)
	return out, ok
}

// helperAtoms lists the conditions of the if statements of h whose operands
// are immutable (at most four).
func helperAtoms(h *core.Func) []ast.Expr {
	var out []ast.Expr
	seen := map[string]bool{}
	h.OwnNodes(func(n ast.Node) bool {
		if ifs, ok := n.(*ast.IfStmt); ok && ifs.Init == nil && immutableIn(h, ifs.Cond) {
			a, _ := normCond(ifs.Cond)
			if !seen[a] && len(out) < 4 {
				seen[a] = true
				out = append(out, ifs.Cond)
			}
		}
		return true
	})
	return out
}

// summary returns the conditional effect of h on the depth (nil: h is to be
// judged as an ordinary function).
func (e *pu8Engine) summary(h *core.Func) *helperSummary {
	if s, ok := e.summ[h]; ok {
		return s
	}
	if e.busy[h] || h == e.push || h == e.pop || h.Body == nil {
		return nil
	}
	e.busy[h] = true
	defer delete(e.busy, h)
	uses := false
	h.OwnNodes(func(n ast.Node) bool {
		if len(e.effectsAt(h, n, nil)) > 0 {
			uses = true
		}
		return true
	})
	if !uses {
		e.summ[h] = &helperSummary{trivial: true}
		return e.summ[h]
	}
	if _, complete := e.c.callSitesOf(h); !complete {
		e.summ[h] = nil
		e.failed[h] = "it is exported or used as a value, so its callers are not all known"
		return nil
	}
	atoms := helperAtoms(h)
	s := &helperSummary{atoms: atoms, trivial: true}
	var names []string
	for _, a := range atoms {
		nm, p := normCond(a)
		names = append(names, nm)
		s.pos = append(s.pos, p)
	}
	g := cfg.New(h.Body, core.MayReturn(h.Info()))
	for v := 0; v < 1<<len(atoms); v++ {
		val := map[string]bool{}
		for i, nm := range names {
			val[nm] = v&(1<<i) != 0
		}
		msg, exits, low := balanceX(e.c.P, h, g, func(n ast.Node) []depthEffect { return e.effectsAt(h, n, val) }, val, true)
		if msg != "" {
			e.summ[h] = nil
			e.failed[h] = msg
			return nil
		}
		if len(exits) != 1 {
			e.summ[h] = nil
			e.failed[h] = fmt.Sprintf("its effect on the depth depends on the path taken, not only on the conditions it tests (valuation %v leaves it at relative depths %v)", val, exits)
			return nil
		}
		eff := depthEffect{d: exits[0], min: low}
		if eff.d != 0 || eff.min != 0 {
			s.trivial = false
		}
		s.effects = append(s.effects, eff)
	}
	e.summ[h] = s
	return s
}

// effectsAt lists what node n of f can do to the depth under the caller's
// valuation val (nil: any).  Empty: nothing.
func (e *pu8Engine) effectsAt(f *core.Func, n ast.Node, val map[string]bool) []depthEffect {
	call, ok := n.(*ast.CallExpr)
	if !ok {
		return nil
	}
	if _, deferred := e.c.P.Parent(call).(*ast.DeferStmt); deferred {
		return nil
	}
	h := e.calleeOf(f, call)
	switch {
	case h == nil:
		return nil
	case h == e.push:
		return []depthEffect{{1, 0}}
	case h == e.pop:
		return []depthEffect{{-1, -1}}
	case h.Pkg != f.Pkg:
		return nil
	}
	s := e.summary(h)
	if s == nil || s.trivial {
		return nil
	}
	// valuations of the helper's conditions the caller's valuation allows
	fixed := map[int]bool{}
	for i, a := range s.atoms {
		if r, ok := rewriteForCall(h, a, call); ok {
			nm, p := normCond(r)
			if v, known := val[nm]; known {
				// the helper's atom (in its own normal form) is true iff ...
				_, hp := normCond(a)
				fixed[i] = v == (p == hp)
			}
		}
	}
	var out []depthEffect
	seen := map[depthEffect]bool{}
	for v := 0; v < len(s.effects); v++ {
		okv := true
		for i, want := range fixed {
			if (v&(1<<i) != 0) != want {
				okv = false
			}
		}
		if okv && !seen[s.effects[v]] {
			seen[s.effects[v]] = true
			out = append(out, s.effects[v])
		}
	}
	return out
}

// callAtoms are the helper conditions of the calls in f, in f's terms.
func (e *pu8Engine) callAtoms(f *core.Func) []ast.Expr {
	var out []ast.Expr
	f.OwnNodes(func(n ast.Node) bool {
		call, ok := n.(*ast.CallExpr)
		if !ok {
			return true
		}
		h := e.calleeOf(f, call)
		if h == nil || h == e.push || h == e.pop || h.Pkg != f.Pkg {
			return true
		}
		if s := e.summary(h); s != nil && !s.trivial {
			for _, a := range s.atoms {
				if r, ok := rewriteForCall(h, a, call); ok && immutableIn(f, r) {
					out = append(out, r)
				}
			}
		}
		return true
	})
	return out
}

// minNet is the least net effect a call of h can have (for PU8b's
// minimum-depth analysis).
func (e *pu8Engine) minNet(h *core.Func) int {
	if e.push == nil || e.pop == nil {
		return 0
	}
	s := e.summary(h)
	if s == nil || s.trivial {
		return 0
	}
	m := 0
	for _, eff := range s.effects {
		if eff.d < m {
			m = eff.d
		}
	}
	return m
}

// atomsWith is collectAtoms with additional condition occurrences.
func atomsWith(p *core.Program, f *core.Func, extra []ast.Expr) []string {
	count := map[string]int{}
	f.OwnNodes(func(n ast.Node) bool {
		if ifs, ok := n.(*ast.IfStmt); ok && ifs.Init == nil && immutableIn(f, ifs.Cond) {
			a, _ := normCond(ifs.Cond)
			count[a]++
		}
		return true
	})
	prefer := map[string]bool{}
	for _, x := range extra {
		a, _ := normCond(x)
		count[a]++
		prefer[a] = true
	}
	var out []string
	for a, n := range count {
		if n >= 2 {
			out = append(out, a)
		}
	}
	sort.Slice(out, func(i, j int) bool {
		if prefer[out[i]] != prefer[out[j]] {
			return prefer[out[i]]
		}
		return out[i] < out[j]
	})
	if len(out) > 4 {
		out = out[:4]
	}
	sort.Strings(out)
	return out
}

// balanceX runs the depth typestate under one valuation.  In helper mode a
// pop below the entry depth and a non-zero exit depth are not faults: the
// relative exit depths and the lowest depth reached are returned instead.
func balanceX(p *core.Program, f *core.Func, g *cfg.CFG, effects func(ast.Node) []depthEffect, val map[string]bool, helper bool) (msg string, exits []int, low int) {
	return balanceObs(p, f, g, effects, val, helper, nil)
}

// balanceObs is balanceX with an observer that is told the lowest depth that
// can hold before each node (it may be told several times; the minimum counts).
func balanceObs(p *core.Program, f *core.Func, g *cfg.CFG, effects func(ast.Node) []depthEffect, val map[string]bool, helper bool, observe func(x ast.Node, low int)) (msg string, exits []int, low int) {
	const off = 8
	type set uint32
	in := map[*cfg.Block]set{}
	if len(g.Blocks) == 0 {
		return "", []int{0}, 0
	}
	in[g.Blocks[0]] = 1 << off
	work := []*cfg.Block{g.Blocks[0]}
	shift := func(s set, d int) set {
		if d > 0 {
			return s << uint(d)
		}
		return s >> uint(-d)
	}
	lowest := func(s set) int {
		for i := 0; i < 32; i++ {
			if s&(1<<uint(i)) != 0 {
				return i - off
			}
		}
		return 0
	}
	var exitSet set
	for len(work) > 0 && msg == "" {
		b := work[0]
		work = work[1:]
		st := in[b]
		for _, n := range b.Nodes {
			ast.Inspect(n, func(x ast.Node) bool {
				if _, isLit := x.(*ast.FuncLit); isLit {
					return false
				}
				if x == nil {
					return true
				}
				if observe != nil {
					observe(x, lowest(st))
				}
				effs := effects(x)
				if len(effs) == 0 {
					return true
				}
				var nw set
				for _, ef := range effs {
					if ef.min < 0 {
						if l := lowest(st) + ef.min; l < 0 {
							if !helper && msg == "" {
								msg = fmt.Sprintf("at %s a here-document frame is popped on a path where this function has not pushed one (valuation %v): another construct's pending bodies are flushed at the wrong place", p.PosString(x.Pos()), val)
							}
							if l < low {
								low = l
							}
						}
					}
					nw |= shift(st, ef.d)
				}
				st = nw
				if st>>(off+8) != 0 || st == 0 || (helper && st&((1<<(off-4))-1) != 0) {
					if msg == "" {
						msg = fmt.Sprintf("the pending-here-document depth grows without bound around %s (valuation %v)", p.PosString(x.Pos()), val)
					}
				}
				return true
			})
		}
		if len(b.Succs) == 0 {
			if !b.Live || endsInPanic(b) || returnsError(f.Info(), b) {
				continue
			}
			if helper {
				exitSet |= st
			} else if st != 0 && st != 1<<off && msg == "" {
				pos := f.Pos()
				if len(b.Nodes) > 0 {
					pos = b.Nodes[len(b.Nodes)-1].Pos()
				}
				msg = fmt.Sprintf("at the exit %s the function has pushed and popped a different number of here-document frames (valuation %v): pending bodies are lost or flushed twice", p.PosString(pos), val)
			}
			continue
		}
		succs := b.Succs
		if len(b.Succs) == 2 && len(b.Nodes) > 0 && b.Succs[0].Kind == cfg.KindIfThen {
			if cond, ok := b.Nodes[len(b.Nodes)-1].(ast.Expr); ok {
				a, pos := normCond(cond)
				if v, known := val[a]; known {
					if v == pos {
						succs = b.Succs[:1]
					} else {
						succs = b.Succs[1:]
					}
				}
			}
		}
		for _, s := range succs {
			nw := in[s] | st
			if nw != in[s] {
				in[s] = nw
				work = append(work, s)
			}
		}
	}
	for i := 0; i < 32; i++ {
		if exitSet&(1<<uint(i)) != 0 {
			exits = append(exits, i-off)
		}
	}
	return msg, exits, low
}

// describe renders a summary for the evidence.
func (s *helperSummary) describe() string {
	var parts []string
	for v, ef := range s.effects {
		var conds []string
		for i, a := range s.atoms {
			nm, _ := normCond(a)
			if v&(1<<i) != 0 {
				conds = append(conds, nm)
			} else {
				conds = append(conds, "!("+nm+")")
			}
		}
		parts = append(parts, fmt.Sprintf("%s: %+d", strings.Join(conds, " && "), ef.d))
	}
	return strings.Join(parts, "; ")
}

// recheck recomputes every summary with the final summaries of the callees:
// a summary computed while a caller further up the recursion was still being
// summarised (and so counted as having no effect) must come out the same.
func (e *pu8Engine) recheck() []*core.Func {
	var funcs []*core.Func
	for h := range e.summ {
		funcs = append(funcs, h)
	}
	sort.Slice(funcs, func(i, j int) bool { return funcs[i].Name < funcs[j].Name })
	var bad []*core.Func
	for _, h := range funcs {
		old := e.summ[h]
		delete(e.summ, h)
		oldFail := e.failed[h]
		nw := e.summary(h)
		same := (old == nil) == (nw == nil)
		if same && old != nil {
			same = old.trivial == nw.trivial && len(old.effects) == len(nw.effects)
			for i := range old.effects {
				if same && old.effects[i] != nw.effects[i] {
					same = false
				}
			}
		}
		if !same {
			bad = append(bad, h)
		}
		e.summ[h] = old
		if oldFail != "" {
			e.failed[h] = oldFail
		}
	}
	return bad
}

// sitesOf visits the calls and index expressions of f with the lowest depth
// (relative to f's entry, plus off) that can hold before each, under every
// valuation of f's conditions that agrees with fixed.  A call of a conditional
// helper is not visited as a call: the helper's own sites are visited in its
// place, under the valuations of its conditions that the caller's valuation
// allows, so that what a helper needs is judged where its frame was opened.
func (e *pu8Engine) sitesOf(f *core.Func, off int, fixed map[string]bool, depth int, visit func(g *core.Func, x ast.Node, low int)) (overall int) {
	var atoms []string
	if depth == 0 {
		atoms = atomsWith(e.c.P, f, e.callAtoms(f))
	} else {
		seen := map[string]bool{}
		for _, a := range helperAtoms(f) {
			nm, _ := normCond(a)
			if !seen[nm] {
				seen[nm] = true
				atoms = append(atoms, nm)
			}
		}
		for _, nm := range atomsWith(e.c.P, f, e.callAtoms(f)) {
			if !seen[nm] && len(atoms) < 6 {
				seen[nm] = true
				atoms = append(atoms, nm)
			}
		}
	}
	g := cfg.New(f.Body, core.MayReturn(f.Info()))
	for v := 0; v < 1<<len(atoms); v++ {
		val := map[string]bool{}
		ok := true
		for i, a := range atoms {
			val[a] = v&(1<<i) != 0
			if want, has := fixed[a]; has && want != val[a] {
				ok = false
			}
		}
		if !ok {
			continue
		}
		balanceObs(e.c.P, f, g, func(n ast.Node) []depthEffect { return e.effectsAt(f, n, val) }, val, true, func(x ast.Node, low int) {
			if off+low < overall {
				overall = off + low
			}
			switch y := x.(type) {
			case *ast.IndexExpr:
				visit(f, x, off+low)
			case *ast.CallExpr:
				if _, deferred := e.c.P.Parent(y).(*ast.DeferStmt); deferred {
					return
				}
				h := e.calleeOf(f, y)
				if h != nil && h != e.push && h != e.pop && h.Pkg == f.Pkg && depth < 3 {
					if s := e.summary(h); s != nil && !s.trivial {
						hfixed := map[string]bool{}
						for _, a := range s.atoms {
							if r, rok := rewriteForCall(h, a, y); rok {
								nm, p := normCond(r)
								if cv, known := val[nm]; known {
									hn, hp := normCond(a)
									hfixed[hn] = cv == (p == hp)
								}
							}
						}
						if o := e.sitesOf(h, off+low, hfixed, depth+1, visit); o < overall {
							overall = o
						}
						return
					}
				}
				visit(f, x, off+low)
			}
		})
	}
	return overall
}
